use std::collections::{BTreeMap, HashSet};
use std::fs::File;
use std::hash::{Hash, Hasher};
use std::io::{BufWriter, Write};
use std::panic::{catch_unwind, AssertUnwindSafe};

/// splitmix64: every random choice of a run derives from one state seeded by VERIF_SEED
pub struct Rng(pub u64);

impl Rng {
    pub fn new(seed: u64) -> Self {
        Rng(seed ^ 0x9E37_79B9_7F4A_7C15)
    }
    pub fn next(&mut self) -> u64 {
        self.0 = self.0.wrapping_add(0x9E37_79B9_7F4A_7C15);
        let mut z = self.0;
        z = (z ^ (z >> 30)).wrapping_mul(0xBF58_476D_1CE4_E5B9);
        z = (z ^ (z >> 27)).wrapping_mul(0x94D0_49BB_1331_11EB);
        z ^ (z >> 31)
    }
    pub fn below(&mut self, n: u64) -> u64 {
        if n == 0 {
            0
        } else {
            self.next() % n
        }
    }
    pub fn chance(&mut self, num: u64, den: u64) -> bool {
        self.below(den) < num
    }
    pub fn pick<'a, T>(&mut self, xs: &'a [T]) -> &'a T {
        &xs[self.below(xs.len() as u64) as usize]
    }
    /// sparse / dense / structured 64-bit words
    pub fn word(&mut self) -> u64 {
        match self.below(6) {
            0 => self.next(),
            1 => self.next() & self.next(),
            2 => self.next() & self.next() & self.next(),
            3 => self.next() | self.next(),
            4 => 1u64 << self.below(64),
            _ => (1u64 << self.below(64)) | (1u64 << self.below(64)) | (1u64 << self.below(64)),
        }
    }
}

pub struct Out {
    req: BufWriter<File>,
    imp: BufWriter<File>,
    dir: String,
    pub seed: u64,
    pub rng: Rng,
    n: u64,
    nontrivial_distinct: HashSet<u64>,
    kinds: BTreeMap<String, u64>,
    traps: u64,
    samples: BTreeMap<String, Vec<(String, String)>>,
    pub notes: BTreeMap<String, String>,
    pub exhaustive: bool,
    pending: bool,
}

impl Out {
    pub fn new(dir: &str, seed: u64) -> Self {
        std::fs::create_dir_all(dir).unwrap();
        Out {
            req: BufWriter::new(File::create(format!("{dir}/req.txt")).unwrap()),
            imp: BufWriter::new(File::create(format!("{dir}/impl.txt")).unwrap()),
            dir: dir.to_string(),
            seed,
            rng: Rng::new(seed),
            n: 0,
            nontrivial_distinct: HashSet::new(),
            kinds: BTreeMap::new(),
            traps: 0,
            samples: BTreeMap::new(),
            notes: BTreeMap::new(),
            exhaustive: false,
            pending: false,
        }
    }

    /// one case: `kind` names the generator branch (histogram in the evidence), `nontrivial` is the
    /// stream's own rule, `f` calls the implementation; a panic becomes the answer `trap panic`.
    pub fn case(&mut self, kind: &str, nontrivial: bool, req: String, f: impl FnOnce() -> String) {
        // the request is on disk before the implementation runs: if the process dies inside `f`
        // (an abort cannot be caught), `check` finds one request more than answers and knows the input
        writeln!(self.req, "{req}").unwrap();
        self.req.flush().unwrap();
        self.imp.flush().unwrap();
        self.pending = true;
        let ans = match catch_unwind(AssertUnwindSafe(f)) {
            Ok(s) => s,
            Err(e) => {
                self.traps += 1;
                let msg = if let Some(s) = e.downcast_ref::<&str>() {
                    s.to_string()
                } else if let Some(s) = e.downcast_ref::<String>() {
                    s.clone()
                } else {
                    String::new()
                };
                let short: String = msg.chars().filter(|c| !c.is_control()).take(80).collect();
                format!("trap panic: {short}")
            }
        };
        self.record(kind, nontrivial, req, ans);
    }

    pub fn record(&mut self, kind: &str, nontrivial: bool, req: String, ans: String) {
        debug_assert!(!req.contains('\n') && !ans.contains('\n'));
        if !self.pending {
            writeln!(self.req, "{req}").unwrap();
        }
        self.pending = false;
        writeln!(self.imp, "{ans}").unwrap();
        self.n += 1;
        *self.kinds.entry(kind.to_string()).or_insert(0) += 1;
        if nontrivial {
            let mut h = std::collections::hash_map::DefaultHasher::new();
            req.hash(&mut h);
            self.nontrivial_distinct.insert(h.finish());
        }
        let s = self.samples.entry(kind.to_string()).or_default();
        if s.len() < 2 {
            s.push((req, ans));
        }
    }

    pub fn finish(mut self) {
        self.req.flush().unwrap();
        self.imp.flush().unwrap();
        let esc = |s: &str| s.replace('\\', "\\\\").replace('"', "\\\"");
        let mut j = String::new();
        j.push_str("{\n");
        j.push_str(&format!(" \"seed\": {},\n \"evaluations\": {},\n \"distinct_nontrivial\": {},\n \"traps\": {},\n \"exhaustive\": {},\n",
            self.seed, self.n, self.nontrivial_distinct.len(), self.traps, self.exhaustive));
        j.push_str(" \"kinds\": {");
        j.push_str(&self.kinds.iter().map(|(k, v)| format!("\"{}\": {}", esc(k), v)).collect::<Vec<_>>().join(", "));
        j.push_str("},\n \"notes\": {");
        j.push_str(&self.notes.iter().map(|(k, v)| format!("\"{}\": \"{}\"", esc(k), esc(v))).collect::<Vec<_>>().join(", "));
        j.push_str("},\n \"samples\": [");
        let mut first = true;
        for (k, v) in &self.samples {
            for (r, a) in v {
                if !first {
                    j.push_str(", ");
                }
                first = false;
                let r: String = r.chars().take(300).collect();
                let a: String = a.chars().take(300).collect();
                j.push_str(&format!("{{\"kind\": \"{}\", \"request\": \"{}\", \"impl\": \"{}\"}}", esc(k), esc(&r), esc(&a)));
            }
        }
        j.push_str("]\n}\n");
        std::fs::write(format!("{}/stats.json", self.dir), j).unwrap();
    }
}

pub fn hex(x: u64) -> String {
    format!("{x:x}")
}

pub fn hexbytes(b: &[u8]) -> String {
    if b.is_empty() {
        "-".to_string()
    } else {
        b.iter().map(|x| format!("{x:02x}")).collect()
    }
}

pub fn b2s(b: bool) -> &'static str {
    if b {
        "true"
    } else {
        "false"
    }
}

/// run a piece of generator code that calls the implementation; a panic yields `None`
pub fn guard<T>(f: impl FnOnce() -> T) -> Option<T> {
    catch_unwind(AssertUnwindSafe(f)).ok()
}

static CTX_PATH: std::sync::OnceLock<String> = std::sync::OnceLock::new();

pub fn set_ctx_dir(dir: &str) {
    let _ = CTX_PATH.set(format!("{dir}/ctx.txt"));
}

/// note the request the generator is about to work on, so that a process abort inside generator
/// code (outside any `case`) still leaves a concrete input behind
pub fn ctx(req: &str) {
    if let Some(p) = CTX_PATH.get() {
        let _ = std::fs::write(p, req);
    }
}
