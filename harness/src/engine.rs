//! Streams for the search and plugin properties C11, C12, C13, C15.
use crate::common::{Out, Rng};
use crate::position::*;
use crate::small::show_score;
use chess_engine::{Engine, Score, ThreeFold, Timeout};
use chess_movegen::{Board, ChessMove};
use std::cell::Cell;

/// the `Timeout` trait as a poll counter: poll number `i` (0-based) answers `i >= k`
pub struct CountingTimeout {
    pub k: u64,
    pub polls: Cell<u64>,
}

impl Timeout for CountingTimeout {
    fn is_complete(&self) -> bool {
        let i = self.polls.get();
        self.polls.set(i + 1);
        i >= self.k
    }
}

pub struct SearchOut {
    pub mv: Option<ChessMove>,
    pub score: Score,
    pub max_depth: u16,
    pub evals: u64,
    pub polls: u64,
}

pub fn run_search(b: &Board, hist: &[Board], k: u64) -> SearchOut {
    run_search_cfg(b, hist, k, false)
}

pub fn run_search_cfg(b: &Board, hist: &[Board], k: u64, positional: bool) -> SearchOut {
    let mut tf = ThreeFold::new();
    for h in hist {
        tf.add(*h);
    }
    let mut e = Engine { positional, ..Engine::default() };
    e.max_depth = u16::MAX; // sentinel: overwritten by the first completed pass
    let t = CountingTimeout { k, polls: Cell::new(0) };
    let (mv, score) = e.search(b, &tf, &t);
    SearchOut { mv, score, max_depth: e.max_depth, evals: e.moves_evaluated, polls: t.polls.get() }
}

fn show_out(o: &SearchOut) -> String {
    format!(
        "{} {} depth={} evals={} polls={}",
        match o.mv {
            Some(m) => mv_str(m),
            None => "none".into(),
        },
        show_score(o.score),
        o.max_depth,
        o.evals,
        o.polls
    )
}

fn ks(rng: &mut Rng, cap: u64) -> Vec<u64> {
    let mut v: Vec<u64> = (0..=6).collect();
    let mut k = 8u64;
    while k <= cap {
        v.push(k + rng.below(k / 2 + 1));
        k = k * 2;
    }
    v
}

/// roots with a mate in one (and the same generator also yields plenty without one)
pub fn mating_positions(rng: &mut Rng, n: usize, out: &mut Vec<Tagged>) {
    let mut tries = 0;
    let mut made = 0;
    while made < n && tries < n * 300 {
        tries += 1;
        let white = rng.chance(1, 2);
        let mut sq = [b'.'; 64];
        let up = |c: u8| if white { c.to_ascii_uppercase() } else { c };
        let dn = |c: u8| if white { c } else { c.to_ascii_uppercase() };
        // defending king on the edge or in a corner, sometimes boxed in by its own men
        let edge: Vec<usize> = (0..64).filter(|i| i % 8 == 0 || i % 8 == 7 || i / 8 == 0 || i / 8 == 7).collect();
        let dk = edge[rng.below(edge.len() as u64) as usize];
        sq[dk] = dn(b'k');
        for _ in 0..rng.below(4) {
            let df = rng.below(3) as i32 - 1;
            let dr = rng.below(3) as i32 - 1;
            let (f, r) = ((dk % 8) as i32 + df, (dk / 8) as i32 + dr);
            if (0..8).contains(&f) && (0..8).contains(&r) {
                let s = (r * 8 + f) as usize;
                if sq[s] == b'.' {
                    sq[s] = dn(*rng.pick(&b"pppnbr"[..]));
                }
            }
        }
        // attackers: heavy pieces, sometimes a pawn about to promote or an e.p. / castling setup
        for _ in 0..(1 + rng.below(4)) {
            let s = rng.below(64) as usize;
            if sq[s] == b'.' {
                sq[s] = up(*rng.pick(&b"qqrrbnp"[..]));
            }
        }
        loop {
            let s = rng.below(64) as usize;
            if sq[s] == b'.' {
                sq[s] = up(b'k');
                break;
            }
        }
        if let Ok(b) = chess_movegen::fen::parse_fen(fen_of(&sq, white, 0, None, rng.below(20) as u32, 1).as_bytes()) {
            let mates = b.legals().filter(|&m| b.move_new(m).map(|nb| nb.state() == chess_movegen::GameState::CheckMate).unwrap_or(false)).count();
            let tag = match mates {
                0 => "mating-net-no-mate",
                1 => "mating-net-one-mate",
                _ => "mating-net-several-mates",
            };
            if mates == 0 && rng.chance(2, 3) {
                continue;
            }
            out.push(Tagged { board: b, tag });
            made += 1;
        }
    }
}

/// mate-in-one positions built backwards: a checkmated position with little material (minor pieces
/// included), then the mating move retracted - as a capture of any kind of man, or quietly with the
/// half-move clock anywhere up to 99
pub fn retro_mates(rng: &mut Rng, n: usize, out: &mut Vec<Tagged>) {
    let mut tries = 0;
    let mut made = 0;
    while made < n && tries < n * 20000 {
        tries += 1;
        let white = rng.chance(1, 2); // the mating side
        let up = |c: u8| if white { c.to_ascii_uppercase() } else { c };
        let dn = |c: u8| if white { c } else { c.to_ascii_uppercase() };
        let mut sq = [b'.'; 64];
        let edge: Vec<usize> = (0..64).filter(|i| i % 8 == 0 || i % 8 == 7 || i / 8 == 0 || i / 8 == 7).collect();
        // bare-king mates by minor pieces alone exist only in the corners: half of the attempts go there
        let minimal = rng.chance(1, 2);
        let dk = if minimal { *rng.pick(&[0usize, 7, 56, 63]) } else { edge[rng.below(edge.len() as u64) as usize] };
        sq[dk] = dn(b'k');
        let near = |rng: &mut Rng, d: i32| -> Option<usize> {
            let f = (dk % 8) as i32 + rng.below((2 * d + 1) as u64) as i32 - d;
            let r = (dk / 8) as i32 + rng.below((2 * d + 1) as u64) as i32 - d;
            if (0..8).contains(&f) && (0..8).contains(&r) { Some((r * 8 + f) as usize) } else { None }
        };
        if let Some(s) = near(rng, 2) {
            if sq[s] == b'.' {
                sq[s] = up(b'k');
            }
        }
        if !sq.contains(&up(b'k')) {
            continue;
        }
        let set = if minimal { *rng.pick(&[&b"nn"[..], b"bn", b"bb", b"nnb", b"nnn"]) } else { *rng.pick(&[&b"nn"[..], b"bn", b"bb", b"n", b"b", b"nnb", b"r", b"q", b"rn", b"nnp", b"bp"]) };
        for &c in set {
            if let Some(s) = near(rng, 3) {
                if sq[s] == b'.' {
                    sq[s] = up(c);
                }
            }
        }
        for _ in 0..(if minimal { 0 } else { rng.below(3) }) {
            if let Some(s) = near(rng, 1) {
                if sq[s] == b'.' {
                    sq[s] = dn(*rng.pick(&b"pnb"[..]));
                }
            }
        }
        let Ok(m) = chess_movegen::fen::parse_fen(fen_of(&sq, !white, 0, None, 0, 1).as_bytes()) else { continue };
        if m.state() != chess_movegen::GameState::CheckMate {
            continue;
        }
        // retract the mating move: a man of the mating side goes back from `t` to an empty `s`,
        // optionally putting a captured man back on `t`
        let movers: Vec<usize> = (0..64).filter(|&i| sq[i] != b'.' && (sq[i].is_ascii_uppercase() == white)).collect();
        let t = *rng.pick(&movers);
        let captured: Option<u8> = if rng.chance(2, 3) { Some(dn(*rng.pick(&b"qrbnp"[..]))) } else { None };
        let empties: Vec<usize> = (0..64).filter(|&i| sq[i] == b'.').collect();
        let mut found = false;
        for _ in 0..12 {
            let s0 = *rng.pick(&empties);
            let mut pre = sq;
            pre[s0] = sq[t];
            pre[t] = captured.unwrap_or(b'.');
            let half = *rng.pick(&[0u32, 7, 98, 99]);
            let Ok(b) = chess_movegen::fen::parse_fen(fen_of(&pre, white, 0, None, half, 1).as_bytes()) else { continue };
            let hit = b.legals().any(|mv| mv.source.to_u8() as usize == s0 && mv.dest.to_u8() as usize == t && b.move_new(mv).map(|nb| view(&nb).squares == sq).unwrap_or(false));
            if hit {
                out.push(Tagged { board: b, tag: if captured.is_some() { "retro-capture-mate" } else { "retro-quiet-mate" } });
                made += 1;
                found = true;
                break;
            }
        }
        let _ = found;
    }
}

fn search_cases(out: &mut Out, t: &Tagged, hist: &[Board], kvals: &[u64]) {
    search_cases_cfg(out, t, hist, kvals, false)
}

/// `positional`: the search runs as `Engine { positional: true, .. }` and the model is asked with `pos=1`
fn search_cases_cfg(out: &mut Out, t: &Tagged, hist: &[Board], kvals: &[u64], positional: bool) {
    let cfg = if positional { " pos=1" } else { "" };
    let b = t.board;
    let v = view(&b);
    let p = pos64(&v);
    let h = if hist.is_empty() { "-".to_string() } else { hist.iter().map(|x| pos64(&view(x))).collect::<Vec<_>>().join(",") };
    for &k in kvals {
        let mut res: Option<(String, String)> = None;
        out.case(t.tag, true, format!("search {p} hist={h} k={k} prev=65535{cfg}"), || {
            let mut o = run_search_cfg(&b, hist, k, positional);
            // callers outside the crate (the plugin, the referee) see the result through the stable-interface value
            // `EvaluatedMove`: encode and decode it the way they do before judging it
            let em = chess_api::EvaluatedMove::new(o.mv, o.score);
            o.mv = em.chess_move();
            o.score = em.score();
            // the first deepening pass finished before the limit if a completed pass was recorded, or if the
            // timeout never reported expiry at all (then every pass the search ran was complete)
            let first_pass = o.max_depth != u16::MAX || o.polls <= k;
            res = Some((
                format!("{},{},{}", match o.mv { Some(m) => mv_str(m), None => "none".into() }, show_score(o.score), first_pass),
                show_out(&o),
            ));
            show_out(&o)
        });
        // the specification's verdict on what the search returned (legal move / none / mate in one)
        if let Some((r, _)) = res {
            // the notion "first pass finished" the theorems are stated with, evaluated by the model
            out.record("first-pass", true, format!("searchfp {p} hist={h} k={k}{cfg}"), r.rsplit(',').next().unwrap().to_string());
            out.record("oracle", true, format!("searchchk {p} k={k} res={r}"), "ok".into());
        } else {
            out.record("oracle", true, format!("searchchk {p} k={k} res=none,Min,false"), "search-panicked".into());
        }
    }
}

pub fn c11(out: &mut Out, thorough: bool) {
    let mut rng = Rng::new(out.seed ^ 0xC11);
    let mut ps: Vec<Tagged> = Vec::new();
    for f in load_corpus() {
        if let Ok(b) = chess_movegen::fen::parse_fen(f.as_bytes()) {
            ps.push(Tagged { board: b, tag: "corpus" });
        }
    }
    let extra = positions(&mut rng, if thorough { 1500 } else { 160 });
    // (the fixed corpus lines come first in `positions`; a quarter of them is enough here, the search is costly)
    let mut nline = 0;
    ps.extend(extra.into_iter().skip(60).filter(|t| {
        if t.tag == "corpus-line" {
            nline += 1;
            nline % 4 == 0
        } else {
            true
        }
    }));
    mating_positions(&mut rng, if thorough { 300 } else { 40 }, &mut ps);
    // roots with exactly one or two legal moves (forced replies): the bookkeeping of the previous best
    // move across deepening passes has no other move to fall back on
    {
        let mut pool: Vec<Tagged> = Vec::new();
        mating_positions(&mut rng, if thorough { 600 } else { 120 }, &mut pool);
        retro_mates(&mut rng, if thorough { 300 } else { 60 }, &mut pool);
        let want = if thorough { 400 } else { 50 };
        let mut got = 0;
        'outer: for t in pool.iter() {
            for m in t.board.legals().collect::<Vec<_>>() {
                if let Some(nb) = t.board.move_new(m) {
                    let n = nb.legals().count();
                    if n == 1 || (n == 2 && rng.chance(1, 3)) {
                        ps.push(Tagged { board: nb, tag: if n == 1 { "one-legal-move" } else { "two-legal-moves" } });
                        got += 1;
                        if got >= want {
                            break 'outer;
                        }
                        break;
                    }
                }
            }
        }
    }
    let cap = if thorough { 20_000 } else { 1_500 };
    for (i, t) in ps.iter().enumerate() {
        // small positions can afford deeper passes
        let men = view(&t.board).squares.iter().filter(|&&c| c != b'.').count();
        let cap = if men <= 6 { cap * 2 } else { cap };
        let kvals = ks(&mut rng, cap);
        // occasionally with a repetition history taken from a playout that ends in this position
        let mut hist: Vec<Board> = Vec::new();
        if i % 5 == 0 {
            let mut tmp = Vec::new();
            playout(&mut rng, t.board, 6, "hist", &mut tmp);
            hist = tmp.iter().map(|x| x.board).collect();
            hist.push(t.board);
            if rng.chance(1, 2) {
                hist.push(t.board);
            }
        }
        search_cases(out, t, &hist, &kvals);
    }
    positional_no_trap(out, &mut rng, thorough);
}


/// one-off corpus builder (run on the tree the corpus is committed for, not during a check):
/// `harness gen-epreply <n> <seed> <outfile>` searches for positions in which a double pawn step gives check
/// and the ONLY legal replies are en-passant captures of that pawn, and which hold no mate in one; the positions
/// (before the push, both colours) are written as FEN.  During a check they are read from the corpus file, so
/// the stream does not depend on what the implementation under test generates.
pub fn gen_ep_only_reply(n: usize, seed: u64, path: &str) {
    use chess_movegen::GameState;
    let mut rng = Rng::new(seed ^ 0xE9);
    let mut found: Vec<String> = Vec::new();
    let mut after: Vec<String> = Vec::new();
    let mut tries = 0u64;
    while found.len() < n && tries < 400_000_000 {
        tries += 1;
        let mut sq = [b'.'; 64];
        let kf = rng.below(8) as i32;
        let pf = kf + if rng.chance(1, 2) { 1 } else { -1 };
        if !(0..8).contains(&pf) {
            continue;
        }
        let qf = pf + if rng.chance(1, 2) { 1 } else { -1 };
        if !(0..8).contains(&qf) || (qf == kf) {
            // the capturing pawn stands beside the landing square, not under its own king
        }
        if !(0..8).contains(&qf) {
            continue;
        }
        let at = |f: i32, r: i32| (r * 8 + f) as usize;
        sq[at(kf, 4)] = b'k';
        sq[at(pf, 1)] = b'P';
        if sq[at(qf, 3)] != b'.' {
            continue;
        }
        sq[at(qf, 3)] = b'p';
        // white king and two to five more white men, up to two more black men
        let mut place = |sq: &mut [u8; 64], rng: &mut Rng, c: u8| {
            for _ in 0..20 {
                let i = rng.below(64) as usize;
                if sq[i] == b'.' && i != at(pf, 2) && i != at(pf, 3) && !((c == b'P' || c == b'p') && (i / 8 == 0 || i / 8 == 7)) {
                    sq[i] = c;
                    return;
                }
            }
        };
        place(&mut sq, &mut rng, b'K');
        for _ in 0..(2 + rng.below(4)) {
            let c = *rng.pick(&b"QRRBBNNPP"[..]);
            place(&mut sq, &mut rng, c);
        }
        for _ in 0..rng.below(3) {
            let c = *rng.pick(&b"ppnb"[..]);
            place(&mut sq, &mut rng, c);
        }
        let fen = fen_of(&sq, true, 0, None, rng.below(40) as u32, 1 + rng.below(60) as u32);
        let Ok(b) = chess_movegen::fen::parse_fen(fen.as_bytes()) else { continue };
        let push = b.legals().find(|m| m.source.to_u8() as usize == at(pf, 1) && m.dest.to_u8() as usize == at(pf, 3));
        let Some(push) = push else { continue };
        let Some(nb) = b.move_new(push) else { continue };
        if !nb.in_check() {
            continue;
        }
        let replies: Vec<ChessMove> = nb.legals().collect();
        if replies.is_empty() {
            continue;
        }
        let all_ep = replies.iter().all(|m| m.dest.to_u8() as usize == at(pf, 2) && nb.raw().get(m.source).map(|x| x.1) == Some(chess_bitboard::Piece::Pawn) && nb.raw().get(m.dest).is_none());
        if !all_ep {
            continue;
        }
        let has_mate = b.legals().any(|m| b.move_new(m).map(|x| x.state() == GameState::CheckMate).unwrap_or(false));
        if has_mate {
            continue;
        }
        found.push(fen.clone());
        after.push(fen_of_view(&view(&nb)));
        if let Some(mb) = mirror_view(&view(&b)) {
            found.push(fen_of_view(&view(&mb)));
        }
        if let Some(mb) = mirror_view(&view(&nb)) {
            after.push(fen_of_view(&view(&mb)));
        }
    }
    let mut text = String::from("# positions in which a double pawn step gives check and the only legal replies are en-passant captures of that pawn;\n# no mate in one exists (found by `harness gen-epreply`, see harness/src/engine.rs)\n");
    for f in &found {
        text.push_str(f);
        text.push('\n');
    }
    std::fs::write(path, text).unwrap();
    std::fs::write(format!("{path}.after"), after.join("\n") + "\n").unwrap();
    eprintln!("{} positions after {} tries", found.len(), tries);
}

/// one-off corpus builder (run on the tree the corpus is committed for, not during a check):
/// `harness gen-lines <per-class> <seed> <outfile>` searches random sparse positions for two-move lines that end in one
/// of the rare situations below and writes them as `FEN ; m1 m2`.  During a check the lines are replayed from the file
/// (`positions()`), so every position stream meets them whatever the implementation under test believes.
pub fn gen_lines(per_class: usize, seed: u64, path: &str) {
    use chess_bitboard::Piece;
    let mut rng = Rng::new(seed ^ 0x11E5);
    let names = ["king-takes-home-rook-with-right", "double-check-and-pin", "castling-gives-check", "en-passant-gives-check",
        "promotion-double-check", "knight-promotion-check", "three-pins", "en-passant-while-in-check", "capture-of-home-rook-by-piece"];
    let mut found: Vec<Vec<String>> = vec![Vec::new(); names.len()];
    let mut tries = 0u64;
    while found.iter().any(|v| v.len() < per_class) && tries < 3_000_000 {
        tries += 1;
        let mut sq = [b'.'; 64];
        let mut rights = 0u8;
        // kings: at home with rooks and rights quite often
        let (mut wk, mut bk) = (rng.below(64) as usize, rng.below(64) as usize);
        if rng.chance(1, 2) {
            bk = 60;
            if rng.chance(2, 3) {
                sq[56] = b'r';
                rights |= 8;
            }
            if rng.chance(2, 3) {
                sq[63] = b'r';
                rights |= 4;
            }
        }
        if rng.chance(1, 2) {
            wk = 4;
            if rng.chance(2, 3) {
                sq[0] = b'R';
                rights |= 2;
            }
            if rng.chance(2, 3) {
                sq[7] = b'R';
                rights |= 1;
            }
        }
        if wk == bk || sq[wk] != b'.' || sq[bk] != b'.' {
            continue;
        }
        sq[wk] = b'K';
        sq[bk] = b'k';
        for _ in 0..(2 + rng.below(9)) {
            let c = *rng.pick(&b"QRRBBNNPPPqrrbbnnppp"[..]);
            let i = rng.below(64) as usize;
            if sq[i] == b'.' && !((c == b'P' || c == b'p') && (i / 8 == 0 || i / 8 == 7)) {
                sq[i] = c;
            }
        }
        let white = rng.chance(1, 2);
        let fen = fen_of(&sq, white, rights, None, rng.below(30) as u32, 1 + rng.below(40) as u32);
        let Ok(b) = chess_movegen::fen::parse_fen(fen.as_bytes()) else { continue };
        for m1 in b.legals() {
            let Some(b1) = b.move_new(m1) else { continue };
            for m2 in b1.legals() {
                let Some(b2) = b1.move_new(m2) else { continue };
                let v1 = view(&b1);
                let v2 = view(&b2);
                let mover = b1.raw().get(m2.source).map(|x| x.1);
                let victim = b1.raw().get(m2.dest).map(|x| x.1);
                let quiet = victim.is_none();
                let (sf, df) = (m2.source.to_u8() % 8, m2.dest.to_u8() % 8);
                let is_ep = mover == Some(Piece::Pawn) && quiet && sf != df;
                let is_castle = mover == Some(Piece::King) && (sf as i32 - df as i32).abs() == 2;
                let corner = [0u8, 7, 56, 63].contains(&m2.dest.to_u8());
                let right_bit = match m2.dest.to_u8() { 0 => 2u8, 7 => 1, 56 => 8, _ => 4 };
                let held = corner && v1.rights & right_bit != 0 && victim == Some(Piece::Rook);
                let nchk = (v2.checkers | (v2.checkers & v2.pinned)).count_ones();
                let class = if held && mover == Some(Piece::King) {
                    Some(0)
                } else if nchk == 2 && v2.pinned != 0 && m2.piece.is_none() {
                    Some(1)
                } else if is_castle && b2.in_check() {
                    Some(2)
                } else if is_ep && b1.in_check() {
                    Some(7)
                } else if is_ep && b2.in_check() {
                    Some(3)
                } else if m2.piece.is_some() && nchk == 2 {
                    Some(4)
                } else if m2.piece == Some(chess_bitboard::PromotionPiece::Knight) && b2.in_check() {
                    Some(5)
                } else if v2.pinned.count_ones() >= 3 {
                    Some(6)
                } else if held {
                    Some(8)
                } else {
                    None
                };
                if let Some(c) = class {
                    if found[c].len() < per_class && !found[c].iter().any(|l| l.starts_with(&fen)) {
                        found[c].push(format!("{fen} ; {} {}", mv_str(m1), mv_str(m2)));
                    }
                }
            }
        }
    }
    let mut text = String::from("# two-move lines from sparse positions that end in a rare situation (found by `harness gen-lines`, see harness/src/engine.rs);\n# format: FEN ; move move\n");
    for (i, v) in found.iter().enumerate() {
        text.push_str(&format!("# {} ({})\n", names[i], v.len()));
        for l in v {
            text.push_str(l);
            text.push('\n');
        }
    }
    std::fs::write(path, text).unwrap();
    eprintln!("{:?} after {tries} tries", found.iter().map(|v| v.len()).collect::<Vec<_>>());
}

/// one-off corpus builder: `harness gen-materoots <per-class> <seed> <outfile>` searches sparse positions for roots with a
/// mate in one of a rare kind (by the rules as the clean tree implements them); the roots are written as FEN with the
/// class as a comment and are searched on every run of C12 (and C11/C13 sample them)
pub fn gen_mate_roots(per_class: usize, seed: u64, path: &str) {
    use chess_bitboard::{Piece, PromotionPiece};
    use chess_movegen::GameState;
    let names = ["pinned-pawn-takes-its-pinner-and-promotes", "knight-promotion-only", "en-passant-mate", "castling-mate",
        "push-promotion-mate-with-capture-promotion-and-other-captures-on-offer", "discovered-mate", "double-check-mate", "rook-or-bishop-promotion-only",
        "quiet-mate-with-mating-recapture-threat-on-the-first-capture"];
    let mut found: Vec<Vec<String>> = vec![Vec::new(); names.len()];
    let mut rng = Rng::new(seed ^ 0x3A7E);
    let mut tries = 0u64;
    while found.iter().any(|v| v.len() < per_class) && tries < 40_000_000 {
        tries += 1;
        let mut sq = [b'.'; 64];
        let mut rights = 0u8;
        let white = rng.chance(1, 2);
        let (own, opp) = if white { (b"QRRBBNNPPP".as_ref(), b"qrbnppp".as_ref()) } else { (b"qrrbbnnppp".as_ref(), b"QRBNPPP".as_ref()) };
        // the king to be mated: on an edge most of the time
        let ek = if rng.chance(3, 4) { let e = rng.below(28); (if e < 8 { e } else if e < 16 { 56 + e - 8 } else if e < 22 { (e - 15) * 8 } else { (e - 21) * 8 + 7 }) as usize } else { rng.below(64) as usize };
        let mut ok = rng.below(64) as usize;
        if rng.chance(1, 6) {
            // castling material for the mating side
            ok = if white { 4 } else { 60 };
            let (ra, rh) = if white { (0usize, 7usize) } else { (56, 63) };
            if rng.chance(1, 2) { sq[ra] = if white { b'R' } else { b'r' }; rights |= if white { 2 } else { 8 }; }
            else { sq[rh] = if white { b'R' } else { b'r' }; rights |= if white { 1 } else { 4 }; }
        }
        if ek == ok || sq[ek] != b'.' || sq[ok] != b'.' {
            continue;
        }
        sq[ek] = if white { b'k' } else { b'K' };
        sq[ok] = if white { b'K' } else { b'k' };
        let seventh = if white { 6usize } else { 1usize };
        if rng.chance(1, 2) {
            let i = seventh * 8 + rng.below(8) as usize;
            if sq[i] == b'.' { sq[i] = if white { b'P' } else { b'p' }; }
        }
        for _ in 0..(1 + rng.below(6)) {
            let c = *rng.pick(own);
            let i = rng.below(64) as usize;
            if sq[i] == b'.' && !((c == b'P' || c == b'p') && (i / 8 == 0 || i / 8 == 7)) { sq[i] = c; }
        }
        for _ in 0..rng.below(6) {
            let c = *rng.pick(opp);
            let i = if rng.chance(1, 2) { let d = [1i32, -1, 8, -8, 7, -7, 9, -9][rng.below(8) as usize]; (ek as i32 + d).clamp(0, 63) as usize } else { rng.below(64) as usize };
            if sq[i] == b'.' && !((c == b'P' || c == b'p') && (i / 8 == 0 || i / 8 == 7)) { sq[i] = c; }
        }
        let fen = fen_of(&sq, white, rights, None, rng.below(20) as u32, 1 + rng.below(30) as u32);
        let Ok(b0) = chess_movegen::fen::parse_fen(fen.as_bytes()) else { continue };
        // an en-passant marker needs a history: also try every double step of the other side from a flipped-turn twin
        let mut roots: Vec<Board> = vec![b0];
        if rng.chance(1, 3) {
            if let Ok(t) = chess_movegen::fen::parse_fen(fen_of(&sq, !white, 0, None, 0, 1).as_bytes()) {
                for m in t.legals() {
                    let (sr, dr) = (m.source.to_u8() / 8, m.dest.to_u8() / 8);
                    if t.raw().get(m.source).map(|x| x.1) == Some(Piece::Pawn) && (sr as i32 - dr as i32).abs() == 2 {
                        if let Some(nb) = t.move_new(m) { roots.push(nb); }
                    }
                }
            }
        }
        for b in roots {
            let v = view(&b);
            let legal: Vec<ChessMove> = b.legals().collect();
            let mates: Vec<ChessMove> = legal.iter().copied().filter(|&m| b.move_new(m).map(|nb| nb.state() == GameState::CheckMate).unwrap_or(false)).collect();
            if mates.is_empty() { continue; }
            let fen_b = fen_of_view(&v);
            let enemy = b[!b.turn()].to_u64();
            let captures: Vec<ChessMove> = legal.iter().copied().filter(|m| enemy & (1u64 << m.dest.to_u8()) != 0).collect();
            let mover = |m: &ChessMove| b.raw().get(m.source).map(|x| x.1);
            let is_cap = |m: &ChessMove| enemy & (1u64 << m.dest.to_u8()) != 0;
            let mut classes: Vec<usize> = Vec::new();
            // 0: every mate is a capture-promotion by a pinned pawn of its pinner
            if mates.iter().all(|m| m.piece.is_some() && is_cap(m) && v.pinned & (1u64 << m.source.to_u8()) != 0) { classes.push(0); }
            if mates.iter().all(|m| m.piece == Some(PromotionPiece::Knight)) { classes.push(1); }
            if mates.iter().all(|m| mover(m) == Some(Piece::Pawn) && !is_cap(m) && m.source.to_u8() % 8 != m.dest.to_u8() % 8) { classes.push(2); }
            if mates.iter().all(|m| mover(m) == Some(Piece::King) && (m.source.to_u8() as i32 % 8 - m.dest.to_u8() as i32 % 8).abs() == 2) { classes.push(3); }
            if mates.iter().all(|m| m.piece.is_some() && !is_cap(m)) && mates.iter().any(|m| legal.iter().any(|c| c.source == m.source && c.piece.is_some() && is_cap(c)))
                && captures.iter().any(|c| c.piece.is_none()) { classes.push(4); }
            if mates.iter().all(|m| {
                let nb = b.move_new(*m).unwrap();
                let nv = view(&nb);
                let chk = nv.checkers | (nv.checkers & nv.pinned);
                chk & (1u64 << m.dest.to_u8()) == 0 && m.piece.is_none()
            }) { classes.push(5); }
            if mates.iter().all(|m| { let nv = view(&b.move_new(*m).unwrap()); nv.checkers.count_ones() >= 2 }) { classes.push(6); }
            if mates.iter().all(|m| matches!(m.piece, Some(PromotionPiece::Rook) | Some(PromotionPiece::Bishop))) { classes.push(7); }
            // 8: the mate is quiet, and the first capture in generation order allows a reply that mates the root side
            if mates.iter().all(|m| !is_cap(m)) {
                if let Some(c0) = captures.first() {
                    if let Some(nb) = b.move_new(*c0) {
                        if nb.legals().any(|r| nb.move_new(r).map(|x| x.state() == GameState::CheckMate).unwrap_or(false)) { classes.push(8); }
                    }
                }
            }
            for c in classes {
                if found[c].len() < per_class && !found[c].contains(&fen_b) {
                    found[c].push(fen_b.clone());
                }
            }
        }
    }
    let mut text = String::from("# roots with a mate in one of a rare kind (found by `harness gen-materoots`, see harness/src/engine.rs)\n");
    for (i, v) in found.iter().enumerate() {
        text.push_str(&format!("# {} ({})\n", names[i], v.len()));
        for l in v {
            text.push_str(l);
            text.push('\n');
        }
    }
    std::fs::write(path, text).unwrap();
    eprintln!("{:?} after {tries} tries", found.iter().map(|v| v.len()).collect::<Vec<_>>());
}

/// one-off corpus builder: `harness gen-epmates <per_class> <seed> <outfile>` — roots in which an en-passant capture
/// mates, sorted by what the capture does to the lines of the board (the capturing pawn leaves a square, arrives on
/// another, and a third one is vacated): the arrival shields the mover's own king on the file of the captured pawn from a
/// rook or queen beyond; the vacated square opens a line of a mover's slider onto the king (discovered mate through the
/// captured pawn's square); the departure opens one; the pawn itself gives the mate.  Each class with the capture as the
/// only mating move and with other mates beside it.  Written to corpus/ep_mates.txt.
pub fn gen_ep_mates(per_class: usize, seed: u64, path: &str) {
    use chess_movegen::GameState;
    let names = ["arrival-shields-own-king-on-the-capture-file", "line-through-the-vacated-square", "line-through-the-departure-square", "pawn-gives-the-mate"];
    let mut found: Vec<Vec<String>> = vec![Vec::new(); names.len() * 2];
    let mut rng = Rng::new(seed ^ 0xE9A7E);
    let mut tries = 0u64;
    while found.iter().any(|v| v.len() < per_class) && tries < 60_000_000 {
        tries += 1;
        let white = rng.chance(1, 2);
        let up = |c: u8| if white { c.to_ascii_uppercase() } else { c };
        let dn = |c: u8| if white { c } else { c.to_ascii_uppercase() };
        let row = |r: usize| if white { r } else { 7 - r }; // rows from the mover's side
        let mut sq = [b'.'; 64];
        let f = rng.below(8) as usize;
        let g = if f == 0 { 1 } else if f == 7 { 6 } else if rng.chance(1, 2) { f - 1 } else { f + 1 };
        sq[row(4) * 8 + f] = dn(b'p');
        sq[row(4) * 8 + g] = up(b'p');
        let want = rng.below(4);
        // own king
        let ok = if want == 0 { row(rng.below(4) as usize) * 8 + f } else { rng.below(64) as usize };
        if sq[ok] != b'.' || ok == row(5) * 8 + f || ok == row(6) * 8 + f {
            continue;
        }
        sq[ok] = up(b'k');
        if want == 0 {
            let s = row(7) * 8 + f;
            sq[s] = dn(*rng.pick(&b"rq"[..]));
        }
        // the king to be mated: on an edge most of the time, boxed in by its own men
        let ek = if rng.chance(3, 4) { let e = rng.below(28); (if e < 8 { e } else if e < 16 { 56 + e - 8 } else if e < 22 { (e - 15) * 8 } else { (e - 21) * 8 + 7 }) as usize } else { rng.below(64) as usize };
        if sq[ek] != b'.' || ek == row(5) * 8 + f || ek == row(6) * 8 + f {
            continue;
        }
        sq[ek] = dn(b'k');
        for _ in 0..rng.below(5) {
            let d = [1i32, -1, 8, -8, 7, -7, 9, -9][rng.below(8) as usize];
            let i = (ek as i32 + d).clamp(0, 63) as usize;
            let c = dn(*rng.pick(&b"pppnbr"[..]));
            if sq[i] == b'.' && i != row(5) * 8 + f && i != row(6) * 8 + f && !((c == b'P' || c == b'p') && (i / 8 == 0 || i / 8 == 7)) {
                sq[i] = c;
            }
        }
        for _ in 0..(1 + rng.below(5)) {
            let c = up(*rng.pick(&b"qrrbbnnp"[..]));
            let i = rng.below(64) as usize;
            if sq[i] == b'.' && i != row(5) * 8 + f && i != row(6) * 8 + f && !((c == b'P' || c == b'p') && (i / 8 == 0 || i / 8 == 7)) {
                sq[i] = c;
            }
        }
        let fen = fen_of(&sq, white, 0, Some(f as u8), 0, 1 + rng.below(30) as u32);
        let Ok(b) = chess_movegen::fen::parse_fen(fen.as_bytes()) else { continue };
        let src = row(4) * 8 + g;
        let dst = row(5) * 8 + f;
        let Some(ep) = b.legals().find(|m| m.source.to_u8() as usize == src && m.dest.to_u8() as usize == dst) else { continue };
        let Some(nb) = b.move_new(ep) else { continue };
        if nb.state() != GameState::CheckMate {
            continue;
        }
        let others = b.legals().filter(|&m| m != ep && b.move_new(m).map(|x| x.state() == GameState::CheckMate).unwrap_or(false)).count();
        let nv = view(&nb);
        // which line does the check run along?
        let vac = row(4) * 8 + f;
        let between = |a: usize, c: usize, x: usize| -> bool {
            // is x strictly between a and c on a common line?
            let (af, ar, cf, cr, xf, xr) = ((a % 8) as i32, (a / 8) as i32, (c % 8) as i32, (c / 8) as i32, (x % 8) as i32, (x / 8) as i32);
            let (df, dr) = ((cf - af).signum(), (cr - ar).signum());
            if !((af == cf) || (ar == cr) || ((cf - af).abs() == (cr - ar).abs())) {
                return false;
            }
            let (mut pf, mut pr) = (af + df, ar + dr);
            while (pf, pr) != (cf, cr) {
                if (pf, pr) == (xf, xr) {
                    return true;
                }
                pf += df;
                pr += dr;
            }
            false
        };
        let mut cls: Vec<usize> = Vec::new();
        let own_file_shield = ok % 8 == f && (0..64).any(|i| i % 8 == f && matches!(sq[i].to_ascii_lowercase(), b'r' | b'q') && sq[i].is_ascii_uppercase() != white && between(ok, i, dst) && between(ok, i, vac)
            && (0..64).all(|x| !between(ok, i, x) || x == vac || x == dst || sq[x] == b'.'));
        if own_file_shield {
            cls.push(0);
        }
        for c in 0..64usize {
            if nv.checkers & (1u64 << c) != 0 {
                if c == dst {
                    cls.push(3);
                } else if between(c, ek, vac) {
                    cls.push(1);
                } else if between(c, ek, src) {
                    cls.push(2);
                }
            }
        }
        let fen_b = fen_of_view(&view(&b));
        for c in cls {
            let slot = c * 2 + if others == 0 { 0 } else { 1 };
            if found[slot].len() < per_class && !found[slot].contains(&fen_b) {
                found[slot].push(fen_b.clone());
            }
        }
    }
    let mut text = String::from("# roots in which an en-passant capture mates (found by `harness gen-epmates`, see harness/src/engine.rs)\n");
    for (i, v) in found.iter().enumerate() {
        text.push_str(&format!("# {} / {} ({})\n", names[i / 2], if i % 2 == 0 { "the only mate" } else { "other mates beside it" }, v.len()));
        for l in v {
            text.push_str(l);
            text.push('\n');
        }
    }
    std::fs::write(path, text).unwrap();
    eprintln!("{:?} after {tries} tries", found.iter().map(|v| v.len()).collect::<Vec<_>>());
}

pub fn load_ep_mates() -> Vec<String> {
    let path = concat!(env!("CARGO_MANIFEST_DIR"), "/../corpus/ep_mates.txt");
    std::fs::read_to_string(path)
        .map(|s| s.lines().map(|l| l.trim().to_string()).filter(|l| !l.is_empty() && !l.starts_with('#')).collect())
        .unwrap_or_default()
}

pub fn load_mate_roots() -> Vec<String> {
    let path = concat!(env!("CARGO_MANIFEST_DIR"), "/../corpus/mate_roots.txt");
    std::fs::read_to_string(path)
        .map(|s| s.lines().map(|l| l.trim().to_string()).filter(|l| !l.is_empty() && !l.starts_with('#')).collect())
        .unwrap_or_default()
}

fn parse_mv_opt(s: &str) -> Option<ChessMove> {
    crate::position::parse_mv(s)
}

pub fn load_ep_only_reply() -> Vec<String> {
    let path = concat!(env!("CARGO_MANIFEST_DIR"), "/../corpus/ep_only_reply.txt");
    std::fs::read_to_string(path)
        .map(|s| s.lines().map(|l| l.trim().to_string()).filter(|l| !l.is_empty() && !l.starts_with('#')).collect())
        .unwrap_or_default()
}

/// `Engine { positional: true, .. }` is not the shipped configuration, but `positional` is a public field and C11 / C12
/// speak of "the search": the model takes the flag (`Engine.search pos`), the piece-square maps are read from the source
/// by the translator, and the result of the search (move, score, depth, evaluation and poll counts) is compared exactly;
/// the specification judges the returned move as for the shipped configuration.
pub fn positional_no_trap(out: &mut Out, rng: &mut Rng, thorough: bool) {
    let mut ps: Vec<Tagged> = positions(rng, if thorough { 600 } else { 60 });
    // kings on every rank and file (the positional tables are indexed by the king squares, one of them rank-flipped)
    for k in 0..64usize {
        let mut sq = [b'.'; 64];
        let wk = (k + 27) % 64;
        if (k as i32 % 8 - wk as i32 % 8).abs() <= 1 && (k as i32 / 8 - wk as i32 / 8).abs() <= 1 {
            continue;
        }
        sq[k] = b'k';
        sq[wk] = b'K';
        let r = (k * 7 + 13) % 64;
        if sq[r] == b'.' {
            sq[r] = if k % 2 == 0 { b'R' } else { b'r' };
        }
        // every other one with level material (the `Ordering::Equal` arm decides `is_endgame` from both limits)
        let r2 = (k * 11 + 5) % 64;
        if k % 3 == 0 && sq[r2] == b'.' {
            sq[r2] = if k % 2 == 0 { b'r' } else { b'R' };
        }
        for white in [true, false] {
            if let Some(b) = crate::common::guard(|| chess_movegen::fen::parse_fen(fen_of(&sq, white, 0, None, 0, 1).as_bytes()).ok()).flatten() {
                ps.push(Tagged { board: b, tag: "king-on-every-square" });
            }
        }
    }
    // every kind of man on every square once (each piece-square map, both colours, is read at every index)
    for (i, pc) in b"QqNnRrBbPp".iter().enumerate() {
        for s in 0..64usize {
            if (*pc == b'P' || *pc == b'p') && (s / 8 == 0 || s / 8 == 7) {
                continue;
            }
            let mut sq = [b'.'; 64];
            let wk = [4usize, 60, 32, 39][(s + i) % 4];
            let bk = [63usize, 0, 7, 56][(s / 3 + i) % 4];
            if s == wk || s == bk || ((wk as i32 % 8 - bk as i32 % 8).abs() <= 1 && (wk as i32 / 8 - bk as i32 / 8).abs() <= 1) {
                continue;
            }
            sq[wk] = b'K';
            sq[bk] = b'k';
            sq[s] = *pc;
            // a second man of the other colour so that both sides have a map entry (and the mirror image of a rook
            // may fall on a black man: the source intersects Black's men with the flipped rooks of both colours)
            let s2 = (s ^ 56) as usize;
            if sq[s2] == b'.' && !(s2 / 8 == 0 || s2 / 8 == 7) {
                sq[s2] = if pc.is_ascii_uppercase() { b'p' } else { b'P' };
            }
            let white = (s + i) % 2 == 0;
            if let Some(b) = crate::common::guard(|| chess_movegen::fen::parse_fen(fen_of(&sq, white, 0, None, 0, 1).as_bytes()).ok()).flatten() {
                ps.push(Tagged { board: b, tag: "man-on-every-square" });
            }
        }
    }
    for (i, t) in ps.iter().enumerate() {
        let b = t.board;
        let p = pos64(&view(&b));
        for k in [0u64, 60, 600] {
            let mut mv: Option<Option<ChessMove>> = None;
            out.case("positional-no-panic", true, format!("expect no-trap #positional {p} k={k}"), || {
                let tf = ThreeFold::new();
                let mut e = Engine { positional: true, ..Engine::default() };
                let tmo = CountingTimeout { k, polls: Cell::new(0) };
                let (m, _s) = e.search(&b, &tf, &tmo);
                mv = Some(m);
                "no-trap".into()
            });
            if let Some(Some(m)) = mv {
                out.record("positional-move-legal", true, format!("pos islegal {p} {}", mv_str(m)), "true".into());
            }
        }
        // exact comparison with the model under `pos=1`
        let tagged = Tagged { board: b, tag: if t.tag == "king-on-every-square" || t.tag == "man-on-every-square" { t.tag } else { "positional" } };
        let mut kvals: Vec<u64> = vec![0, 1, 2, 3, 5];
        let n = b.legals().count() as u64;
        kvals.push(n + 1 + rng.below(4));
        kvals.push(40 + rng.below(60));
        if thorough || i % 3 == 0 {
            kvals.push(300 + rng.below(900));
        }
        search_cases_cfg(out, &tagged, &[], &kvals, true);
    }
}

pub fn c12(out: &mut Out, thorough: bool) {
    let mut rng = Rng::new(out.seed ^ 0xC12);
    let mut ps: Vec<Tagged> = Vec::new();
    mating_positions(&mut rng, if thorough { 6000 } else { 300 }, &mut ps);
    retro_mates(&mut rng, if thorough { 6000 } else { 300 }, &mut ps);
    // positions from play that happen to contain a mate in one, plus ordinary ones
    let extra = positions(&mut rng, if thorough { 30_000 } else { 2_500 });
    let mut plain = 0;
    for t in extra {
        let b = t.board;
        let has_mate = b.legals().any(|m| b.move_new(m).map(|nb| nb.state() == chess_movegen::GameState::CheckMate).unwrap_or(false));
        if has_mate {
            ps.push(Tagged { board: b, tag: "play-with-mate-in-one" });
        } else if plain < (if thorough { 1000 } else { 60 }) {
            plain += 1;
            ps.push(t);
        }
    }
    // a check by a double pawn step that only an en-passant capture answers is not mate (fixed corpus; the
    // stream must not depend on what the implementation under test believes to be mate)
    let eps = load_ep_only_reply();
    let take = if thorough { eps.len() } else { eps.len().min(80) };
    for f in eps.iter().take(take) {
        if let Some(b) = crate::common::guard(|| chess_movegen::fen::parse_fen(f.as_bytes()).ok()).flatten() {
            ps.push(Tagged { board: b, tag: "check-answered-only-en-passant" });
        }
    }
    // roots with a mate in one of a rare kind (fixed corpus)
    for f in load_mate_roots() {
        if let Some(b) = crate::common::guard(|| chess_movegen::fen::parse_fen(f.as_bytes()).ok()).flatten() {
            ps.push(Tagged { board: b, tag: "rare-mate-in-one" });
        }
    }
    // roots in which an en-passant capture mates, by the line the mate runs along (fixed corpus)
    for f in load_ep_mates() {
        if let Some(b) = crate::common::guard(|| chess_movegen::fen::parse_fen(f.as_bytes()).ok()).flatten() {
            ps.push(Tagged { board: b, tag: "en-passant-mate" });
        }
    }
    for t in ps.iter() {
        // enough polls for the first pass (depth 0 visits each root move once, plus capture extensions)
        let kvals = [400u64, 2_000];
        search_cases(out, t, &[], &kvals[..if thorough { 2 } else { 1 }]);
    }
}

/// swap the colours, flip the ranks (rights and e.p. file carried over)
pub fn mirror_view(v: &View) -> Option<Board> {
    let mut sq = [b'.'; 64];
    for i in 0..64 {
        let c = v.squares[i];
        let j = (7 - i / 8) * 8 + i % 8;
        sq[j] = if c == b'.' {
            c
        } else if c.is_ascii_uppercase() {
            c.to_ascii_lowercase()
        } else {
            c.to_ascii_uppercase()
        };
    }
    let rights = ((v.rights & 3) << 2) | ((v.rights >> 2) & 3);
    chess_movegen::fen::parse_fen(fen_of(&sq, !v.white_to_move, rights, v.ep, (v.half as u32).min(9999), (v.full as u32).min(9999)).as_bytes()).ok()
}

fn neg(s: Score) -> Score {
    match s {
        Score::Min => Score::Max,
        Score::Max => Score::Min,
        Score::Raw(x) => Score::Raw(-x),
        Score::WhiteMateIn(n) => Score::BlackMateIn(n),
        Score::BlackMateIn(n) => Score::WhiteMateIn(n),
    }
}

pub fn c13(out: &mut Out, thorough: bool) {
    let mut rng = Rng::new(out.seed ^ 0xC13);
    let mut ps: Vec<Tagged> = Vec::new();
    for f in load_corpus() {
        if let Ok(b) = chess_movegen::fen::parse_fen(f.as_bytes()) {
            ps.push(Tagged { board: b, tag: "corpus" });
        }
    }
    let mut nline = 0;
    ps.extend(positions(&mut rng, if thorough { 1200 } else { 170 }).into_iter().skip(60).filter(|t| {
        if t.tag == "corpus-line" {
            nline += 1;
            nline % 4 == 0
        } else {
            true
        }
    }));
    mating_positions(&mut rng, if thorough { 200 } else { 20 }, &mut ps);
    // roots where the decisive move is quiet while captures are on offer as well (the root tries captures first)
    retro_mates(&mut rng, if thorough { 400 } else { 60 }, &mut ps);
    let cap = if thorough { 30_000 } else { 3_000 };
    for t in ps.iter() {
        let b = t.board;
        let v = view(&b);
        if v.half > 9999 || v.full > 9999 {
            continue;
        }
        // the property is stated for roots without a promotion move
        if b.legals().any(|m| m.piece.is_some()) {
            continue;
        }
        let Some(mb) = mirror_view(&v) else { continue };
        let p = pos64(&v);
        let mp = pos64(&view(&mb));
        let kvals = ks(&mut rng, cap);
        let mut by_depth: std::collections::BTreeMap<u16, Score> = Default::default();
        let mut mby_depth: std::collections::BTreeMap<u16, Score> = Default::default();
        for &k in &kvals {
            // both searches are also tied to the model exactly
            let mut a: Option<(u16, Score)> = None;
            out.case(t.tag, true, format!("search {p} hist=- k={k} prev=65535"), || {
                let o = run_search(&b, &[], k);
                a = Some((o.max_depth, o.score));
                show_out(&o)
            });
            let mut m: Option<(u16, Score)> = None;
            out.case("mirrored", true, format!("search {mp} hist=- k={k} prev=65535"), || {
                let o = run_search(&mb, &[], k);
                m = Some((o.max_depth, o.score));
                show_out(&o)
            });
            if let Some((d, s)) = a {
                if d != u16::MAX {
                    by_depth.insert(d, s);
                }
            }
            if let Some((d, s)) = m {
                if d != u16::MAX {
                    mby_depth.insert(d, s);
                }
            }
        }
        let mut verdict = "same".to_string();
        let mut compared = 0;
        for (d, s) in &by_depth {
            if let Some(ms) = mby_depth.get(d) {
                compared += 1;
                if neg(*s) != *ms {
                    verdict = format!("differs:depth={d}:score={}:mirror-score={}", show_score(*s), show_score(*ms));
                    break;
                }
            }
        }
        out.record("mirror-negates-score", compared > 0, format!("expect same {p} mirror {mp} depths-compared={compared}"), verdict);
        // the score of a completed pass is the plain-minimax value of the root (model side) and the negated
        // plain-minimax value of the mirrored root (specification side); plain minimax is exponential, so
        // only the shallow depths of sparse positions are asked for (the capture extension alone makes
        // depth 0 of a crowded middlegame position intractable without pruning)
        let men = v.squares.iter().filter(|&&c| c != b'.').count();
        let maxd: i32 = if men <= 5 { 2 } else if men <= 10 { 1 } else if men <= 16 { 0 } else { -1 };
        for (d, sc) in by_depth.iter().filter(|(d, _)| (**d as i32) <= maxd) {
            out.record("pass-score-is-minimax", true, format!("minimax {p} d={d}"), show_score(*sc));
        }
        // the facts about the mirrored board the symmetry argument rests on
        out.record("mirror-facts", true, format!("mirrorchk {p}"), "ok".into());
    }
}

// ------------------------------------------------------------------------------------------ C11 through the plugin

/// The search as the referee and the plugin's host consume it: the position reaches the bot as `set_board` plus a
/// history of `make_move` calls (each move crossing the stable interface), then `evaluate` is asked.  The move it answers
/// must be legal in the position the HOST reached (judged by the rules), whatever the history held — in particular each of
/// the four promotion choices, after which the promoted piece may be the one giving check.
pub fn bot11(out: &mut Out, thorough: bool, lib: &str) {
    use chess_api::ChessApiRef;
    let api = match ChessApiRef::load_from_file(std::path::Path::new(lib)) {
        Ok(a) => a,
        Err(e) => {
            out.record("load", true, "expect loaded".into(), format!("load-failed:{e}").replace(' ', "_").chars().take(200).collect());
            return;
        }
    };
    let mut rng = Rng::new(out.seed ^ 0xB0711);
    use chess_bitboard::PromotionPiece as PP;
    let n = if thorough { 1500 } else { 120 };
    let mut made = 0;
    let mut tries = 0;
    while made < n && tries < n * 50 {
        tries += 1;
        // the side to move has a pawn on its seventh rank (push or capture available), the other side a king the new
        // piece may check and some men of its own (among them a pawn on ITS seventh rank, so that it has tempting answers)
        let white = rng.chance(1, 2);
        let up = |c: u8| if white { c.to_ascii_uppercase() } else { c };
        let dn = |c: u8| if white { c } else { c.to_ascii_uppercase() };
        let mut sq = [b'.'; 64];
        let f = rng.below(8) as usize;
        let (r7, r8, r2) = if white { (6usize, 7usize, 1usize) } else { (1, 0, 6) };
        sq[r7 * 8 + f] = up(b'p');
        if rng.chance(1, 2) {
            let g = if f == 0 { 1 } else if f == 7 { 6 } else if rng.chance(1, 2) { f - 1 } else { f + 1 };
            sq[r8 * 8 + g] = dn(*rng.pick(&b"nbrq"[..]));
            if rng.chance(1, 2) {
                sq[r8 * 8 + f] = dn(*rng.pick(&b"nbr"[..]));
            }
        }
        for c in [up(b'k'), dn(b'k')] {
            loop {
                let s = rng.below(64) as usize;
                if sq[s] == b'.' {
                    sq[s] = c;
                    break;
                }
            }
        }
        let g2 = rng.below(8) as usize;
        if sq[r2 * 8 + g2] == b'.' {
            sq[r2 * 8 + g2] = dn(b'p');
        }
        for _ in 0..rng.below(4) {
            let s = rng.below(64) as usize;
            if sq[s] == b'.' && s / 8 != 0 && s / 8 != 7 {
                sq[s] = if rng.chance(1, 2) { dn(*rng.pick(&b"pnbrq"[..])) } else { up(*rng.pick(&b"pnbr"[..])) };
            }
        }
        let Some(b0) = crate::common::guard(|| chess_movegen::fen::parse_fen(fen_of(&sq, white, 0, None, 0, 1).as_bytes()).ok()).flatten() else { continue };
        let promos: Vec<ChessMove> = b0.legals().filter(|m| m.piece.is_some() && m.source.to_u8() as usize == r7 * 8 + f).collect();
        if promos.is_empty() {
            continue;
        }
        made += 1;
        let dest = rng.pick(&promos).dest;
        for pp in [PP::Knight, PP::Bishop, PP::Rook, PP::Queen] {
            let mv = ChessMove { source: chess_bitboard::Pos::from_u8((r7 * 8 + f) as u8).unwrap(), dest, piece: Some(pp) };
            let Some(host) = b0.move_new(mv) else { continue };
            let mut eng = api.new_engine();
            let mut toks: Vec<String> = Vec::new();
            eng.set_board(b0);
            toks.push(format!("set:{}", pos64(&view(&b0))));
            let res = eng.make_move(mv);
            let s = if res.is_valid { if res.is_three_fold_draw { "valid+3fold" } else { "valid" } } else { "invalid" };
            toks.push(format!("mv:{}={s}", mv_str(mv)));
            toks.push(format!("board={}", pos64(&view(&eng.board()))));
            let hp = pos64(&view(&host));
            for k in [2u64, 70, 400] {
                let t = CountingTimeout { k, polls: Cell::new(0) };
                let (m, score) = eng.evaluate(&t);
                toks.push(format!("eval:{k}:0={},{}", match m { Some(m) => mv_str(m), None => "none".into() }, show_score(score)));
                // (whether an answer is due — the first pass finished — is judged on the model's side of the `bot` line)
                if let Some(m) = m {
                    out.record("answer-legal-in-the-host-position", true, format!("pos islegal {hp} {}", mv_str(m)), "true".into());
                }
            }
            let line_s = toks.join(" ");
            out.record("promotion-in-the-history", true, format!("bot {line_s}"), line_s.clone());
        }
    }
}

// ------------------------------------------------------------------------------------------ C15

pub fn c15(out: &mut Out, thorough: bool, lib: &str) {
    use chess_api::ChessApiRef;
    let api = match ChessApiRef::load_from_file(std::path::Path::new(lib)) {
        Ok(a) => a,
        Err(e) => {
            out.record("load", true, "expect loaded".into(), format!("load-failed:{e}").replace(' ', "_").chars().take(200).collect());
            return;
        }
    };
    let mut rng = Rng::new(out.seed ^ 0xC15);
    let corpus: Vec<Board> = load_corpus().iter().filter_map(|f| chess_movegen::fen::parse_fen(f.as_bytes()).ok()).collect();
    let triples = all_triples();
    let n = if thorough { 20_000 } else { 600 };
    for i in 0..n {
        let mut eng = api.new_engine();
        let mut toks: Vec<String> = Vec::new();
        let mut cur = Board::standard();
        let len = 4 + rng.below(if thorough { 60 } else { 40 }) as usize;
        let style = i % 4;
        let mut line: Vec<ChessMove> = Vec::new(); // for reversible shuffles
        let mut step = 0;
        while step < len {
            step += 1;
            let r = rng.below(100);
            if r < 4 || (step == 1 && style == 3) {
                // set_board in mid-history
                let nb = if rng.chance(1, 2) && !corpus.is_empty() { *rng.pick(&corpus) } else { cur };
                eng.set_board(nb);
                cur = nb;
                line.clear();
                toks.push(format!("set:{}", pos64(&view(&nb))));
            } else if r < 12 {
                toks.push(format!("board={}", pos64(&view(&eng.board()))));
            } else if r < 16 {
                let k = *rng.pick(&[0u64, 1, 3, 40, 200]);
                let t = CountingTimeout { k, polls: Cell::new(0) };
                let (mv, score) = eng.evaluate(&t);
                // depth / evals are not visible through the plugin interface: the model's are compared
                // through `search` (C11); here only move and score cross the ABI
                toks.push(format!("eval:{k}:0={},{}", match mv { Some(m) => mv_str(m), None => "none".into() }, show_score(score)));
            } else {
                // a move: mostly legal; shuffles that repeat positions; sometimes illegal
                let legal: Vec<ChessMove> = cur.legals().collect();
                let mv = if r < 30 || legal.is_empty() {
                    *rng.pick(&triples)
                } else if style <= 1 && !line.is_empty() && rng.chance(2, 3) {
                    // undo the move made two plies ago if that is legal (knight / king / rook shuffles)
                    let back = if line.len() >= 2 { let m = line[line.len() - 2]; ChessMove { source: m.dest, dest: m.source, piece: None } } else { *rng.pick(&legal) };
                    if legal.contains(&back) { back } else { *rng.pick(&legal) }
                } else {
                    // prefer quiet non-pawn moves in the shuffle styles so that positions can repeat
                    let quiet: Vec<ChessMove> = legal.iter().copied().filter(|m| cur.raw().get(m.dest).is_none() && cur.raw().get(m.source).map(|x| x.1) != Some(chess_bitboard::Piece::Pawn)).collect();
                    if style <= 1 && !quiet.is_empty() && rng.chance(3, 4) { *rng.pick(&quiet) } else { *rng.pick(&legal) }
                };
                let res = eng.make_move(mv);
                let s = if res.is_valid { if res.is_three_fold_draw { "valid+3fold" } else { "valid" } } else { "invalid" };
                toks.push(format!("mv:{}={s}", mv_str(mv)));
                if res.is_valid {
                    if let Some(nb) = cur.move_new(mv) {
                        cur = nb;
                    }
                    line.push(mv);
                }
            }
        }
        toks.push(format!("board={}", pos64(&view(&eng.board()))));
        let kind = ["shuffle", "shuffle", "random-play", "set-board-first"][style];
        // the model prints eval as mv,score,depth,evals,polls; strip to what crosses the ABI when comparing:
        // the harness emits the request with the observed tokens and the answer is the same token string
        let line_s = toks.join(" ");
        out.record(kind, true, format!("bot {line_s}"), line_s.clone());
    }
    // histories from the fixed corpora through the plugin: the start of a rare line is set, the line is played, the board is
    // read back, then every geometric candidate move (castlings, en-passant shaped captures, king steps) is submitted —
    // accepted iff legal by the rules, board equal to the reference successor
    {
        let mut starts: Vec<(String, Vec<String>)> = load_lines();
        for f in load_ep_only_reply().into_iter().take(if thorough { 150 } else { 40 }) {
            starts.push((f, Vec::new()));
        }
        for (fen, moves) in starts {
            let Some(b0) = crate::common::guard(|| chess_movegen::fen::parse_fen(fen.as_bytes()).ok()).flatten() else { continue };
            let mut eng = api.new_engine();
            let mut toks: Vec<String> = Vec::new();
            eng.set_board(b0);
            let mut cur = b0;
            toks.push(format!("set:{}", pos64(&view(&b0))));
            let mut play = |eng: &mut chess_api::ChessEngine, cur: &mut Board, toks: &mut Vec<String>, mv: ChessMove| {
                let res = eng.make_move(mv);
                let s = if res.is_valid { if res.is_three_fold_draw { "valid+3fold" } else { "valid" } } else { "invalid" };
                toks.push(format!("mv:{}={s}", mv_str(mv)));
                if res.is_valid {
                    if let Some(nb) = cur.move_new(mv) {
                        *cur = nb;
                    } else {
                        *cur = eng.board();
                    }
                }
                toks.push(format!("board={}", pos64(&view(&eng.board()))));
            };
            if moves.is_empty() {
                // a check by a double step that only an en-passant capture answers: play every double step, then the candidates
                let doubles: Vec<ChessMove> = cur.legals().filter(|m| cur.raw().get(m.source).map(|x| x.1) == Some(chess_bitboard::Piece::Pawn) && (m.source.to_u8() as i32 / 8 - m.dest.to_u8() as i32 / 8).abs() == 2).collect();
                if let Some(&d) = doubles.iter().find(|&&d| cur.move_new(d).map(|nb| nb.in_check()).unwrap_or(false)) {
                    play(&mut eng, &mut cur, &mut toks, d);
                }
            } else {
                for m in moves.iter() {
                    if let Some(mv) = parse_mv_opt(m) {
                        play(&mut eng, &mut cur, &mut toks, mv);
                    }
                }
            }
            for round in 0..2 {
                let cands = crate::posprops::candidate_moves(&view(&eng.board()));
                let mut accepted = false;
                for mv in cands {
                    let before = eng.board();
                    let res = eng.make_move(mv);
                    let s = if res.is_valid { if res.is_three_fold_draw { "valid+3fold" } else { "valid" } } else { "invalid" };
                    toks.push(format!("mv:{}={s}", mv_str(mv)));
                    toks.push(format!("board={}", pos64(&view(&eng.board()))));
                    if res.is_valid {
                        accepted = true;
                        let _ = before;
                        break;
                    }
                }
                if !accepted || round == 1 {
                    break;
                }
            }
            let line_s = toks.join(" ");
            out.record("rare-line-through-the-plugin", true, format!("bot {line_s}"), line_s.clone());
        }
    }
    // en passant through the plugin with the marker on every file and own pawns all along the capture rank: only the
    // neighbours may capture (positions built from data; both colours)
    for f in 0..8usize {
        for white in [true, false] {
            let mut sq = [b'.'; 64];
            sq[6] = b'K';
            sq[62] = b'k';
            let (pr, own, opp) = if white { (4usize, b'P', b'p') } else { (3usize, b'p', b'P') };
            for g in 0..8usize {
                sq[pr * 8 + g] = if g == f { opp } else { own };
            }
            let fen = fen_of(&sq, white, 0, Some(f as u8), 0, 1);
            let Some(b0) = crate::common::guard(|| chess_movegen::fen::parse_fen(fen.as_bytes()).ok()).flatten() else { continue };
            let mut eng = api.new_engine();
            let mut toks: Vec<String> = Vec::new();
            for mv in crate::posprops::candidate_moves(&view(&b0)) {
                eng.set_board(b0);
                toks.push(format!("set:{}", pos64(&view(&b0))));
                let res = eng.make_move(mv);
                let s = if res.is_valid { if res.is_three_fold_draw { "valid+3fold" } else { "valid" } } else { "invalid" };
                toks.push(format!("mv:{}={s}", mv_str(mv)));
                toks.push(format!("board={}", pos64(&view(&eng.board()))));
            }
            let line_s = toks.join(" ");
            out.record("en-passant-from-every-file-through-the-plugin", true, format!("bot {line_s}"), line_s.clone());
        }
    }
    // the u8 counter: a long knight shuffle repeats one position hundreds of times (more than 256)
    {
        let mut eng = api.new_engine();
        let mut toks: Vec<String> = Vec::new();
        let cyc = ["g1f3", "g8f6", "f3g1", "f6g8"];
        for i in 0..1100 {
            let mv = crate::posprops::parse_mv(cyc[i % 4]);
            let res = eng.make_move(mv);
            let s = if res.is_valid { if res.is_three_fold_draw { "valid+3fold" } else { "valid" } } else { "invalid" };
            toks.push(format!("mv:{}={s}", cyc[i % 4]));
        }
        let line_s = toks.join(" ");
        out.record("long-shuffle-counter", true, format!("bot {line_s}"), line_s.clone());
    }
}
