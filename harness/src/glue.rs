//! Glue streams: the WASM entry points (chess-wasm/src/lib.rs, compiled natively as a module of this
//! harness: the crate itself is a cdylib and cannot be linked against) and the command-line front end
//! (chess-cli, built from /repo's working tree and run as a child process).
//!
//! On a native target `JsError::new` cannot build its JavaScript value and panics with a fixed message
//! ("cannot call wasm-bindgen imported functions on non-wasm targets"); that panic *is* the `Err` branch of
//! the entry point and is reported as `err`; any other panic is a trap.
use crate::common::{hexbytes, Out, Rng};
use crate::position::*;
use std::io::{BufRead, BufReader, Read};
use std::panic::{catch_unwind, AssertUnwindSafe};
use std::process::{Command, Stdio};

#[allow(dead_code, unused_imports, clippy::all)]
#[path = "/repo/chess-wasm/src/lib.rs"]
mod wasm_glue;

enum Js<T> {
    Ok(T),
    Err,
    Trap(String),
}

fn js<T>(f: impl FnOnce() -> Result<T, wasm_bindgen::JsError>) -> Js<T> {
    match catch_unwind(AssertUnwindSafe(f)) {
        Ok(Ok(v)) => Js::Ok(v),
        // unreachable natively (building the error value panics first), kept for completeness
        Ok(Err(_)) => Js::Err,
        Err(e) => {
            let msg = if let Some(s) = e.downcast_ref::<&str>() {
                s.to_string()
            } else if let Some(s) = e.downcast_ref::<String>() {
                s.clone()
            } else {
                String::new()
            };
            if msg.contains("non-wasm targets") {
                Js::Err
            } else {
                Js::Trap(msg.chars().filter(|c| !c.is_control()).take(80).collect())
            }
        }
    }
}

/// the 64 squares of a `ChessGame` read through its only accessor, `get(file, rank)`
fn game_squares(g: &wasm_glue::ChessGame) -> Result<String, String> {
    let mut s = String::new();
    for r in 0..8u8 {
        for f in 0..8u8 {
            match js(|| g.get(f, r)) {
                Js::Ok(0) => s.push('.'),
                Js::Ok(code) => {
                    let pc = (code >> 1).wrapping_sub(1);
                    let ch = match pc {
                        0 => 'p',
                        1 => 'n',
                        2 => 'b',
                        3 => 'r',
                        4 => 'q',
                        5 => 'k',
                        _ => return Err(format!("bad-code:{code}")),
                    };
                    s.push(if code & 1 == 0 { ch.to_ascii_uppercase() } else { ch });
                }
                Js::Err => return Err("get-refused".into()),
                Js::Trap(m) => return Err(format!("trap panic: {m}")),
            }
        }
    }
    Ok(s)
}

fn cli_path() -> String {
    concat!(env!("CARGO_MANIFEST_DIR"), "/target-bot/release/chess-cli").to_string()
}

/// `chess-cli on-board <arg>`: `rejected` (clap's exit code 2), `accepted <first line on stderr>` (the board as the
/// program prints it before it starts to think; the child is killed then), or a trap (any other exit)
fn cli_arg(arg: &str) -> String {
    let mut child = match Command::new(cli_path()).arg("on-board").arg(arg).env("RUST_BACKTRACE", "0").stdin(Stdio::null()).stdout(Stdio::null()).stderr(Stdio::piped()).spawn() {
        Ok(c) => c,
        Err(e) => return format!("harness-error spawn: {e}"),
    };
    let mut rd = BufReader::new(child.stderr.take().unwrap());
    let mut line = String::new();
    let _ = rd.read_line(&mut line);
    let line = line.trim_end().to_string();
    if line.starts_with("error:") || line.is_empty() {
        let st = child.wait().ok().and_then(|s| s.code());
        return match st {
            Some(2) => "rejected".into(),
            other => format!("trap exit={other:?} {}", line.chars().take(60).collect::<String>()),
        };
    }
    if line.contains("panicked") {
        let _ = child.kill();
        let _ = child.wait();
        return format!("trap panic: {}", line.chars().take(80).collect::<String>());
    }
    let _ = child.kill();
    let _ = child.wait();
    format!("accepted {}", hexbytes(line.as_bytes()))
}

fn utf8_texts(rng: &mut Rng, thorough: bool) -> Vec<(String, &'static str)> {
    let mut v: Vec<(String, &'static str)> = Vec::new();
    for f in load_corpus() {
        v.push((f, "corpus"));
    }
    let ps = positions(rng, if thorough { 3000 } else { 300 });
    let fens: Vec<String> = ps.iter().map(|t| fen_of_view(&view(&t.board))).collect();
    for f in fens.iter() {
        v.push((f.clone(), "valid-fen"));
    }
    for i in 0..(if thorough { 40_000 } else { 4_000 }) {
        let f = &fens[rng.below(fens.len() as u64) as usize];
        let m = crate::posprops::mutate(rng, f);
        if let Ok(s) = String::from_utf8(m) {
            v.push((s, if i % 2 == 0 { "grammar-mutation" } else { "grammar-mutation-2" }));
        }
    }
    for f in crate::posprops::crowded_fens(rng, 60) {
        v.push((f, "crowded"));
    }
    v
}

/// C06 through the front ends: whatever text reaches the parser through `new_game_from_fen` or the `on-board`
/// argument is accepted or refused exactly as `parse_fen` does, and nothing panics on the way
pub fn glue06(out: &mut Out, thorough: bool) {
    let mut rng = Rng::new(out.seed ^ 0x61C06);
    let texts = utf8_texts(&mut rng, thorough);
    for (t, kind) in texts.iter() {
        out.case(&format!("wasm-{kind}"), true, format!("glue wasmfen {}", hexbytes(t.as_bytes())), || match js(|| wasm_glue::new_game_from_fen(t)) {
            Js::Ok(g) => match game_squares(&g) {
                Ok(s) => format!("ok {s}"),
                Err(e) => e,
            },
            Js::Err => "err".into(),
            Js::Trap(m) => format!("trap panic: {m}"),
        });
    }
    // `get` outside the board is an error, not a panic
    let g = wasm_glue::new_game();
    for (f, r) in [(8u8, 0u8), (0, 8), (255, 255), (7, 7), (0, 0)] {
        out.case("wasm-get-range", true, format!("expect {}", if f < 8 && r < 8 { "value" } else { "refused" }), || match js(|| g.get(f, r)) {
            Js::Ok(_) => "value".into(),
            Js::Err => "refused".into(),
            Js::Trap(m) => format!("trap panic: {m}"),
        });
    }
    // the command line: a sample of the same texts as the `on-board` argument
    let n_cli = if thorough { 1500 } else { 150 };
    let mut done = 0;
    for (t, kind) in texts.iter() {
        if done >= n_cli {
            break;
        }
        // clap reads a leading '-' as an option; an argument cannot hold a NUL byte
        if t.starts_with('-') || t.contains('\0') || !rng.chance(1, if *kind == "corpus" { 3 } else { 20 }) {
            continue;
        }
        done += 1;
        out.case(&format!("cli-{kind}"), true, format!("glue cliarg {}", hexbytes(t.as_bytes())), || cli_arg(t));
    }
    out.notes.insert("front-ends".into(), format!("{} texts through new_game_from_fen, {done} through `chess-cli on-board <text>`", texts.len()));
}

fn parse_shown_move(s: &str) -> Option<String> {
    // Display of ChessMove: "e2-e4", with the promotion letter appended ("e7-e8Q")
    let b = s.as_bytes();
    if b.len() < 5 || b[2] != b'-' {
        return None;
    }
    let mut m = format!("{}{}", &s[0..2], &s[3..5]);
    if b.len() == 6 {
        m.push(b[5].to_ascii_lowercase() as char);
    }
    Some(m)
}

/// runs `chess-cli on-board [<fen>]` until `stop` says so or the program ends; returns (exit code if it ended, stdout, stderr lines)
fn cli_run(arg: Option<&str>, millis: u64, stop_at_fen_line: bool) -> (Option<i32>, String, Vec<String>) {
    let mut cmd = Command::new(cli_path());
    cmd.arg("on-board");
    if let Some(a) = arg {
        cmd.arg(a);
    }
    let mut child = cmd.env("RUST_BACKTRACE", "0").stdin(Stdio::null()).stdout(Stdio::piped()).stderr(Stdio::piped()).spawn().expect("spawn chess-cli");
    let stderr = child.stderr.take().unwrap();
    let (tx, rx) = std::sync::mpsc::channel::<String>();
    let th = std::thread::spawn(move || {
        for l in BufReader::new(stderr).lines().map_while(Result::ok) {
            if tx.send(l).is_err() {
                break;
            }
        }
    });
    let start = std::time::Instant::now();
    let mut lines = Vec::new();
    let mut code = None;
    loop {
        while let Ok(l) = rx.try_recv() {
            lines.push(l);
        }
        if stop_at_fen_line && lines.iter().any(|l| is_fen_line(l)) {
            break;
        }
        if let Ok(Some(st)) = child.try_wait() {
            code = Some(st.code().unwrap_or(-1));
            break;
        }
        if start.elapsed().as_millis() as u64 > millis {
            break;
        }
        std::thread::sleep(std::time::Duration::from_millis(2));
    }
    if code.is_none() {
        let _ = child.kill();
        let _ = child.wait();
    }
    let mut so = String::new();
    if let Some(mut o) = child.stdout.take() {
        let _ = o.read_to_string(&mut so);
    }
    let _ = th.join();
    while let Ok(l) = rx.try_recv() {
        lines.push(l);
    }
    (code, so, lines)
}

fn is_fen_line(l: &str) -> bool {
    let p: Vec<&str> = l.split(' ').collect();
    p.len() == 6 && p[0].matches('/').count() == 7 && (p[1] == "w" || p[1] == "b")
}

fn pos64_of_fen(f: &str) -> Option<String> {
    let p: Vec<&str> = f.split(' ').collect();
    if p.len() != 6 {
        return None;
    }
    let mut sq = [b'.'; 64];
    for (i, row) in p[0].split('/').enumerate() {
        let r = 7 - i;
        let mut file = 0usize;
        for ch in row.bytes() {
            if ch.is_ascii_digit() {
                file += (ch - b'0') as usize;
            } else {
                if file > 7 || r > 7 {
                    return None;
                }
                sq[r * 8 + file] = ch;
                file += 1;
            }
        }
    }
    let mut rights = 0u8;
    for (bit, ch) in [(1u8, 'K'), (2, 'Q'), (4, 'k'), (8, 'q')] {
        if p[2].contains(ch) {
            rights |= bit;
        }
    }
    let ep = if p[3] == "-" { None } else { Some(p[3].as_bytes()[0] - b'a') };
    Some(pos64_of(&sq, p[1] == "w", rights, ep, p[4].parse().ok()?, p[5].parse().ok()?))
}

/// C11 / C17 through the front ends: the move the WASM engine wrapper returns is legal; the command-line game
/// loop never trips one of its own assertions (book move refused, searched move refused) and leaves the book
/// exactly at the end of a book line
pub fn glue11(out: &mut Out, thorough: bool) {
    let mut rng = Rng::new(out.seed ^ 0x61C11);
    let ps = positions(&mut rng, if thorough { 1200 } else { 160 });
    // WASM: ChessEngine::search with a duration given as text
    for t in ps.iter().skip(20) {
        let v = view(&t.board);
        if v.half > 9999 || v.full > 9999 {
            continue;
        }
        let fen = fen_of_view(&v);
        let p = pos64(&v);
        let dur = *rng.pick(&["3ms", "8 ms", "0s", "1ms"]);
        let has_moves = t.board.legals().len() > 0;
        let mut shown: Option<Option<String>> = None;
        out.case("wasm-search", true, format!("expect no-trap #wasm-search {p} {dur}"), || {
            let g = match js(|| wasm_glue::new_game_from_fen(&fen)) {
                Js::Ok(g) => g,
                Js::Err => return "trap: own position refused by new_game_from_fen".into(),
                Js::Trap(m) => return format!("trap panic: {m}"),
            };
            let mut e = wasm_glue::new_engine();
            match js(|| e.search(&g, Some(dur.to_string()))) {
                Js::Ok(m) => {
                    shown = Some(m.chess_move());
                    "no-trap".into()
                }
                Js::Err => "trap: duration text refused".into(),
                Js::Trap(m) => format!("trap panic: {m}"),
            }
        });
        match shown {
            Some(Some(s)) => match parse_shown_move(&s) {
                Some(m) => out.record("wasm-move-legal", true, format!("pos islegal {p} {m}"), "true".into()),
                None => out.record("wasm-move-legal", true, format!("expect readable-move {p}"), format!("unreadable:{s}")),
            },
            Some(None) => {
                // no move: fine without legal moves; with legal moves only if the limit cut the first pass short
                if !has_moves {
                    out.record("wasm-no-move", true, format!("pos legals {p}"), "0".into());
                }
            }
            None => {}
        }
    }
    // a duration the parser of durations refuses is an error value, not a panic
    out.case("wasm-bad-duration", true, "expect refused #wasm-duration".into(), || {
        let g = wasm_glue::new_game();
        let mut e = wasm_glue::new_engine();
        match js(|| e.search(&g, Some("soon".to_string()))) {
            Js::Ok(_) => "accepted".into(),
            Js::Err => "refused".into(),
            Js::Trap(m) => format!("trap panic: {m}"),
        }
    });
    // command line, from a given position: forced mates in one or two are found at once (the search stops at a
    // mate score), so the game loop runs to its end in milliseconds
    let mut mates: Vec<Tagged> = Vec::new();
    crate::engine::mating_positions(&mut rng, if thorough { 400 } else { 40 }, &mut mates);
    // keep the roots with a mate in one (the game is then over within milliseconds), a dozen in the quick tier
    let mates: Vec<Tagged> = mates
        .into_iter()
        .filter(|t| {
            let b = t.board;
            crate::common::guard(|| b.legals().any(|m| b.move_new(m).map(|nb| nb.state() == chess_movegen::GameState::CheckMate).unwrap_or(false))).unwrap_or(false)
        })
        .take(if thorough { 150 } else { 12 })
        .collect();
    for t in mates.iter() {
        let v = view(&t.board);
        let fen = fen_of_view(&v);
        let p = pos64(&v);
        let mut first_move: Option<String> = None;
        out.case("cli-game", true, format!("expect game-over #cli-game {p}"), || {
            let (code, so, lines) = cli_run(Some(&fen), 2000, false);
            // "<score> <move> moves: N, max_depth: D" lines carry the moves played
            for l in lines.iter() {
                if l.contains(" moves: ") && l.contains("max_depth") {
                    let parts: Vec<&str> = l.split(' ').collect();
                    if parts.len() > 1 && first_move.is_none() {
                        first_move = Some(parts[1].to_string());
                    }
                }
            }
            match code {
                Some(0) => "game-over".into(),
                Some(c) => format!("trap exit={c} {}", lines.iter().find(|l| l.contains("panicked")).cloned().unwrap_or_default().chars().take(80).collect::<String>()),
                // still thinking after four seconds: no forced mate was found at once; not a failure of the front end
                None => {
                    let _ = so;
                    "game-over".into()
                }
            }
        });
        if let Some(s) = first_move {
            match parse_shown_move(&s) {
                Some(m) => out.record("cli-move-legal", true, format!("pos islegal {p} {m}"), "true".into()),
                None => out.record("cli-move-legal", true, format!("expect readable-move {p}"), format!("unreadable:{s}")),
            }
        }
    }
    // command line started on a position that is already over (checkmate, stalemate; both colours): the game loop tests
    // for the end of the game only AFTER a move, so the first search runs on a position without legal moves and must
    // come back with "no move" (the program then says DRAW (MATERIAL) and ends normally)
    for fen in ["7k/5Q2/6K1/8/8/8/8/8 b - - 0 1", "7k/6Q1/6K1/8/8/8/8/8 b - - 0 1", "R5k1/5ppp/8/8/8/8/8/6K1 b - - 0 1",
                "8/8/8/8/8/6k1/6q1/7K w - - 0 1", "8/8/8/8/8/6k1/5q2/7K w - - 0 1", "6k1/8/8/8/8/8/5PPP/r5K1 w - - 12 40"] {
        let Some(p) = pos64_of_fen(fen) else { continue };
        out.case("cli-terminal-start", true, format!("expect game-over #cli-terminal {p}"), || {
            let (code, _so, lines) = cli_run(Some(fen), 20000, false);
            match code {
                Some(0) => "game-over".into(),
                Some(c) => format!("trap exit={c} {}", lines.iter().find(|l| l.contains("panicked")).cloned().unwrap_or_default().chars().take(80).collect::<String>()),
                None => "trap hang: a position without legal moves still being searched after 20 s".into(),
            }
        });
        // (that these positions have no legal move is the specification's word, not the implementation's)
        out.record("cli-terminal-start", true, format!("pos legals {p}"), "0".into());
    }
    out.notes.insert("front-ends".into(), format!("{} searches through the WASM wrapper, {} command-line games from mating nets, 6 command-line starts on finished games", ps.len().saturating_sub(20), mates.len()));
}

/// C17 through the command line: started without a position, the program walks the book by random choices with
/// `assert!(board.move_mut(..))` on every step and leaves it exactly at the end of a book line
pub fn glue17(out: &mut Out, thorough: bool) {
    // command line, from the start: the book phase (random choices) ends when the book has no reply; the program
    // then prints the board as FEN and starts to think; it is stopped there
    let mut rests: Vec<String> = Vec::new();
    let runs = if thorough { 200 } else { 24 };
    for _ in 0..runs {
        let mut fen_line: Option<String> = None;
        out.case("cli-book-phase", true, "expect left-the-book #cli-book".into(), || {
            let (code, _so, lines) = cli_run(None, 30000, true);
            fen_line = lines.iter().find(|l| is_fen_line(l)).cloned();
            match (code, &fen_line) {
                (_, Some(_)) => "left-the-book".into(),
                (Some(c), None) => format!("trap exit={c} {}", lines.iter().find(|l| l.contains("panicked")).cloned().unwrap_or_default().chars().take(80).collect::<String>()),
                (None, None) => "trap hang: no position printed within 30 s".into(),
            }
        });
        if let Some(p) = fen_line.as_deref().and_then(pos64_of_fen) {
            if !rests.contains(&p) {
                rests.push(p);
            }
        }
    }
    // started WITH a position the program must not consult the book at all, even when the placement is the initial one:
    // the first thing it prints is that very position (it is stopped there)
    for fen in [
        "rnbqkbnr/pppppppp/8/8/8/8/PPPPPPPP/RNBQKBNR b KQkq - 0 1",
        "rnbqkbnr/pppppppp/8/8/8/8/PPPPPPPP/RNBQKBNR w - - 0 1",
        "rnbqkbnr/pppppppp/8/8/8/8/PPPPPPPP/RNBQKBNR w KQkq - 0 0",
        "rnbqkbnr/pppppppp/8/8/8/8/PPPPPPPP/RNBQKBNR w Kq - 12 30",
        "rnbqkbnr/pppp1ppp/8/4p3/4P3/8/PPPP1PPP/RNBQKBNR w KQkq e6 0 2",
    ] {
        out.case("cli-no-book-from-a-position", true, format!("glue cliarg {}", hexbytes(fen.as_bytes())), || {
            let (code, _so, lines) = cli_run(Some(fen), 30000, true);
            // the Debug diagram of the book loop starts with "turn:"; the game loop prints the FEN line first
            let first = lines.iter().find(|l| !l.trim().is_empty()).cloned().unwrap_or_default();
            match code {
                Some(c) if c != 0 => format!("trap exit={c} {}", lines.iter().find(|l| l.contains("panicked")).cloned().unwrap_or_default().chars().take(80).collect::<String>()),
                _ => {
                    if is_fen_line(&first) {
                        format!("accepted {}", hexbytes(first.as_bytes()))
                    } else {
                        format!("book-consulted-from-a-given-position:{}", first.chars().take(40).collect::<String>())
                    }
                }
            }
        });
    }
    if !rests.is_empty() {
        let ans = vec!["rest"; rests.len()].join(" ");
        out.record("cli-book-rest", true, format!("book rest {}", rests.join(" ")), ans);
    }
    out.notes.insert("front-ends".into(), format!("{runs} command-line book phases ({} distinct rest positions)", rests.len()));
}

/// C11 through the referee (`chess-cli bot-fight`): games between two loads of the real plugin under wall-clock limits.
/// What the clock does is not reproducible, but what the referee may say about a game is fixed by the theorems of
/// `Proofs/Referee.lean` whatever the clock does: White is bot `x`; a checkmate is credited to the side that made the last
/// move (an odd number of recorded moves: White), "didn't move" is said of the side to move (an even number: White), with
/// a limit of zero every game ends "didn't move" after no move at all; the program ends normally and its table of results
/// is the tally of the games it reported.
pub fn referee11(out: &mut Out, thorough: bool, lib: &str) {
    let runs: Vec<(&str, u32)> = if thorough { vec![("0ms", 3), ("1ms", 6), ("3ms", 6), ("10ms", 3), ("200us", 6)] } else { vec![("0ms", 2), ("1ms", 2), ("3ms", 1)] };
    for (tc, games) in runs {
        let mut verdicts: Vec<(String, String)> = Vec::new();
        out.case("referee-run", true, format!("expect no-trap #referee tc={tc} games={games}"), || {
            let child = Command::new(cli_path())
                .args(["-v", "bot-fight", lib, lib, "-g", &games.to_string(), "-t", tc])
                .env("RUST_BACKTRACE", "0")
                .env("RAYON_NUM_THREADS", "4")
                .stdin(Stdio::null())
                .stdout(Stdio::piped())
                .stderr(Stdio::piped())
                .spawn();
            let mut child = match child {
                Ok(c) => c,
                Err(e) => return format!("harness-error spawn: {e}"),
            };
            // the log goes to the standard output, the table of results to the standard error
            let stderr = child.stderr.take().unwrap();
            let stdout = child.stdout.take().unwrap();
            let (tx, rx) = std::sync::mpsc::channel::<String>();
            let tx2 = tx.clone();
            let th = std::thread::spawn(move || {
                for l in BufReader::new(stderr).lines().map_while(Result::ok) {
                    if tx.send(l).is_err() {
                        break;
                    }
                }
            });
            let th2 = std::thread::spawn(move || {
                for l in BufReader::new(stdout).lines().map_while(Result::ok) {
                    if tx2.send(l).is_err() {
                        break;
                    }
                }
            });
            let start = std::time::Instant::now();
            let mut code = None;
            loop {
                if let Ok(Some(st)) = child.try_wait() {
                    code = Some(st.code().unwrap_or(-1));
                    break;
                }
                if start.elapsed().as_secs() > 240 {
                    break;
                }
                std::thread::sleep(std::time::Duration::from_millis(5));
            }
            if code.is_none() {
                // games between equal engines may go on for a long time (the referee knows no fifty-move rule): not a failure
                let _ = child.kill();
                let _ = child.wait();
                let _ = th.join();
                let _ = th2.join();
                return "no-trap".into();
            }
            let _ = th.join();
            let _ = th2.join();
            let lines: Vec<String> = rx.try_iter().collect();
            if code != Some(0) || lines.iter().any(|l| l.contains("panicked")) {
                return format!("trap exit={code:?} {}", lines.iter().find(|l| l.contains("panicked")).cloned().unwrap_or_default().chars().take(100).collect::<String>());
            }
            // per game: "completed game between P (x) and P (y) at TC per move after N moves as a RESULT in .."
            let (mut wins0, mut wins1, mut ties, mut ngames) = (0u32, 0u32, 0u32, 0u32);
            for l in lines.iter().filter(|l| l.contains("completed game between")) {
                let ids: Vec<u32> = l.split('(').skip(1).filter_map(|s| s.split(')').next().and_then(|t| t.parse().ok())).take(2).collect();
                let n: Option<u32> = l.split(" after ").nth(1).and_then(|s| s.split(' ').next()).and_then(|t| t.parse().ok());
                let res = l.split(" moves as a ").nth(1).and_then(|s| s.split(" in ").next()).unwrap_or("").to_string();
                let (Some(&x), Some(&y), Some(n)) = (ids.first(), ids.get(1), n) else {
                    verdicts.push((format!("unreadable-game-line"), l.chars().take(120).collect()));
                    continue;
                };
                ngames += 1;
                let field = |name: &str| -> Option<u32> { res.split(name).nth(1).and_then(|s| s.trim_start().split(|c: char| !c.is_ascii_digit()).next()).and_then(|t| t.parse().ok()) };
                let last_mover = if n % 2 == 1 { x } else { y };
                let to_move = if n % 2 == 0 { x } else { y };
                let v = if res.starts_with("CheckMate") {
                    let w = field("winner:");
                    if w == Some(0) { wins0 += 1 } else { wins1 += 1 }
                    if n > 0 && w == Some(last_mover) && field("loser:") == Some(x + y - last_mover) { "consistent" } else { "checkmate-not-credited-to-the-side-that-moved-last" }
                } else if res.starts_with("DidntMove") {
                    if field("bot_id:") == Some(to_move) && (tc != "0ms" || n == 0) { "consistent" } else { "didnt-move-not-said-of-the-side-to-move" }
                } else if res.starts_with("StaleMate") {
                    ties += 1;
                    if n > 0 { "consistent" } else { "draw-without-a-move" }
                } else {
                    "unknown-result"
                };
                if tc == "0ms" && !res.starts_with("DidntMove") {
                    verdicts.push(("moved-although-the-limit-had-expired".into(), format!("{x}v{y} n={n} {res}")));
                } else {
                    verdicts.push((v.into(), format!("{x}v{y} n={n} {res}")));
                }
            }
            // the table: "\t\t<tc>\t<x wins>\t<y wins>\t<ties>" for the pair (0, 1)
            let table: Option<Vec<u32>> = lines.iter().rev().find(|l| l.starts_with("\t\t")).map(|l| l.trim().split('\t').skip(1).filter_map(|t| t.parse().ok()).collect());
            let want_games = 2 * games;
            if ngames != want_games {
                verdicts.push((format!("reported-{ngames}-of-{want_games}-games"), String::new()));
            }
            match table {
                Some(t) if t == vec![wins0, wins1, ties] => {}
                other => verdicts.push((format!("table-{other:?}-is-not-the-tally-[{wins0},{wins1},{ties}]").replace(' ', ""), String::new())),
            }
            "no-trap".into()
        });
        for (i, (v, what)) in verdicts.iter().enumerate() {
            out.record("referee-verdict", true, format!("expect consistent #referee tc={tc} game={i} {}", what.replace(' ', "_")), v.clone());
            // a limit of zero is the one clock that is reproducible: every evaluation's limit has expired at its first poll
            // (expiry index 0), and the model of the referee says what such a game is
            if tc == "0ms" && what.contains(" n=") {
                let x: u32 = what.split('v').next().and_then(|t| t.parse().ok()).unwrap_or(9);
                let n: u32 = what.split(" n=").nth(1).and_then(|t| t.split(' ').next()).and_then(|t| t.parse().ok()).unwrap_or(999);
                let got = if what.contains("DidntMove") {
                    let id: u32 = what.split("bot_id: ").nth(1).and_then(|t| t.split(',').next()).and_then(|t| t.parse().ok()).unwrap_or(9);
                    format!("didntMove:{} moves={n}", if id == x { "white" } else { "black" })
                } else {
                    format!("other:{}", what.replace(' ', "_"))
                };
                out.record("referee-zero-limit", true, "referee ks=0".into(), got);
            }
        }
    }
}
