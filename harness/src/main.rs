//! Correspondence / oracle harness: runs the real crates of /repo in-process and writes, for every
//! case, one request line (`req.txt`, fed to the Lean driver `chessdrv`) and the implementation's
//! answer in the same syntax (`impl.txt`).  `check` compares the streams.
mod common;
mod small;
mod tables;
mod position;
mod posprops;
mod engine;
mod glue;

use common::Out;

fn main() {
    let args: Vec<String> = std::env::args().collect();
    if args.len() < 5 {
        eprintln!("usage: harness <stream> <quick|thorough> <seed> <outdir>");
        std::process::exit(2);
    }
    if args[1] == "time-magic" {
        let t = std::time::Instant::now();
        let b = chess_lookup_generator::bishop_moves();
        eprintln!("bishop: {} entries, {} words, {:?}", b.entries.len(), b.data.len(), t.elapsed());
        if args[2] == "rook" {
            let t = std::time::Instant::now();
            let r = chess_lookup_generator::rook_moves();
            eprintln!("rook: {} entries, {} words, {:?}", r.entries.len(), r.data.len(), t.elapsed());
        }
        return;
    }
    if args[1] == "gen-epmates" {
        engine::gen_ep_mates(args[2].parse().unwrap(), args[3].parse().unwrap(), &args[4]);
        return;
    }
    if args[1] == "gen-materoots" {
        engine::gen_mate_roots(args[2].parse().unwrap(), args[3].parse().unwrap(), &args[4]);
        return;
    }
    if args[1] == "gen-lines" {
        engine::gen_lines(args[2].parse().unwrap(), args[3].parse().unwrap(), &args[4]);
        return;
    }
    if args[1] == "gen-epreply" {
        engine::gen_ep_only_reply(args[2].parse().unwrap(), args[3].parse().unwrap(), &args[4]);
        return;
    }
    let stream = args[1].as_str();
    let thorough = args[2] == "thorough";
    let seed: u64 = args[3].parse().unwrap_or(0);
    std::panic::set_hook(Box::new(|_| {}));
    common::set_ctx_dir(&args[4]);
    let mut out = Out::new(&args[4], seed);
    match stream {
        "c14" => small::c14(&mut out, thorough),
        "c16" => small::c16(&mut out, thorough),
        "c18" => small::c18(&mut out, thorough),
        "c19" => small::c19(&mut out, thorough),
        "c20" => small::c20(&mut out, thorough),
        "c09" => tables::c09(&mut out, thorough),
        "c08" => tables::c08(&mut out, thorough),
        "c04keys" => tables::c04keys(&mut out, thorough),
        "c17" => tables::c17(&mut out, thorough),
        "c01" => posprops::c01(&mut out, thorough),
        "c02" => posprops::c02(&mut out, thorough),
        "c03" => posprops::c03(&mut out, thorough),
        "c04" => posprops::c04(&mut out, thorough),
        "c05" => posprops::c05(&mut out, thorough),
        "c06" => posprops::c06(&mut out, thorough),
        "c07" => posprops::c07(&mut out, thorough),
        "c10" => posprops::c10(&mut out, thorough),
        "c11" => engine::c11(&mut out, thorough),
        "c12" => engine::c12(&mut out, thorough),
        "c13" => engine::c13(&mut out, thorough),
        "glue06" => glue::glue06(&mut out, thorough),
        "glue11" => glue::glue11(&mut out, thorough),
        "glue17" => glue::glue17(&mut out, thorough),
        "bookgen" => tables::bookgen(&mut out, thorough),
        "magicgen" => tables::magicgen(&mut out, thorough),
        "referee11" => glue::referee11(&mut out, thorough, args.get(5).map(|s| s.as_str()).unwrap_or("")),
        "bot11" => engine::bot11(&mut out, thorough, args.get(5).map(|s| s.as_str()).unwrap_or("")),
        "c15" => engine::c15(&mut out, thorough, args.get(5).map(|s| s.as_str()).unwrap_or("")),
        _ => {
            eprintln!("unknown stream {stream}");
            std::process::exit(2);
        }
    }
    out.finish();
}
