//! Reading positions out of the implementation (public accessors + `Debug` text only), the
//! harness's own FEN writer, and the position generators shared by C01–C07, C10–C13, C15.
use crate::common::Rng;
use chess_bitboard::{BitBoard, Color, Piece, Pos, PromotionPiece};
use chess_movegen::{Board, ChessMove};

#[derive(Clone, Debug, PartialEq, Eq)]
pub struct View {
    pub squares: [u8; 64],
    pub white_to_move: bool,
    pub rights: u8,
    pub ep: Option<u8>,
    pub half: u16,
    pub full: u16,
    pub pz: u64,
    pub z: u64,
    pub pinned: u64,
    pub checkers: u64,
}

pub fn piece_char(c: Color, p: Piece) -> u8 {
    let ch = match p {
        Piece::Pawn => b'p',
        Piece::Knight => b'n',
        Piece::Bishop => b'b',
        Piece::Rook => b'r',
        Piece::Queen => b'q',
        Piece::King => b'k',
    };
    if c == Color::White {
        ch.to_ascii_uppercase()
    } else {
        ch
    }
}

/// everything observable about a board: squares through `raw().get`, turn and clocks through
/// their accessors, `zobrist()`; rights, e.p. file, the incrementally kept piece hash and the
/// pinned (`#`) / checkers (`*`) marks only exist in the `Debug` text
pub fn view(b: &Board) -> View {
    let mut squares = [b'.'; 64];
    for i in 0..64u8 {
        let p = Pos::from_u8(i).unwrap();
        if let Some((c, pc)) = b.raw().get(p) {
            squares[i as usize] = piece_char(c, pc);
        }
    }
    let dbg = format!("{b:?}");
    let mut rights = 0u8;
    let mut ep = None;
    let mut pz = 0u64;
    let mut pinned = 0u64;
    let mut checkers = 0u64;
    let mut in_board = false;
    for line in dbg.lines() {
        if let Some(r) = line.strip_prefix("castle rights: ") {
            for ch in r.chars() {
                match ch {
                    'K' => rights |= 1,
                    'Q' => rights |= 2,
                    'k' => rights |= 4,
                    'q' => rights |= 8,
                    _ => {}
                }
            }
        } else if let Some(r) = line.strip_prefix("en-passant: ") {
            let ch = r.trim().as_bytes()[0];
            ep = Some(ch.to_ascii_lowercase() - b'a');
        } else if let Some(r) = line.strip_prefix("move zobrist: ") {
            pz = r.trim().parse().unwrap();
        } else if line.starts_with("board:") {
            in_board = true;
        } else if in_board {
            let bytes = line.as_bytes();
            if bytes.len() >= 17 && (b'1'..=b'8').contains(&bytes[0]) {
                let rank = bytes[0] - b'1';
                for f in 0..8u8 {
                    let mark = bytes[1 + 2 * f as usize];
                    let sq = rank * 8 + f;
                    if mark == b'#' {
                        pinned |= 1 << sq;
                    } else if mark == b'*' {
                        checkers |= 1 << sq;
                    }
                }
            }
        }
    }
    View {
        squares,
        white_to_move: b.turn() == Color::White,
        rights,
        ep,
        half: b.half_move_clock(),
        full: b.full_move_clock(),
        pz,
        z: b.zobrist(),
        pinned,
        checkers,
    }
}

pub fn pos64_of(squares: &[u8; 64], white: bool, rights: u8, ep: Option<u8>, half: u16, full: u16) -> String {
    format!(
        "{}:{}:{:x}:{}:{}:{}",
        std::str::from_utf8(squares).unwrap(),
        if white { "w" } else { "b" },
        rights,
        match ep {
            Some(f) => ((b'a' + f) as char).to_string(),
            None => "-".to_string(),
        },
        half,
        full
    )
}

pub fn pos64(v: &View) -> String {
    pos64_of(&v.squares, v.white_to_move, v.rights, v.ep, v.half, v.full)
}

pub fn derived(v: &View) -> String {
    format!("z={:x} pz={:x} pinned={:x} checkers={:x}", v.z, v.pz, v.pinned, v.checkers)
}

/// the harness's own FEN writer (independent of `Display for Board`, which is under test)
pub fn fen_of(squares: &[u8; 64], white: bool, rights: u8, ep: Option<u8>, half: u32, full: u32) -> String {
    let mut s = String::new();
    for r in (0..8).rev() {
        let mut empty = 0;
        for f in 0..8 {
            let c = squares[r * 8 + f];
            if c == b'.' {
                empty += 1;
            } else {
                if empty > 0 {
                    s.push_str(&empty.to_string());
                    empty = 0;
                }
                s.push(c as char);
            }
        }
        if empty > 0 {
            s.push_str(&empty.to_string());
        }
        if r > 0 {
            s.push('/');
        }
    }
    s.push(' ');
    s.push(if white { 'w' } else { 'b' });
    s.push(' ');
    if rights == 0 {
        s.push('-');
    } else {
        for (bit, ch) in [(1, 'K'), (2, 'Q'), (4, 'k'), (8, 'q')] {
            if rights & bit != 0 {
                s.push(ch);
            }
        }
    }
    s.push(' ');
    match ep {
        Some(f) => {
            s.push((b'a' + f) as char);
            s.push(if white { '6' } else { '3' });
        }
        None => s.push('-'),
    }
    s.push_str(&format!(" {half} {full}"));
    s
}

pub fn fen_of_view(v: &View) -> String {
    fen_of(&v.squares, v.white_to_move, v.rights, v.ep, v.half as u32, v.full as u32)
}

pub fn mv_str(m: ChessMove) -> String {
    crate::small::show_move(m)
}

pub fn sorted_moves(ms: impl Iterator<Item = ChessMove>) -> String {
    let mut v: Vec<String> = ms.map(mv_str).collect();
    v.sort();
    if v.is_empty() {
        "0".to_string()
    } else {
        format!("{} {}", v.len(), v.join(" "))
    }
}

pub fn ordered_moves(ms: impl Iterator<Item = ChessMove>) -> String {
    let v: Vec<String> = ms.map(mv_str).collect();
    if v.is_empty() {
        "0".to_string()
    } else {
        format!("{} {}", v.len(), v.join(" "))
    }
}

pub fn all_triples() -> Vec<ChessMove> {
    let mut v = Vec::with_capacity(20480);
    for s in Pos::all() {
        for d in Pos::all() {
            for piece in crate::small::PROMOS {
                v.push(ChessMove { source: s, dest: d, piece });
            }
        }
    }
    v
}

// ------------------------------------------------------------------------------------ generators

pub struct Tagged {
    pub board: Board,
    pub tag: &'static str,
}

pub fn load_corpus() -> Vec<String> {
    let path = concat!(env!("CARGO_MANIFEST_DIR"), "/../corpus/fens.txt");
    std::fs::read_to_string(path)
        .map(|s| s.lines().map(|l| l.trim().to_string()).filter(|l| !l.is_empty() && !l.starts_with('#')).collect())
        .unwrap_or_default()
}

pub fn load_lines() -> Vec<(String, Vec<String>)> {
    let path = concat!(env!("CARGO_MANIFEST_DIR"), "/../corpus/lines.txt");
    std::fs::read_to_string(path)
        .map(|s| {
            s.lines()
                .map(|l| l.trim())
                .filter(|l| !l.is_empty() && !l.starts_with('#'))
                .filter_map(|l| {
                    let (f, m) = l.split_once(';')?;
                    Some((f.trim().to_string(), m.split_whitespace().map(|x| x.to_string()).collect()))
                })
                .collect()
        })
        .unwrap_or_default()
}

/// "e2e4" / "e7e8q"
pub fn parse_mv(s: &str) -> Option<ChessMove> {
    let b = s.as_bytes();
    if b.len() < 4 {
        return None;
    }
    let sq = |f: u8, r: u8| -> Option<Pos> {
        if (b'a'..=b'h').contains(&f) && (b'1'..=b'8').contains(&r) {
            Pos::from_u8((r - b'1') * 8 + (f - b'a'))
        } else {
            None
        }
    };
    let piece = match b.get(4) {
        Some(b'q') => Some(chess_bitboard::PromotionPiece::Queen),
        Some(b'r') => Some(chess_bitboard::PromotionPiece::Rook),
        Some(b'b') => Some(chess_bitboard::PromotionPiece::Bishop),
        Some(b'n') => Some(chess_bitboard::PromotionPiece::Knight),
        _ => None,
    };
    Some(ChessMove { source: sq(b[0], b[1])?, dest: sq(b[2], b[3])?, piece })
}

fn is_capture(b: &Board, m: ChessMove) -> bool {
    b.raw().get(m.dest).is_some()
}

/// random legal playout; move choice biased towards captures, checks, castling, double pawn
/// steps, promotions and king moves so that the rare rules are exercised
pub fn playout(rng: &mut Rng, start: Board, plies: usize, tag: &'static str, out: &mut Vec<Tagged>) {
    let mut b = start;
    for _ in 0..plies {
        crate::common::ctx(&format!("pos legals {}", pos64(&view(&b))));
        let Some(moves) = crate::common::guard(|| b.legals().collect::<Vec<ChessMove>>()) else { break };
        if moves.is_empty() {
            break;
        }
        let mut weights: Vec<u64> = Vec::with_capacity(moves.len());
        for &m in &moves {
            let pc = b.raw().get(m.source).map(|x| x.1);
            let mut w = 2;
            if is_capture(&b, m) {
                w += 6;
            }
            if m.piece.is_some() {
                w += 8;
            }
            if pc == Some(Piece::King) {
                w += 2;
                let d = (m.source as i16 - m.dest as i16).abs();
                if d == 2 {
                    w += 12;
                }
            }
            if pc == Some(Piece::Pawn) {
                let d = (m.source as i16 - m.dest as i16).abs();
                if d == 16 {
                    w += 6;
                }
                if d % 8 != 0 && !is_capture(&b, m) {
                    w += 20; // en passant
                }
            }
            if let Some(Some(nb)) = crate::common::guard(|| b.move_new(m)) {
                if nb.in_check() {
                    w += 5;
                }
            }
            weights.push(w);
        }
        let total: u64 = weights.iter().sum();
        let mut x = rng.below(total);
        let mut idx = 0;
        for (i, w) in weights.iter().enumerate() {
            if x < *w {
                idx = i;
                break;
            }
            x -= *w;
        }
        match crate::common::guard(|| b.move_new(moves[idx])) {
            Some(Some(nb)) => b = nb,
            _ => break,
        }
        out.push(Tagged { board: b, tag });
    }
}

fn place(sq: &mut [u8; 64], i: usize, c: u8) -> bool {
    if sq[i] == b'.' {
        sq[i] = c;
        true
    } else {
        false
    }
}

fn rand_piece(rng: &mut Rng, white: bool, allow_pawn: bool) -> u8 {
    let set: &[u8] = if allow_pawn { b"pnbrqpnbr" } else { b"nbrq" };
    let c = set[rng.below(set.len() as u64) as usize];
    if white {
        c.to_ascii_uppercase()
    } else {
        c
    }
}

fn try_parse(sq: &[u8; 64], white: bool, rights: u8, ep: Option<u8>, half: u32, full: u32) -> Option<Board> {
    let fen = fen_of(sq, white, rights, ep, half, full);
    crate::common::ctx(&format!("fen parse {}", crate::common::hexbytes(fen.as_bytes())));
    crate::common::guard(|| chess_movegen::fen::parse_fen(fen.as_bytes()).ok()).flatten()
}

fn clocks(rng: &mut Rng) -> (u32, u32) {
    let h = match rng.below(8) {
        0 => 99,
        1 => 100,
        2 => 98,
        3 => rng.below(9999) as u32,
        _ => rng.below(30) as u32,
    };
    let f = match rng.below(6) {
        0 => 9999,
        1 => 0,
        _ => 1 + rng.below(200) as u32,
    };
    (h, f)
}

/// positions built around a motif; rejected candidates are simply dropped (the parser under test
/// decides validity; C06 separately checks that decision against the specification)
pub fn constructed(rng: &mut Rng, n: usize, out: &mut Vec<Tagged>) {
    let mut made = 0;
    let mut attempts = 0;
    while made < n && attempts < n * 40 {
        attempts += 1;
        let mut sq = [b'.'; 64];
        let white = rng.chance(1, 2);
        let (half, full) = clocks(rng);
        let motif = rng.below(7);
        let mut rights = 0u8;
        let mut ep = None;
        let tag: &'static str;
        match motif {
            0 => {
                // sparse random: two kings and up to 10 men
                tag = "sparse";
                place(&mut sq, rng.below(64) as usize, b'K');
                place(&mut sq, rng.below(64) as usize, b'k');
                for _ in 0..rng.below(11) {
                    let w = rng.chance(1, 2);
                    let c = rand_piece(rng, w, true);
                    place(&mut sq, rng.below(64) as usize, c);
                }
            }
            1 => {
                // slider aligned with the king of the side to move, 0..2 blockers of either colour
                tag = "pin-check";
                let k = rng.below(64) as usize;
                place(&mut sq, k, if white { b'K' } else { b'k' });
                let dirs: [(i32, i32); 8] = [(0, 1), (0, -1), (1, 0), (-1, 0), (1, 1), (1, -1), (-1, 1), (-1, -1)];
                for _ in 0..(1 + rng.below(3)) {
                    let (df, dr) = dirs[rng.below(8) as usize];
                    let mut line = Vec::new();
                    let (mut f, mut r) = ((k % 8) as i32 + df, (k / 8) as i32 + dr);
                    while (0..8).contains(&f) && (0..8).contains(&r) {
                        line.push((r * 8 + f) as usize);
                        f += df;
                        r += dr;
                    }
                    if line.len() < 2 {
                        continue;
                    }
                    let far = 1 + rng.below(line.len() as u64 - 1) as usize;
                    let diag = df != 0 && dr != 0;
                    let slider = *rng.pick(if diag { &b"bq"[..] } else { &b"rq"[..] });
                    place(&mut sq, line[far], if white { slider } else { slider.to_ascii_uppercase() });
                    for _ in 0..rng.below(3) {
                        let at = line[rng.below(far as u64) as usize];
                        let w = rng.chance(1, 2);
                        let c = rand_piece(rng, w, true);
                        place(&mut sq, at, c);
                    }
                }
                place(&mut sq, rng.below(64) as usize, if white { b'k' } else { b'K' });
                for _ in 0..rng.below(6) {
                    let w = rng.chance(1, 2);
                    let c = rand_piece(rng, w, true);
                    place(&mut sq, rng.below(64) as usize, c);
                }
            }
            2 => {
                // en passant: enemy pawn that just double-stepped, own pawns beside it, sliders and the
                // own king on the rank / diagonals / file involved
                tag = "en-passant";
                let f = if rng.chance(1, 3) { *rng.pick(&[0usize, 7]) } else { rng.below(8) as usize };
                let (pr, tr) = if white { (4usize, 5usize) } else { (3usize, 2usize) };
                place(&mut sq, pr * 8 + f, if white { b'p' } else { b'P' });
                ep = Some(f as u8);
                if f > 0 && rng.chance(3, 4) {
                    place(&mut sq, pr * 8 + f - 1, if white { b'P' } else { b'p' });
                }
                if f < 7 && rng.chance(3, 4) {
                    place(&mut sq, pr * 8 + f + 1, if white { b'P' } else { b'p' });
                }
                // wrap-around bait: own pawns at the far edge of the capture rank and of the ranks next to it (a table or
                // shift that wraps across the board edge makes them "adjacent" to an a- or h-file marker)
                if rng.chance(1, 2) {
                    for e in [0usize, 7] {
                        if e != f && rng.chance(2, 3) {
                            place(&mut sq, pr * 8 + e, if white { b'P' } else { b'p' });
                        }
                    }
                    if rng.chance(1, 3) {
                        let r2 = if white { pr - 1 } else { pr + 1 };
                        place(&mut sq, r2 * 8 + *rng.pick(&[0usize, 7]), if white { b'P' } else { b'p' });
                    }
                }
                let _ = tr;
                // own king: often on the same rank, or on a diagonal/file through the involved squares
                let ksq = match rng.below(4) {
                    0 => pr * 8 + rng.below(8) as usize,
                    1 => rng.below(8) as usize * 8 + f,
                    _ => rng.below(64) as usize,
                };
                place(&mut sq, ksq, if white { b'K' } else { b'k' });
                // enemy sliders: often on the pawn rank
                for _ in 0..(1 + rng.below(3)) {
                    let s = match rng.below(3) {
                        0 => pr * 8 + rng.below(8) as usize,
                        _ => rng.below(64) as usize,
                    };
                    let c = *rng.pick(&b"rbqn"[..]);
                    place(&mut sq, s, if white { c } else { c.to_ascii_uppercase() });
                }
                place(&mut sq, rng.below(64) as usize, if white { b'k' } else { b'K' });
                for _ in 0..rng.below(4) {
                    let w = rng.chance(1, 2);
                    let c = rand_piece(rng, w, true);
                    place(&mut sq, rng.below(64) as usize, c);
                }
            }
            3 => {
                // promotion: own pawns on the seventh rank with capturable neighbours
                tag = "promotion";
                let (r7, r8) = if white { (6usize, 7usize) } else { (1usize, 0usize) };
                for _ in 0..(1 + rng.below(3)) {
                    let f = rng.below(8) as usize;
                    place(&mut sq, r7 * 8 + f, if white { b'P' } else { b'p' });
                    for df in [-1i32, 0, 1] {
                        let g = f as i32 + df;
                        if (0..8).contains(&g) && rng.chance(1, 2) {
                            let c = *rng.pick(&b"nbrq"[..]);
                            place(&mut sq, r8 * 8 + g as usize, if white { c } else { c.to_ascii_uppercase() });
                        }
                    }
                }
                place(&mut sq, rng.below(64) as usize, b'K');
                place(&mut sq, rng.below(64) as usize, b'k');
                for _ in 0..rng.below(5) {
                    let w = rng.chance(1, 2);
                    let c = rand_piece(rng, w, true);
                    place(&mut sq, rng.below(64) as usize, c);
                }
            }
            4 => {
                // castling: kings and rooks at home, every piece type aimed at the castling squares
                tag = "castling";
                place(&mut sq, 4, b'K');
                place(&mut sq, 60, b'k');
                for (s, c, bit) in [(0usize, b'R', 2u8), (7, b'R', 1), (56, b'r', 8), (63, b'r', 4)] {
                    if rng.chance(4, 5) {
                        place(&mut sq, s, c);
                        if rng.chance(4, 5) {
                            rights |= bit;
                        }
                    }
                }
                for _ in 0..rng.below(7) {
                    let w = rng.chance(1, 2);
                    let c = rand_piece(rng, w, true);
                    // bias towards ranks 1-3 / 6-8 so that the castling paths are attacked or blocked
                    let r = *rng.pick(&[0u64, 1, 2, 5, 6, 7, 3, 4]);
                    place(&mut sq, (r * 8 + rng.below(8)) as usize, c);
                }
            }
            5 => {
                // double check and contact checks around the king of the side to move
                tag = "double-check";
                let k = 9 + rng.below(46) as usize;
                place(&mut sq, k, if white { b'K' } else { b'k' });
                for _ in 0..2 {
                    let c = *rng.pick(&b"nbrqp"[..]);
                    let s = rng.below(64) as usize;
                    place(&mut sq, s, if white { c } else { c.to_ascii_uppercase() });
                }
                place(&mut sq, rng.below(64) as usize, if white { b'k' } else { b'K' });
                for _ in 0..rng.below(6) {
                    let w = rng.chance(1, 2);
                    let c = rand_piece(rng, w, true);
                    place(&mut sq, rng.below(64) as usize, c);
                }
            }
            _ => {
                // crowded: up to 16 men a side, pawns also on the back ranks (accepted though not reachable)
                tag = "crowded";
                place(&mut sq, rng.below(64) as usize, b'K');
                place(&mut sq, rng.below(64) as usize, b'k');
                for _ in 0..(10 + rng.below(22)) {
                    let w = rng.chance(1, 2);
                    let c = rand_piece(rng, w, true);
                    place(&mut sq, rng.below(64) as usize, c);
                }
            }
        }
        if let Some(b) = try_parse(&sq, white, rights, ep, half, full) {
            out.push(Tagged { board: b, tag });
            made += 1;
        }
    }
}

/// the shared position stream: corpus first, then playouts from the start and from corpus
/// positions, then constructed motifs
pub fn positions(rng: &mut Rng, n: usize) -> Vec<Tagged> {
    // the positions of the fixed lines come in addition to the `n` asked for
    let n = n + load_lines().iter().map(|l| l.1.len() + 1).sum::<usize>();
    let mut out = Vec::new();
    let corpus = load_corpus();
    let mut roots = Vec::new();
    for f in &corpus {
        if let Ok(b) = chess_movegen::fen::parse_fen(f.as_bytes()) {
            out.push(Tagged { board: b, tag: "corpus" });
            roots.push(b);
        }
    }
    out.push(Tagged { board: Board::standard(), tag: "standard" });
    // fixed lines that end in rare situations (corpus/lines.txt): the start and every position along the line
    for (fen, moves) in load_lines() {
        let Some(mut b) = crate::common::guard(|| chess_movegen::fen::parse_fen(fen.as_bytes()).ok()).flatten() else { continue };
        out.push(Tagged { board: b, tag: "corpus-line" });
        for m in moves {
            let Some(mv) = parse_mv(&m) else { break };
            match crate::common::guard(|| b.move_new(mv)).flatten() {
                Some(nb) => {
                    b = nb;
                    out.push(Tagged { board: b, tag: "corpus-line" });
                }
                None => break,
            }
        }
    }
    let target_play = out.len() + n * 45 / 100;
    while out.len() < target_play {
        let plies = 20 + rng.below(100) as usize;
        if rng.chance(1, 2) || roots.is_empty() {
            playout(rng, Board::standard(), plies, "play-from-start", &mut out);
        } else {
            let r = *rng.pick(&roots);
            playout(rng, r, plies.min(40), "play-from-corpus", &mut out);
        }
    }
    let mut cons = Vec::new();
    constructed(rng, n.saturating_sub(out.len()) * 2 / 3, &mut cons);
    // a short playout from some constructed positions reaches their neighbourhood by real moves
    let mut extra = Vec::new();
    for t in cons.iter() {
        if rng.chance(1, 3) {
            playout(rng, t.board, 3, "play-from-constructed", &mut extra);
        }
    }
    out.extend(cons);
    out.extend(extra);
    let fixed = corpus.len() + 1 + load_lines().iter().map(|l| l.1.len() + 1).sum::<usize>();
    out.truncate(n.max(fixed));
    out
}

/// what makes a position non-trivial for the position properties: a pin, a check, an e.p. marker,
/// a castling right, or a pawn about to promote
pub fn nontrivial(v: &View) -> bool {
    v.pinned != 0
        || v.checkers != 0
        || v.ep.is_some()
        || v.rights != 0
        || (0..8).any(|f| v.squares[48 + f] == b'P' || v.squares[8 + f] == b'p')
}

pub fn promo_of(c: u8) -> Option<PromotionPiece> {
    match c {
        b'n' => Some(PromotionPiece::Knight),
        b'b' => Some(PromotionPiece::Bishop),
        b'r' => Some(PromotionPiece::Rook),
        b'q' => Some(PromotionPiece::Queen),
        _ => None,
    }
}

pub fn bb(x: u64) -> BitBoard {
    BitBoard::from_u64(x)
}
