//! Streams for the position properties C01–C07 and C10.
use crate::common::{b2s, hex, hexbytes, Out, Rng};
use crate::position::*;
use chess_bitboard::{Color, File, Piece, Pos};
use chess_movegen::{Board, ChessMove};

fn n_positions(thorough: bool, quick: usize, deep: usize) -> usize {
    if thorough {
        deep
    } else {
        quick
    }
}

fn some_masks(rng: &mut Rng, b: &Board) -> Vec<u64> {
    let enemy = b[!b.turn()].to_u64();
    let all = b.raw().all().to_u64();
    let mut v = vec![enemy, !all, 1u64 << rng.below(64), rng.next(), rng.next() & rng.next()];
    if rng.chance(1, 4) {
        v.push(0);
    }
    v.truncate(2 + rng.below(3) as usize);
    v
}

// ------------------------------------------------------------------------------------------ C01

pub fn c01(out: &mut Out, thorough: bool) {
    let n = n_positions(thorough, 6_000, 150_000);
    let mut rng = Rng::new(out.seed ^ 0xC01);
    let mut ps = positions(&mut rng, n);
    // the fullest move lists there are: 16 mobile men and two en-passant capturers
    extremal(&mut rng, &mut ps, if thorough { 3_000 } else { 150 });
    // fixed corpus: en-passant captures that change three lines of the board at once (own king on the capture file,
    // lines through the vacated and the departure square)
    for f in crate::engine::load_ep_mates() {
        if let Some(b) = crate::common::guard(|| chess_movegen::fen::parse_fen(f.as_bytes()).ok()).flatten() {
            ps.push(Tagged { board: b, tag: "en-passant-mate-root" });
        }
    }
    let triples = all_triples();
    for (idx, t) in ps.iter().enumerate() {
        let b = t.board;
        let v = view(&b);
        let p = pos64(&v);
        let nt = nontrivial(&v);
        out.case(t.tag, nt, format!("pos legals {p}"), || sorted_moves(b.legals()));
        out.case(t.tag, nt, format!("pos legals.ord {p}"), || ordered_moves(b.legals()));
        for m in some_masks(&mut rng, &b) {
            out.case("masked", nt, format!("pos legals {p} {}", hex(m)), || sorted_moves(b.legals_masked(bb(m))));
        }
        // is_legal: every generated move, near misses (same squares, other promotion field), random triples
        let legal: Vec<ChessMove> = b.legals().collect();
        for &m in legal.iter().take(12) {
            out.case("islegal-generated", nt, format!("pos islegal {p} {}", mv_str(m)), || b2s(b.is_legal(m)).into());
            let alt = ChessMove { piece: if m.piece.is_some() { None } else { Some(chess_bitboard::PromotionPiece::Queen) }, ..m };
            out.case("islegal-promotion-field", nt, format!("pos islegal {p} {}", mv_str(alt)), || b2s(b.is_legal(alt)).into());
        }
        for _ in 0..8 {
            let m = *rng.pick(&triples);
            out.case("islegal-random", nt, format!("pos islegal {p} {}", mv_str(m)), || b2s(b.is_legal(m)).into());
        }
        // histories: the move set AFTER a move, against the successor the RULES prescribe (not the one the implementation
        // reports): a stale right, marker or cached set shows as a wrong move set one ply later.  All the rare moves and a
        // couple of ordinary ones from every position.
        let mut ordinary = 0;
        for &m in legal.iter() {
            let mover = b.raw().get(m.source).map(|x| x.1);
            let victim = b.raw().get(m.dest).map(|x| x.1);
            let (sf, df) = (m.source.to_u8() % 8, m.dest.to_u8() % 8);
            let (sr, dr) = (m.source.to_u8() / 8, m.dest.to_u8() / 8);
            let rare = m.piece.is_some()
                || (mover == Some(Piece::Pawn) && victim.is_none() && sf != df)
                || (mover == Some(Piece::Pawn) && (sr as i32 - dr as i32).abs() == 2)
                || (mover == Some(Piece::King) && v.rights != 0)
                || (mover == Some(Piece::Rook) && v.rights != 0)
                || (victim == Some(Piece::Rook) && v.rights != 0);
            if !rare {
                ordinary += 1;
                if ordinary > 2 {
                    continue;
                }
            }
            out.case("moves-after-a-move", nt, format!("pos legals.after {p} {}", mv_str(m)), || match b.move_new(m) {
                Some(nb) => sorted_moves(nb.legals()),
                None => "refused".into(),
            });
        }
        // all 20480 triples on a subsample
        if idx % (if thorough { 100 } else { 400 }) == 0 {
            for &m in &triples {
                out.case("islegal-all-triples", nt, format!("pos islegal {p} {}", mv_str(m)), || b2s(b.is_legal(m)).into());
            }
        }
    }
}

// ------------------------------------------------------------------------------------------ C02

fn successor(b: &Board, m: ChessMove) -> String {
    // the three checked operations must agree with each other
    let a = b.move_new(m);
    let mut c = *b;
    let ok_mut = c.move_mut(m);
    let mut d = Board::standard();
    let sentinel = view(&d);
    let ok_into = b.move_into(m, &mut d);
    match a {
        Some(nb) => {
            if !ok_mut || !ok_into {
                return "checked-operations-disagree".into();
            }
            let (va, vc, vd) = (view(&nb), view(&c), view(&d));
            if va != vc || va != vd {
                return "checked-operations-differ".into();
            }
            format!("ok {}", pos64(&va))
        }
        None => {
            if ok_mut || ok_into {
                return "checked-operations-disagree".into();
            }
            if view(&c) != view(b) || view(&d) != sentinel {
                return "refused-but-modified".into();
            }
            "refused".into()
        }
    }
}

/// moves offered to the checked operations that are built from the geometry of the position, NOT from what the
/// implementation generates (a legal move the generator forgot must still be accepted): every en-passant shaped
/// capture towards the marker, the four castlings, the king's eight steps, the pawns' pushes and captures onto the last
/// rank with and without a promotion piece
pub fn candidate_moves(v: &View) -> Vec<ChessMove> {
    let mut out = Vec::new();
    let white = v.white_to_move;
    let mk = |s: i32, d: i32, piece: Option<chess_bitboard::PromotionPiece>| ChessMove { source: Pos::from_u8(s as u8).unwrap(), dest: Pos::from_u8(d as u8).unwrap(), piece };
    if let Some(f) = v.ep {
        let (pr, tr) = if white { (4i32, 5i32) } else { (3, 2) };
        for df in [-1i32, 1] {
            let sf = f as i32 + df;
            if (0..8).contains(&sf) {
                out.push(mk(pr * 8 + sf, tr * 8 + f as i32, None));
            }
        }
        // ... and from every other own pawn on that rank, however far (a table of neighbouring files that wraps around
        // the edge of the board would let a pawn on the h-file capture towards the a-file)
        for sf in 0..8i32 {
            let c = v.squares[(pr * 8 + sf) as usize];
            let own_pawn = if white { c == b'P' } else { c == b'p' };
            if own_pawn && (sf - f as i32).abs() > 1 {
                out.push(mk(pr * 8 + sf, tr * 8 + f as i32, None));
            }
        }
    }
    let home = if white { 4 } else { 60 };
    out.push(mk(home, home + 2, None));
    out.push(mk(home, home - 2, None));
    for i in 0..64i32 {
        let c = v.squares[i as usize];
        let own = if white { c.is_ascii_uppercase() } else { c.is_ascii_lowercase() };
        if !own {
            continue;
        }
        let (f, r) = (i % 8, i / 8);
        if c.to_ascii_lowercase() == b'k' {
            for (df, dr) in [(-1, -1), (-1, 0), (-1, 1), (0, -1), (0, 1), (1, -1), (1, 0), (1, 1)] {
                let (g, q) = (f + df, r + dr);
                if (0..8).contains(&g) && (0..8).contains(&q) {
                    out.push(mk(i, q * 8 + g, None));
                }
            }
        }
        if c.to_ascii_lowercase() == b'p' && r == (if white { 6 } else { 1 }) {
            let q = if white { 7 } else { 0 };
            for df in [-1i32, 0, 1] {
                let g = f + df;
                if (0..8).contains(&g) {
                    out.push(mk(i, q * 8 + g, None));
                    out.push(mk(i, q * 8 + g, Some(chess_bitboard::PromotionPiece::Queen)));
                    out.push(mk(i, q * 8 + g, Some(chess_bitboard::PromotionPiece::Knight)));
                }
            }
        }
    }
    out
}

pub fn c02(out: &mut Out, thorough: bool) {
    let n = n_positions(thorough, 5_000, 120_000);
    let mut rng = Rng::new(out.seed ^ 0xC02);
    let ps = positions(&mut rng, n);
    let triples = all_triples();
    for t in ps.iter() {
        let b = t.board;
        let v = view(&b);
        let p = pos64(&v);
        let nt = nontrivial(&v);
        let legal: Vec<ChessMove> = b.legals().collect();
        for &m in &legal {
            out.case(t.tag, nt, format!("pos move {p} {}", mv_str(m)), || successor(&b, m));
            out.case("derived-after-move", nt, format!("pos move.derived {p} {}", mv_str(m)), || match b.move_new(m) {
                Some(nb) => derived(&view(&nb)),
                None => "refused".into(),
            });
        }
        for _ in 0..(if thorough { 40 } else { 12 }) {
            let m = *rng.pick(&triples);
            out.case("offered-random-triple", nt, format!("pos move {p} {}", mv_str(m)), || successor(&b, m));
        }
        for &m in legal.iter().take(6) {
            let alt = ChessMove { piece: if m.piece.is_some() { None } else { Some(chess_bitboard::PromotionPiece::Knight) }, ..m };
            out.case("offered-wrong-promotion-field", nt, format!("pos move {p} {}", mv_str(alt)), || successor(&b, alt));
        }
        for m in candidate_moves(&v) {
            out.case("offered-candidate", nt, format!("pos move {p} {}", mv_str(m)), || successor(&b, m));
        }
    }
}

// ------------------------------------------------------------------------------------------ C03 / C04

fn state_str(b: &Board) -> String {
    use chess_movegen::GameState::*;
    let s = match b.state() {
        CheckMate => "checkmate",
        StaleMate => "stalemate",
        Check => "check",
        Running => "running",
    };
    format!("incheck={} state={}", b2s(b.in_check()), s)
}

/// the position reached by playing moves vs the same position rebuilt from the harness's own text
fn same_as_rebuilt(b: &Board) -> String {
    let v = view(b);
    // the textual description carries at most four clock digits; a longer-running game is rebuilt
    // with the clocks it can carry and the clock-bearing renderings are then not compared
    let clocks_fit = v.half <= 9999 && v.full <= 9999;
    let fen = fen_of(&v.squares, v.white_to_move, v.rights, v.ep, (v.half as u32).min(9999), (v.full as u32).min(9999));
    let r = match chess_movegen::fen::parse_fen(fen.as_bytes()) {
        Ok(r) => r,
        Err(e) => return format!("rebuilt-rejected:{e:?}").replace(' ', ""),
    };
    if sorted_moves(b.legals()) != sorted_moves(r.legals()) {
        return "differs:legal-moves".into();
    }
    if b.in_check() != r.in_check() {
        return "differs:in_check".into();
    }
    if b.zobrist() != r.zobrist() {
        return "differs:zobrist".into();
    }
    if clocks_fit && format!("{b}") != format!("{r}") {
        return "differs:display".into();
    }
    if clocks_fit && format!("{b:?}") != format!("{r:?}") {
        return "differs:debug".into();
    }
    if !clocks_fit && (derived(&view(&r)) != derived(&v) || view(&r).squares != v.squares) {
        return "differs:derived-state".into();
    }
    if *b != r {
        return "differs:eq".into();
    }
    "same".into()
}

/// successors by the rare moves: every en-passant capture, and a sample of the castlings, promotions, double steps
/// and other captures, of every position given
fn special_successors(ps: &[Tagged], rng: &mut Rng, cap: usize) -> Vec<Tagged> {
    let mut extra: Vec<Tagged> = Vec::new();
    for t in ps.iter() {
        let b = t.board;
        for m in b.legals() {
            let mover = b.raw().get(m.source).map(|x| x.1);
            let quiet = b.raw().get(m.dest).is_none();
            let (sf, df) = (m.source.to_u8() % 8, m.dest.to_u8() % 8);
            let (sr, dr) = (m.source.to_u8() / 8, m.dest.to_u8() / 8);
            let is_ep = mover == Some(Piece::Pawn) && quiet && sf != df;
            let is_castle = mover == Some(Piece::King) && (sf as i32 - df as i32).abs() == 2;
            let is_double = mover == Some(Piece::Pawn) && (sr as i32 - dr as i32).abs() == 2;
            let keep = is_ep || ((is_castle || m.piece.is_some() || is_double || !quiet) && extra.len() < cap && rng.chance(1, 3));
            if keep {
                if let Some(nb) = b.move_new(m) {
                    extra.push(Tagged { board: nb, tag: if is_ep { "after-en-passant" } else { "after-special-move" } });
                }
            }
        }
    }
    extra
}

pub fn c03(out: &mut Out, thorough: bool) {
    let n = n_positions(thorough, 8_000, 200_000);
    let mut rng = Rng::new(out.seed ^ 0xC03);
    let mut ps = positions(&mut rng, n);
    // the rare moves are where incremental state goes stale: play every en-passant capture, and a sample of the
    // castlings, promotions, double steps and other captures, from every generated position (the constructed
    // motifs — sliders and kings on the lines an en-passant capture opens — are only given as positions otherwise)
    let extra = special_successors(&ps, &mut rng, if thorough { 200_000 } else { 12_000 });
    // status one move later, judged on the successor the rules prescribe: a clock that was not reset (or not
    // advanced) by the move shows as a wrong draw verdict even though every later report is self-consistent
    {
        let mut done = 0;
        let cap = if thorough { 60_000 } else { 4_000 };
        for t in ps.iter() {
            let b = t.board;
            let v = view(&b);
            if done >= cap {
                break;
            }
            let near_limit = (96..=100).contains(&v.half);
            let p = pos64(&v);
            for m in b.legals() {
                let mover = b.raw().get(m.source).map(|x| x.1);
                let special = m.piece.is_some() || (mover == Some(Piece::King) && v.rights != 0) || (mover == Some(Piece::Pawn) && near_limit);
                if special || (near_limit && rng.chance(1, 3)) || rng.chance(1, 60) {
                    done += 1;
                    out.case("status-after-a-move", true, format!("pos status.after {p} {}", mv_str(m)), || match b.move_new(m) {
                        Some(nb) => state_str(&nb),
                        None => "refused".into(),
                    });
                }
            }
        }
        // promotions and quiet moves with the clock just below the limit (forced grid)
        for &(half, fen) in &[(99u32, "8/P6k/8/8/8/8/8/K7"), (98, "8/P6k/8/8/8/8/8/K7"), (99, "k7/8/8/8/8/8/p6K/8"), (99, "4k3/8/8/8/8/8/8/R3K2R"), (99, "r3k2r/8/8/8/8/8/8/4K3")] {
            for white in [true, false] {
                let rights = if fen.contains("R3K2R") { 3 } else if fen.contains("r3k2r") { 12 } else { 0 };
                let txt = format!("{fen} {} {} - {half} 60", if white { "w" } else { "b" }, match rights { 3 => "KQ", 12 => "kq", _ => "-" });
                if let Some(b) = crate::common::guard(|| chess_movegen::fen::parse_fen(txt.as_bytes()).ok()).flatten() {
                    let p = pos64(&view(&b));
                    for m in b.legals() {
                        out.case("status-after-a-move-at-the-limit", true, format!("pos status.after {p} {}", mv_str(m)), || match b.move_new(m) {
                            Some(nb) => state_str(&nb),
                            None => "refused".into(),
                        });
                    }
                }
            }
        }
    }
    ps.extend(extra);
    for t in ps.iter() {
        let b = t.board;
        let v = view(&b);
        let p = pos64(&v);
        let nt = nontrivial(&v);
        out.case(t.tag, nt, format!("pos status {p}"), || state_str(&b));
        // incremental pin/check/hash state vs the model's from-scratch values
        out.case("incremental-vs-scratch", nt, format!("pos derived {p}"), || derived(&v));
        out.case("moved-vs-rebuilt", nt, format!("expect same {p}"), || same_as_rebuilt(&b));
    }
}

fn board_hash(x: &Board) -> u64 {
    use std::hash::{Hash, Hasher};
    let mut s = std::collections::hash_map::DefaultHasher::new();
    x.hash(&mut s);
    s.finish()
}

/// the board as played versus the board rebuilt from this harness's own FEN text of it
fn hash_rebuilt(b: &Board, v: &View) -> String {
    let fen = fen_of(&v.squares, v.white_to_move, v.rights, v.ep, (v.half as u32).min(9999), (v.full as u32).min(9999));
    match chess_movegen::fen::parse_fen(fen.as_bytes()) {
        Err(e) => format!("rebuilt-rejected:{e:?}").replace(' ', ""),
        Ok(r) if r != *b => "differs:eq".into(),
        Ok(r) if r.zobrist() != b.zobrist() => "differs:zobrist-of-equal-boards".into(),
        Ok(r) if board_hash(&r) != board_hash(b) => "differs:Hash-of-equal-boards".into(),
        Ok(_) => "same".into(),
    }
}

/// variants of the position that differ in exactly one component (one castling right, the e.p.
/// file, the side to move, one man removed) and are accepted by the parser must hash differently
fn hash_components(v: &View, z: u64) -> String {
    let try_variant = |squares: &[u8; 64], white: bool, rights: u8, ep: Option<u8>, what: &str| -> Option<String> {
        let fen = fen_of(squares, white, rights, ep, v.half.min(9999) as u32, v.full.min(9999) as u32);
        match chess_movegen::fen::parse_fen(fen.as_bytes()) {
            Ok(r) if r.zobrist() == z => Some(format!("same-hash:{what}")),
            _ => None,
        }
    };
    for bit in 0..4u8 {
        if v.rights & (1 << bit) != 0 {
            if let Some(e) = try_variant(&v.squares, v.white_to_move, v.rights & !(1 << bit), v.ep, &format!("without-right-bit-{bit}")) {
                return e;
            }
        }
    }
    if v.ep.is_some() {
        if let Some(e) = try_variant(&v.squares, v.white_to_move, v.rights, None, "without-ep-file") {
            return e;
        }
    } else if let Some(e) = try_variant(&v.squares, !v.white_to_move, v.rights, None, "other-side-to-move") {
        return e;
    }
    for s in 0..64 {
        let c = v.squares[s];
        if c != b'.' && c != b'k' && c != b'K' {
            let mut sq = v.squares;
            sq[s] = b'.';
            if let Some(e) = try_variant(&sq, v.white_to_move, v.rights, v.ep, &format!("without-man-on-{s}")) {
                return e;
            }
        }
    }
    "distinct".into()
}

pub fn c04(out: &mut Out, thorough: bool) {
    let n = n_positions(thorough, 8_000, 200_000);
    let mut rng = Rng::new(out.seed ^ 0xC04);
    let mut ps = positions(&mut rng, n);
    let extra = special_successors(&ps, &mut rng, if thorough { 100_000 } else { 5_000 });
    ps.extend(extra);
    for t in ps.iter() {
        let b = t.board;
        let v = view(&b);
        let p = pos64(&v);
        out.case(t.tag, nontrivial(&v), format!("pos derived {p}"), || derived(&v));
        // the incrementally maintained hash equals the hash of the same position built from scratch
        out.case("hash-incremental-vs-rebuilt", nontrivial(&v), format!("expect same {p} #hash-rebuilt"), || hash_rebuilt(&b, &v));
        // every component influences the hash: a position differing in exactly one component hashes differently
        out.case("hash-one-component", nontrivial(&v), format!("expect distinct {p} #hash-components"), || hash_components(&v, b.zobrist()));
    }
    // the successor written into a board that held something else (`move_into`, `move_unchecked_into`): same board, same hash
    {
        let pool: Vec<Board> = ps.iter().map(|t| t.board).collect();
        let mut done = 0;
        for t in ps.iter() {
            if done >= (if thorough { 40_000 } else { 3_000 }) {
                break;
            }
            let b = t.board;
            let p = pos64(&view(&b));
            let legal: Vec<ChessMove> = b.legals().collect();
            if legal.is_empty() || !rng.chance(1, 3) {
                continue;
            }
            let m = *rng.pick(&legal);
            let dirty = *rng.pick(&pool);
            done += 1;
            out.case("move-into-a-used-board", true, format!("expect same {p} {} #move-into", mv_str(m)), || {
                let Some(fresh) = b.move_new(m) else { return "differs:move_new-refused".into() };
                let mut o1 = dirty;
                if !b.move_into(m, &mut o1) {
                    return "differs:move_into-refused".into();
                }
                let mut o2 = dirty;
                unsafe { b.move_unchecked_into(m, &mut o2) };
                let (vf, v1, v2) = (view(&fresh), view(&o1), view(&o2));
                if v1 != vf {
                    return format!("differs:move_into:{}:{}", pos64(&v1), derived(&v1));
                }
                if v2 != vf {
                    return format!("differs:move_unchecked_into:{}:{}", pos64(&v2), derived(&v2));
                }
                if o1 != fresh || board_hash(&o1) != board_hash(&fresh) || o1.zobrist() != fresh.zobrist() {
                    return "differs:eq-or-hash".into();
                }
                "same".into()
            });
        }
    }
    // the hash of a built board depends on the assembled position only: refused placements and removals leave no trace
    for t in ps.iter() {
        let v = view(&t.board);
        if v.rights == 0 && rng.chance(1, 6) {
            let ops = builder_ops(&v, &mut rng, true);
            out.case("builder-hash", true, format!("build {}", ops.join(" ")), || run_builder(&ops));
        }
    }
    // transpositions: two independent moves of the side to move, with the same replies, in both orders
    let pairs = if thorough { 100_000 } else { 5_000 };
    let mut made = 0;
    let mut tries = 0;
    while made < pairs && tries < pairs * 30 {
        tries += 1;
        let b = ps[rng.below(ps.len() as u64) as usize].board;
        let ms: Vec<ChessMove> = b.legals().collect();
        if ms.len() < 2 {
            continue;
        }
        let (m1, m2) = (*rng.pick(&ms), *rng.pick(&ms));
        if m1 == m2 {
            continue;
        }
        let Some(b1) = b.move_new(m1) else { continue };
        let Some(b2) = b.move_new(m2) else { continue };
        let rs: Vec<ChessMove> = b1.legals().collect();
        if rs.is_empty() {
            continue;
        }
        let r1 = *rng.pick(&rs);
        let (Some(b12), Some(b21)) = (b1.move_new(r1).and_then(|x| x.move_new(m2)), b2.move_new(r1).and_then(|x| x.move_new(m1))) else { continue };
        if b12 != b21 {
            continue;
        }
        made += 1;
        let p = pos64(&view(&b12));
        out.case("transposition-pair", true, format!("expect same {p} via {} {} {} | {} {} {}", mv_str(m1), mv_str(r1), mv_str(m2), mv_str(m2), mv_str(r1), mv_str(m1)), || {
            use std::hash::{Hash, Hasher};
            let h = |x: &Board| {
                let mut s = std::collections::hash_map::DefaultHasher::new();
                x.hash(&mut s);
                s.finish()
            };
            if b12.zobrist() != b21.zobrist() {
                "differs:zobrist-of-equal-boards".into()
            } else if h(&b12) != h(&b21) {
                "differs:Hash-of-equal-boards".into()
            } else {
                "same".into()
            }
        });
        out.case("transposition-derived", true, format!("pos derived {p}"), || derived(&view(&b12)));
    }
    out.notes.insert("transpositions".into(), format!("{made} transposing move-order pairs"));
}

// ------------------------------------------------------------------------------------------ C05

fn parse_answer(bytes: &[u8]) -> String {
    match chess_movegen::fen::parse_fen(bytes) {
        Ok(b) => {
            let v = view(&b);
            format!("ok {} {}", pos64(&v), derived(&v))
        }
        Err(e) => format!("err {}", err_kind(&e)),
    }
}

fn err_kind(e: &chess_movegen::fen::ParseFenError) -> String {
    use chess_movegen::fen::ParseFenError::*;
    match e {
        InvalidPiece(..) => "InvalidPiece".into(),
        MissingPiece(..) => "MissingPiece".into(),
        MissingWhitespace(..) => "MissingWhitespace".into(),
        InvalidTurn(..) => "InvalidTurn".into(),
        MissingTurn => "MissingTurn".into(),
        FileOutOfBounds(..) => "FileOutOfBounds".into(),
        InvalidEnpassant { .. } => "InvalidEnpassant".into(),
        MissingEnpassant => "MissingEnpassant".into(),
        MissingCastleRights => "MissingCastleRights".into(),
        MissingHalfClock => "MissingHalfClock".into(),
        MissingFullClock => "MissingFullClock".into(),
        TrailingBytes => "TrailingBytes".into(),
        BoardValidation(v) => format!("BoardValidation({v:?})"),
    }
}

fn builder_ops(v: &View, rng: &mut Rng, noise: bool) -> Vec<String> {
    let mut ops = Vec::new();
    let mut order: Vec<usize> = (0..64).collect();
    for i in (1..64).rev() {
        order.swap(i, rng.below(i as u64 + 1) as usize);
    }
    ops.push(format!("t:{}", if v.white_to_move { "w" } else { "b" }));
    for &i in &order {
        let c = v.squares[i];
        if c != b'.' {
            let col = if c.is_ascii_uppercase() { "w" } else { "b" };
            let pc = match c.to_ascii_lowercase() {
                b'p' => 0,
                b'n' => 1,
                b'b' => 2,
                b'r' => 3,
                b'q' => 4,
                _ => 5,
            };
            ops.push(format!("p:{i}:{col}:{pc}"));
            if noise && rng.chance(1, 10) {
                // placing onto an occupied square is refused and changes nothing
                ops.push(format!("p:{i}:{}:{}", if rng.chance(1, 2) { "w" } else { "b" }, rng.below(6)));
            }
            if noise && rng.chance(1, 12) {
                // remove and put back
                ops.push(format!("r:{i}"));
                ops.push(format!("p:{i}:{col}:{pc}"));
            }
        } else if noise && rng.chance(1, 40) {
            ops.push(format!("r:{i}"));
        }
    }
    // castling rights cannot be set through the builder from outside the crate: `CastleRights`
    // is a public type in a private module, so `BoardBuilder::castle_rights` has no nameable argument
    ops.push(format!("e:{}", match v.ep { Some(f) => f.to_string(), None => "-".into() }));
    ops.push(format!("h:{}", v.half));
    ops.push(format!("f:{}", v.full));
    ops
}

fn run_builder(ops: &[String]) -> String {
    let mut bld = Board::builder();
    let mut marks = String::new();
    for op in ops {
        let parts: Vec<&str> = op.split(':').collect();
        match parts[0] {
            "t" => {
                bld.turn(if parts[1] == "w" { Color::White } else { Color::Black });
                marks.push('+');
            }
            "h" => {
                bld.half_move_clock(parts[1].parse().unwrap());
                marks.push('+');
            }
            "f" => {
                bld.full_move_clock(parts[1].parse().unwrap());
                marks.push('+');
            }
            "e" => {
                let f: Option<File> = if parts[1] == "-" { None } else { File::from_u8(parts[1].parse().unwrap()) };
                bld.enpassant(f);
                marks.push('+');
            }
            "p" => {
                let s = Pos::from_u8(parts[1].parse().unwrap()).unwrap();
                let c = if parts[2] == "w" { Color::White } else { Color::Black };
                let pc = Piece::from_u8(parts[3].parse().unwrap()).unwrap();
                marks.push(if bld.place(s, c, pc).is_ok() { '+' } else { '!' });
            }
            "r" => {
                bld.remove(Pos::from_u8(parts[1].parse().unwrap()).unwrap());
                marks.push('+');
            }
            _ => unreachable!(),
        }
    }
    match bld.build() {
        Ok(b) => {
            let v = view(&b);
            format!("{marks} ok {} {}", pos64(&v), derived(&v))
        }
        Err(e) => format!("{marks} err {e:?}"),
    }
}

pub fn c05(out: &mut Out, thorough: bool) {
    let n = n_positions(thorough, 8_000, 150_000);
    let mut rng = Rng::new(out.seed ^ 0xC05);
    let mut ps = positions(&mut rng, n);
    // force every rights subset x both marker colours x a clock grid through playable skeletons
    for rights in 0..16u8 {
        for &(half, full) in &[(0u32, 0u32), (0, 1), (7, 9999), (99, 50), (100, 1), (9999, 9999), (1234, 4321), (999, 1000), (1000, 999), (10, 100)] {
            let mut sq = [b'.'; 64];
            sq[4] = b'K';
            sq[60] = b'k';
            sq[0] = b'R';
            sq[7] = b'R';
            sq[56] = b'r';
            sq[63] = b'r';
            for (white, ep) in [(true, None), (false, None), (true, Some(3u8)), (false, Some(5u8))] {
                let mut s2 = sq;
                if let Some(f) = ep {
                    if white {
                        s2[32 + f as usize] = b'p';
                        s2[32 + f as usize + 1] = b'P';
                    } else {
                        s2[24 + f as usize] = b'P';
                        s2[24 + f as usize - 1] = b'p';
                    }
                }
                // the request is formed from the grid itself (not from what the implementation's parser lets through):
                // a rejected grid position is a failing input, not a silently smaller grid
                let txt = fen_of(&s2, white, rights, ep, half, full);
                out.case("rights-marker-clock-grid", true, format!("fen roundtrip {}", pos64_of(&s2, white, rights, ep, half as u16, full as u16)), || parse_answer(txt.as_bytes()));
                if let Some(b) = crate::common::guard(|| chess_movegen::fen::parse_fen(txt.as_bytes()).ok()).flatten() {
                    ps.push(Tagged { board: b, tag: "rights-marker-clock-grid" });
                }
            }
        }
    }
    let extra = special_successors(&ps, &mut rng, if thorough { 60_000 } else { 3_000 });
    ps.extend(extra);
    for t in ps.iter() {
        let b = t.board;
        let v = view(&b);
        let p = pos64(&v);
        let nt = nontrivial(&v);
        // the board as played and the board read back from its own text: same hash, same derived state
        if v.half <= 9999 && v.full <= 9999 {
            out.case("played-vs-read-back", nt, format!("expect same {p} #read-back"), || match chess_movegen::fen::parse_fen(format!("{b}").as_bytes()) {
                Ok(r) => {
                    let rv = view(&r);
                    if rv != v {
                        format!("differs:{}:{}", pos64(&rv), derived(&rv))
                    } else if r != b || r.zobrist() != b.zobrist() {
                        "differs:eq-or-zobrist".into()
                    } else {
                        "same".into()
                    }
                }
                Err(e) => format!("differs:rejected:{}", err_kind(&e)),
            });
        }
        // board -> text (exact bytes must match the model's writer)
        out.case("display", nt, format!("fen show {p}"), || hexbytes(format!("{b}").as_bytes()));
        // board -> text -> board
        if v.half <= 9999 && v.full <= 9999 {
            out.case(t.tag, nt, format!("fen roundtrip {p}"), || parse_answer(format!("{b}").as_bytes()));
            // canonical text -> board -> text
            let fen = fen_of_view(&v);
            out.case("reprint-canonical", nt, format!("fen reprint {}", hexbytes(fen.as_bytes())), || match chess_movegen::fen::parse_fen(fen.as_bytes()) {
                Ok(r) => hexbytes(format!("{r}").as_bytes()),
                Err(e) => format!("err {}", err_kind(&e)),
            });
            // FromStr is the same function
            out.case("fromstr", nt, format!("expect same {p}"), || match fen.parse::<Board>() {
                Ok(r) if view(&r) == view(&chess_movegen::fen::parse_fen(fen.as_bytes()).unwrap()) => "same".into(),
                _ => "differs:from_str".into(),
            });
        }
        // builder = parser for the same position
        if v.rights == 0 && rng.chance(1, 2) {
            let noise = rng.chance(1, 2);
            let ops = builder_ops(&v, &mut rng, noise);
            out.case("builder", nt, format!("build {}", ops.join(" ")), || run_builder(&ops));
        }
    }
    // the three constructors of the start position
    let start = "rnbqkbnr/pppppppp/8/8/8/8/PPPPPPPP/RNBQKBNR w KQkq - 0 0";
    let sv = view(&Board::standard());
    out.case("standard-constructor", true, format!("fen parse {}", hexbytes(start.as_bytes())), || {
        format!("ok {} {}", pos64(&sv), derived(&sv))
    });
    out.case("standard-constructor", true, format!("fen parse {}", hexbytes(start.as_bytes())), || parse_answer(start.as_bytes()));
    // the builder cannot set castling rights from outside the crate (see builder_ops), so it is
    // compared with the parser on the start placement without rights
    let norights = "rnbqkbnr/pppppppp/8/8/8/8/PPPPPPPP/RNBQKBNR w - - 0 0";
    let nv = view(&chess_movegen::fen::parse_fen(norights.as_bytes()).unwrap());
    let ops = builder_ops(&nv, &mut rng, false);
    out.case("standard-constructor", true, format!("build {}", ops.join(" ")), || run_builder(&ops));
    out.case("standard-constructor", true, format!("build {}", ops.join(" ")), || {
        format!("{} ok {} {}", "+".repeat(ops.len()), pos64(&nv), derived(&nv))
    });
}

// ------------------------------------------------------------------------------------------ C06

pub fn mutate(rng: &mut Rng, fen: &str) -> Vec<u8> {
    let mut fields: Vec<Vec<u8>> = fen.split(' ').map(|s| s.as_bytes().to_vec()).collect();
    let junk: [u8; 16] = [0, 0x7f, 0x80, 0xff, b'/', b' ', b'9', b'0', b'x', b'K', b'k', b'-', b'8', b'1', b'w', b'3'];
    match rng.below(12) {
        0 => {
            let i = rng.below(fields.len() as u64) as usize;
            fields.remove(i);
        }
        1 => {
            let i = rng.below(fields.len() as u64) as usize;
            let f = fields[i].clone();
            fields.insert(i, f);
        }
        2 => {
            let i = rng.below(fields.len() as u64) as usize;
            fields[i] = vec![*rng.pick(&junk); 1 + rng.below(3) as usize];
        }
        3 => {
            let i = rng.below(fields.len() as u64) as usize;
            if !fields[i].is_empty() {
                let j = rng.below(fields[i].len() as u64) as usize;
                fields[i][j] = *rng.pick(&junk);
            }
        }
        4 => {
            let i = rng.below(fields.len() as u64) as usize;
            let j = rng.below(fields[i].len() as u64 + 1) as usize;
            fields[i].insert(j, *rng.pick(&junk));
        }
        5 => {
            let i = rng.below(fields.len() as u64) as usize;
            if !fields[i].is_empty() {
                let j = rng.below(fields[i].len() as u64) as usize;
                fields[i].remove(j);
            }
        }
        6 => {
            // digit runs in the clocks
            let i = if rng.chance(1, 2) { 4 } else { 5 };
            if i < fields.len() {
                fields[i] = (0..(1 + rng.below(7))).map(|_| b'0' + rng.below(10) as u8).collect();
            }
        }
        7 => {
            // rank digits that overflow the file counter
            if !fields.is_empty() {
                let j = rng.below(fields[0].len() as u64 + 1) as usize;
                fields[0].insert(j, b'1' + rng.below(8) as u8);
            }
        }
        8 => {
            // e.p. field variants
            if fields.len() > 3 {
                fields[3] = vec![b'a' + rng.below(9) as u8, b'0' + rng.below(10) as u8];
            }
        }
        9 => {
            // castling field variants (order, repeats, unknown letters)
            if fields.len() > 2 {
                let letters = b"KQkqKQkq-Aa";
                fields[2] = (0..(1 + rng.below(5))).map(|_| *rng.pick(&letters[..])).collect();
            }
        }
        10 => {
            // move a king / add a king
            if !fields.is_empty() {
                let j = rng.below(fields[0].len() as u64 + 1) as usize;
                fields[0].insert(j, if rng.chance(1, 2) { b'K' } else { b'k' });
            }
        }
        _ => {}
    }
    let sep: &[u8] = match rng.below(8) {
        0 => b"  ",
        1 => b"",
        _ => b" ",
    };
    let mut v = Vec::new();
    for (i, f) in fields.iter().enumerate() {
        if i > 0 {
            v.extend_from_slice(sep);
        }
        v.extend_from_slice(f);
    }
    match rng.below(10) {
        0 => {
            let k = rng.below(v.len() as u64 + 1) as usize;
            v.truncate(k);
        }
        1 => v.push(*rng.pick(&junk)),
        2 => v.insert(0, b' '),
        _ => {}
    }
    v
}


/// descriptions with more than 16 men on one side (at most 32 in all), kings safe, men mobile: the parser must refuse
/// them, because the move list has room for 16 movers and two en-passant entries only
pub fn crowded_fens(rng: &mut Rng, n: usize) -> Vec<String> {
    let mut v = Vec::new();
    for i in 0..n {
        let white_crowd = i % 2 == 0;
        let mut sq = [b'.'; 64];
        let men = 17 + rng.below(8) as usize; // 17..24
        // the crowd lives on its own three ranks, its king among it; the other king far away on its back rank
        let (lo, far_king) = if white_crowd { (0usize, 56 + rng.below(8) as usize) } else { (40usize, rng.below(8) as usize) };
        let mut cells: Vec<usize> = (lo..lo + 24).collect();
        for k in (1..cells.len()).rev() {
            cells.swap(k, rng.below(k as u64 + 1) as usize);
        }
        let king_cell = cells[0];
        sq[king_cell] = if white_crowd { b'K' } else { b'k' };
        for &c in cells.iter().skip(1).take(men - 1) {
            // knights (always mobile, short range so the far king stays safe) and a few pawns off the back ranks
            let rank = c / 8;
            let pawn_ok = rank != 0 && rank != 7;
            let ch = if pawn_ok && rng.chance(1, 4) { b'p' } else { b'n' };
            sq[c] = if white_crowd { ch.to_ascii_uppercase() } else { ch };
        }
        sq[far_king] = if white_crowd { b'k' } else { b'K' };
        // a few men for the other side, next to its king's rank, at most 32 men in all
        let others = rng.below(4) as usize;
        for _ in 0..others {
            let c = if white_crowd { 48 + rng.below(8) as usize } else { 8 + rng.below(8) as usize };
            if sq[c] == b'.' {
                sq[c] = if white_crowd { b'p' } else { b'P' };
            }
        }
        // the crowded side is to move (so its men fill the move list) in most cases
        let white_to_move = if rng.chance(1, 5) { !white_crowd } else { white_crowd };
        v.push(fen_of(&sq, white_to_move, 0, None, 0, 1));
    }
    v
}

pub fn c06(out: &mut Out, thorough: bool) {
    let n = n_positions(thorough, 60_000, 1_500_000);
    let mut rng = Rng::new(out.seed ^ 0xC06);
    let base = positions(&mut rng, if thorough { 20_000 } else { 3_000 });
    let fens: Vec<String> = base.iter().map(|t| fen_of_view(&view(&t.board))).collect();
    let corpus = load_corpus();
    let mut accepted = 0u64;
    let mut emit = |out: &mut Out, kind: &str, bytes: &[u8], rng: &mut Rng| {
        let mut res = None;
        out.case(kind, true, format!("fen parse {}", hexbytes(bytes)), || {
            let r = chess_movegen::fen::parse_fen(bytes);
            res = r.as_ref().ok().copied();
            match r {
                Ok(b) => {
                    let v = view(&b);
                    format!("ok {} {}", pos64(&v), derived(&v))
                }
                Err(e) => format!("err {}", err_kind(&e)),
            }
        });
        if let Some(b) = res {
            accepted += 1;
            // every accepted board must satisfy the validity clauses (specification side)
            let p = pos64(&view(&b));
            out.record("accepted-is-valid", true, format!("pos valid {p}"), "valid".into());
            let _ = rng;
        }
    };
    // "every canonical FEN of a legally reachable position is accepted": the positions were reached by legal play,
    // the text is the harness's own rendering, and the specification answer is "accepted, as this position"
    for t in base.iter() {
        let v = view(&t.board);
        if v.half > 9999 || v.full > 9999 {
            continue;
        }
        let txt = fen_of_view(&v);
        out.case("reachable-is-accepted", true, format!("fen roundtrip {}", pos64(&v)), || parse_answer(txt.as_bytes()));
        if rng.chance(1, 6) {
            // the same placement late in a long game: clocks of every printed length
            let (h, f) = *rng.pick(&[(0u16, 9u16), (9, 10), (10, 99), (99, 100), (100, 999), (999, 1000), (1000, 9999), (9999, 1)]);
            let h = if v.ep.is_some() { 0 } else { h };
            let txt = fen_of(&v.squares, v.white_to_move, v.rights, v.ep, h as u32, f as u32);
            out.case("reachable-is-accepted", true, format!("fen roundtrip {}", pos64_of(&v.squares, v.white_to_move, v.rights, v.ep, h, f)), || parse_answer(txt.as_bytes()));
        }
    }
    for f in corpus.iter().chain(fens.iter().take(2000)) {
        emit(out, "valid-fen", f.as_bytes(), &mut rng);
        // truncations at every length
        if rng.chance(1, 20) {
            for k in 0..f.len() {
                emit(out, "truncation", &f.as_bytes()[..k], &mut rng);
            }
        }
    }
    for i in 0..n {
        let f = &fens[rng.below(fens.len() as u64) as usize];
        match i % 10 {
            0..=5 => {
                let mut v = mutate(&mut rng, f);
                if rng.chance(1, 4) {
                    let s = String::from_utf8_lossy(&v).to_string();
                    v = mutate(&mut rng, &s);
                }
                emit(out, "grammar-mutation", &v, &mut rng);
            }
            6..=8 => {
                // random placements with random fields: mostly rejected by validation
                let mut sq = [b'.'; 64];
                for _ in 0..(2 + rng.below(34)) {
                    let c = *rng.pick(&b"KkPpNnBbRrQqPpPp"[..]);
                    sq[rng.below(64) as usize] = c;
                }
                let white = rng.chance(1, 2);
                let rights = rng.below(16) as u8;
                let ep = if rng.chance(1, 3) { Some(rng.below(8) as u8) } else { None };
                let txt = fen_of(&sq, white, rights, ep, rng.below(120) as u32, rng.below(300) as u32);
                emit(out, "random-placement", txt.as_bytes(), &mut rng);
            }
            _ => {
                let len = rng.below(100) as usize;
                let v: Vec<u8> = (0..len).map(|_| if rng.chance(3, 4) { *rng.pick(&b"rnbqkpRNBQKP12345678/ wb-KQkqabcdefgh36 0123456789"[..]) } else { rng.next() as u8 }).collect();
                emit(out, "random-bytes", &v, &mut rng);
            }
        }
    }
    for f in crowded_fens(&mut rng, if thorough { 5_000 } else { 400 }) {
        emit(out, "crowded", f.as_bytes(), &mut rng);
    }
    // castling rights against what stands on the home squares: every single right and a few pairs x the corner
    // holding the right rook, the enemy's rook, another own piece, or nothing x the king at home or next to it
    {
        let corners: [(u8, usize, usize, bool); 4] = [(1, 7, 4, true), (2, 0, 4, true), (4, 63, 60, false), (8, 56, 60, false)];
        for &(bit, corner, khome, white) in corners.iter() {
            for content in 0..5 {
                for king_at_home in [true, false] {
                    for extra_rights in [0u8, 15] {
                        let mut sq = [b'.'; 64];
                        // both kings; the one concerned at home or one file aside
                        let (wk, bk) = (if white && !king_at_home { 3 } else { 4 }, if !white && !king_at_home { 59 } else { 60 });
                        sq[wk] = b'K';
                        sq[bk] = b'k';
                        // the other three corners hold their proper rooks so that only one thing is wrong at a time
                        for &(_, c2, _, w2) in corners.iter() {
                            sq[c2] = if w2 { b'R' } else { b'r' };
                        }
                        let own = |c: u8| if white { c.to_ascii_uppercase() } else { c.to_ascii_lowercase() };
                        let enemy = |c: u8| if white { c.to_ascii_lowercase() } else { c.to_ascii_uppercase() };
                        sq[corner] = match content {
                            0 => own(b'r'),
                            1 => enemy(b'r'),
                            2 => own(b'n'),
                            3 => own(b'q'),
                            _ => b'.',
                        };
                        // corner without its rook: sometimes the rook stands where castling would have put it (f/d file)
                        // or next to the corner instead
                        if content >= 2 && extra_rights == 0 {
                            let castled = if corner % 8 == 7 { corner - 2 } else { corner + 3 };
                            if sq[castled] == b'.' && king_at_home {
                                sq[castled] = own(b'r');
                            }
                        }
                        // a blocker next to the corner so that an enemy rook there gives no check along the back rank
                        let blocker = if corner % 8 == 0 { corner + 1 } else { corner - 1 };
                        sq[blocker] = own(b'n');
                        let _ = khome;
                        for white_to_move in [true, false] {
                            let txt = fen_of(&sq, white_to_move, bit | extra_rights, None, 0, 1);
                            emit(out, "castle-corner-grid", txt.as_bytes(), &mut rng);
                        }
                    }
                }
            }
        }
    }
    // builder: arbitrary assemblies, accepted ones must be valid too
    for _ in 0..(if thorough { 100_000 } else { 5_000 }) {
        let mut ops: Vec<String> = Vec::new();
        ops.push(format!("t:{}", if rng.chance(1, 2) { "w" } else { "b" }));
        for _ in 0..(2 + rng.below(30)) {
            let pc = *rng.pick(&[0u8, 0, 0, 1, 2, 3, 4, 5, 5]);
            ops.push(format!("p:{}:{}:{}", rng.below(64), if rng.chance(1, 2) { "w" } else { "b" }, pc));
            if rng.chance(1, 12) {
                ops.push(format!("r:{}", rng.below(64)));
            }
        }
        if rng.chance(1, 4) {
            ops.push(format!("e:{}", rng.below(8)));
        }
        ops.push(format!("h:{}", *rng.pick(&[0u32, 1, 99, 100, 65534, 65535])));
        ops.push(format!("f:{}", *rng.pick(&[0u32, 1, 500, 65534, 65535])));
        let ans = run_builder(&ops);
        if let Some(i) = ans.find(" ok ") {
            let p = ans[i + 4..].split(' ').next().unwrap().to_string();
            out.record("built-is-valid", true, format!("pos valid {p}"), "valid".into());
        }
        out.record("builder-assembly", true, format!("build {}", ops.join(" ")), ans);
    }
    out.notes.insert("accepted".into(), format!("{accepted} byte strings accepted by the parser"));
}

// ------------------------------------------------------------------------------------------ C10

fn iter_trace(b: &Board, start: Option<u64>, ops: &[String]) -> String {
    let mut g = match start {
        None => b.legals(),
        Some(m) => b.legals_masked(bb(m)),
    };
    let mut outv = Vec::new();
    for op in ops {
        let bytes = op.as_bytes();
        match bytes[0] {
            b'n' => outv.push(format!("n={}", match g.next() { Some(m) => mv_str(m), None => "none".into() })),
            b'l' => outv.push(format!("l={}", g.len())),
            b'e' => outv.push(format!("e={}", b2s(g.is_empty()))),
            b'h' => {
                let (lo, hi) = g.size_hint();
                outv.push(if hi == Some(lo) { format!("h={lo}") } else { format!("h={lo}..{hi:?}") });
            }
            b'c' => {
                g = g.clone();
                outv.push("c".into());
            }
            b'm' => {
                g.set_mask(bb(u64::from_str_radix(&op[1..], 16).unwrap()));
                outv.push(op.clone());
            }
            b'r' => {
                g.remove(bb(u64::from_str_radix(&op[1..], 16).unwrap()));
                outv.push(op.clone());
            }
            b'x' => {
                let m = parse_mv(&op[1..]);
                outv.push(format!("{op}={}", b2s(g.remove_move(m))));
            }
            _ => unreachable!(),
        }
    }
    outv.join(" ")
}

pub fn parse_mv(s: &str) -> ChessMove {
    let b = s.as_bytes();
    let sq = |f: u8, r: u8| Pos::from_u8((r - b'1') * 8 + (f - b'a')).unwrap();
    ChessMove { source: sq(b[0], b[1]), dest: sq(b[2], b[3]), piece: if b.len() > 4 { promo_of(b[4]) } else { None } }
}

pub fn c10(out: &mut Out, thorough: bool) {
    let n = n_positions(thorough, 4_000, 80_000);
    let mut rng = Rng::new(out.seed ^ 0xC10);
    let ps = positions(&mut rng, n);
    let seqs = if thorough { 10 } else { 5 };
    for t in ps.iter() {
        let b = t.board;
        let v = view(&b);
        let p = pos64(&v);
        let enemy = b[!b.turn()].to_u64();
        let empty = !b.raw().all().to_u64();
        let legal: Vec<ChessMove> = b.legals().collect();
        let has_promo = legal.iter().any(|m| m.piece.is_some());
        for s in 0..seqs {
            // a small fraction of the sequences exercises the two recorded findings
            // (removing one promotion choice; editing while a promotion group is half yielded)
            let allow_known = s == 0 && has_promo;
            let cands = [enemy, empty, rng.next(), 1u64 << rng.below(64)];
            let start = if rng.chance(1, 4) { Some(*rng.pick(&cands)) } else { None };
            let len = 1 + rng.below(if thorough { 40 } else { 24 }) as usize;
            let mut ops: Vec<String> = Vec::new();
            let mut flags: Vec<&str> = Vec::new();
            // simulate just enough to know whether a promotion group is half yielded
            let mut g = match start { None => b.legals(), Some(m) => b.legals_masked(bb(m)) };
            let mut midgroup = false;
            for _ in 0..len {
                let k = rng.below(100);
                let op = if k < 45 {
                    "n".to_string()
                } else if k < 55 {
                    "l".to_string()
                } else if k < 60 {
                    "e".to_string()
                } else if k < 65 {
                    "h".to_string()
                } else if k < 68 {
                    "c".to_string()
                } else if k < 80 {
                    let m = match rng.below(6) { 0 => u64::MAX, 1 => enemy, 2 => empty, 3 => 1u64 << rng.below(64), 4 => rng.next() & rng.next(), _ => rng.next() };
                    format!("m{m:x}")
                } else if k < 90 {
                    let m = match rng.below(5) { 0 => enemy, 1 => 1u64 << rng.below(64), 2 => rng.next() & rng.next() & rng.next(), 3 => { let x = *rng.pick(&legal.iter().map(|m| 1u64 << (m.dest as u8)).chain(std::iter::once(0)).collect::<Vec<_>>()); x } _ => rng.next() & rng.next() };
                    format!("r{m:x}")
                } else {
                    let m = if !legal.is_empty() && rng.chance(4, 5) { *rng.pick(&legal) } else { ChessMove { source: Pos::from_u8(rng.below(64) as u8).unwrap(), dest: Pos::from_u8(rng.below(64) as u8).unwrap(), piece: None } };
                    format!("x{}", mv_str(m))
                };
                let is_edit = matches!(op.as_bytes()[0], b'm' | b'r' | b'x');
                if is_edit && midgroup {
                    if !allow_known {
                        continue;
                    }
                    if !flags.contains(&"#midgroup-edit") {
                        flags.push("#midgroup-edit");
                    }
                }
                // `remove_move` ignores the promotion-piece field (finding F11): any call aimed at a
                // promotion destination - with a piece or with none - drops all four choices
                let aims_at_promotion = op.as_bytes()[0] == b'x' && {
                    let mv = parse_mv(&op[1..]);
                    op.len() > 5 || legal.iter().any(|l| l.source == mv.source && l.dest == mv.dest && l.piece.is_some())
                };
                if aims_at_promotion {
                    if !allow_known {
                        continue;
                    }
                    if !flags.contains(&"#remove-one-promotion-choice") {
                        flags.push("#remove-one-promotion-choice");
                    }
                }
                // advance the shadow iterator
                match op.as_bytes()[0] {
                    b'n' => {
                        if let Some(m) = g.next() {
                            midgroup = matches!(m.piece, Some(x) if x != chess_bitboard::PromotionPiece::Knight);
                        }
                    }
                    b'm' => g.set_mask(bb(u64::from_str_radix(&op[1..], 16).unwrap())),
                    b'r' => g.remove(bb(u64::from_str_radix(&op[1..], 16).unwrap())),
                    b'x' => {
                        g.remove_move(parse_mv(&op[1..]));
                    }
                    _ => {}
                }
                ops.push(op);
            }
            // always finish by draining under the full mask: masks that together cover the board
            // yield every remaining move exactly once
            if rng.chance(1, 2) && (!midgroup || allow_known) {
                if midgroup && !flags.contains(&"#midgroup-edit") {
                    flags.push("#midgroup-edit");
                }
                ops.push(format!("m{:x}", u64::MAX));
                for _ in 0..(g.clone().count().min(60) + 1) {
                    ops.push("n".into());
                }
                ops.push("l".into());
            }
            let trace = iter_trace(&b, start, &ops);
            let toks: Vec<String> = ops.iter().zip(trace.split(' ')).map(|(_, t)| t.to_string()).collect();
            let req = format!("mgiter {p} {} {}{}{}", match start { Some(m) => format!("{m:x}"), None => "all".into() }, toks.join(" "), if flags.is_empty() { "" } else { " " }, flags.join(" "));
            let kind = if flags.is_empty() { t.tag } else { "known-finding-pattern" };
            out.record(kind, nontrivial(&v), req, trace);
        }
    }
}

// ------------------------------------------------------------------------------------------ C07

/// extremal positions for the fixed-capacity move list: 16 mobile men and two e.p. capturers
fn extremal(rng: &mut Rng, out: &mut Vec<Tagged>, n: usize) {
    let mut made = 0;
    let mut tries = 0;
    while made < n && tries < n * 50 {
        tries += 1;
        let white = rng.chance(1, 2);
        let mut sq = [b'.'; 64];
        let up = |c: u8| if white { c.to_ascii_uppercase() } else { c };
        let dn = |c: u8| if white { c } else { c.to_ascii_uppercase() };
        // e.p. pair
        let f = 1 + rng.below(6) as usize;
        let pr = if white { 4 } else { 3 };
        sq[pr * 8 + f] = dn(b'p');
        sq[pr * 8 + f - 1] = up(b'p');
        sq[pr * 8 + f + 1] = up(b'p');
        let mut own = 2;
        // own king somewhere safe-ish, then 13 more mobile men (queens, rooks, bishops, knights)
        let mut k;
        loop {
            k = rng.below(64) as usize;
            if sq[k] == b'.' {
                break;
            }
        }
        sq[k] = up(b'k');
        own += 1;
        while own < 16 {
            let s = rng.below(64) as usize;
            if sq[s] == b'.' {
                sq[s] = up(*rng.pick(&b"qrbnqrbnp"[..]));
                own += 1;
            }
        }
        loop {
            let s = rng.below(64) as usize;
            if sq[s] == b'.' {
                sq[s] = dn(b'k');
                break;
            }
        }
        for _ in 0..rng.below(6) {
            let s = rng.below(64) as usize;
            if sq[s] == b'.' {
                sq[s] = dn(*rng.pick(&b"qrbnp"[..]));
            }
        }
        if let Ok(b) = chess_movegen::fen::parse_fen(fen_of(&sq, white, 0, Some(f as u8), 0, 1).as_bytes()) {
            out.push(Tagged { board: b, tag: "extremal-16-men-two-ep-capturers" });
            made += 1;
        }
    }
}

fn exercise(out: &mut Out, rng: &mut Rng, b: Board, tag: &'static str) {
    let v = view(&b);
    let p = pos64(&v);
    let nt = true;
    out.case(tag, nt, format!("pos legals {p}"), || sorted_moves(b.legals()));
    out.case(tag, nt, format!("pos legals.ord {p}"), || ordered_moves(b.legals()));
    out.case(tag, nt, format!("pos status {p}"), || state_str(&b));
    out.case(tag, nt, format!("fen show {p}"), || hexbytes(format!("{b}").as_bytes()));
    out.case(tag, nt, format!("pos derived {p}"), || derived(&v));
    let m = rng.next() & rng.next();
    out.case(tag, nt, format!("pos legals {p} {m:x}"), || sorted_moves(b.legals_masked(bb(m))));
    let legal: Vec<ChessMove> = b.legals().collect();
    for &mv in legal.iter() {
        out.case("every-successor", nt, format!("pos move.derived {p} {}", mv_str(mv)), || match b.move_new(mv) {
            Some(nb) => {
                // everything a caller does next must work on the successor as well
                let _ = nb.legals().len();
                let _ = format!("{nb} {nb:?}");
                let _ = nb.state();
                let nv = view(&nb);
                for s in 0..64u8 {
                    let _ = nb.raw().get(Pos::from_u8(s).unwrap());
                }
                derived(&nv)
            }
            None => "refused".into(),
        });
    }
}

pub fn c07(out: &mut Out, thorough: bool) {
    let mut rng = Rng::new(out.seed ^ 0xC07);
    let mut ps = Vec::new();
    extremal(&mut rng, &mut ps, if thorough { 20_000 } else { 1_500 });
    ps.extend(positions(&mut rng, if thorough { 30_000 } else { 1_500 }));
    for t in ps.iter() {
        exercise(out, &mut rng, t.board, t.tag);
    }
    // positions accepted from text that no game produced: grammar-mutated descriptions and random
    // placements; whatever the parser accepts must be safe to use
    let fens: Vec<String> = ps.iter().map(|t| fen_of_view(&view(&t.board))).collect();
    let tries = if thorough { 2_000_000 } else { 120_000 };
    let (mut acc_mut, mut acc_rand) = (0u64, 0u64);
    let cap = if thorough { 40_000 } else { 1_500 };
    for i in 0..tries {
        let (bytes, tag): (Vec<u8>, &'static str) = if i % 2 == 0 {
            {
                let k = rng.below(fens.len() as u64) as usize;
                (mutate(&mut rng, &fens[k]), "accepted-mutated-text")
            }
        } else {
            let mut sq = [b'.'; 64];
            for _ in 0..(2 + rng.below(12)) {
                let c = *rng.pick(&b"PpNnBbRrQqPpPp"[..]);
                sq[rng.below(64) as usize] = c;
            }
            sq[rng.below(64) as usize] = b'K';
            let mut k = rng.below(64) as usize;
            while sq[k] == b'K' {
                k = rng.below(64) as usize;
            }
            sq[k] = b'k';
            let ep = if rng.chance(1, 2) { Some(rng.below(8) as u8) } else { None };
            (fen_of(&sq, rng.chance(1, 2), if rng.chance(1, 4) { rng.below(16) as u8 } else { 0 }, ep, rng.below(120) as u32, rng.below(300) as u32).into_bytes(), "accepted-random-placement")
        };
        let is_mut = i % 2 == 0;
        if (is_mut && acc_mut >= cap) || (!is_mut && acc_rand >= cap) {
            continue;
        }
        let parsed = crate::common::guard(|| chess_movegen::fen::parse_fen(&bytes).ok());
        if let Some(b) = parsed.flatten() {
            // the unmutated originals are already covered above
            if is_mut {
                acc_mut += 1;
            } else {
                acc_rand += 1;
            }
            exercise(out, &mut rng, b, tag);
        }
    }
    // more than 16 men on a side: refused, or else safe to use (the move list holds 18 entries)
    let mut acc_crowded = 0u64;
    for f in crowded_fens(&mut rng, if thorough { 5_000 } else { 400 }) {
        out.case("crowded", true, format!("fen parse {}", hexbytes(f.as_bytes())), || parse_answer(f.as_bytes()));
        if let Some(b) = crate::common::guard(|| chess_movegen::fen::parse_fen(f.as_bytes()).ok()).flatten() {
            acc_crowded += 1;
            exercise(out, &mut rng, b, "crowded");
        }
    }
    out.notes.insert("crowded".into(), format!("{acc_crowded} descriptions with more than 16 men on a side accepted and exercised"));
    out.notes.insert("accepted-from-text".into(), format!("{acc_mut} mutated descriptions and {acc_rand} random placements accepted and exercised"));
    // masking and iterating moves in any order — also in the middle of a promotion group, where the length
    // bookkeeping is at its most delicate; only "no panic" is asked here (what the calls return is C10's business)
    {
        let mut pool: Vec<Board> = ps.iter().map(|t| t.board).filter(|b| b.legals().any(|m| m.piece.is_some())).take(if thorough { 4000 } else { 300 }).collect();
        pool.extend(ps.iter().map(|t| t.board).take(if thorough { 2000 } else { 200 }));
        for b in pool {
            let p = pos64(&view(&b));
            let legal: Vec<ChessMove> = b.legals().collect();
            for _ in 0..(if thorough { 8 } else { 4 }) {
                let len = 2 + rng.below(14) as usize;
                let mut ops: Vec<String> = Vec::new();
                for _ in 0..len {
                    let k = rng.below(100);
                    ops.push(if k < 40 {
                        "n".into()
                    } else if k < 55 {
                        "l".into()
                    } else if k < 60 {
                        "e".into()
                    } else if k < 65 {
                        "h".into()
                    } else if k < 80 {
                        let m = match rng.below(5) { 0 => 0u64, 1 => u64::MAX, 2 => 1u64 << rng.below(64), 3 => rng.next() & rng.next(), _ => rng.next() };
                        format!("m{m:x}")
                    } else if k < 90 {
                        let m = match rng.below(3) { 0 => 1u64 << rng.below(64), 1 => rng.next() & rng.next(), _ => 0xff000000000000ffu64 };
                        format!("r{m:x}")
                    } else {
                        let m = if !legal.is_empty() { *rng.pick(&legal) } else { ChessMove { source: Pos::from_u8(0).unwrap(), dest: Pos::from_u8(1).unwrap(), piece: None } };
                        format!("x{}", mv_str(m))
                    });
                }
                out.case("iterator-ops-no-panic", true, format!("expect no-trap #mgiter {p} {}", ops.join(" ")), || {
                    let _ = iter_trace(&b, None, &ops);
                    "no-trap".into()
                });
            }
            // the checked operations on moves that are not moves of the position: refused, never a panic
            for &m in legal.iter().take(6) {
                let alt = ChessMove { piece: if m.piece.is_some() { None } else { Some(*rng.pick(&[chess_bitboard::PromotionPiece::Queen, chess_bitboard::PromotionPiece::Knight])) }, ..m };
                out.case("checked-move-near-miss", true, format!("pos move {p} {}", mv_str(alt)), || match b.move_new(alt) {
                    Some(nb) => format!("ok {}", pos64(&view(&nb))),
                    None => "refused".into(),
                });
            }
        }
    }
    // parsing: no byte string may panic a text parser
    crate::small::text_parsers_no_panic(out);
    // walking the opening book (whole book, the empty book, every node's children read to the end)
    crate::tables::c17(out, thorough);
    out.exhaustive = false;
    // clocks at the 16-bit limit through the builder
    for &(h, f) in &[(65535u32, 65535u32), (65534, 65535), (65535, 0), (99, 65535)] {
        for white in [true, false] {
            let mut ops = vec![format!("t:{}", if white { "w" } else { "b" }), "p:4:w:5".into(), "p:60:b:5".into(), "p:8:w:0".into(), "p:48:b:0".into(), "p:1:w:1".into(), "p:57:b:1".into()];
            ops.push(format!("h:{h}"));
            ops.push(format!("f:{f}"));
            let ans = run_builder(&ops);
            out.record("clock-limit", true, format!("build {}", ops.join(" ")), ans.clone());
            if let Some(i) = ans.find(" ok ") {
                let p = ans[i + 4..].split(' ').next().unwrap().to_string();
                // rebuild the same board and move on it
                let mut bld = Board::builder();
                bld.turn(if white { Color::White } else { Color::Black });
                for (s, c, pc) in [(4u8, Color::White, Piece::King), (60, Color::Black, Piece::King), (8, Color::White, Piece::Pawn), (48, Color::Black, Piece::Pawn), (1, Color::White, Piece::Knight), (57, Color::Black, Piece::Knight)] {
                    let _ = bld.place(Pos::from_u8(s).unwrap(), c, pc);
                }
                bld.half_move_clock(h as u16);
                bld.full_move_clock(f as u16);
                let b = bld.build().unwrap();
                for mv in b.legals().collect::<Vec<_>>() {
                    out.case("clock-limit", true, format!("pos move {p} {}", mv_str(mv)), || match b.move_new(mv) {
                        Some(nb) => format!("ok {}", pos64(&view(&nb))),
                        None => "refused".into(),
                    });
                }
            }
        }
    }
}
