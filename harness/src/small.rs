//! Streams for the algebraic properties C14, C16, C18, C19, C20.
use crate::common::{b2s, hex, hexbytes, Out};
use chess_bitboard::{BitBoard, Color, File, Piece, Pos, PromotionPiece, Rank, Side};
use chess_engine::Score;
use chess_movegen::ChessMove;
use std::cmp::Ordering;

// ------------------------------------------------------------------------------------------ C14

pub fn show_score(s: Score) -> String {
    match s {
        Score::Min => "Min".into(),
        Score::Max => "Max".into(),
        Score::BlackMateIn(n) => format!("B{n}"),
        Score::WhiteMateIn(n) => format!("W{n}"),
        Score::Raw(x) => format!("R{x}"),
    }
}

fn show_ord(o: Ordering) -> &'static str {
    match o {
        Ordering::Less => "lt",
        Ordering::Equal => "eq",
        Ordering::Greater => "gt",
    }
}

fn score_ops(out: &mut Out, kind: &str, a: Score, b: Score) {
    let (sa, sb) = (show_score(a), show_score(b));
    let nt = true;
    out.case(kind, nt, format!("score cmp {sa} {sb}"), || show_ord(a.cmp(&b)).into());
    out.case(kind, nt, format!("score pcmp {sa} {sb}"), || match a.partial_cmp(&b) {
        Some(o) => format!("some-{}", show_ord(o)),
        None => "none".into(),
    });
    out.case(kind, nt, format!("score eq {sa} {sb}"), || b2s(a == b).into());
    out.case(kind, nt, format!("score lt {sa} {sb}"), || b2s(a < b).into());
    out.case(kind, nt, format!("score le {sa} {sb}"), || b2s(a <= b).into());
    out.case(kind, nt, format!("score gt {sa} {sb}"), || b2s(a > b).into());
    out.case(kind, nt, format!("score max {sa} {sb}"), || show_score(a.max(b)));
    out.case(kind, nt, format!("score min {sa} {sb}"), || show_score(a.min(b)));
}

fn random_score(out: &mut Out) -> Score {
    let r = &mut out.rng;
    match r.below(8) {
        0 => Score::Min,
        1 => Score::Max,
        2 | 3 => Score::BlackMateIn(if r.chance(1, 2) { r.below(8) as u16 } else { r.next() as u16 }),
        4 | 5 => Score::WhiteMateIn(if r.chance(1, 2) { r.below(8) as u16 } else { r.next() as u16 }),
        _ => Score::Raw(if r.chance(1, 2) { r.below(4000) as i32 - 2000 } else { r.next() as i32 }),
    }
}

pub fn c14(out: &mut Out, thorough: bool) {
    let mates: [u16; 7] = [0, 1, 2, 3, 100, 65534, 65535];
    let raws: [i32; 9] = [i32::MIN, i32::MIN + 1, -1000, -1, 0, 1, 1000, i32::MAX - 1, i32::MAX];
    let mut grid = vec![Score::Min, Score::Max];
    for m in mates {
        grid.push(Score::BlackMateIn(m));
        grid.push(Score::WhiteMateIn(m));
    }
    for r in raws {
        grid.push(Score::Raw(r));
    }
    for &a in &grid {
        for &b in &grid {
            score_ops(out, "grid-pair", a, b);
        }
    }
    let n = if thorough { 400_000 } else { 20_000 };
    for _ in 0..n {
        let a = random_score(out);
        let b = if out.rng.chance(1, 8) { a } else { random_score(out) };
        score_ops(out, "random-pair", a, b);
    }
    out.notes.insert("grid".into(), format!("{} scores, all ordered pairs, 8 operations each", grid.len()));
}

// ------------------------------------------------------------------------------------------ C16

pub fn show_sq(p: Pos) -> String {
    format!("{}", p)
}

pub fn show_move(m: ChessMove) -> String {
    let p = match m.piece {
        None => "",
        Some(PromotionPiece::Knight) => "n",
        Some(PromotionPiece::Bishop) => "b",
        Some(PromotionPiece::Rook) => "r",
        Some(PromotionPiece::Queen) => "q",
    };
    format!("{}{}{}", sq_name(m.source), sq_name(m.dest), p)
}

pub fn sq_name(p: Pos) -> String {
    let i = p as u8;
    format!("{}{}", (b'a' + i % 8) as char, (b'1' + i / 8) as char)
}

pub fn show_opt_move(m: Option<ChessMove>) -> String {
    match m {
        Some(m) => show_move(m),
        None => "none".into(),
    }
}

pub const PROMOS: [Option<PromotionPiece>; 5] = [
    None,
    Some(PromotionPiece::Knight),
    Some(PromotionPiece::Bishop),
    Some(PromotionPiece::Rook),
    Some(PromotionPiece::Queen),
];

pub fn c16(out: &mut Out, thorough: bool) {
    use chess_api::{EvaluatedMove, StableChessMove};
    for s in Pos::all() {
        for d in Pos::all() {
            for piece in PROMOS {
                let m = ChessMove { source: s, dest: d, piece };
                let nt = true;
                out.case("move", nt, format!("api move {}", show_move(m)), || {
                    show_move(ChessMove::from(StableChessMove::from(m)))
                });
                out.case("optmove", nt, format!("api optmove {}", show_move(m)), || {
                    show_opt_move(EvaluatedMove::new(Some(m), Score::Min).chess_move())
                });
            }
        }
    }
    out.case("optmove-none", true, "api optmove none".into(), || {
        show_opt_move(EvaluatedMove::new(None, Score::Raw(0)).chess_move())
    });
    let score_case = |out: &mut Out, kind: &str, s: Score| {
        out.case(kind, true, format!("api score {}", show_score(s)), || {
            show_score(EvaluatedMove::new(None, s).score())
        });
    };
    score_case(out, "score-sentinel", Score::Min);
    score_case(out, "score-sentinel", Score::Max);
    for n in 0..=u16::MAX {
        score_case(out, "score-mate", Score::BlackMateIn(n));
        score_case(out, "score-mate", Score::WhiteMateIn(n));
    }
    for x in [i32::MIN, i32::MIN + 1, i32::MAX, i32::MAX - 1] {
        score_case(out, "score-raw-extreme", Score::Raw(x));
    }
    for x in -2000..=2000 {
        score_case(out, "score-raw-near-zero", Score::Raw(x));
    }
    let n = if thorough { 1_000_000 } else { 50_000 };
    for _ in 0..n {
        let x = out.rng.next() as i32;
        score_case(out, "score-raw-random", Score::Raw(x));
    }
    out.exhaustive = true;
    out.notes.insert("exhaustive".into(), "all 20480 moves (both encodings), None, all 2x65536 mate distances; raw scores sampled".into());
}

// ------------------------------------------------------------------------------------------ C18

fn bbh(b: BitBoard) -> String {
    hex(b.to_u64())
}

fn opt_sq_idx(p: Option<Pos>) -> String {
    match p {
        Some(p) => format!("{}", p as u8),
        None => "none".into(),
    }
}

fn pos_of(i: u64) -> Pos {
    Pos::from_u8(i as u8).unwrap()
}

fn unary(out: &mut Out, kind: &str, a: u64) {
    let b = BitBoard::from_u64(a);
    let h = hex(a);
    let nt = a != 0 && a != u64::MAX;
    out.case(kind, nt, format!("bb not {h}"), || bbh(!b));
    out.case(kind, nt, format!("bb up {h}"), || bbh(b.shift_up()));
    out.case(kind, nt, format!("bb down {h}"), || bbh(b.shift_down()));
    out.case(kind, nt, format!("bb left {h}"), || bbh(b.shift_left()));
    out.case(kind, nt, format!("bb right {h}"), || bbh(b.shift_right()));
    out.case(kind, nt, format!("bb flip {h}"), || bbh(b.flip_ranks()));
    out.case(kind, nt, format!("bb count {h}"), || format!("{}", b.count()));
    out.case(kind, nt, format!("bb any {h}"), || b2s(b.any()).into());
    out.case(kind, nt, format!("bb none {h}"), || b2s(b.none()).into());
    out.case(kind, nt, format!("bb all {h}"), || b2s(b.all()).into());
    out.case(kind, nt, format!("bb some {h}"), || b2s(b.some()).into());
    out.case(kind, nt, format!("bb pop {h}"), || {
        let mut c = b;
        match c.pop() {
            Some(p) => format!("{} {}", p as u8, bbh(c)),
            None => "none".into(),
        }
    });
    out.case(kind, nt, format!("bb iter {h}"), || {
        let it = b.iter();
        let (lo, hi) = it.size_hint();
        let hint = if Some(lo) == hi { format!("{lo}") } else { format!("{lo}..{hi:?}") };
        // the size hint must stay exact while iterating
        let mut it2 = b.iter();
        let mut exact = true;
        let mut left = b.count() as usize;
        loop {
            if it2.size_hint() != (left, Some(left)) {
                exact = false;
            }
            if it2.next().is_none() {
                break;
            }
            left = left.saturating_sub(1);
        }
        let l: Vec<String> = it.map(|p| format!("{}", p as u8)).collect();
        format!("{} | {}{}", l.join(" "), hint, if exact { "" } else { " inexact-hint" })
    });
}

fn with_sq(out: &mut Out, kind: &str, a: u64, s: u64) {
    let b = BitBoard::from_u64(a);
    let h = hex(a);
    let p = pos_of(s);
    out.case(kind, true, format!("bb contains {h} {s}"), || b2s(b.contains(p)).into());
    out.case(kind, true, format!("bb with {h} {s}"), || {
        let mut c = b;
        c.set(p);
        if c != b.with(p) {
            return "set!=with".into();
        }
        bbh(c)
    });
    out.case(kind, true, format!("bb cleared {h} {s}"), || {
        let mut c = b;
        c.clear(p);
        let mut d = b;
        d -= p;
        if c != b.cleared(p) || d != c || (b - p) != c {
            return "clear!=cleared".into();
        }
        bbh(c)
    });
}

fn binary(out: &mut Out, kind: &str, a: u64, c: u64) {
    let (x, y) = (BitBoard::from_u64(a), BitBoard::from_u64(c));
    let (ha, hc) = (hex(a), hex(c));
    out.case(kind, true, format!("bb or {ha} {hc}"), || {
        let mut z = x;
        z |= y;
        if z != x.or(y) || (x | y) != z {
            return "or-variants-differ".into();
        }
        bbh(z)
    });
    out.case(kind, true, format!("bb and {ha} {hc}"), || {
        let mut z = x;
        z &= y;
        if z != x.and(y) || (x & y) != z {
            return "and-variants-differ".into();
        }
        bbh(z)
    });
    out.case(kind, true, format!("bb xor {ha} {hc}"), || {
        let mut z = x;
        z ^= y;
        if z != x.xor(y) || (x ^ y) != z {
            return "xor-variants-differ".into();
        }
        bbh(z)
    });
    out.case(kind, true, format!("bb diff {ha} {hc}"), || {
        let mut z = x;
        z -= y;
        if z != x.diff(y) || (x - y) != z {
            return "diff-variants-differ".into();
        }
        bbh(z)
    });
}

fn nth_cases(out: &mut Out, kind: &str, a: u64, n: usize) {
    let b = BitBoard::from_u64(a);
    let h = hex(a);
    let op = if cfg!(target_feature = "bmi2") { "nthb" } else { "nthp" };
    out.case(kind, true, format!("bb {op} {h} {n}"), || {
        let mut it = b.iter();
        let r = it.nth(n);
        let rest: BitBoard = it.collect();
        if cfg!(target_feature = "bmi2") {
            match r {
                Some(p) => format!("{} {}", sq_name(p), bbh(rest)),
                None => "none".into(),
            }
        } else {
            match r {
                Some(p) => format!("{} {}", sq_name(p), bbh(rest)),
                None => format!("none {}", bbh(rest)),
            }
        }
    });
}

pub fn c18(out: &mut Out, thorough: bool) {
    for i in 0..64u64 {
        out.case("ctor", true, format!("bb ofsq {i}"), || {
            let p = pos_of(i);
            if BitBoard::from(p) != BitBoard::from_pos(p) {
                return "from!=from_pos".into();
            }
            bbh(BitBoard::from_pos(p))
        });
    }
    for i in 0..8u8 {
        out.case("ctor", true, format!("bb offile {i}"), || bbh(BitBoard::from(File::from_u8(i).unwrap())));
        out.case("ctor", true, format!("bb ofrank {i}"), || bbh(BitBoard::from(Rank::from_u8(i).unwrap())));
    }
    // structured boards: empty, full, singles, pairs, files, ranks
    let mut structured: Vec<u64> = vec![0, u64::MAX];
    for i in 0..64 {
        structured.push(1u64 << i);
    }
    for i in 0..64 {
        for j in (i + 1)..64 {
            structured.push((1u64 << i) | (1u64 << j));
        }
    }
    for f in 0..8 {
        structured.push(0x0101010101010101u64 << f);
        structured.push(0xffu64 << (8 * f));
    }
    for &a in &structured {
        unary(out, "structured-unary", a);
    }
    let nrand = if thorough { 200_000 } else { 5_000 };
    let mut randoms = Vec::new();
    for _ in 0..nrand {
        let a = out.rng.word();
        randoms.push(a);
        unary(out, "random-unary", a);
    }
    // membership / insertion / removal: every square on a sample
    let nsq = if thorough { 400 } else { 40 };
    for k in 0..nsq {
        let a = if k % 2 == 0 { structured[(out.rng.below(structured.len() as u64)) as usize] } else { out.rng.word() };
        for s in 0..64 {
            with_sq(out, "square-ops", a, s);
        }
    }
    // binary operations
    let nbin = if thorough { 200_000 } else { 8_000 };
    for k in 0..nbin {
        let a = if k % 3 == 0 { *out.rng.pick(&structured) } else { out.rng.word() };
        let c = if k % 5 == 0 { *out.rng.pick(&structured) } else { out.rng.word() };
        binary(out, "binary", a, c);
    }
    // nth for n in 0..=70 (and a few huge n)
    let nnth = if thorough { 4_000 } else { 150 };
    for k in 0..nnth {
        let a = match k % 4 {
            0 => *out.rng.pick(&structured),
            _ => out.rng.word(),
        };
        for n in 0..=70usize {
            nth_cases(out, "nth", a, n);
        }
        for n in [127usize, 128, 1 << 20, usize::MAX] {
            nth_cases(out, "nth-huge", a, n);
        }
    }
    // collection from iterators
    let ncol = if thorough { 20_000 } else { 1_000 };
    for _ in 0..ncol {
        let len = out.rng.below(12);
        let sqs: Vec<u64> = (0..len).map(|_| out.rng.below(64)).collect();
        let req = format!("bb fromsqs {}", sqs.iter().map(|s| s.to_string()).collect::<Vec<_>>().join(" "));
        out.case("from-squares", true, req, || bbh(sqs.iter().map(|&s| pos_of(s)).collect::<BitBoard>()));
        let len = out.rng.below(6);
        let bbs: Vec<u64> = (0..len).map(|_| out.rng.word()).collect();
        let req = format!("bb frombbs {}", bbs.iter().map(|&s| hex(s)).collect::<Vec<_>>().join(" "));
        out.case("from-boards", true, req, || bbh(bbs.iter().map(|&s| BitBoard::from_u64(s)).collect::<BitBoard>()));
    }
    // long collections with repeats: more than 64 items, a new square turning up late
    for _ in 0..(if thorough { 2_000 } else { 200 }) {
        let pool: Vec<u64> = (0..(1 + out.rng.below(10))).map(|_| out.rng.below(64)).collect();
        let len = 60 + out.rng.below(90) as usize;
        let mut sqs: Vec<u64> = (0..len).map(|_| *out.rng.pick(&pool)).collect();
        for _ in 0..(1 + out.rng.below(4)) {
            sqs.push(out.rng.below(64));
        }
        let req = format!("bb fromsqs {}", sqs.iter().map(|s| s.to_string()).collect::<Vec<_>>().join(" "));
        out.case("from-squares-long", true, req, || bbh(sqs.iter().map(|&s| pos_of(s)).collect::<BitBoard>()));
    }
    // operation sequences on one iterator: next, nth(k), size_hint interleaved (the hint must stay exact after nth)
    for k in 0..(if thorough { 40_000 } else { 3_000 }) {
        let a = if k % 3 == 0 { structured[(out.rng.below(structured.len() as u64)) as usize] } else if k % 3 == 1 { out.rng.word() & out.rng.word() } else { out.rng.word() };
        let len = 2 + out.rng.below(9) as usize;
        let ops: Vec<String> = (0..len)
            .map(|_| match out.rng.below(6) {
                0 | 1 => "n".to_string(),
                2 | 3 => "s".to_string(),
                _ => format!("t{}", out.rng.below(5)),
            })
            .collect();
        let req = format!("bb iterops {} {}", hex(a), ops.join(" "));
        out.case("iterator-op-sequence", true, req, || {
            let mut it = BitBoard::from_u64(a).iter();
            let mut outv = Vec::new();
            for op in ops.iter() {
                if op == "n" {
                    outv.push(match it.next() { Some(p) => format!("n={}", p as u8), None => "n=none".into() });
                } else if op == "s" {
                    let (lo, hi) = it.size_hint();
                    outv.push(if hi == Some(lo) { format!("s={lo}") } else { format!("s={lo}..{hi:?}") });
                } else {
                    let kk: usize = op[1..].parse().unwrap();
                    match it.nth(kk) {
                        Some(p) => outv.push(format!("t{kk}={}", p as u8)),
                        None => {
                            outv.push(format!("t{kk}=none"));
                            break;
                        }
                    }
                }
            }
            outv.join(" ")
        });
    }
    out.notes.insert("nth-path".into(), if cfg!(target_feature = "bmi2") { "bmi2 (PDEP)".into() } else { "portable (default Iterator::nth)".into() });
    out.notes.insert("structured".into(), format!("{} structured boards (empty, full, 64 singles, 2016 pairs, 8 files, 8 ranks)", structured.len()));
}

// ------------------------------------------------------------------------------------------ C19

fn ok_or_none<T>(x: Option<T>, f: impl Fn(T) -> String) -> String {
    match x {
        Some(v) => format!("ok {}", f(v)),
        None => "none".into(),
    }
}

/// the text parsers on every single byte, every two-byte string (squares) and the four/five-byte move strings over the
/// boundary alphabet: the "parsing" part of C07 (no byte string may panic a parser)
pub fn text_parsers_no_panic(out: &mut Out) {
    for p in ["file", "rank", "piece", "promo", "pos", "move"] {
        txt_case(out, "text-empty", p, &[]);
        for c in 0..=255u8 {
            txt_case(out, "text-one-byte", p, &[c]);
        }
    }
    for a in 0..=255u8 {
        for b in 0..=255u8 {
            txt_case(out, "text-two-bytes-pos", "pos", &[a, b]);
        }
    }
    let alpha: [u8; 10] = [b'a', b'h', b'i', b'`', b'1', b'8', b'0', b'9', b'-', b' '];
    for len in [4usize, 5] {
        let total = 10usize.pow(len as u32);
        let stride = if len == 4 { 1 } else { 7 };
        let mut k = 0;
        while k < total {
            let mut x = k;
            let bytes: Vec<u8> = (0..len).map(|_| { let c = alpha[x % 10]; x /= 10; c }).collect();
            txt_case(out, "text-move-alphabet", "move", &bytes);
            k += stride;
        }
    }
}

fn txt_case(out: &mut Out, kind: &str, parser: &str, bytes: &[u8]) {
    let req = format!("txt {parser} {}", hexbytes(bytes));
    let b = bytes.to_vec();
    let nt = true;
    // FromStr goes through the same function on `s.as_bytes()`; exercised when the bytes are UTF-8
    let s = std::str::from_utf8(bytes).ok().map(|s| s.to_string());
    match parser {
        "file" => out.case(kind, nt, req, || {
            let r = File::from_ascii_bytes(&b);
            if let Some(s) = &s {
                if s.parse::<File>().ok() != r {
                    return "fromstr-differs".into();
                }
            }
            if b.len() == 1 && File::from_ascii_byte(b[0]) != r {
                return "byte-differs".into();
            }
            ok_or_none(r, |f| format!("{}", f as u8))
        }),
        "rank" => out.case(kind, nt, req, || {
            let r = Rank::from_ascii_bytes(&b);
            if let Some(s) = &s {
                if s.parse::<Rank>().ok() != r {
                    return "fromstr-differs".into();
                }
            }
            if b.len() == 1 && Rank::from_ascii_byte(b[0]) != r {
                return "byte-differs".into();
            }
            ok_or_none(r, |f| format!("{}", f as u8))
        }),
        "piece" => out.case(kind, nt, req, || {
            let r = Piece::from_ascii_bytes(&b);
            if let Some(s) = &s {
                if s.parse::<Piece>().ok() != r {
                    return "fromstr-differs".into();
                }
            }
            if b.len() == 1 && Piece::from_ascii_byte(b[0]) != r {
                return "byte-differs".into();
            }
            ok_or_none(r, |f| format!("{}", f as u8))
        }),
        "promo" => out.case(kind, nt, req, || {
            let r = PromotionPiece::from_ascii_bytes(&b);
            if let Some(s) = &s {
                if s.parse::<PromotionPiece>().ok() != r {
                    return "fromstr-differs".into();
                }
            }
            if b.len() == 1 && PromotionPiece::from_ascii_byte(b[0]) != r {
                return "byte-differs".into();
            }
            ok_or_none(r, |f| format!("{}", f as u8))
        }),
        "pos" => out.case(kind, nt, req, || {
            let r = Pos::from_ascii_bytes(&b);
            if let Some(s) = &s {
                if s.parse::<Pos>().ok() != r {
                    return "fromstr-differs".into();
                }
            }
            ok_or_none(r, |f| format!("{}", f as u8))
        }),
        "move" => out.case(kind, nt, req, || {
            let r = ChessMove::from_ascii_bytes(&b);
            if let Some(s) = &s {
                if s.parse::<ChessMove>().ok() != r {
                    return "fromstr-differs".into();
                }
            }
            ok_or_none(r, show_move)
        }),
        _ => unreachable!(),
    }
}

#[derive(Clone, Copy)]
enum IOp {
    Next,
    Back,
    Size,
    Nth(usize),
    NthBack(usize),
    /// the consuming adaptors, observed on a copy of the iterator: `it.clone().last()`, `it.clone().count()` (also `max`,
    /// `min` and `rev().last()`, which must be the last / first / first of what is left)
    Last,
    Count,
}

fn iop_tok(o: IOp) -> String {
    match o {
        IOp::Next => "n".into(),
        IOp::Back => "b".into(),
        IOp::Size => "s".into(),
        IOp::Nth(n) => format!("t{n}"),
        IOp::NthBack(n) => format!("u{n}"),
        IOp::Last => "l".into(),
        IOp::Count => "c".into(),
    }
}

fn run_iter<I, T>(mut it: I, ops: &[IOp], idx: impl Fn(T) -> usize) -> String
where
    I: DoubleEndedIterator<Item = T> + Clone,
{
    let mut toks = Vec::new();
    for &o in ops {
        let r: Option<usize> = match o {
            IOp::Next => it.next().map(&idx),
            IOp::Back => it.next_back().map(&idx),
            IOp::Nth(n) => it.nth(n).map(&idx),
            IOp::NthBack(n) => it.nth_back(n).map(&idx),
            IOp::Last => {
                let l = it.clone().last().map(&idx);
                // the values come in ascending order: the greatest is the last, the least the first
                if it.clone().map(&idx).max() != l || it.clone().map(&idx).min() != it.clone().next().map(&idx) || it.clone().rev().last().map(&idx) != it.clone().next().map(&idx) {
                    toks.push("max/min/rev-disagree".to_string());
                    continue;
                }
                l
            }
            IOp::Count => Some(it.clone().count()),
            IOp::Size => {
                let (lo, hi) = it.size_hint();
                if hi != Some(lo) {
                    toks.push("inexact".to_string());
                    continue;
                }
                Some(lo)
            }
        };
        toks.push(match r {
            Some(v) => v.to_string(),
            None => "-".into(),
        });
    }
    toks.join(" ")
}

fn iter_case(out: &mut Out, kind: &str, which: usize, ops: &[IOp]) {
    let n = [8, 8, 6, 2, 2][which];
    let req = format!("iter {n} {}", ops.iter().map(|&o| iop_tok(o)).collect::<Vec<_>>().join(" "));
    let ops = ops.to_vec();
    let k = format!("{kind}-{}", ["file", "rank", "piece", "color", "side"][which]);
    out.case(&k, true, req, || match which {
        0 => run_iter(File::all(), &ops, |x| x as usize),
        1 => run_iter(Rank::all(), &ops, |x| x as usize),
        2 => run_iter(Piece::all(), &ops, |x| x as usize),
        3 => run_iter(Color::all(), &ops, |x| x as usize),
        _ => run_iter(Side::all(), &ops, |x| x as usize),
    });
}

pub fn c19(out: &mut Out, thorough: bool) {
    // square / file / rank consistency
    for i in 0..64u8 {
        let p = Pos::from_u8(i).unwrap();
        let os = |x: Option<Pos>| match x {
            Some(p) => format!("{}", p as u8),
            None => "none".into(),
        };
        out.case("sq", true, format!("sq file {i}"), || format!("{}", p.file() as u8));
        out.case("sq", true, format!("sq rank {i}"), || format!("{}", p.rank() as u8));
        out.case("sq", true, format!("sq up {i}"), || os(p.shift_up()));
        out.case("sq", true, format!("sq down {i}"), || os(p.shift_down()));
        out.case("sq", true, format!("sq left {i}"), || os(p.shift_left()));
        out.case("sq", true, format!("sq right {i}"), || os(p.shift_right()));
        out.case("sq", true, format!("sq flip {i}"), || format!("{}", p.flip_rank() as u8));
        out.case("sq", true, format!("sq fromu8 {i}"), || {
            if Pos::const_from_u8(i) != p || p.to_u8() != i {
                return "const_from_u8/to_u8 differ".into();
            }
            os(Pos::from_u8(i))
        });
        out.case("sq", true, format!("sq mk {} {}", i % 8, i / 8), || {
            format!("{}", Pos::new(File::from_u8(i % 8).unwrap(), Rank::from_u8(i / 8).unwrap()) as u8)
        });
        out.case("show", true, format!("show pos {i}"), || {
            let s = format!("{p}");
            format!("{} {}", hexbytes(s.as_bytes()), ok_or_none(s.parse::<Pos>().ok(), |q| format!("{}", q as u8)))
        });
    }
    for i in 0..8u8 {
        let f = File::from_u8(i).unwrap();
        let r = Rank::from_u8(i).unwrap();
        out.case("show", true, format!("show file {i}"), || {
            let s = format!("{f}");
            if s.as_bytes() != [f.lower_letter() as u8] {
                return "display!=lower_letter".into();
            }
            format!("{} {} {}", hexbytes(s.as_bytes()), hexbytes(&[f.upper_letter() as u8]), ok_or_none(s.parse::<File>().ok(), |q| format!("{}", q as u8)))
        });
        out.case("show", true, format!("show rank {i}"), || {
            let s = format!("{r}");
            format!("{} {}", hexbytes(s.as_bytes()), ok_or_none(s.parse::<Rank>().ok(), |q| format!("{}", q as u8)))
        });
    }
    for s in Pos::all() {
        for d in Pos::all() {
            for piece in PROMOS {
                if piece.is_some() && !(thorough || (s as u8 + d as u8) % 7 == 0) {
                    continue;
                }
                let m = ChessMove { source: s, dest: d, piece };
                out.case(if piece.is_some() { "show-promotion-move" } else { "show-move" }, true, format!("show move {}", show_move(m)), || {
                    let t = format!("{m}");
                    format!("{} {}", hexbytes(t.as_bytes()), ok_or_none(t.parse::<ChessMove>().ok(), show_move))
                });
            }
        }
    }
    // parsers: every byte, the empty string, every two-byte string
    for p in ["file", "rank", "piece", "promo", "pos", "move"] {
        txt_case(out, "empty", p, &[]);
        for c in 0..=255u8 {
            txt_case(out, "one-byte", p, &[c]);
        }
    }
    for a in 0..=255u8 {
        for b in 0..=255u8 {
            txt_case(out, "two-bytes-pos", "pos", &[a, b]);
        }
    }
    for p in ["file", "rank", "piece", "promo", "move"] {
        for _ in 0..2000 {
            let a = out.rng.next() as u8;
            let b = out.rng.next() as u8;
            txt_case(out, "two-bytes-other", p, &[a, b]);
        }
    }
    // move strings over the boundary alphabet
    let alpha: [u8; 14] = [b'a', b'h', b'i', b'`', b'A', b'H', b'I', b'@', b'1', b'8', b'0', b'9', b'-', b' '];
    let mut idx = [0usize; 5];
    for len in [4usize, 5] {
        let total = 14usize.pow(len as u32);
        let stride = if thorough || len == 4 { 1 } else { 11 };
        let mut k = (out.rng.below(stride as u64)) as usize;
        while k < total {
            let mut x = k;
            for i in 0..len {
                idx[i] = x % 14;
                x /= 14;
            }
            let bytes: Vec<u8> = (0..len).map(|i| alpha[idx[i]]).collect();
            txt_case(out, if len == 4 { "move-4-alphabet" } else { "move-5-alphabet" }, "move", &bytes);
            k += stride;
        }
    }
    // valid moves with one foreign byte at each position; other lengths
    let foreign: [u8; 10] = [0, 0x7f, 0x80, 0xff, b'x', b'X', b'2', b'=', b'_', b'e'];
    for _ in 0..(if thorough { 20_000 } else { 2_000 }) {
        let mut v = vec![b'a' + out.rng.below(8) as u8, b'1' + out.rng.below(8) as u8];
        if out.rng.chance(1, 2) {
            v.push(b'-');
        }
        v.push(b'a' + out.rng.below(8) as u8);
        v.push(b'1' + out.rng.below(8) as u8);
        if out.rng.chance(1, 3) {
            for c in v.iter_mut() {
                if out.rng.chance(1, 2) {
                    *c = c.to_ascii_uppercase();
                }
            }
        }
        txt_case(out, "move-valid", "move", &v);
        let i = out.rng.below(v.len() as u64) as usize;
        let mut w = v.clone();
        w[i] = *out.rng.pick(&foreign);
        txt_case(out, "move-one-foreign", "move", &w);
        let mut w = v.clone();
        match out.rng.below(3) {
            0 => {
                w.push(*out.rng.pick(&[b'q', b'Q', b'n', b' ', b'1']));
            }
            1 => {
                w.remove(i);
            }
            _ => {
                w.insert(i, *out.rng.pick(&foreign));
            }
        }
        txt_case(out, "move-other-length", "move", &w);
    }
    for _ in 0..(if thorough { 50_000 } else { 5_000 }) {
        let len = out.rng.below(9) as usize;
        let v: Vec<u8> = (0..len).map(|_| if out.rng.chance(2, 3) { *out.rng.pick(&alpha) } else { out.rng.next() as u8 }).collect();
        let p = *out.rng.pick(&["file", "rank", "piece", "promo", "pos", "move"]);
        txt_case(out, "random-bytes", p, &v);
    }
    // enumerating iterators: all operation sequences to a depth, then random longer ones
    let ops_alpha = [
        IOp::Next, IOp::Back, IOp::Size, IOp::Nth(0), IOp::Nth(1), IOp::Nth(2), IOp::Nth(5), IOp::Nth(8),
        IOp::Nth(255), IOp::Nth(256), IOp::Nth(usize::MAX), IOp::NthBack(0), IOp::NthBack(1), IOp::NthBack(3),
        IOp::NthBack(8), IOp::NthBack(9), IOp::NthBack(usize::MAX), IOp::Last, IOp::Count,
    ];
    let depth = if thorough { 4 } else { 3 };
    let na = ops_alpha.len();
    for which in 0..5 {
        for d in 1..=depth {
            let total = na.pow(d as u32);
            for k in 0..total {
                let mut x = k;
                let mut ops = Vec::with_capacity(d + 1);
                for _ in 0..d {
                    ops.push(ops_alpha[x % na]);
                    x /= na;
                }
                ops.push(IOp::Size);
                iter_case(out, "iter-exhaustive", which, &ops);
            }
        }
        for _ in 0..(if thorough { 20_000 } else { 2_000 }) {
            let len = 1 + out.rng.below(10) as usize;
            let ops: Vec<IOp> = (0..len)
                .map(|_| match out.rng.below(8) {
                    0..=2 => IOp::Next,
                    3 | 4 => IOp::Back,
                    5 => *out.rng.pick(&[IOp::Size, IOp::Last, IOp::Count]),
                    6 => IOp::Nth(out.rng.below(4) as usize),
                    _ => IOp::NthBack(out.rng.below(4) as usize),
                })
                .collect();
            iter_case(out, "iter-random", which, &ops);
        }
    }
    out.notes.insert("exhaustive".into(), format!("64 squares; 256 single bytes x 6 parsers; 65536 two-byte strings (pos); 14^4 move strings{}; iterator op sequences over {} ops to depth {}", if thorough { " and 14^5" } else { " and every 11th of 14^5" }, na, depth));
}

// ------------------------------------------------------------------------------------------ C20

mod trace {
    use std::sync::mpsc::{channel, Receiver, Sender};
    use tracing_enabled as te;

    #[derive(Clone, Copy, PartialEq, Eq, Debug)]
    pub enum Op {
        Enable,
        Disable,
        Toggle,
        LEnable,
        LDisable,
        LToggle,
        Take,
        Restore(usize),
        Query,
    }

    pub const BASIC: [Op; 9] = [Op::Enable, Op::Disable, Op::Toggle, Op::LEnable, Op::LDisable, Op::LToggle, Op::Take, Op::Restore(usize::MAX), Op::Query];

    pub fn tok(o: Op) -> String {
        match o {
            Op::Enable => "e".into(),
            Op::Disable => "d".into(),
            Op::Toggle => "t".into(),
            Op::LEnable => "le".into(),
            Op::LDisable => "ld".into(),
            Op::LToggle => "lt".into(),
            Op::Take => "tk".into(),
            Op::Restore(i) => format!("rs{i}"),
            Op::Query => "q".into(),
        }
    }

    struct Probe;
    static PROBE: Probe = Probe;
    static META: tracing::Metadata<'static> = tracing::metadata! {
        name: "probe",
        target: "harness",
        level: tracing::Level::ERROR,
        fields: &[],
        callsite: &PROBE,
        kind: tracing::metadata::Kind::EVENT
    };
    impl tracing::callsite::Callsite for Probe {
        fn set_interest(&self, _: tracing::subscriber::Interest) {}
        fn metadata(&self) -> &tracing::Metadata<'_> {
            &META
        }
    }

    /// would an event be enabled on this thread under a subscriber stack that has `GlobalEnable` as a layer?
    fn layer_view() -> bool {
        use tracing_subscriber::layer::SubscriberExt;
        let d = tracing::Dispatch::new(tracing_subscriber::registry().with(te::GlobalEnable));
        d.enabled(&META)
    }

    enum Cmd {
        Do(Op),
        View,
        Quit,
    }

    struct Worker {
        tx: Sender<Cmd>,
        rx: Receiver<bool>,
        handle: Option<std::thread::JoinHandle<()>>,
    }

    fn spawn() -> Worker {
        let (tx, crx) = channel::<Cmd>();
        let (rtx, rx) = channel::<bool>();
        let handle = std::thread::spawn(move || {
            // LocalEnableState is neither Send nor Clone: saved states live on the thread that took them
            let mut saved: Vec<Option<te::LocalEnableState>> = Vec::new();
            while let Ok(c) = crx.recv() {
                match c {
                    Cmd::Do(op) => {
                        match op {
                            Op::Enable => te::enable(),
                            Op::Disable => te::disable(),
                            Op::Toggle => te::toggle(),
                            Op::LEnable => te::local_enable(),
                            Op::LDisable => te::local_disable(),
                            Op::LToggle => te::local_toggle(),
                            Op::Take => saved.push(Some(te::local_take())),
                            Op::Restore(i) => {
                                if let Some(s) = saved[i].take() {
                                    te::restore(s)
                                }
                            }
                            Op::Query => {
                                let _ = te::is_enabled();
                            }
                        }
                        rtx.send(true).unwrap();
                    }
                    Cmd::View => {
                        // the view as the program experiences it: `GlobalEnable` installed as a layer decides, on this
                        // thread, whether an event is enabled; it must be the same as `is_enabled()`
                        let v = te::is_enabled();
                        let layer = layer_view();
                        rtx.send(v).unwrap();
                        rtx.send(layer == v).unwrap();
                    }
                    Cmd::Quit => break,
                }
            }
        });
        Worker { tx, rx, handle: Some(handle) }
    }

    /// run one schedule on `nthreads` fresh threads (fresh thread-locals), after resetting the
    /// global flag to its initial value on a throw-away thread; returns the views after every step
    pub fn run(nthreads: usize, sched: &[(usize, Op)]) -> String {
        std::thread::spawn(|| te::enable()).join().unwrap();
        let mut ws: Vec<Worker> = (0..nthreads).map(|_| spawn()).collect();
        let mut toks = Vec::new();
        for &(t, op) in sched {
            ws[t].tx.send(Cmd::Do(op)).unwrap();
            ws[t].rx.recv().unwrap();
            let mut v = String::new();
            for w in ws.iter() {
                w.tx.send(Cmd::View).unwrap();
                let view = w.rx.recv().unwrap();
                let layer_agrees = w.rx.recv().unwrap();
                v.push(if !layer_agrees { 'L' } else if view { '1' } else { '0' });
            }
            toks.push(v);
        }
        for w in ws.iter_mut() {
            w.tx.send(Cmd::Quit).unwrap();
            w.handle.take().unwrap().join().unwrap();
        }
        toks.join(" ")
    }
}

fn c20_case(out: &mut Out, kind: &str, nthreads: usize, raw: &[(usize, trace::Op)]) {
    use trace::Op;
    // resolve `Restore(MAX)` to "the oldest state this thread saved and has not restored yet";
    // with nothing to restore the operation degrades to a query
    let mut saved: Vec<Vec<bool>> = vec![Vec::new(); nthreads]; // true = still available
    let mut sched = Vec::new();
    for &(t, op) in raw {
        let op = match op {
            Op::Take => {
                saved[t].push(true);
                Op::Take
            }
            Op::Restore(i) => {
                let pick = if i == usize::MAX { saved[t].iter().position(|&a| a) } else if i < saved[t].len() && saved[t][i] { Some(i) } else { saved[t].iter().position(|&a| a) };
                match pick {
                    Some(j) => {
                        saved[t][j] = false;
                        Op::Restore(j)
                    }
                    None => Op::Query,
                }
            }
            o => o,
        };
        sched.push((t, op));
    }
    let req = format!("trace {nthreads} {}", sched.iter().map(|&(t, o)| format!("{t}:{}", trace::tok(o))).collect::<Vec<_>>().join(" "));
    let nt = sched.iter().any(|&(t, _)| t != sched[0].0);
    out.case(kind, nt, req, || trace::run(nthreads, &sched));
}

pub fn c20(out: &mut Out, thorough: bool) {
    use trace::{Op, BASIC};
    let depth = if thorough { 4 } else { 3 };
    let alpha: Vec<(usize, Op)> = (0..2).flat_map(|t| BASIC.iter().map(move |&o| (t, o))).collect();
    let na = alpha.len();
    let total = na.pow(depth as u32);
    for k in 0..total {
        let mut x = k;
        let mut s = Vec::new();
        for _ in 0..depth {
            s.push(alpha[x % na]);
            x /= na;
        }
        c20_case(out, "exhaustive-2-threads", 2, &s);
    }
    let n = if thorough { 20_000 } else { 1_500 };
    for _ in 0..n {
        let nthreads = 2 + out.rng.below(2) as usize;
        let len = 1 + out.rng.below(30) as usize;
        let s: Vec<(usize, Op)> = (0..len)
            .map(|_| {
                let t = out.rng.below(nthreads as u64) as usize;
                let mut o = *out.rng.pick(&BASIC);
                if let Op::Restore(_) = o {
                    o = Op::Restore(out.rng.below(4) as usize);
                }
                (t, o)
            })
            .collect();
        c20_case(out, "random", nthreads, &s);
    }
    out.notes.insert("exhaustive".into(), format!("all {na}^{depth} schedules of length {depth} over two real threads x 9 operations; views of every thread sampled after every step"));
}
