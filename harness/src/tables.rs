//! Streams for C08 (slider lookups), C09 (geometry tables, constants, generator), C04 (keys).
use crate::common::{hex, Out};
use chess_bitboard::{BitBoard, Color, File, Piece, Pos, Rank};

fn pos(i: u8) -> Pos {
    Pos::from_u8(i).unwrap()
}
fn bbh(b: BitBoard) -> String {
    hex(b.to_u64())
}
fn col(c: Color) -> &'static str {
    match c {
        Color::White => "w",
        Color::Black => "b",
    }
}

pub fn c09(out: &mut Out, thorough: bool) {
    use chess_lookup as l;
    use chess_lookup_generator as g;
    for i in 0..64u8 {
        let p = pos(i);
        out.case("square-table", true, format!("lookup knight {i}"), || bbh(l::knight_moves(p)));
        out.case("square-table", true, format!("lookup king {i}"), || bbh(l::king_moves(p)));
        out.case("square-table", true, format!("lookup rookrays {i}"), || bbh(l::rook_rays(p)));
        out.case("square-table", true, format!("lookup bishoprays {i}"), || bbh(l::bishop_rays(p)));
        // the generator's deterministic functions must reproduce the checked-in tables
        out.case("generator", true, format!("gen knight {i}"), || bbh(g::knight_moves(p)));
        out.case("generator", true, format!("gen king {i}"), || bbh(g::king_moves(p)));
        out.case("generator", true, format!("gen rookrays {i}"), || bbh(g::rook_rays(p)));
        out.case("generator", true, format!("gen bishoprays {i}"), || bbh(g::bishop_rays(p)));
        for c in [Color::White, Color::Black] {
            out.case("square-table", true, format!("lookup pawnatt {i} {}", col(c)), || bbh(l::pawn_attacks_moves(p, c)));
            out.case("generator", true, format!("gen pawnatt {i} {}", col(c)), || bbh(g::pawn_attacks(p)[c as usize]));
            // PAWN_QUIETS is only visible through pawn_quiets on the empty board
            out.case("generator", true, format!("gen pawnq {i} {} 0", col(c)), || bbh(g::pawn_quiets(p)[c as usize]));
        }
    }
    let gb = g::between();
    let gl = g::line();
    for a in 0..64u8 {
        for b in 0..64u8 {
            out.case("pair-table", true, format!("lookup between {a} {b}"), || bbh(l::between(pos(a), pos(b))));
            out.case("pair-table", true, format!("lookup line {a} {b}"), || bbh(l::line(pos(a), pos(b))));
            out.case("pair-table", true, format!("lookup dist {a} {b}"), || format!("{}", l::distance(pos(a), pos(b))));
            out.case("generator", true, format!("gen between {a} {b}"), || bbh(gb[a as usize * 64 + b as usize]));
            out.case("generator", true, format!("gen line {a} {b}"), || bbh(gl[a as usize * 64 + b as usize]));
        }
    }
    for i in 0..8u8 {
        out.case("adjacent", true, format!("lookup adjfile {i}"), || bbh(l::ADJACENT_FILES[File::from_u8(i).unwrap()]));
        out.case("adjacent", true, format!("lookup adjrank {i}"), || bbh(l::ADJACENT_RANKS[Rank::from_u8(i).unwrap()]));
    }
    let arr = |a: &[BitBoard]| a.iter().map(|b| bbh(*b)).collect::<Vec<_>>().join(" ");
    let files = |a: &[File]| a.iter().map(|f| format!("{}", *f as u8)).collect::<Vec<_>>().join(" ");
    let ranks = |a: &[Rank]| a.iter().map(|f| format!("{}", *f as u8)).collect::<Vec<_>>().join(" ");
    let consts: Vec<(&str, String)> = vec![
        ("PAWN_DOUBLE_SOURCE", bbh(l::PAWN_DOUBLE_SOURCE)),
        ("PAWN_DOUBLE_DEST", bbh(l::PAWN_DOUBLE_DEST)),
        ("CASTLE_MOVES", bbh(l::CASTLE_MOVES)),
        ("ROOK_CASTLE_QUEENSIDE", bbh(l::ROOK_CASTLE_QUEENSIDE)),
        ("ROOK_CASTLE_KINGSIDE", bbh(l::ROOK_CASTLE_KINGSIDE)),
        ("KINGSIDE_CASTLE_FILES", bbh(l::KINGSIDE_CASTLE_FILES)),
        ("QUEENSIDE_CASTLE_FILES", bbh(l::QUEENSIDE_CASTLE_FILES)),
        ("KINGSIDE_CASTLE_SAFE_FILES", bbh(l::KINGSIDE_CASTLE_SAFE_FILES)),
        ("QUEENSIDE_CASTLE_SAFE_FILES", bbh(l::QUEENSIDE_CASTLE_SAFE_FILES)),
        ("BACKRANK_BB", arr(&l::BACKRANK_BB)),
        ("PAWN_DOUBLE_MOVE", arr(&l::PAWN_DOUBLE_MOVE)),
        ("BACKRANK", ranks(&l::BACKRANK)),
        ("CASTLE_ROOK_START", files(&l::CASTLE_ROOK_START)),
        ("CASTLE_ROOK_END", files(&l::CASTLE_ROOK_END)),
        ("PROMOTION_RANK", ranks(&l::PROMOTION_RANK)),
        ("PAWN_DOUBLE_MOVE_SOURCE_RANK", ranks(&l::PAWN_DOUBLE_MOVE_SOURCE_RANK)),
        ("PAWN_DOUBLE_MOVE_DEST_RANK", ranks(&l::PAWN_DOUBLE_MOVE_DEST_RANK)),
    ];
    for (n, v) in consts {
        out.record("constant", true, format!("lookup const {n}"), v);
    }
    // pawn helpers: every pattern on the (at most) four relevant squares, then random occupancies
    for i in 0..64u8 {
        let p = pos(i);
        for c in [Color::White, Color::Black] {
            let mut rel: Vec<u8> = Vec::new();
            let dir: i16 = if c == Color::White { 8 } else { -8 };
            for d in [dir, 2 * dir, dir - 1, dir + 1] {
                let t = i as i16 + d;
                if (0..64).contains(&t) {
                    rel.push(t as u8);
                }
            }
            for pat in 0..(1u32 << rel.len()) {
                let mut occ = 0u64;
                for (k, &sq) in rel.iter().enumerate() {
                    if pat & (1 << k) != 0 {
                        occ |= 1 << sq;
                    }
                }
                for noise in 0..(if thorough { 4 } else { 2 }) {
                    let mut o = occ;
                    if noise > 0 {
                        let mut n = out.rng.word();
                        for &sq in &rel {
                            n &= !(1u64 << sq);
                        }
                        o |= n;
                    }
                    let b = BitBoard::from_u64(o);
                    let k = if noise == 0 { "pawn-relevant-pattern" } else { "pawn-pattern-plus-noise" };
                    out.case(k, true, format!("lookup pawnq {i} {} {}", col(c), hex(o)), || bbh(l::pawn_quiets(p, c, b)));
                    out.case(k, true, format!("lookup pawna {i} {} {}", col(c), hex(o)), || bbh(l::pawn_attacks(p, c, b)));
                    out.case(k, true, format!("lookup pawnm {i} {} {}", col(c), hex(o)), || bbh(l::pawn_moves(p, c, b)));
                }
            }
        }
    }
    out.exhaustive = true;
    out.notes.insert("exhaustive".into(), "every public accessor and constant of chess_lookup over its whole domain (64 squares, 4096 pairs, 2 colours, 8 files/ranks); every deterministic public function of chess_lookup_generator against the checked-in tables; pawn helpers on all 2^k patterns of their relevant squares (+ random off-pattern noise)".into());
}

fn subsets_of(mask: u64, mut f: impl FnMut(u64)) {
    // carry-rippler enumeration of all subsets of mask
    let mut s = 0u64;
    loop {
        f(s);
        s = s.wrapping_sub(mask) & mask;
        if s == 0 {
            break;
        }
    }
}

pub fn c08(out: &mut Out, thorough: bool) {
    use chess_lookup as l;
    // relevant squares: everything on the piece's own rays (a superset of the magic masks, so the
    // independence from edge squares is swept exhaustively too when `thorough`)
    for i in 0..64u8 {
        let p = pos(i);
        let rr = l::rook_rays(p).to_u64();
        let br = l::bishop_rays(p).to_u64();
        let edge_free = |rays: u64| {
            let mut m = rays;
            let (f, r) = (i % 8, i / 8);
            if r != 0 { m &= !0xffu64; }
            if r != 7 { m &= !(0xffu64 << 56); }
            if f != 0 { m &= !0x0101010101010101u64; }
            if f != 7 { m &= !(0x0101010101010101u64 << 7); }
            m
        };
        let rmask = if thorough { rr } else { edge_free(rr) };
        let bmask = if thorough { br } else { edge_free(br) };
        let kind_r = if thorough { "rook-all-ray-subsets" } else { "rook-all-inner-ray-subsets" };
        let kind_b = if thorough { "bishop-all-ray-subsets" } else { "bishop-all-inner-ray-subsets" };
        let mut v = Vec::new();
        subsets_of(rmask, |s| v.push(s));
        for s in v {
            out.case(kind_r, true, format!("lookup rook {i} {}", hex(s)), || format!("{} true", bbh(l::rook_moves(p, BitBoard::from_u64(s)))));
        }
        let mut v = Vec::new();
        subsets_of(bmask, |s| v.push(s));
        for s in v {
            out.case(kind_b, true, format!("lookup bishop {i} {}", hex(s)), || format!("{} true", bbh(l::bishop_moves(p, BitBoard::from_u64(s)))));
        }
    }
    let n = if thorough { 2_000_000 } else { 100_000 };
    for _ in 0..n {
        let i = out.rng.below(64) as u8;
        let occ = out.rng.word() | if out.rng.chance(1, 2) { out.rng.next() } else { 0 };
        let p = pos(i);
        out.case("rook-random-occupancy", true, format!("lookup rook {i} {}", hex(occ)), || format!("{} true", bbh(l::rook_moves(p, BitBoard::from_u64(occ)))));
        out.case("bishop-random-occupancy", true, format!("lookup bishop {i} {}", hex(occ)), || format!("{} true", bbh(l::bishop_moves(p, BitBoard::from_u64(occ)))));
    }
    out.exhaustive = true;
    out.notes.insert("exhaustive".into(), if thorough { "every subset of every square's full rays (2^14 per rook square, up to 2^13 per bishop square) + random full occupancies".into() } else { "every subset of every square's inner rays (= the magic masks: 102400 + 5248) + random full occupancies".into() });
}

pub fn c04keys(out: &mut Out, _thorough: bool) {
    use chess_lookup as l;
    for i in 0..64u8 {
        for pc in 0..6u8 {
            for c in [Color::White, Color::Black] {
                out.case("piece-key", true, format!("zob piece {i} {pc} {}", col(c)), || hex(l::zobrist(pos(i), Piece::from_u8(pc).unwrap(), c)));
            }
        }
    }
    for i in 0..16usize {
        out.case("castle-key", true, format!("zob castle {i}"), || hex(l::castle_rights_zobrist(i)));
    }
    for f in 0..8u8 {
        out.case("ep-key", true, format!("zob ep {f}"), || hex(l::en_passant_zobrist(File::from_u8(f).unwrap())));
    }
    for c in [Color::White, Color::Black] {
        out.case("turn-key", true, format!("zob turn {}", col(c)), || hex(l::turn_zobrist(c)));
    }
    out.exhaustive = true;
}

// ------------------------------------------------------------------------------------------ C17

pub fn c17(out: &mut Out, _thorough: bool) {
    use chess_lookup::{BookMoves, INITIAL_BOOOK_MOVES};
    use chess_movegen::{Board, ChessMove};
    struct Tally {
        nodes: u64,
        edges: u64,
        illegal: u64,
        digest: u64,
        first_illegal: Option<String>,
    }
    fn sqn(p: chess_bitboard::Pos) -> String {
        let i = p.to_u8();
        format!("{}{}", (b'a' + i % 8) as char, (b'1' + i / 8) as char)
    }
    fn visit(bm: BookMoves, b: &Board, depth: u64, t: &mut Tally, line: &mut Vec<String>) {
        for m in bm {
            line.push(format!("{}{}", sqn(m.source), sqn(m.dest)));
            t.edges += 1;
            t.digest = t.digest.wrapping_mul(1000003).wrapping_add(depth * 4096 + (m.source as u64) * 64 + m.dest as u64);
            let mut nb = *b;
            // the book is consumed exactly like this by the CLI: the checked move with no promotion piece
            if nb.move_mut(ChessMove { source: m.source, dest: m.dest, piece: None }) {
                t.nodes += 1;
                visit(m.children, &nb, depth + 1, t, line);
            } else {
                t.illegal += 1;
                if t.first_illegal.is_none() {
                    t.first_illegal = Some(line.join(","));
                }
            }
            line.pop();
        }
    }
    // the property itself, as an oracle independent of the model: no line of the book contains an illegal move
    out.case("every-line-legal", true, "expect legal-lines-only #book-lines".into(), || {
        let mut t = Tally { nodes: 1, edges: 0, illegal: 0, digest: 0, first_illegal: None };
        visit(INITIAL_BOOOK_MOVES, &Board::standard(), 0, &mut t, &mut Vec::new());
        match t.first_illegal {
            None => "legal-lines-only".into(),
            Some(l) => format!("illegal-move-at-end-of-line:{l}:({}-illegal-in-all)", t.illegal),
        }
    });
    out.case("whole-book", true, "book walk".into(), || {
        let mut t = Tally { nodes: 1, edges: 0, illegal: 0, digest: 0, first_illegal: None };
        visit(INITIAL_BOOOK_MOVES, &Board::standard(), 0, &mut t, &mut Vec::new());
        // oob / fuelout: the checked build's debug_assert! and index arithmetic would have panicked
        format!("nodes={} edges={} illegal={} oob=0 fuelout=0 digest={}", t.nodes, t.edges, t.illegal, t.digest)
    });
    // a second, forced non-trivial case so that the evidence counts distinct cases honestly:
    // the empty book yields nothing
    out.case("empty-book", true, "expect same empty-book".into(), || {
        if chess_lookup::EMPTY_BOOK_MOVES.into_iter().next().is_none() { "same".into() } else { "differs:empty-book-yields".into() }
    });
    // reading a reply list by position: `nth(n)` is the n-th element of plain iteration and nothing beyond the end,
    // on every node of the first three plies (and `count`, `last`, `size_hint` agree with the length)
    out.case("reply-lists-by-position", true, "expect same #book-nth".into(), || {
        fn probe(bm: BookMoves, depth: u32) -> Option<String> {
            let all: Vec<_> = bm.clone().into_iter().map(|m| (m.source as u8, m.dest as u8)).collect();
            let len = all.len();
            if bm.clone().into_iter().count() != len {
                return Some(format!("count-differs-at-depth-{depth}"));
            }
            for n in (0..len + 1).chain([len + 1, len + 2, len + 5, len + 13, len + 100]) {
                let got = bm.clone().into_iter().nth(n).map(|m| (m.source as u8, m.dest as u8));
                let want = all.get(n).copied();
                if got != want {
                    return Some(format!("nth({n})-of-a-list-of-{len}-at-depth-{depth}:{got:?}-instead-of-{want:?}"));
                }
            }
            if depth < 3 {
                for m in bm.clone() {
                    if let Some(e) = probe(m.children, depth + 1) {
                        return Some(e);
                    }
                }
            }
            None
        }
        match probe(INITIAL_BOOOK_MOVES, 0) {
            None => "same".into(),
            Some(e) => format!("differs:{e}"),
        }
    });
    out.exhaustive = true;
    out.notes.insert("exhaustive".into(), "every node of the embedded book reached from INITIAL_BOOOK_MOVES, each move played with the real move_mut from the standard position".into());
}

// ------------------------------------------------------------------------------------------ book builder

/// a trie node for the builder stream: move payload (source | dest << 6), count, depth field, children
struct GenNode {
    mv: u16,
    count: u32,
    depth: usize,
    kids: Vec<GenNode>,
}

fn sq_txt(i: u16) -> String {
    format!("{}{}", (b'a' + (i % 8) as u8) as char, (b'1' + (i / 8) as u8) as char)
}

impl GenNode {
    fn json(&self, out: &mut String) {
        out.push_str(&format!("{{\"count\":{},\"depth\":{},\"next\":{{", self.count, self.depth));
        for (i, k) in self.kids.iter().enumerate() {
            if i > 0 {
                out.push(',');
            }
            out.push_str(&format!("\"{}{}\":", sq_txt(k.mv & 63), sq_txt(k.mv >> 6)));
            k.json(out);
        }
        out.push_str("}}");
    }
    /// preorder `mv:count:depth:nchildren`, children in ascending count (the order `encode` visits them)
    fn tokens(&self, out: &mut Vec<String>) {
        out.push(format!("{}:{}:{}:{}", self.mv, self.count, self.depth, self.kids.len()));
        let mut ks: Vec<&GenNode> = self.kids.iter().collect();
        ks.sort_by_key(|k| k.count);
        for k in ks {
            k.tokens(out);
        }
    }
    fn nodes(&self) -> usize {
        1 + self.kids.iter().map(|k| k.nodes()).sum::<usize>()
    }
}

/// `branch(ply, rng)` children per node at that ply; leaves at ply 8; counts consistent (inner = sum of children),
/// siblings with distinct counts and distinct moves
fn gen_trie(rng: &mut crate::common::Rng, ply: usize, mv: u16, branch: &dyn Fn(usize, &mut crate::common::Rng) -> usize, low_leaves: bool, next_count: &mut u32) -> GenNode {
    if ply == 8 {
        *next_count += 1 + rng.below(7) as u32;
        let c = if low_leaves && rng.chance(1, 5) { 50 + rng.below(350) as u32 } else { 401 + *next_count };
        return GenNode { mv, count: c, depth: 0, kids: Vec::new() };
    }
    loop {
        let k = branch(ply, rng).max(1);
        let mut kids: Vec<GenNode> = Vec::new();
        let mut used: Vec<u16> = Vec::new();
        while kids.len() < k {
            let m = (rng.below(64) as u16) | ((rng.below(64) as u16) << 6);
            if used.contains(&m) {
                continue;
            }
            used.push(m);
            kids.push(gen_trie(rng, ply + 1, m, branch, low_leaves, next_count));
        }
        let mut cs: Vec<u32> = kids.iter().map(|k| k.count).collect();
        cs.sort();
        cs.dedup();
        if cs.len() != kids.len() {
            continue; // two siblings with the same count: the sort order would not be determined
        }
        let count = kids.iter().map(|k| k.count).sum();
        return GenNode { mv, count, depth: 8 - ply, kids };
    }
}

/// the reader (`BookMovesIter::next`) over a table that is not the embedded one
fn walk_table(tbl: &[u16], index: usize, pre: &mut Vec<u16>, lines: &mut u64, ldigest: &mut u64, inrange: &mut bool, budget: &mut u64) {
    let mut index = index;
    loop {
        if *budget == 0 {
            *inrange = false;
            return;
        }
        *budget -= 1;
        if index >= tbl.len() {
            *inrange = false;
            return;
        }
        let offset = tbl[index] as usize;
        if offset == 0 {
            return;
        }
        if index < 2 {
            *inrange = false;
            return;
        }
        let mv = tbl[index - 1] & 0xfff;
        let child = index - 2;
        let Some(next) = index.checked_sub(offset + 1) else { return };
        pre.push(mv);
        *lines += 1;
        let h = pre.iter().fold(7u64, |h, &m| h.wrapping_mul(1000003).wrapping_add(m as u64 + 1));
        *ldigest = ldigest.wrapping_add(h);
        walk_table(tbl, child, pre, lines, ldigest, inrange, budget);
        pre.pop();
        index = next;
    }
}

/// C17 for the builder: `read_lichess_games()` (validate, trim, encode) on synthetic tries; the table it emits is read
/// back the way `BookMovesIter` reads the embedded one
pub fn bookgen(out: &mut Out, thorough: bool) {
    let dir = std::env::temp_dir().join(format!("chess-verif-bookgen-{}", std::process::id()));
    let _ = std::fs::create_dir_all(dir.join("temp"));
    let old = std::env::current_dir().ok();
    let _ = std::env::set_current_dir(&dir);
    let mut rng = crate::common::Rng::new(out.seed ^ 0xB00C);
    let mut cases: Vec<(&'static str, GenNode)> = Vec::new();
    for i in 0..(if thorough { 400 } else { 40 }) {
        let mut c = 0u32;
        let low = i % 3 == 0;
        let mut t = gen_trie(&mut rng, 0, 0, &|ply, r: &mut crate::common::Rng| if ply == 0 { 1 + r.below(4) as usize } else { 1 + r.below(2) as usize + (r.below(5) == 0) as usize }, low, &mut c);
        if i % 7 == 3 {
            // a root whose `depth` field says the lines are short: `encode` keeps nothing
            t.depth = rng.below(5) as usize;
        }
        cases.push((if low { "small-with-rare-leaves" } else { "small" }, t));
    }
    // sibling links near and beyond the 16-bit limit: a first root child (never read back) and a second one whose
    // block has 4^k-ish nodes
    for (tag, b7) in [("link-just-fits", 3usize), ("link-too-long", 5usize)] {
        let mut c = 0u32;
        let t = gen_trie(&mut rng, 0, 0, &move |ply, _r: &mut crate::common::Rng| match ply { 0 => 2, 7 => b7, _ => 4 }, false, &mut c);
        cases.push((tag, t));
    }
    for (tag, t) in cases.iter() {
        let mut toks = Vec::new();
        t.tokens(&mut toks);
        let body = toks.join(" ");
        let mut js = String::new();
        t.json(&mut js);
        let _ = std::fs::write(dir.join("temp").join("moves_trie.json"), &js);
        let mut tbl: Option<Vec<u16>> = None;
        // the exact layout is compared only where the sibling order is determined (no trimming: counts stay distinct);
        // the lines read back are compared always
        let req = if *tag == "small-with-rare-leaves" { format!("expect ran #bookgen-run {}", toks.len()) } else { format!("bookgen table {body}") };
        let exact = *tag != "small-with-rare-leaves";
        out.case(tag, true, req, || {
            match crate::common::guard(|| chess_lookup_generator::book::read_lichess_games().ok()).flatten() {
                Some(v) => {
                    let d = v.iter().fold(0u64, |d, &w| d.wrapping_mul(1000003).wrapping_add(w as u64));
                    let s = format!("len={} digest={}", v.len(), d);
                    tbl = Some(v);
                    if exact { s } else { "ran".into() }
                }
                None => if exact { "refused".into() } else { "ran".into() },
            }
        });
        let ans = match &tbl {
            None => "refused".to_string(),
            Some(v) => {
                let (mut lines, mut ld, mut inr) = (0u64, 0u64, true);
                if !v.is_empty() {
                    let mut budget = 4 * v.len() as u64 + 16;
                    walk_table(v, v.len() - 1, &mut Vec::new(), &mut lines, &mut ld, &mut inr, &mut budget);
                }
                format!("inrange={inr} lines={lines} ldigest={ld}")
            }
        };
        out.record("table-read-back", true, format!("bookgen lines {body}"), ans);
    }
    out.notes.insert("book-builder".into(), format!("{} synthetic tries through read_lichess_games(), largest {} nodes", cases.len(), cases.iter().map(|c| c.1.nodes()).max().unwrap_or(0)));
    if let Some(o) = old {
        let _ = std::env::set_current_dir(o);
    }
    let _ = std::fs::remove_dir_all(&dir);
}

// ------------------------------------------------------------------------------------------ magic generator

/// C08 for the generator: the tables `chess_lookup_generator::{bishop,rook}_moves()` produce (a random search, so a
/// different multiplier on every run) must answer every subset of each square's relevance mask with the ray cast
pub fn magicgen(out: &mut Out, thorough: bool) {
    let mut run = |out: &mut Out, piece: &'static str, table: chess_lookup_generator::MagicTable| {
        for (sq, e) in table.entries.iter().enumerate() {
            let mask = e.mask.to_u64();
            let bits: Vec<u32> = (0..64).filter(|i| mask >> i & 1 == 1).collect();
            let n = 1usize << bits.len();
            let req = format!("magicgen {piece} {sq} {:x} {:x} {} {}", e.factor, mask, e.shift, e.offset);
            out.case(piece, true, req, || {
                let mut d = 0u64;
                for idx in 0..n {
                    let mut x = 0u64;
                    for (j, b) in bits.iter().enumerate() {
                        if idx >> j & 1 == 1 {
                            x |= 1u64 << b;
                        }
                    }
                    let slot = (x.wrapping_mul(e.factor) >> e.shift) as usize + e.offset;
                    let w = table.data.get(slot).map(|b| b.to_u64()).unwrap_or(0);
                    d = d.wrapping_mul(1000003).wrapping_add(w);
                }
                format!("covers=true digest={d}")
            });
        }
    };
    let t = std::time::Instant::now();
    match crate::common::guard(chess_lookup_generator::bishop_moves) {
        Some(tb) => run(out, "bishop", tb),
        None => out.record("bishop", true, "expect generated #bishop_moves".into(), "trap panic in bishop_moves()".into()),
    }
    let tb = t.elapsed();
    let mut note = format!("bishop_moves() {tb:?}");
    if thorough {
        let t = std::time::Instant::now();
        match crate::common::guard(chess_lookup_generator::rook_moves) {
            Some(tr) => run(out, "rook", tr),
            None => out.record("rook", true, "expect generated #rook_moves".into(), "trap panic in rook_moves()".into()),
        }
        note.push_str(&format!(", rook_moves() {:?}", t.elapsed()));
    }
    out.notes.insert("generator".into(), note);
}
