-- Root of the `ChessVerif` library: models, specifications, proofs (built by setup.sh).
import ChessVerif.Props.C08
import ChessVerif.Props.C09
import ChessVerif.Props.C04.Keys
import ChessVerif.Props.C14
import ChessVerif.Props.C16
import ChessVerif.Props.C18
import ChessVerif.Props.C19
import ChessVerif.Props.C20
import ChessVerif.Drv.LookupH
