import ChessVerif.Props.C01
open Chess.Props.C01
#print axioms legals_iff
#print axioms legals_nodup
#print axioms isLegal_iff_spec
#print axioms isLegal_iff
#print axioms moveNew_isSome
#print axioms generic_iff
#print axioms pawn_iff
#print axioms king_iff
#print axioms legals_iff_parsed
#print axioms legals_iff_reachable_standard
#print axioms legals_iff_reachable_parsed
#print axioms legals_nodup_reachable
#print axioms isLegal_iff_spec_reachable
#print axioms reachable_WF
