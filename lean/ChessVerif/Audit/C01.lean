import ChessVerif.Props.C01
open Chess.Props.C01
#print axioms isLegal_iff
#print axioms moveNew_isSome
#print axioms yielded_iff_entry
