import ChessVerif.Props.C02
open Chess.Props.C02
#print axioms moveNew_legal
#print axioms moveNew_illegal
#print axioms move_turn
#print axioms move_full
#print axioms move_half
#print axioms move_castle
#print axioms move_ep
#print axioms castle_grid
#print axioms move_placement_simple
#print axioms move_partition_simple
