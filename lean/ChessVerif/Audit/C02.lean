import ChessVerif.Props.C02
import ChessVerif.Props.C02.Basic
open Chess.Props.C02
#print axioms moveNew_abs
#print axioms moveNew_none_iff
#print axioms move_placement
#print axioms move_abs
#print axioms move_WF
#print axioms moveNew_abs_reachable_standard
#print axioms moveNew_abs_reachable_parsed
#print axioms Chess.Props.C02.moveNew_legal
#print axioms Chess.Props.C02.moveNew_illegal
#print axioms Chess.Props.C02.move_turn
#print axioms Chess.Props.C02.move_full
#print axioms Chess.Props.C02.move_half
#print axioms Chess.Props.C02.move_castle
#print axioms Chess.Props.C02.move_ep
#print axioms Chess.Props.C02.castle_grid
#print axioms Chess.Props.C02.move_placement_simple
#print axioms Chess.Props.C02.move_partition_simple
