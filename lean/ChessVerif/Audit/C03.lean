import ChessVerif.Props.C03
open Chess.Props.C03
#print axioms inCheck_iff
#print axioms mem_legalMoves_iff
#print axioms isEmpty_iff
#print axioms state_eq
#print axioms parse_pinInfo
#print axioms checkers_meaning
#print axioms pinInfo_determined
#print axioms move_pinInfo
#print axioms inCheck_iff_reachable
#print axioms state_eq_reachable
#print axioms rebuilt_eq_reachable
