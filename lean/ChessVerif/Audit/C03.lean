import ChessVerif.Props.C03
open Chess.Props.C03
#print axioms state_classify
#print axioms inCheck_def
#print axioms parse_pinInfo
#print axioms pinInfo_determined
