import ChessVerif.Props.C04
import ChessVerif.Props.C04.Keys
open Chess.Props.C04
#print axioms eq_hash
#print axioms eq_hash_WF
#print axioms standard_hash
#print axioms parse_hash
#print axioms hash_ignores
#print axioms move_hash
#print axioms reachable_hash
#print axioms eq_hash_reachable
#print axioms Chess.Props.C04.distinctB_sound
#print axioms Chess.Props.C04.keys_count
#print axioms Chess.Props.C04.keys_distinctB
#print axioms Chess.Props.C04.keys_nodup
#print axioms Chess.Props.C04.keys_nonzero_u64
#print axioms Chess.Props.C04.key_shapes
