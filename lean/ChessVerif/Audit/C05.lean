import ChessVerif.Props.C05
open Chess.Props.C05
#print axioms number_roundtrip
#print axioms castle_roundtrip
#print axioms standard_parse
#print axioms standard_text
#print axioms parse_display
#print axioms display_parse
#print axioms standard_is_parsed
#print axioms build_refines
#print axioms build_eq_parse
#print axioms build_fields
