import ChessVerif.Props.C06
open Chess.Props.C06
#print axioms parse_total
#print axioms parse_validated
#print axioms build_validated
#print axioms parse_partition
#print axioms parse_hash
#print axioms parse_castle_lt
#print axioms parse_clocks
#print axioms parse_WF
