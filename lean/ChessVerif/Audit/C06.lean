import ChessVerif.Props.C06
import ChessVerif.Props.C06.Sound
open Chess.Props.C06
#print axioms parse_total
#print axioms parse_validated
#print axioms build_validated
#print axioms parse_partition
#print axioms parse_hash
#print axioms parse_castle_lt
#print axioms parse_clocks
#print axioms parse_WF
#print axioms build_WF
#print axioms Chess.Props.C06.validate_iff_valid
#print axioms Chess.Props.C06.wf_valid
#print axioms Chess.Props.C06.parse_valid
