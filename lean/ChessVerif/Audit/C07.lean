import ChessVerif.Props.C07
open Chess.Props.C07
#print axioms slider_index_in_range
#print axioms book_in_range
#print axioms parser_total
#print axioms castle_index_ok
#print axioms kingSq_ok
#print axioms validate_hasKings
#print axioms parsed_kingSq_ok
#print axioms satAdd16_le
#print axioms moveList_capacity
#print axioms checkMask_assert_ok
#print axioms reachable_preconditions
