import ChessVerif.Props.C08
import ChessVerif.Props.C08.All
open Chess.Props.C08
#print axioms rook_mask_covers
#print axioms bishop_mask_covers
#print axioms rook_eq
#print axioms bishop_eq
#print axioms mem_rookMoves
#print axioms mem_bishopMoves
#print axioms table_lengths
#print axioms generator_fill_sound
#print axioms generator_fill_frame
#print axioms generator_blockers_complete
#print axioms generator_rook
#print axioms generator_bishop
#print axioms Chess.Props.C08.checkRook_all
#print axioms Chess.Props.C08.checkBishop_all
