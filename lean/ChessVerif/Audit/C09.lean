import ChessVerif.Props.C09
import ChessVerif.Props.C09.Small
import ChessVerif.Props.C09.Pawn
import ChessVerif.Props.C09.Between0
import ChessVerif.Props.C09.Between1
import ChessVerif.Props.C09.Between2
import ChessVerif.Props.C09.Between3
import ChessVerif.Props.C09.Line0
import ChessVerif.Props.C09.Line1
import ChessVerif.Props.C09.Line2
import ChessVerif.Props.C09.Line3
open Chess.Props.C09
#print axioms mem_bbOfList
#print axioms mem_bbOfPred
#print axioms mem_knightMoves
#print axioms mem_kingMoves
#print axioms mem_pawnAttacksMoves
#print axioms mem_rookRays
#print axioms mem_bishopRays
#print axioms mem_rookRays_walk
#print axioms mem_bishopRays_walk
#print axioms between_tbl
#print axioms line_tbl
#print axioms mem_between
#print axioms mem_line
#print axioms between_not_aligned
#print axioms line_not_aligned
#print axioms distance_spec
#print axioms mem_adjacentFiles
#print axioms mem_adjacentRanks
#print axioms consts_spec
#print axioms mem_pawnAttacks
#print axioms mem_pawnQuiets
#print axioms mem_pawnMoves
#print axioms Chess.Props.C09.knight_tbl
#print axioms Chess.Props.C09.king_tbl
#print axioms Chess.Props.C09.rookRays_tbl
#print axioms Chess.Props.C09.bishopRays_tbl
#print axioms Chess.Props.C09.pawnAttacks_tbl_white
#print axioms Chess.Props.C09.pawnAttacks_tbl_black
#print axioms Chess.Props.C09.pawnQuiets_tbl_white
#print axioms Chess.Props.C09.pawnQuiets_tbl_black
#print axioms Chess.Props.C09.rookRays_walk
#print axioms Chess.Props.C09.bishopRays_walk
#print axioms Chess.Props.C09.between_rows_0
#print axioms Chess.Props.C09.between_rows_1
#print axioms Chess.Props.C09.between_rows_2
#print axioms Chess.Props.C09.between_rows_3
#print axioms Chess.Props.C09.line_rows_0
#print axioms Chess.Props.C09.line_rows_1
#print axioms Chess.Props.C09.line_rows_2
#print axioms Chess.Props.C09.line_rows_3
