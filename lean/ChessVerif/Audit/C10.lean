import ChessVerif.Props.C10
import ChessVerif.Props.C10.Basic
open Chess.Props.C10
#print axioms movesOf_legalsMasked
#print axioms legalsMasked_iff
#print axioms legalsMasked_nodup
#print axioms setMask_perm_filter
#print axioms drainSt_round
#print axioms rounds_cover
#print axioms rounds_legals
#print axioms len_eq_midgroup
#print axioms len_along_iteration
#print axioms next_along_iteration
#print axioms Chess.Props.C10.entryMoves_eq
#print axioms Chess.Props.C10.movesOf_eq
#print axioms Chess.Props.C10.promo_count
#print axioms Chess.Props.C10.len_eq
#print axioms Chess.Props.C10.isEmpty_iff
#print axioms Chess.Props.C10.next_none_iff
#print axioms Chess.Props.C10.drain_eq
#print axioms Chess.Props.C10.movesOf_remove
#print axioms Chess.Props.C10.movesOf_removeMove
#print axioms Chess.Props.C10.movesOf_setMask_perm
#print axioms Chess.Props.C10.legalsMasked_mask
#print axioms Chess.Props.C10.next_head
#print axioms Chess.Props.C10.next_tail_of_boundary
