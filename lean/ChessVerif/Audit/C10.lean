import ChessVerif.Props.C10
open Chess.Props.C10
#print axioms entryMoves_eq
#print axioms movesOf_eq
#print axioms promo_count
#print axioms len_eq
#print axioms isEmpty_iff
#print axioms next_none_iff
#print axioms drain_eq
#print axioms movesOf_remove
#print axioms movesOf_removeMove
#print axioms movesOf_setMask_perm
#print axioms legalsMasked_mask
#print axioms next_head
#print axioms next_tail_of_boundary
