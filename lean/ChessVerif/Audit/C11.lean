import ChessVerif.Props.C11
open Chess.Props.C11
#print axioms poll_mono
#print axioms poll_monotone
#print axioms rootMove_expired
#print axioms rootLoop_expired
#print axioms search_immediate
#print axioms search_legal
#print axioms search_legal_spec
#print axioms search_none
#print axioms search_none_spec
#print axioms search_unfinished
#print axioms search_some
#print axioms search_some_spec
#print axioms cli_game_loop_never_asserts
#print axioms referee_lock_step
#print axioms referee_game_legal
#print axioms referee_checkmate_truthful
#print axioms referee_didnt_move_truthful
#print axioms referee_loop_moves
#print axioms cli_win_truthful
#print axioms cli_stalemate_truthful
#print axioms cli_no_move_truthful
#print axioms cli_game_reachable
#print axioms referee_draw_truthful
