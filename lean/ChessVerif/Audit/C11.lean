import ChessVerif.Props.C11
open Chess.Props.C11
#print axioms poll_mono
#print axioms poll_monotone
#print axioms rootMove_expired
#print axioms rootLoop_expired
#print axioms search_immediate
