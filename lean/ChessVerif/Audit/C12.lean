import ChessVerif.Props.C12
import ChessVerif.Props.C12.Basic
open Chess.Props.C12
#print axioms mate1_found
#print axioms insufficient_not_mate
#print axioms mate1_truthful
#print axioms isMateMove_spec
#print axioms Chess.Props.C12.white_mate1_best
#print axioms Chess.Props.C12.black_mate1_best
#print axioms Chess.Props.C12.mate1_beats_worst
