import ChessVerif.Props.C12
open Chess.Props.C12
#print axioms white_mate1_best
#print axioms black_mate1_best
#print axioms mate1_beats_worst
