import ChessVerif.Props.C13
import ChessVerif.Props.C13.Basic
import ChessVerif.Proofs.Minimax.Exact
open Chess.Props.C13
#print axioms search_mirror
#print axioms pass_exact
#print axioms searchPasses_exact
#print axioms rootValue_mirror
#print axioms mirror_WF
#print axioms abs_mirror
#print axioms eval_mirror
#print axioms legals_mirror
#print axioms Chess.Props.C13.neg_neg
#print axioms Chess.Props.C13.neg_antitone
#print axioms Chess.Props.C13.neg_worst
#print axioms Chess.Props.C13.isBetter_dual
#print axioms Chess.Props.C13.neg_max
#print axioms Chess.Props.C13.neg_min
#print axioms Chess.Props.C13.updateCutoff_dual
#print axioms Chess.Props.C13.cutoff_dual
#print axioms Chess.Proofs.Minimax.pass_exact
#print axioms Chess.Proofs.Minimax.completed_exact
#print axioms Chess.Proofs.Minimax.searchPasses_exact
#print axioms Chess.Proofs.Minimax.passTail_passEnd
#print axioms Chess.Proofs.Minimax.deepen_pass
#print axioms Chess.Proofs.Minimax.deepen_reports
#print axioms Chess.Proofs.Minimax.search_reports
