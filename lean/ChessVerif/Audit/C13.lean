import ChessVerif.Props.C13
open Chess.Props.C13
#print axioms neg_neg
#print axioms neg_antitone
#print axioms neg_worst
#print axioms isBetter_dual
#print axioms neg_max
#print axioms neg_min
#print axioms updateCutoff_dual
#print axioms cutoff_dual
