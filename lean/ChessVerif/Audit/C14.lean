import ChessVerif.Props.C14
open Chess.Props.C14
#print axioms cmp_eq_spec
#print axioms cmp_refl
#print axioms cmp_eq_iff
#print axioms cmp_swap
#print axioms cmp_trans
#print axioms cmp_total
#print axioms partialCmp_eq
#print axioms beq_iff_cmp
#print axioms min_least
#print axioms max_greatest
#print axioms white_mate_gt_raw
#print axioms raw_gt_black_mate
#print axioms white_mate_gt_black_mate
#print axioms quicker_white_mate
#print axioms slower_black_mate
#print axioms raw_by_value
#print axioms max_ge
#print axioms min_le
