import ChessVerif.Props.C15
import ChessVerif.Props.C15.Basic
open Chess.Props.C15
#print axioms bot_refines
#print axioms bot_refines_from
#print axioms Chess.Props.C15.makeMove_illegal
#print axioms Chess.Props.C15.makeMove_legal
#print axioms Chess.Props.C15.setBoard_resets
#print axioms Chess.Props.C15.beq_refl
#print axioms Chess.Props.C15.beq_symm
#print axioms Chess.Props.C15.beq_trans
#print axioms Chess.Props.C15.add_flag
#print axioms Chess.Props.C15.satAdd8_le
#print axioms Chess.Props.C15.satAdd8_three
