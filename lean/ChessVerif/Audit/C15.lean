import ChessVerif.Props.C15
open Chess.Props.C15
#print axioms makeMove_illegal
#print axioms makeMove_legal
#print axioms setBoard_resets
#print axioms beq_refl
#print axioms beq_symm
#print axioms beq_trans
#print axioms add_flag
#print axioms satAdd8_le
#print axioms satAdd8_three
