import ChessVerif.Props.C16
open Chess.Props.C16
#print axioms move_roundtrip
#print axioms stable_roundtrip
#print axioms optmove_roundtrip
#print axioms sentinel_not_a_move
#print axioms score_roundtrip
#print axioms evaluated_roundtrip
