import ChessVerif.Props.C17
import ChessVerif.Props.C17.Basic
open Chess.Props.C17
#print axioms book_walk_ok
#print axioms book_walk_size
#print axioms every_line_legal
#print axioms every_line_playable
#print axioms every_line_no_promotion
#print axioms every_line_bounded
#print axioms cli_book_phase_never_asserts
#print axioms cli_book_phase_unwrap
#print axioms builder_round_trip
#print axioms Chess.Props.C17.step_decreases
#print axioms Chess.Props.C17.visit_fuel
#print axioms Chess.Props.C17.step_oob
