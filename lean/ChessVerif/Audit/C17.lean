import ChessVerif.Props.C17
open Chess.Props.C17
#print axioms step_decreases
#print axioms visit_fuel
#print axioms step_oob
#print axioms book_walk_ok
#print axioms book_walk_size
