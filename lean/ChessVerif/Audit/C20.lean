import ChessVerif.Props.C20
open Chess.Props.C20
#print axioms step_isolated
#print axioms loc_run
#print axioms global_run
#print axioms view_eq_spec
#print axioms isEnabled_out
#print axioms other_thread_effect
#print axioms take_restore
#print axioms restore_frame
