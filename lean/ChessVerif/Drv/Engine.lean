/- Driver handlers for the search and plugin properties (C11, C12, C13, C15). -/
import ChessVerif.Drv.Iter
import ChessVerif.Model.Bot
import ChessVerif.Model.Referee
import ChessVerif.Model.SearchDefs
import ChessVerif.Spec.Mirror
import ChessVerif.Spec.ScoreNeg
import ChessVerif.Proofs.Minimax.Defs
import ChessVerif.Model.Book
import ChessVerif.Model.BookGen
import ChessVerif.Spec.Bot

namespace Chess.Drv
open Chess Chess.Spec

def kv (pref : String) (toks : List String) : Option String :=
  (toks.find? (fun t => t.startsWith pref)).map (fun t => (t.drop pref.length).toString)

def buildTable (hist : List Board) : Engine.ThreeFold := hist.foldl (fun t b => (Engine.ThreeFold.add t b).1) []

def parseHist (s : String) : Option (List Board) :=
  if s = "" ∨ s = "-" then some [] else (s.splitOn ",").mapM decodePos

def showResult (r : Engine.Result) : String :=
  s!"{showOptMove r.move} {showScore r.score} depth={r.maxDepth} evals={r.evals} polls={r.polls}"

/-- the optional token `pos=1` of `search`, `searchfp`, `evalp`: the engine's `positional` flag
(absent or `pos=0`: `false`, the shipped configuration; anything else is a malformed request) -/
def parsePosFlag (toks : List String) : Option Bool :=
  match kv "pos=" toks with
  | none => some false
  | some "0" => some false
  | some "1" => some true
  | some _ => none

/-- does `m` deliver checkmate in `p`? -/
def mates (p : Position) (m : Move) : Bool := p.legal m && (p.apply m).isCheckmate

/-- `search <pos64> hist=<pos64,..> k=<n> prev=<max_depth before> [pos=<0|1>]`: exact model result;
`searchchk <pos64> k=.. res=<mv>,<score>,<firstpass>`: the specification's verdict on an observed result -/
def handleSearch : List String → Ans
  | p :: rest => withPos p fun b =>
      match (kv "k=" rest).bind String.toNat?, parseHist ((kv "hist=" rest).getD ""), ((kv "prev=" rest).getD "0").toNat?,
        parsePosFlag rest with
      | some k, some hist, some prev, some pos =>
        (match genTrap b BB.full with
         | some t => t
         | none => showResult (Engine.search pos b (buildTable hist) k prev), "-")
      | _, _, _, _ => bad
  | _ => bad

/-- `searchfp <pos64> hist=.. k=.. [pos=<0|1>]`: did the first deepening pass finish before the limit?  The model
side evaluates the very definition the C11/C12 theorems are stated with (`firstPassFinished`); the
implementation side is what the harness observed (a completed pass was recorded, or the timeout
never reported expiry). -/
def handleSearchFp : List String → Ans
  | p :: rest => withPos p fun b =>
      match (kv "k=" rest).bind String.toNat?, parseHist ((kv "hist=" rest).getD ""), parsePosFlag rest with
      | some k, some hist, some pos =>
        (match genTrap b BB.full with
         | some t => t
         | none => toString (Proofs.Search.firstPassFinished pos b (buildTable hist) k), "-")
      | _, _, _ => bad
  | _ => bad

/-- `evalp <pos64> pos=<0|1>`: the static evaluation `Engine::eval` of an engine with `positional = pos` -/
def handleEvalP : List String → Ans
  | p :: rest => withPos p fun b =>
      match parsePosFlag rest with
      | some pos => (showScore (Engine.eval pos b), "-")
      | none => bad
  | _ => bad

/-- `minimax <pos64> d=<depth>`: the score a completed deepening pass at `depth` reports (empty
history).  Model: plain minimax `rootValue` (the right-hand side of the C13 exactness theorem);
specification: the negated plain-minimax value of the colour-mirrored position. -/
def handleMinimax : List String → Ans
  | p :: rest => withPos p fun b =>
      match (kv "d=" rest).bind String.toNat? with
      | some d =>
        (match genTrap b BB.full with
         | some t => t
         | none => showScore (Engine.rootValue false b [] d), showScore (Spec.negScore (Engine.rootValue false b.mirror [] d)))
      | none => bad
  | _ => bad

/-- `mirrorchk <pos64>`: the facts about `Board.mirror` the C13 argument rests on, evaluated on this
position (model side lists the ones that fail, `ok` if none) -/
def handleMirrorChk : List String → Ans
  | p :: _ => withPos p fun b =>
      let m := b.mirror
      let allSq := List.finRange 64
      let posEq (p q : Spec.Position) : Bool :=
        allSq.all (fun s => p.pieceAt s == q.pieceAt s) && p.turn == q.turn && p.ep == q.ep && p.half == q.half &&
        p.full == q.full && [Side.king, Side.queen].all fun sd => [Color.white, Color.black].all fun c => p.rights sd c == q.rights sd c
      let isPerm (a b : List Move) : Bool := a.length == b.length && a.all (fun x => a.count x == b.count x)
      let problems : List String :=
        (if m.WF then [] else ["mirror-not-WF"]) ++
        (if posEq (Spec.abs m) (Spec.abs b).mirror then [] else ["abs-mirror"]) ++
        (if m.mirror == b then [] else ["mirror-mirror"]) ++
        (if isPerm (MoveGen.mvsOf (MoveGen.legals m)) ((MoveGen.mvsOf (MoveGen.legals b)).map Move.mirror) then [] else ["legals-mirror"]) ++
        (if Engine.eval false m == Spec.negScore (Engine.eval false b) then [] else ["eval-mirror"]) ++
        (if Engine.insufficientMaterial m == Engine.insufficientMaterial b then [] else ["insufficient-mirror"]) ++
        (if m.inCheck == b.inCheck then [] else ["inCheck-mirror"]) ++
        (if (MoveGen.mvsOf (MoveGen.legals b)).all (fun mv => { m.moveUnchecked mv.mirror with full := 0 } == { (b.moveUnchecked mv).mirror with full := 0 }) then [] else ["move-mirror"])
      ((if problems.isEmpty then "ok" else ",".intercalate problems), "-")
  | _ => bad

def handleSearchChk : List String → Ans
  | p :: rest => withPos p fun b =>
      match kv "res=" rest with
      | none => bad
      | some res =>
        match res.splitOn "," with
        | [mv, sc, fp] =>
          match parseOptMove mv, parseScore sc with
          | some mv, some sc =>
            let pos := abs b
            let legalMoves := pos.legalMoves
            let firstPass := fp = "true"
            let mover := pos.turn
            let mateScore : Score := match mover with | .white => .whiteMateIn 1 | .black => .blackMateIn 1
            let problems : List String :=
              (match mv with
               | some m => if pos.legal m then [] else ["returned-move-illegal"]
               | none => if firstPass && !legalMoves.isEmpty then ["no-move-although-legal-moves-exist-and-first-pass-finished"] else []) ++
              (if legalMoves.isEmpty && mv.isSome then ["move-returned-without-legal-moves"] else []) ++
              -- C12: a mate in one is found and truthfully reported
              (if firstPass && legalMoves.any (mates pos) then
                 (match mv with
                  | some m => (if mates pos m then [] else ["mate-in-one-available-but-returned-move-does-not-mate"]) ++
                              (if sc == mateScore then [] else ["mate-in-one-available-but-score-is-not-mate-in-one"])
                  | none => ["mate-in-one-available-but-no-move"])
               else []) ++
              (if sc == mateScore then
                 (match mv with
                  | some m => if mates pos m then [] else ["mate-in-one-score-but-move-does-not-mate"]
                  | none => ["mate-in-one-score-without-move"])
               else [])
            ("-", if problems.isEmpty then "ok" else ",".intercalate problems)
          | _, _ => bad
        | _ => bad
  | _ => bad

/-- the same position with its two function fields tabulated (a position produced by `n` moves is otherwise a chain
of `n` closures, and every look-up walks the chain); extensionally equal to its argument -/
def tabulate (p : Position) : Position :=
  let a : Array (Option (Color × Piece)) := Array.ofFn (n := 64) (fun i => p.pieceAt i)
  let r0 := p.rights .king .white
  let r1 := p.rights .queen .white
  let r2 := p.rights .king .black
  let r3 := p.rights .queen .black
  { p with
    pieceAt := fun s => (a[s.val]?).join,
    rights := fun sd c => match sd, c with
      | .king, .white => r0 | .queen, .white => r1 | .king, .black => r2 | .queen, .black => r3 }

/-- `bot <tok>...` with tokens `set:<pos64>`, `mv:<move>=<valid|valid+3fold|invalid>`,
`board=<pos64>`, `eval:<k>:<prev>=<mv>,<score>,<depth>,<evals>,<polls>`.
Model: its own outputs in the same syntax.  Specification: echo of the tokens if every observed
output is what the specification prescribes, else the first offending token. -/
partial def botLoop (ms : Bot.State) (ss : Spec.Bot.State) (toks : List String) (accM : List String)
    (reject : Option String) : Ans :=
  match toks with
  | [] => (" ".intercalate accM.reverse, match reject with | none => "" | some r => r)
  | t :: rest =>
    let (op, obs) := splitEq t
    -- `set:<pos64>` contains colons itself
    let parts : List String := if op.startsWith "set:" then ["set", (op.drop 4).toString] else op.splitOn ":"
    match parts with
    | ["set", p] => match decodePos p with
      | some b => botLoop (Bot.setBoard ms b) (Spec.Bot.setBoard (abs b)) rest (t :: accM) reject
      | none => bad
    | ["mv", m] => match parseMove m with
      | some mv =>
        let (ms', r) := Bot.makeMove ms mv
        let out := if r.isValid then (if r.isThreeFold then "valid+3fold" else "valid") else "invalid"
        let (ss', v, f) := Spec.Bot.makeMove ss mv
        let ss' : Spec.Bot.State := if v then
            let q := tabulate ss'.pos
            ⟨q, ss.produced ++ [q]⟩
          else ss' 
        let sout := if v then (if f then "valid+3fold" else "valid") else "invalid"
        let reject := match reject with
          | some r => some r
          | none => if sout = obs then none else some s!"reject {t}: specification says {sout}"
        botLoop ms' ss' rest (s!"mv:{m}={out}" :: accM) reject
      | none => bad
    | ["board"] =>
      let sp := encodePosition ss.pos
      let reject := match reject with
        | some r => some r
        | none => if sp = obs then none else some s!"reject {t}: specification says {sp}"
      botLoop ms ss rest (s!"board={encodeBoard ms.board}" :: accM) reject
    | ["eval", k, prev] => match k.toNat?, prev.toNat? with
      | some k, some prev =>
        let r := Bot.evaluate ms k prev
        let mvTok := (obs.splitOn ",").headD "?"
        let reject := match reject with
          | some r => some r
          | none => match parseOptMove mvTok with
            | some (some m) => if ss.pos.legal m then none else some s!"reject {t}: proposed move is illegal"
            | some none => none
            | none => some s!"reject {t}: unreadable move"
        botLoop ms ss rest (s!"eval:{k}:{prev}={showOptMove r.move},{showScore r.score}" :: accM) reject
      | _, _ => bad
    | _ => bad

def handleBot (toks : List String) : Ans :=
  let (m, s) := botLoop Bot.init (Spec.Bot.setBoard (abs Board.standard)) toks [] none
  (m, if s = "" then " ".intercalate toks else s)

end Chess.Drv

namespace Chess.Drv
open Chess Chess.Spec

/-! ### the book builder (`bookgen table|lines <node>...`, nodes in preorder as `mv:count:depth:nchildren`) -/

partial def parseTrie (toks : List String) : Option (Nat × BookGen.Trie × List String) :=
  match toks with
  | [] => none
  | t :: rest =>
    match (t.splitOn ":").map String.toNat? with
    | [some mv, some c, some d, some n] =>
      let rec kids (k : Nat) (toks : List String) (acc : List (Nat × BookGen.Trie)) : Option (List (Nat × BookGen.Trie) × List String) :=
        if k = 0 then some (acc.reverse, toks) else
        match parseTrie toks with
        | some (m, t, toks') => kids (k - 1) toks' ((m, t) :: acc)
        | none => none
      match kids n rest [] with
      | some (cs, rest') => some (mv, .node c d cs, rest')
      | none => none
    | _ => none

def tableDigest (a : Array Nat) : Nat := a.foldl (fun d w => (d * 1000003 + w) % 18446744073709551616) 0
def lineHash (l : List Nat) : Nat := l.foldl (fun h m => (h * 1000003 + m + 1) % 18446744073709551616) 7
def linesDigest (ls : List (List Nat)) : Nat := ls.foldl (fun d l => (d + lineHash l) % 18446744073709551616) 0

mutual
/-- words of the block `encode` writes for a kept child: leading 0, its children's blocks, move word (the link word not counted) -/
partial def blockLen (t : BookGen.Trie) (depth : Nat) : Nat :=
  2 + (if t.count < BookGen.commitThreshold || t.depthField + depth < 5 then 0 else blocksLen t.children depth)
partial def blocksLen (cs : List (Nat × BookGen.Trie)) (depth : Nat) : Nat :=
  cs.foldl (fun a (c : Nat × BookGen.Trie) => a + blockLen c.2 (depth + 1) + 1) 0
/-- does every sibling link fit a `u16`? -/
partial def linksFit (t : BookGen.Trie) (depth : Nat) : Bool :=
  if t.count < BookGen.commitThreshold || t.depthField + depth < 5 then true
  else t.children.all (fun c => blockLen c.2 (depth + 1) < 65536 && linksFit c.2 (depth + 1))
end

def handleBookGen : List String → Ans
  | kind :: toks =>
    match parseTrie toks with
    | some (_, t, []) =>
      let built := BookGen.build t
      if kind = "table" then
        ((match built with
          | some tbl => s!"len={tbl.size} digest={tableDigest tbl}"
          | none => "refused"), "-")
      else if kind = "lines" then
        let modelOut := match built with
          | some tbl =>
            let ls := if tbl.size = 0 then [] else BookGen.lines tbl (tbl.size + 1) (tbl.size - 1) [] []
            s!"inrange={tbl.size = 0 || BookGen.inRange tbl (tbl.size + 1) (tbl.size - 1)} lines={ls.length} ldigest={linesDigest ls}"
          | none => "refused"
        -- specification: a trie that fails `validate`, or whose trimming underflows, or one of whose sibling links
        -- does not fit 16 bits, can only be refused; otherwise the table holds exactly the lines of the trimmed trie that
        -- `encode` keeps — except the subtree of the FIRST block written (the reader stops before yielding a block
        -- that starts at table index 0: `checked_sub` fails) — and the walk stays inside it
        let specOut :=
          if !BookGen.validate t 0 then "refused" else
          match BookGen.trim t 0 with
          | none => "refused"
          | some (t', _) =>
            if !linksFit t' 0 then "refused" else
            let root' : BookGen.Trie :=
              if t'.count < BookGen.commitThreshold || t'.depthField < 5 then .node t'.count t'.depthField []
              else .node t'.count t'.depthField (t'.children.drop 1)
            let ls := BookGen.keptLines root' 0 [] []
            s!"inrange=true lines={ls.length} ldigest={linesDigest ls}"
        (modelOut, specOut)
      else bad
    | _ => bad
  | _ => bad

/-- `book walk`: the whole trie; `book sub <i>`: the subtree of the i-th root child (to localise a difference) -/
def handleBook : List String → Ans
  | ["walk"] =>
    (Book.showTally Book.walkModel,
     Book.showTally (Book.visit (fun (p : Position) m => if p.legal m then some (p.apply m) else none)
       (Book.root + 1) Book.root (abs Board.standard) 0 { nodes := 1 }))
  -- `book rest <pos64>...`: is each position one at which a walk along book moves from the start comes to rest?
  -- (model: the modelled make-move; specification: the rules of chess)
  | "rest" :: ps =>
    let ml := (Book.leaves (fun b m => Board.moveNew b m) (Book.root + 1) Book.root Board.standard []).map encodeBoard
    let sl := (Book.leaves (fun (p : Position) m => if p.legal m then some (p.apply m) else none)
      (Book.root + 1) Book.root (abs Board.standard) []).map encodePosition
    let ans (l : List String) := " ".intercalate (ps.map (fun p => if l.contains p then "rest" else "not-a-book-line"))
    (ans ml, ans sl)
  | _ => bad

/-- `referee ks=<k,k,..>`: one game of the referee of `chess-cli bot-fight` between two copies of the modelled plugin
under the clock `ks` (the poll index at which each evaluation's limit expires): verdict and number of recorded moves -/
def handleReferee : List String → Ans
  | rest =>
    match ((kv "ks=" rest).getD "").splitOn "," |>.mapM String.toNat? with
    | some ks =>
      let g := Referee.game ks
      let r := match g.result with
        | .checkMate w => s!"checkMate:{if w then "white" else "black"}"
        | .staleMate => "staleMate"
        | .didntMove w => s!"didntMove:{if w then "white" else "black"}"
        | .stillPlaying => "stillPlaying"
      (s!"{r} moves={g.moves.length}", "-")
    | none => bad

end Chess.Drv
