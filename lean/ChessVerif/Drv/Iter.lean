/- Driver handlers: C10 iterator traces, builder sequences, `expect`. -/
import ChessVerif.Drv.Pos
import ChessVerif.Spec.Iter
import ChessVerif.Spec.Build

namespace Chess.Drv
open Chess Chess.Spec

inductive IterTok
  | next (o : Option Move) | len (n : Nat) | isEmpty (b : Bool) | hint (n : Nat)
  | setMask (m : BB) | remove (m : BB) | removeMove (mv : Move) (o : Bool) | clone

def splitEq (s : String) : String × String :=
  match s.splitOn "=" with
  | [a, b] => (a, b)
  | [a] => (a, "")
  | _ => (s, "")

def parseIterTok (t : String) : Option IterTok :=
  let (op, out) := splitEq t
  match op.toList with
  | ['n'] => (parseOptMove out).map .next
  | ['l'] => out.toNat?.map .len
  | ['e'] => if out = "true" then some (.isEmpty true) else if out = "false" then some (.isEmpty false) else none
  | ['h'] => out.toNat?.map .hint
  | ['c'] => some .clone
  | 'm' :: r => (parseBB (String.ofList r)).map .setMask
  | 'r' :: r => (parseBB (String.ofList r)).map .remove
  | 'x' :: r => match parseMove (String.ofList r) with
    | some mv => if out = "true" then some (.removeMove mv true) else if out = "false" then some (.removeMove mv false) else none
    | none => none
  | _ => none

/-- run the model iterator over the operations, producing the outputs in the harness's syntax -/
def runModelIter (g : MoveGen) : List IterTok → List String → List String
  | [], acc => acc.reverse
  | t :: rest, acc =>
    match t with
    | .next _ => let (o, g') := g.next; runModelIter g' rest (("n=" ++ showOptMove o) :: acc)
    | .len _ => runModelIter g rest (s!"l={g.len}" :: acc)
    | .isEmpty _ => runModelIter g rest (("e=" ++ showBool g.isEmpty) :: acc)
    | .hint _ => runModelIter g rest (s!"h={g.len}" :: acc)
    | .setMask m => runModelIter (g.setMask m) rest (("m" ++ showBB m) :: acc)
    | .remove m => runModelIter (g.remove m) rest (("r" ++ showBB m) :: acc)
    | .removeMove mv _ => let (g', b) := g.removeMove mv
                          runModelIter g' rest (("x" ++ showMove mv ++ "=" ++ showBool b) :: acc)
    | .clone => runModelIter g rest ("c" :: acc)

def tokToObs : IterTok → Iter.Obs
  | .next o => .next o
  | .len n => .len n
  | .isEmpty b => .isEmpty b
  | .hint n => .sizeHint n
  | .setMask m => .setMask (fun s => BB.mem m s)
  | .remove m => .remove (fun s => BB.mem m s)
  | .removeMove mv _ => .removeMove mv
  | .clone => .clone

/-- `iter <pos64> <startmask|all> <tok>... [#flag ...]` -/
def handleIter2 : List String → Ans
  | p :: start :: toks =>
    withPos p fun b =>
      let toks := toks.filter (fun t => !t.startsWith "#")
      match toks.mapM parseIterTok with
      | none => bad
      | some ops =>
        let startMask : Option BB := if start = "all" then some BB.full else parseBB start
        match startMask with
        | none => bad
        | some sm =>
          let g := if start = "all" then MoveGen.legals b else MoveGen.legalsMasked b sm
          let modelOut := match genTrap b sm with
            | some t => t
            | none => " ".intercalate (runModelIter g ops [])
          let specOut := match Iter.monitor (Iter.init (abs b) (fun s => BB.mem sm s)) (ops.map tokToObs) 0 with
            | none => " ".intercalate toks
            | some k => s!"monitor-reject at op {k}: {toks.getD k "?"}"
          (modelOut, specOut)
  | _ => bad

def parsePieceIdx (s : String) : Option Piece := s.toNat?.bind Piece.ofNat?

def parseBuildOp (t : String) : Option Fen.BuildOp :=
  match t.splitOn ":" with
  | ["t", c] => (parseColor c).map .turn
  | ["c", h] => (parseHexNat h).map .castle
  | ["h", n] => n.toNat?.map .half
  | ["f", n] => n.toNat?.map .full
  | ["e", f] => if f = "-" then some (.ep none) else (fin8? f).map (fun x => .ep (some x))
  | ["p", s, c, p] => match sqIdx? s, parseColor c, parsePieceIdx p with
    | some s, some c, some p => some (.place s c p)
    | _, _, _ => none
  | ["r", s] => (sqIdx? s).map .remove
  | _ => none

/-- `build <op>...`: outputs one `+`/`!` per op (accepted / `PieceAlreadyExists`), then the result of `build()`.
Specification side (`Spec/Build.lean`): the same marks from the mailbox builder and, when the assembled position is
valid by the rules, that position built from scratch (placement, hash and check/pin sets recomputed by `decodePos`,
which shares nothing with the modelled builder); for an invalid assembly only "it is refused" is specified. -/
def handleBuild (toks : List String) : Ans :=
  match toks.mapM parseBuildOp with
  | none => bad
  | some ops =>
    let (b, flags) := Fen.runBuild ops
    let marks := flags.map (fun ok => if ok then '+' else '!')
    let res := match Fen.build b with
      | .ok b' => "ok " ++ encodeBoard b' ++ " " ++ showDerived b'
      | .error e => "err " ++ showValErr e
    let modelOut := String.ofList marks ++ " " ++ res
    let (s, sflags) := Spec.runBuild ops
    let smarks := sflags.map (fun ok => if ok then '+' else '!')
    let specOut := match decodePos (encodeFields s.at_ s.turn s.castle s.ep s.half s.full) with
      | some bs =>
        if (abs bs).valid then String.ofList smarks ++ " ok " ++ encodeBoard bs ++ " " ++ showDerived bs
        else if res.startsWith "err" then "-" else String.ofList smarks ++ " err (the assembled position is not valid)"
      | none => "-"
    (modelOut, specOut)

def handleExpect : List String → Ans
  | t :: _ => (t, t)
  | _ => bad

end Chess.Drv
