/- Driver handlers for C08 / C09 / C04 (tables, constants, keys). -/
import ChessVerif.Drv.Small
import ChessVerif.Model.Lookup
import ChessVerif.Spec.Geometry
import ChessVerif.Model.MagicGen

namespace Chess.Drv
open Chess Chess.Spec

def parseColor (s : String) : Option Color :=
  if s = "w" then some .white else if s = "b" then some .black else none

def occPred (occ : BB) : Sq → Bool := fun s => occ.getLsbD s.val

def showBBArr (a : Array BB) : String := " ".intercalate (a.toList.map showBB)
def showNatArr (a : Array Nat) : String := " ".intercalate (a.toList.map toString)

open Gen.Consts in
def constVal (n : String) : Option (String × String) :=
  let p (f : Sq → Bool) := showBB (bbOfPred f)
  match n with
  | "PAWN_DOUBLE_SOURCE" => some (showBB pawnDoubleSource, p fun t => rankI t == 1 || rankI t == 6)
  | "PAWN_DOUBLE_DEST" => some (showBB pawnDoubleDest, p fun t => rankI t == 3 || rankI t == 4)
  | "CASTLE_MOVES" => some (showBB castleMoves, showBB (bbOfList [2, 58, 4, 60, 6, 62]))
  | "ROOK_CASTLE_QUEENSIDE" => some (showBB rookCastleQueenside, p fun t => fileI t == 0 || fileI t == 3)
  | "ROOK_CASTLE_KINGSIDE" => some (showBB rookCastleKingside, p fun t => fileI t == 7 || fileI t == 5)
  | "KINGSIDE_CASTLE_FILES" => some (showBB kingsideCastleFiles, p fun t => fileI t == 5 || fileI t == 6)
  | "QUEENSIDE_CASTLE_FILES" => some (showBB queensideCastleFiles, p fun t => fileI t == 1 || fileI t == 2 || fileI t == 3)
  | "KINGSIDE_CASTLE_SAFE_FILES" => some (showBB kingsideCastleSafeFiles, p fun t => fileI t == 5 || fileI t == 6)
  | "QUEENSIDE_CASTLE_SAFE_FILES" => some (showBB queensideCastleSafeFiles, p fun t => fileI t == 2 || fileI t == 3)
  | "BACKRANK_BB" => some (showBBArr backrankBb, p (fun t => rankI t == 0) ++ " " ++ p (fun t => rankI t == 7))
  | "PAWN_DOUBLE_MOVE" => some (showBBArr pawnDoubleMove,
      p (fun t => rankI t == 1 || rankI t == 3) ++ " " ++ p (fun t => rankI t == 6 || rankI t == 4))
  | "BACKRANK" => some (showNatArr backrank, "0 7")
  | "CASTLE_ROOK_START" => some (showNatArr castleRookStart, "0 0 0 0 7 7 7 7")
  | "CASTLE_ROOK_END" => some (showNatArr castleRookEnd, "3 3 3 3 5 5 5 5")
  | "PROMOTION_RANK" => some (showNatArr promotionRank, "7 0")
  | "PAWN_DOUBLE_MOVE_SOURCE_RANK" => some (showNatArr pawnDoubleMoveSourceRank, "1 6")
  | "PAWN_DOUBLE_MOVE_DEST_RANK" => some (showNatArr pawnDoubleMoveDestRank, "3 4")
  | _ => none

def quietSpec (c : Color) (s : Sq) (occ : BB) : BB :=
  match step s 0 (fwd c) with
  | none => 0#64
  | some u => if occ.getLsbD u.val then 0#64 else
    bbOfPred (fun t => pawnPushTbl c s t && !occ.getLsbD t.val)

def handleLookup : List String → Ans
  | ["const", n] => match constVal n with
    | some a => a
    | none => bad
  | ["adjfile", f] => match fin8? f with
    | some f => (showBB (Lookup.adjacentFiles f), showBB (bbOfPred fun t => absI (fileI t - (f.val : Int)) == 1))
    | none => bad
  | ["adjrank", r] => match fin8? r with
    | some r => (showBB (Lookup.adjacentRanks r), showBB (bbOfPred fun t => absI (rankI t - (r.val : Int)) == 1))
    | none => bad
  | [fn, a] => match sqIdx? a with
    | none => bad
    | some s =>
      match fn with
      | "knight" => (showBB (Lookup.knightMoves s), showBB (bbOfPred (knightAtt s)))
      | "king" => (showBB (Lookup.kingMoves s), showBB (bbOfPred (kingAtt s)))
      | "rookrays" => (showBB (Lookup.rookRays s), showBB (bbOfList (rookRayList s)))
      | "bishoprays" => (showBB (Lookup.bishopRays s), showBB (bbOfList (bishopRayList s)))
      | _ => bad
  | [fn, a, b] =>
    match sqIdx? a with
    | none => bad
    | some s =>
      match fn with
      | "pawnatt" => (match parseColor b with
          | some c => (showBB (Lookup.pawnAttacksMoves s c), showBB (bbOfPred (pawnAtt c s)))
          | none => bad)
      | "between" => (match sqIdx? b with
          | some t => (showBB (Lookup.between s t), showBB (bbOfPred (betweenSpec s t)))
          | none => bad)
      | "line" => (match sqIdx? b with
          | some t => (showBB (Lookup.line s t), showBB (bbOfPred (lineSpec s t)))
          | none => bad)
      | "dist" => (match sqIdx? b with
          | some t => (toString (Lookup.distance s t), toString (distanceSpec s t))
          | none => bad)
      | "rook" => (match parseBB b with
          | some occ =>
            let i := Lookup.rookIndex s occ
            (s!"{showBB (Lookup.rookMoves s occ)} {showBool (decide (i < Gen.RookMagic.solLen))}",
             s!"{showBB (bbOfList (rookReach (occPred occ) s))} true")
          | none => bad)
      | "bishop" => (match parseBB b with
          | some occ =>
            let i := Lookup.bishopIndex s occ
            (s!"{showBB (Lookup.bishopMoves s occ)} {showBool (decide (i < Gen.BishopMagic.solLen))}",
             s!"{showBB (bbOfList (bishopReach (occPred occ) s))} true")
          | none => bad)
      | _ => bad
  | [fn, a, c, o] =>
    match sqIdx? a, parseColor c, parseBB o with
    | some s, some c, some occ =>
      match fn with
      | "pawnq" => (showBB (Lookup.pawnQuiets s c occ), showBB (quietSpec c s occ))
      | "pawna" => (showBB (Lookup.pawnAttacks s c occ), showBB (bbOfPred fun t => pawnAtt c s t && occ.getLsbD t.val))
      | "pawnm" => (showBB (Lookup.pawnMoves s c occ),
                    showBB (quietSpec c s occ ||| bbOfPred fun t => pawnAtt c s t && occ.getLsbD t.val))
      | _ => bad
    | _, _, _ => bad
  | _ => bad

/-- `zob piece <sq> <piece> <color>` etc.: model = translated key; no separate specification
(distinctness is a theorem about the whole table) -/
def handleZob : List String → Ans
  | ["piece", s, p, c] => match sqIdx? s, p.toNat?.bind Piece.ofNat?, parseColor c with
    | some s, some p, some c => (showBB (Lookup.zobristPiece s p c), "-")
    | _, _, _ => bad
  | ["castle", i] => match i.toNat? with
    | some i => (showBB (Lookup.zobristCastle i), "-")
    | none => bad
  | ["ep", f] => match fin8? f with
    | some f => (showBB (Lookup.zobristEp f), "-")
    | none => bad
  | ["turn", c] => match parseColor c with
    | some c => (showBB (Lookup.zobristTurn c), "-")
    | none => bad
  | _ => bad

/-! ### the magic-table generator (`magicgen <rook|bishop> <sq> <factor> <mask> <shift> <offset>`)

The implementation's answer is a digest of the generated table read at the slot of every subset of the relevance
mask (subsets in the generator's own enumeration order).  Model: the acceptance loop run on that multiplier, then the
same read.  Specification: ray casting on every subset, and the mask must cover the inner squares of the rays. -/

def digestStep (d : Nat) (w : BB) : Nat := (d * 1000003 + w.toNat) % 18446744073709551616

def handleMagicGen : List String → Ans
  | [piece, sq, factor, mask, shift, offset] =>
    match sqIdx? sq, parseBB factor, parseBB mask, shift.toNat?, offset.toNat? with
    | some s, some magic, some mask, some shift, some offset =>
      let rook := piece = "rook"
      let cast (x : BB) : BB := bbOfList (if rook then rookReach (occPred x) s else bishopReach (occPred x) s)
      let bits := MagicGen.bitsOf mask
      let n := 2 ^ bits.length
      let subsets := (List.range n).map (MagicGen.deposit bits)
      let specD := subsets.foldl (fun d x => digestStep d (cast x)) 0
      let covers := (if rook then rookDirs else bishopDirs).all fun d =>
        (walk d.1 d.2 7 s).all fun t => (step t d.1 d.2).isNone || mask.getLsbD t.val
      let modelOut :=
        if shift ≠ MagicGen.shiftFor mask then s!"shift-is-not-64-minus-bits"
        else match MagicGen.trySquare magic mask cast offset (Array.replicate (offset + n) 0#64) with
          | none => "rejected-by-the-acceptance-loop"
          | some data =>
            let d := subsets.foldl (fun d x => digestStep d (data.getD (MagicGen.indexOf magic shift offset x) 0#64)) 0
            s!"covers={covers} digest={d}"
      (modelOut, s!"covers=true digest={specD}")
    | _, _, _, _, _ => bad
  | _ => bad

end Chess.Drv
