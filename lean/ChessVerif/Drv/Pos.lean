/- Driver handlers for the position properties (C01–C07, C10): the neutral `pos64` codec and the
requests on positions. -/
import ChessVerif.Drv.LookupH
import ChessVerif.Model.MoveGen
import ChessVerif.Model.Fen
import ChessVerif.Spec.Abs

namespace Chess.Drv
open Chess Chess.Spec

def pieceOfChar (c : Char) : Option (Color × Piece) :=
  match c with
  | 'P' => some (.white, .pawn) | 'N' => some (.white, .knight) | 'B' => some (.white, .bishop)
  | 'R' => some (.white, .rook) | 'Q' => some (.white, .queen) | 'K' => some (.white, .king)
  | 'p' => some (.black, .pawn) | 'n' => some (.black, .knight) | 'b' => some (.black, .bishop)
  | 'r' => some (.black, .rook) | 'q' => some (.black, .queen) | 'k' => some (.black, .king)
  | _ => none

def charOfPiece : Option (Color × Piece) → Char
  | some (.white, .pawn) => 'P' | some (.white, .knight) => 'N' | some (.white, .bishop) => 'B'
  | some (.white, .rook) => 'R' | some (.white, .queen) => 'Q' | some (.white, .king) => 'K'
  | some (.black, .pawn) => 'p' | some (.black, .knight) => 'n' | some (.black, .bishop) => 'b'
  | some (.black, .rook) => 'r' | some (.black, .queen) => 'q' | some (.black, .king) => 'k'
  | none => '.'

/-- `pos64`: `<64 square chars a1..h8>:<w|b>:<rights hex digit>:<ep file a-h or ->:<half>:<full>`.
Decoded by placing the pieces one by one and recomputing every derived field from scratch — not
by the modelled FEN parser, which is itself under test. -/
def decodePos (s : String) : Option Board :=
  match s.splitOn ":" with
  | [sq, t, cr, ep, h, f] =>
    if sq.length ≠ 64 then none else
    let placed := (sq.toList.zip (List.finRange 64)).foldl
      (fun (st : RawBoard × BB) (cs : Char × Sq) =>
        match pieceOfChar cs.1 with
        | some (c, p) => (st.1.setUnchecked c p cs.2, st.2 ^^^ Lookup.zobristPiece cs.2 p c)
        | none => st) (RawBoard.empty, 0#64)
    match parseColor t, parseHexNat cr, h.toNat?, f.toNat? with
    | some turn, some cr, some half, some full =>
      let epf : Option (Option File) :=
        if ep = "-" then some none else
        match ep.toList with
        | [c] => if 'a' ≤ c ∧ c ≤ 'h' then (Text.fin8? (c.toNat - 'a'.toNat)).map some else none
        | _ => none
      match epf with
      | none => none
      | some epf =>
        let b : Board := { zobrist := placed.2, turn := turn, castle := cr, ep := epf, half := half,
                           full := full, pinned := 0#64, checkers := 0#64, raw := placed.1 }
        some (if (b.kingSq? turn).isSome then b.updatePinInfo else b)
    | _, _, _, _ => none
  | _ => none

def encodeFields (at_ : Sq → Option (Color × Piece)) (turn : Color) (rights : Nat) (ep : Option File)
    (half full : Nat) : String :=
  String.ofList ((List.finRange 64).map (fun s => charOfPiece (at_ s))) ++ ":" ++
  (match turn with | .white => "w" | .black => "b") ++ ":" ++ natToHex rights ++ ":" ++
  (match ep with | some f => String.ofList [Char.ofNat (97 + f.val)] | none => "-") ++ ":" ++
  toString half ++ ":" ++ toString full

def encodeBoard (b : Board) : String :=
  encodeFields (fun s => b.raw.get s) b.turn b.castle b.ep b.half b.full

def rightsNat (p : Position) : Nat :=
  (if p.rights .king .white then 1 else 0) + (if p.rights .queen .white then 2 else 0) +
  (if p.rights .king .black then 4 else 0) + (if p.rights .queen .black then 8 else 0)

/-- the clocks are `u16` in the implementation; beyond the 16-bit limit C02 is silent (and C07
only demands that nothing overflows), so the specification's unbounded clocks are printed capped -/
def encodePosition (p : Position) : String :=
  encodeFields p.pieceAt p.turn (rightsNat p) p.ep (min p.half 65535) (min p.full 65535)

def sortStrings (l : List String) : List String := (l.toArray.qsort (· < ·)).toList

def showMoves (l : List Move) : String :=
  let s := sortStrings (l.map showMove)
  s!"{s.length}" ++ (if s.isEmpty then "" else " " ++ " ".intercalate s)

def showMovesOrd (l : List Move) : String :=
  s!"{l.length}" ++ (if l.isEmpty then "" else " " ++ " ".intercalate (l.map showMove))

def showState : Board.GameState → String
  | .checkMate => "checkmate" | .staleMate => "stalemate" | .check => "check" | .running => "running"
def showStatus : Position.Status → String
  | .checkMate => "checkmate" | .staleMate => "stalemate" | .check => "check" | .running => "running"

/-- the derived state as far as it is observable: the `Debug` diagram prints `#` for a pinned
square and `*` for a checker only when the square is not also marked pinned (an enemy piece can be
both: the single piece between the king and a farther slider, giving check itself), so the
checkers are reported outside the pinned set; `in_check` is compared separately (`pos status`) -/
def showDerived (b : Board) : String :=
  s!"z={showBB b.hash} pz={showBB b.zobrist} pinned={showBB b.pinned} checkers={showBB (b.checkers &&& ~~~b.pinned)}"

/-- preconditions of the unchecked operations reached by move generation on board `b`:
a king of the side to move, `check_mask`'s assertion, the capacity of the move list -/
def genTrap (b : Board) (mask : BB) : Option String :=
  if (b.kingSq? b.turn).isNone then some "trap ub: king_sq on a board without that king"
  else if (b.collectMoves mask).length > Gen.Consts.moveListCapacity then some "trap ub: move list capacity exceeded"
  else none

def showValErr : Board.ValidationError → String
  | .missingKings => "MissingKings" | .invalidCastleRights => "InvalidCastleRights"
  | .invalidEnpassant => "InvalidEnpassant" | .tooManyPieces => "TooManyPieces"
  | .opponentInCheck => "OpponentInCheck"

def showFenErr : Fen.Error → String
  | .invalidPiece => "InvalidPiece" | .missingPiece => "MissingPiece"
  | .missingWhitespace _ => "MissingWhitespace" | .invalidTurn => "InvalidTurn" | .missingTurn => "MissingTurn"
  | .fileOutOfBounds => "FileOutOfBounds" | .invalidEnpassant => "InvalidEnpassant"
  | .missingEnpassant => "MissingEnpassant" | .missingCastleRights => "MissingCastleRights"
  | .missingHalfClock => "MissingHalfClock" | .missingFullClock => "MissingFullClock"
  | .trailingBytes => "TrailingBytes" | .boardValidation e => "BoardValidation(" ++ showValErr e ++ ")"
  | .trap => "trap panic"

def withPos (s : String) (f : Board → Ans) : Ans :=
  match decodePos s with
  | some b => f b
  | none => bad

def handlePos : List String → Ans
  | ["derived", p] => withPos p fun b => (showDerived b, "-")
  | ["status", p] => withPos p fun b =>
      (s!"incheck={showBool b.inCheck} state={showState b.state}",
       s!"incheck={showBool ((abs b).inCheck b.turn)} state={showStatus (abs b).classify}")
  | ["valid", p] => withPos p fun b =>
      ((match b.validate with | .ok () => "valid" | .error e => "invalid " ++ showValErr e),
       if (abs b).valid then "valid" else "invalid")
  | ["legals", p] => withPos p fun b =>
      (match genTrap b BB.full with
       | some t => t
       | none => showMoves b.legalsList, showMoves (abs b).legalMoves)
  | ["legals", p, m] => withPos p fun b =>
      match parseBB m with
      | some mask =>
        (match genTrap b mask with
         | some t => t
         | none => showMoves (MoveGen.legalsMasked b mask).toList,
         showMoves ((abs b).legalMoves.filter (fun mv => BB.mem mask mv.dest)))
      | none => bad
  | ["legals.ord", p] => withPos p fun b =>
      (match genTrap b BB.full with | some t => t | none => showMovesOrd b.legalsList, "-")
  -- `legals.after <pos64> <m1> [<m2> ...]`: the legal moves of the position reached by playing the moves — the model
  -- plays them with its make-move, the specification with the rules (rights, marker and clocks of the successor are
  -- the ones the RULES prescribe, not the ones the implementation reports): C01's quantifier is over histories
  | "legals.after" :: p :: ms => withPos p fun b =>
      match ms.mapM parseMove with
      | none => bad
      | some mvs =>
        let mb := mvs.foldl (fun (o : Option Board) m => o.bind (fun x => x.moveNew m)) (some b)
        let sp := mvs.foldl (fun (o : Option Position) m => o.bind (fun x => if x.legal m then some (x.apply m) else none)) (some (abs b))
        ((match mb with | some x => showMoves x.legalsList | none => "refused"),
         (match sp with | some x => showMoves x.legalMoves | none => "refused"))
  -- `status.after <pos64> <mv>`: check / mate / draw status of the successor; the specification classifies the successor
  -- the RULES prescribe (its clock included), not the one the implementation reports
  | ["status.after", p, m] => withPos p fun b =>
      match parseMove m with
      | some mv =>
        ((match b.moveNew mv with
          | some x => s!"incheck={showBool x.inCheck} state={showState x.state}"
          | none => "refused"),
         if (abs b).legal mv then
           let q := (abs b).apply mv
           s!"incheck={showBool (q.inCheck q.turn)} state={showStatus q.classify}"
         else "refused")
      | none => bad
  | ["islegal", p, m] => withPos p fun b =>
      match parseMove m with
      | some mv => (showBool (b.isLegal mv), showBool ((abs b).legal mv))
      | none => bad
  | ["move", p, m] => withPos p fun b =>
      match parseMove m with
      | some mv =>
        ((match b.moveNew mv with | some b' => "ok " ++ encodeBoard b' | none => "refused"),
         if (abs b).legal mv then "ok " ++ encodePosition ((abs b).apply mv) else "refused")
      | none => bad
  | ["move.derived", p, m] => withPos p fun b =>
      match parseMove m with
      | some mv => ((match b.moveNew mv with | some b' => showDerived b' | none => "refused"), "-")
      | none => bad
  | _ => bad

def handleFen : List String → Ans
  | ["parse", hex] =>
    match parseBytes hex with
    | some bs =>
      ((match Fen.parseFen bs with
        | .ok b => "ok " ++ encodeBoard b ++ " " ++ showDerived b
        | .error e => "err " ++ showFenErr e), "-")
    | none => bad
  | ["show", p] => withPos p fun b => (showBytes (Fen.display b), "-")
  -- write then parse: the specification answer is the position itself
  | ["roundtrip", p] => withPos p fun b =>
      ((match Fen.parseFen (Fen.display b) with
        | .ok b' => "ok " ++ encodeBoard b' ++ " " ++ showDerived b'
        | .error e => "err " ++ showFenErr e),
       "ok " ++ encodeBoard b ++ " " ++ showDerived b)
  -- parse then write: canonical text reproduces itself (specification answer: the input)
  | ["reprint", hex] =>
    match parseBytes hex with
    | some bs =>
      ((match Fen.parseFen bs with
        | .ok b => showBytes (Fen.display b)
        | .error e => "err " ++ showFenErr e), hex)
    | none => bad
  | _ => bad

/-- front ends (`glue` streams): the text reaches `parse_fen` unchanged through `new_game_from_fen` (only the
squares can be read back, through `ChessGame::get`) and through the `on-board` argument of the command line
(which prints the board it parsed, in `Display` form, before it starts to think) -/
def handleGlue : List String → Ans
  | ["wasmfen", hex] =>
    match parseBytes hex with
    | some bs =>
      ((match Fen.parseFen bs with
        | .ok b => "ok " ++ String.ofList ((List.finRange 64).map (fun s => charOfPiece (b.raw.get s)))
        | .error _ => "err"), "-")
    | none => bad
  | ["cliarg", hex] =>
    match parseBytes hex with
    | some bs =>
      ((match Fen.parseFen bs with
        | .ok b => "accepted " ++ showBytes (Fen.display b)
        | .error _ => "rejected"), "-")
    | none => bad
  | _ => bad

end Chess.Drv
