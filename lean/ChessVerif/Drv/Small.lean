/- Driver handlers for the algebraic properties: C14 score, C16 api, C18 bb, C19 txt/sq/iter, C20 trace. -/
import ChessVerif.Drv.Util
import ChessVerif.Model.ScoreOps
import ChessVerif.Model.Api
import ChessVerif.Model.Tracing
import ChessVerif.Spec.Score
import ChessVerif.Spec.Sets
import ChessVerif.Model.BitIter
import ChessVerif.Spec.Text
import ChessVerif.Spec.Tracing

namespace Chess.Drv
open Chess

abbrev Ans := String × String   -- (model answer, specification answer; "-" = no specification answer)

def bad : Ans := ("bad-request", "bad-request")

/-! C14 -/
def handleScore : List String → Ans
  | [op, a, b] =>
    match parseScore a, parseScore b with
    | some x, some y =>
      let sc := Spec.scoreCmp x y
      match op with
      | "cmp" => (showOrd (Gen.ScoreFns.cmp x y), showOrd sc)
      | "pcmp" => (match Gen.ScoreFns.partialCmp x y with | some o => "some-" ++ showOrd o | none => "none",
                   "some-" ++ showOrd sc)
      | "eq" => (showBool (Score.beq x y), showBool (sc == .eq))
      | "lt" => (showBool (Score.lt x y), showBool (sc == .lt))
      | "le" => (showBool (Score.le x y), showBool (sc != .gt))
      | "gt" => (showBool (Score.gt x y), showBool (sc == .gt))
      | "max" => (showScore (Score.maxS x y), showScore (if sc == .gt then x else y))
      | "min" => (showScore (Score.minS x y), showScore (if sc == .gt then y else x))
      | _ => bad
    | _, _ => bad
  | _ => bad

/-! C16 -/
def handleApi : List String → Ans
  | ["move", m] => match parseMove m with
    | some mv => (showMove (Api.ofStable (Api.toStable mv)), showMove mv)
    | none => bad
  | ["optmove", m] => match parseOptMove m with
    | some mv => (showOptMove (Api.Evaluated.new mv .min).move, showOptMove mv)
    | none => bad
  | ["score", s] => match parseScore s with
    | some sc => (showScore (Api.Evaluated.new none sc).getScore, showScore sc)
    | none => bad
  | _ => bad

/-! C19 -/
def showOptFin8 : Option (Fin 8) → String
  | some f => s!"ok {f.val}"
  | none => "none"
def showOptPiece : Option Piece → String
  | some p => s!"ok {p.idx}"
  | none => "none"
def showOptPromo : Option Promo → String
  | some p => s!"ok {p.idx}"
  | none => "none"
def showOptSqIdx : Option Sq → String
  | some p => s!"ok {p.val}"
  | none => "none"
def showOptMoveOk : Option Move → String
  | some m => "ok " ++ showMove m
  | none => "none"

def single? {α} (f : Byte → Option α) : List Byte → Option α
  | [c] => f c
  | _ => none

def handleTxt : List String → Ans
  | [p, hex] =>
    match parseBytes hex with
    | none => bad
    | some bs =>
      match p with
      | "file" => (showOptFin8 (Text.fileOfBytes bs), showOptFin8 (single? Spec.Text.fileOfByte bs))
      | "rank" => (showOptFin8 (Text.rankOfBytes bs), showOptFin8 (single? Spec.Text.rankOfByte bs))
      | "piece" => (showOptPiece (Text.pieceOfBytes bs), showOptPiece (single? Spec.Text.pieceOfByte bs))
      | "promo" => (showOptPromo (Text.promoOfBytes bs), showOptPromo (single? Spec.Text.promoOfByte bs))
      | "pos" => (showOptSqIdx (Text.sqOfBytes bs), showOptSqIdx (Spec.Text.sqOfBytes bs))
      | "move" => (showOptMoveOk (Text.moveOfBytes bs), showOptMoveOk (Spec.Text.moveOfBytes bs))
      | _ => bad
  | _ => bad

/-- text form then parse back: model prints what the model's `Display` writes and what its parser
returns for it; the specification answer is the value itself -/
def handleShow : List String → Ans
  | ["file", i] => match fin8? i with
    | some f => (showBytes [Text.fileByte f] ++ " " ++ showBytes [Text.fileUpperByte f] ++ " " ++ showOptFin8 (Text.fileOfByte (Text.fileByte f)),
                 showBytes [⟨97 + f.val, by omega⟩] ++ " " ++ showBytes [⟨65 + f.val, by omega⟩] ++ " " ++ s!"ok {f.val}")
    | none => bad
  | ["rank", i] => match fin8? i with
    | some r => (showBytes [Text.rankByte r] ++ " " ++ showOptFin8 (Text.rankOfByte (Text.rankByte r)),
                 showBytes [⟨49 + r.val, by omega⟩] ++ " " ++ s!"ok {r.val}")
    | none => bad
  | ["pos", i] => match sqIdx? i with
    | some s => (showBytes (Text.sqBytes s) ++ " " ++ showOptSqIdx (Text.sqOfBytes (Text.sqBytes s)),
                 showBytes [⟨97 + s.val % 8, by omega⟩, ⟨49 + s.val / 8, by omega⟩] ++ " " ++ s!"ok {s.val}")
    | none => bad
  | ["move", m] => match parseMove m with
    | some mv =>
      let specBytes : List Byte :=
        [⟨97 + mv.source.val % 8, by omega⟩, ⟨49 + mv.source.val / 8, by omega⟩, 45,
         ⟨97 + mv.dest.val % 8, by omega⟩, ⟨49 + mv.dest.val / 8, by omega⟩] ++
        (match mv.piece with | none => [] | some .knight => [78] | some .bishop => [66] | some .rook => [82] | some .queen => [81])
      -- parse-back is specified only for non-promotion moves (C19); for promotions the text has 6 bytes and is rejected
      (showBytes (Text.moveBytes mv) ++ " " ++ showOptMoveOk (Text.moveOfBytes (Text.moveBytes mv)),
       showBytes specBytes ++ " " ++ (if mv.piece.isNone then "ok " ++ showMove mv else "none"))
    | none => bad
  | _ => bad

def handleSq : List String → Ans
  | ["mk", f, r] => match fin8? f, fin8? r with
    | some f, some r => (toString (Sq.mk f r).val, toString (r.val * 8 + f.val))
    | _, _ => bad
  | [op, i] => match sqIdx? i with
    | none => bad
    | some s =>
      let f := s.val % 8
      let r := s.val / 8
      let o (x : Option Sq) : String := match x with | some t => toString t.val | none => "none"
      match op with
      | "file" => (toString s.file.val, toString f)
      | "rank" => (toString s.rank.val, toString r)
      | "up" => (o s.up, if r < 7 then toString (s.val + 8) else "none")
      | "down" => (o s.down, if r > 0 then toString (s.val - 8) else "none")
      | "left" => (o s.left, if f > 0 then toString (s.val - 1) else "none")
      | "right" => (o s.right, if f < 7 then toString (s.val + 1) else "none")
      | "flip" => (toString s.flipRank.val, toString ((7 - r) * 8 + f))
      | "fromu8" => (o (Sq.ofNat? s.val), toString s.val)
      | _ => bad
  | _ => bad

def parseIterOp (s : String) : Option Text.IterOp :=
  match s.toList with
  | ['n'] => some .next
  | ['b'] => some .nextBack
  | ['s'] => some .sizeHint
  | ['l'] => some .last
  | ['c'] => some .count
  | 't' :: r => (String.ofList r).toNat?.map .nth
  | 'u' :: r => (String.ofList r).toNat?.map .nthBack
  | _ => none

def handleIter : List String → Ans
  | n :: ops =>
    match n.toNat?, ops.mapM parseIterOp with
    | some n, some ops =>
      (" ".intercalate ((Text.Range.run ⟨0, n⟩ ops).map showOptNat),
       " ".intercalate ((Text.listRun (List.range n) ops).map showOptNat))
    | _, _ => bad
  | _ => bad

/-! C20 -/
def parseTraceOp (s : String) : Option Tracing.Op :=
  match s with
  | "e" => some .enable | "d" => some .disable | "t" => some .toggle
  | "le" => some .localEnable | "ld" => some .localDisable | "lt" => some .localToggle
  | "tk" => some .localTake | "q" => some .isEnabled
  | _ => none

/-- `t:op` tokens; `t:rs<i>` restores the i-th state saved by thread `t` (each may be restored many
times in the model; the harness uses each at most once because `LocalEnableState` is not `Copy`).
After every step the views of threads 0..nthreads-1 are printed. -/
partial def traceLoop (nth : Nat) (s : Tracing.State) (saved : Nat → List Tracing.LocalFlag)
    (hist : List (Nat × Tracing.Op)) (toks : List String) (accM accS : List String) : Ans :=
  match toks with
  | [] => (" ".intercalate accM.reverse, " ".intercalate accS.reverse)
  | tok :: rest =>
    match tok.splitOn ":" with
    | [t, o] =>
      match t.toNat? with
      | none => bad
      | some t =>
        let op? : Option Tracing.Op :=
          match o.toList with
          | 'r' :: 's' :: r => (String.ofList r).toNat?.bind (fun i => ((saved t)[i]?).map Tracing.Op.restore)
          | _ => parseTraceOp o
        match op? with
        | none => bad
        | some op =>
          let (s', out) := Tracing.step s t op
          let saved' := match out with
            | .saved f => fun t' => if t' = t then saved t' ++ [f] else saved t'
            | _ => saved
          let hist' := hist ++ [(t, op)]
          let vm := String.ofList ((List.range nth).map (fun i => if Tracing.view s' i then '1' else '0'))
          let vs := String.ofList ((List.range nth).map (fun i => if Spec.Tracing.view i hist' then '1' else '0'))
          traceLoop nth s' saved' hist' rest (vm :: accM) (vs :: accS)
    | _ => bad

def handleTrace : List String → Ans
  | n :: toks => match n.toNat? with
    | some nth => traceLoop nth Tracing.init (fun _ => []) [] toks [] []
    | none => bad
  | _ => bad

/-! C18 -/
/-- `bb iterops <hex> <op>...`: a sequence of operations on ONE `BitBoardIter` (n = `next`, t<k> = `nth(k)`,
s = `size_hint`), run by `BB.runIter` (model: the bit tricks) and by `runIterList` (specification: the ascending list of
members) of `Model/BitIter.lean`; `Props.C18.runIter_refines` proves them equal for every word and sequence. -/
def parseBitIterOp (t : String) : Option Chess.IterOp :=
  if t = "n" then some .next else if t = "s" then some .hint
  else if t.startsWith "t" then (t.drop 1).toNat?.map .nth else none

def showIterOuts (ops : List Chess.IterOp) (outs : List Chess.IterOut) : String :=
  " ".intercalate ((ops.zip outs).map fun (o, r) =>
    match o, r with
    | .next, .sq (some s) => s!"n={s.val}"
    | .next, .sq none => "n=none"
    | .nth k, .sq (some s) => s!"t{k}={s.val}"
    | .nth k, .sq none => s!"t{k}=none"
    | .hint, .size n => s!"s={n}"
    | _, _ => "?")

open Spec in
def handleBB (args : List String) : Ans :=
  let sb (p : SqSet) : String := showBB (SqSet.toBB p)
  match args with
  | "fromsqs" :: rest => match rest.mapM sqIdx? with
    | some l => (showBB (BB.ofList l), sb (SqSet.ofList l))
    | none => bad
  | "iterops" :: a :: ops => match parseBB a, ops.mapM parseBitIterOp with
    | some a, some ops => (showIterOuts ops (BB.runIter true ops a), showIterOuts ops (runIterList ops (BB.toList a)))
    | _, _ => bad
  | "frombbs" :: rest => match rest.mapM parseBB with
    | some l => (showBB (BB.unionList l), sb (fun t => l.any (fun b => setOf b t)))
    | none => bad
  | ["ofsq", s] => match sqIdx? s with
    | some s => (showBB (BB.ofSq s), sb (SqSet.single s))
    | none => bad
  | ["offile", f] => match fin8? f with
    | some f => (showBB (BB.ofFile f), sb (SqSet.fileSet f))
    | none => bad
  | ["ofrank", r] => match fin8? r with
    | some r => (showBB (BB.ofRank r), sb (SqSet.rankSet r))
    | none => bad
  | [op, a] =>
    match parseBB a with
    | none => bad
    | some a =>
      let A := setOf a
      match op with
      | "not" => (showBB (BB.not a), sb (SqSet.compl A))
      | "up" => (showBB (BB.shiftUp a), sb (SqSet.up A))
      | "down" => (showBB (BB.shiftDown a), sb (SqSet.down A))
      | "left" => (showBB (BB.shiftLeft a), sb (SqSet.left A))
      | "right" => (showBB (BB.shiftRight a), sb (SqSet.right A))
      | "flip" => (showBB (BB.flipRanks a), sb (SqSet.flipRanks A))
      | "count" => (toString (BB.count a), toString (SqSet.card A))
      | "any" => (showBool (BB.any a), showBool (!SqSet.isEmpty A))
      | "none" => (showBool (BB.none a), showBool (SqSet.isEmpty A))
      | "all" => (showBool (BB.isFull a), showBool (SqSet.isAll A))
      | "some" => (showBool (BB.notFull a), showBool (!SqSet.isAll A))
      | "pop" => (match BB.pop a with
                  | some (s, b) => s!"{s.val} {showBB b}"
                  | none => "none",
                  match SqSet.popMin A with
                  | some (s, p) => s!"{s.val} {sb p}"
                  | none => "none")
      | "iter" => (" ".intercalate ((BB.iterList a).map (fun s => toString s.val)) ++ s!" | {BB.sizeHint a}",
                   " ".intercalate ((SqSet.members A).map (fun s => toString s.val)) ++ s!" | {SqSet.card A}")
      | _ => bad
  | [op, a, b] =>
    match parseBB a with
    | none => bad
    | some a =>
      let A := setOf a
      let viaSq (f : Sq → Ans) : Ans := match sqIdx? b with | some s => f s | none => bad
      let viaBB (f : BB → Ans) : Ans := match parseBB b with | some s => f s | none => bad
      match op with
      | "contains" => viaSq fun s => (showBool (BB.contains a s), showBool (A s))
      | "with" => viaSq fun s => (showBB (BB.set a s), sb (SqSet.insert A s))
      | "cleared" => viaSq fun s => (showBB (BB.clear a s), sb (SqSet.erase A s))
      | "or" => viaBB fun b => (showBB (BB.or a b), sb (SqSet.union A (setOf b)))
      | "and" => viaBB fun b => (showBB (BB.and a b), sb (SqSet.inter A (setOf b)))
      | "xor" => viaBB fun b => (showBB (BB.xor a b), sb (SqSet.symmDiff A (setOf b)))
      | "diff" => viaBB fun b => (showBB (BB.diff a b), sb (SqSet.sdiff A (setOf b)))
      | "nthp" => (match b.toNat? with
          | some n =>
            let (r, rest) := BB.nthPortable n a
            let (sr, srest) := SqSet.nth A n
            (s!"{showOptSq r} {showBB rest}", s!"{showOptSq sr} {sb srest}")
          | none => bad)
      | "nthb" => (match b.toNat? with
          | some n =>
            let (sr, srest) := SqSet.nth A n
            -- the specification fixes the returned element always, and the remainder when an element is returned
            (match BB.nthBmi2 n a with
             | (some s, rest) => s!"{showSq s} {showBB rest}"
             | (none, _) => "none",
             match sr with
             | some s => s!"{showSq s} {sb srest}"
             | none => "none")
          | none => bad)
      | _ => bad
  | _ => bad

end Chess.Drv
