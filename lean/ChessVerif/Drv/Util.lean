/- Line-protocol helpers for the native driver `chessdrv` (not part of the verified model). -/
import ChessVerif.Model.Basic
import ChessVerif.Model.Text
import ChessVerif.Model.Score

namespace Chess.Drv
open Chess

def hexVal (c : Char) : Option Nat :=
  if '0' ≤ c ∧ c ≤ '9' then some (c.toNat - '0'.toNat)
  else if 'a' ≤ c ∧ c ≤ 'f' then some (c.toNat - 'a'.toNat + 10)
  else if 'A' ≤ c ∧ c ≤ 'F' then some (c.toNat - 'A'.toNat + 10)
  else none

def parseHexNat (s : String) : Option Nat :=
  if s.isEmpty then none else
  s.toList.foldl (fun acc c => match acc, hexVal c with
    | some a, some v => some (a * 16 + v)
    | _, _ => none) (some 0)

def parseBB (s : String) : Option BB := (parseHexNat s).map (BitVec.ofNat 64)

def hexDigit (n : Nat) : Char := if n < 10 then Char.ofNat (48 + n) else Char.ofNat (87 + n)

def natToHex (n : Nat) : String :=
  if n = 0 then "0" else String.ofList (Nat.toDigits 16 n)

def showBB (b : BB) : String := natToHex b.toNat

/-- hex string (two digits per byte) → bytes -/
def parseBytes (s : String) : Option (List Byte) :=
  let rec go : List Char → Option (List Byte)
    | [] => some []
    | [_] => none
    | a :: b :: rest => match hexVal a, hexVal b, go rest with
      | some x, some y, some l => some (Fin.ofNat 256 (x * 16 + y) :: l)
      | _, _, _ => none
  if s = "-" then some [] else go s.toList

def showBytes (l : List Byte) : String :=
  if l.isEmpty then "-" else
  String.ofList (l.flatMap (fun b => [hexDigit (b.val / 16), hexDigit (b.val % 16)]))

def parseSq (s : String) : Option Sq :=
  match s.toList with
  | [f, r] =>
    let fi := f.toNat - 'a'.toNat
    let ri := r.toNat - '1'.toNat
    if 'a' ≤ f ∧ f ≤ 'h' ∧ '1' ≤ r ∧ r ≤ '8' then Sq.ofNat? (ri * 8 + fi) else none
  | _ => none

def showSq (s : Sq) : String :=
  String.ofList [Char.ofNat (97 + s.val % 8), Char.ofNat (49 + s.val / 8)]

def showOptSq : Option Sq → String
  | some s => showSq s
  | none => "none"

def parsePromo (c : Char) : Option Promo :=
  match c with
  | 'n' => some .knight | 'b' => some .bishop | 'r' => some .rook | 'q' => some .queen
  | _ => none

def showPromo : Promo → String
  | .knight => "n" | .bishop => "b" | .rook => "r" | .queen => "q"

/-- `e2e4`, `e7e8q` -/
def parseMove (s : String) : Option Move :=
  match s.toList with
  | [a, b, c, d] =>
    match parseSq (String.ofList [a, b]), parseSq (String.ofList [c, d]) with
    | some x, some y => some ⟨x, y, none⟩
    | _, _ => none
  | [a, b, c, d, p] =>
    match parseSq (String.ofList [a, b]), parseSq (String.ofList [c, d]), parsePromo p with
    | some x, some y, some q => some ⟨x, y, some q⟩
    | _, _, _ => none
  | _ => none

def showMove (m : Move) : String :=
  showSq m.source ++ showSq m.dest ++ (match m.piece with | some p => showPromo p | none => "")

def showOptMove : Option Move → String
  | some m => showMove m
  | none => "none"

def parseOptMove (s : String) : Option (Option Move) :=
  if s = "none" then some none else (parseMove s).map some

/-- `Min`, `Max`, `B<n>`, `W<n>`, `R<int>` -/
def parseScore (s : String) : Option Score :=
  if s = "Min" then some .min else if s = "Max" then some .max else
  match s.toList with
  | 'B' :: r => (String.ofList r).toNat?.map .blackMateIn
  | 'W' :: r => (String.ofList r).toNat?.map .whiteMateIn
  | 'R' :: r => (String.ofList r).toInt?.map .raw
  | _ => none

def showScore : Score → String
  | .min => "Min" | .max => "Max"
  | .blackMateIn n => s!"B{n}" | .whiteMateIn n => s!"W{n}" | .raw x => s!"R{x}"

def showOrd : Ordering → String
  | .lt => "lt" | .eq => "eq" | .gt => "gt"

def showBool (b : Bool) : String := if b then "true" else "false"

def fin8? (s : String) : Option (Fin 8) := s.toNat?.bind Text.fin8?
def sqIdx? (s : String) : Option Sq := s.toNat?.bind Sq.ofNat?

def showOptNat : Option Nat → String
  | some n => toString n
  | none => "-"

end Chess.Drv
