/-
Model of the stable-ABI conversions in `chess-api/src/lib.rs`.  The per-variant maps are
*generated from the Rust match arms* (`Gen/ApiMaps.lean`); this file only wires them to the
`source`/`dest` fields the way the Rust struct literals do (the wiring is asserted by the
translator).
-/
import ChessVerif.Model.Text
import ChessVerif.Gen.ApiMaps

namespace Chess.Api
open Chess Chess.Gen.Api

/-- `StableChessMove` -/
structure SMove where
  source : Sq
  dest : Sq
  piece : SP
  deriving DecidableEq, Repr

/-- `StableOptionalChessMove` -/
structure SOMove where
  source : Sq
  dest : Sq
  piece : SMP
  deriving DecidableEq, Repr

/-- `From<ChessMove> for StableChessMove` -/
def toStable (m : Move) : SMove := ⟨m.source, m.dest, pieceToSp m.piece⟩
/-- `From<StableChessMove> for ChessMove` -/
def ofStable (m : SMove) : Move := ⟨m.source, m.dest, spToPiece m.piece⟩
/-- `From<ChessMove> for StableOptionalChessMove` -/
def toStableOpt1 (m : Move) : SOMove := ⟨m.source, m.dest, pieceToSmp m.piece⟩
/-- `From<Option<ChessMove>> for StableOptionalChessMove` -/
def toStableOpt : Option Move → SOMove
  | some m => toStableOpt1 m
  | none => ⟨noneSource, noneDest, nonePiece⟩
/-- `From<StableOptionalChessMove> for Option<ChessMove>` -/
def ofStableOpt (m : SOMove) : Option Move :=
  match smpToPiece m.piece with
  | some p => some ⟨m.source, m.dest, p⟩
  | none => none

/-- `EvaluatedMove` -/
structure Evaluated where
  chessMove : SOMove
  score : SScore

/-- `EvaluatedMove::new` -/
def Evaluated.new (mv : Option Move) (s : Score) : Evaluated := ⟨toStableOpt mv, scoreToStable s⟩
/-- `EvaluatedMove::chess_move` -/
def Evaluated.move (e : Evaluated) : Option Move := ofStableOpt e.chessMove
/-- `EvaluatedMove::score` -/
def Evaluated.getScore (e : Evaluated) : Score := stableToScore e.score

end Chess.Api
