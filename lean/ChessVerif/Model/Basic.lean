/-
Model of `chess-bitboard`: squares, files, ranks, colours, pieces, bitboards.
Hand-written in the shape of the Rust (`chess-bitboard/src/{lib,ops,pos,piece,color,side}.rs`).
Core Lean only (no imports) so that it links into the native driver.
-/

namespace Chess

/-- Rust `u64` bitboards: wrapping arithmetic, bit `i` = square with index `i`. -/
abbrev BB := BitVec 64
/-- Rust `enum Pos` (`A1 = 0, B1 = 1, …, H8 = 63`). -/
abbrev Sq := Fin 64
/-- Rust `enum File` (`A = 0 … H = 7`). -/
abbrev File := Fin 8
/-- Rust `enum Rank` (`_1 = 0 … _8 = 7`). -/
abbrev Rank := Fin 8

inductive Color | white | black
  deriving DecidableEq, Repr, Inhabited

inductive Piece | pawn | knight | bishop | rook | queen | king
  deriving DecidableEq, Repr, Inhabited

inductive Promo | knight | bishop | rook | queen
  deriving DecidableEq, Repr, Inhabited

inductive Side | king | queen
  deriving DecidableEq, Repr, Inhabited

namespace Color
/-- `impl Not for Color`. -/
def flip : Color → Color
  | white => black
  | black => white
/-- `color as usize`. -/
def idx : Color → Nat
  | white => 0
  | black => 1
/-- `Color::from_u8`. -/
def ofNat? : Nat → Option Color
  | 0 => some white
  | 1 => some black
  | _ => none
/-- `enpassant_capture_rank`: the rank of the square a capturing pawn of this colour lands on. -/
def epCaptureRank : Color → Rank
  | white => 5
  | black => 2
/-- `enpassant_pawn_rank`: the rank on which the pawn to be captured stands. -/
def epPawnRank : Color → Rank
  | white => 4
  | black => 3
@[simp] theorem flip_flip (c : Color) : c.flip.flip = c := by cases c <;> rfl
theorem flip_ne (c : Color) : c.flip ≠ c := by cases c <;> decide
end Color

namespace Piece
def idx : Piece → Nat
  | pawn => 0 | knight => 1 | bishop => 2 | rook => 3 | queen => 4 | king => 5
def ofNat? : Nat → Option Piece
  | 0 => some pawn | 1 => some knight | 2 => some bishop
  | 3 => some rook | 4 => some queen | 5 => some king
  | _ => none
def all : List Piece := [pawn, knight, bishop, rook, queen, king]
end Piece

namespace Promo
/-- `PromotionPiece::to_piece`. -/
def toPiece : Promo → Piece
  | knight => .knight | bishop => .bishop | rook => .rook | queen => .queen
/-- `PromotionPiece as u8` (shares discriminants with `Piece`). -/
def idx (p : Promo) : Nat := p.toPiece.idx
end Promo

namespace Side
def flip : Side → Side
  | king => queen
  | queen => king
def idx : Side → Nat
  | king => 0
  | queen => 1
def ofNat? : Nat → Option Side
  | 0 => some king
  | 1 => some queen
  | _ => none
end Side

namespace Sq
/-- `Pos::file`. -/
def file (s : Sq) : File := ⟨s.val % 8, Nat.mod_lt _ (by decide)⟩
/-- `Pos::rank`. -/
def rank (s : Sq) : Rank := ⟨s.val / 8, by have := s.isLt; omega⟩
/-- `Pos::new(file, rank)`. -/
def mk (f : File) (r : Rank) : Sq := ⟨r.val * 8 + f.val, by have := f.isLt; have := r.isLt; omega⟩
/-- `Pos::from_u8`. -/
def ofNat? (n : Nat) : Option Sq := if h : n < 64 then some ⟨n, h⟩ else none
/-- `Rank::flip`. -/
def flipRankR (r : Rank) : Rank := ⟨7 - r.val, by omega⟩
/-- `Pos::flip_rank`. -/
def flipRank (s : Sq) : Sq := mk s.file (flipRankR s.rank)
/-- `File::shift_left` / `Rank::shift_down`. -/
def dec8 (x : Fin 8) : Option (Fin 8) := if h : x.val = 0 then none else some ⟨x.val - 1, by omega⟩
/-- `File::shift_right` / `Rank::shift_up`. -/
def inc8 (x : Fin 8) : Option (Fin 8) := if h : x.val = 7 then none else some ⟨x.val + 1, by omega⟩
/-- `Pos::shift_up`. -/
def up (s : Sq) : Option Sq := (inc8 s.rank).map (mk s.file)
/-- `Pos::shift_down`. -/
def down (s : Sq) : Option Sq := (dec8 s.rank).map (mk s.file)
/-- `Pos::shift_left`. -/
def left (s : Sq) : Option Sq := (dec8 s.file).map (fun f => mk f s.rank)
/-- `Pos::shift_right`. -/
def right (s : Sq) : Option Sq := (inc8 s.file).map (fun f => mk f s.rank)
/-- `File::side`. -/
def fileSide (f : File) : Side := if f.val < 4 then .queen else .king
/-- `File::dist_to` / `Rank::dist_to` (`abs_diff`). -/
def dist8 (a b : Fin 8) : Nat := if a.val ≤ b.val then b.val - a.val else a.val - b.val
/-- all 64 squares in index order (`Pos::all()`). -/
def all : List Sq := List.finRange 64
end Sq

namespace BB

def empty : BB := 0#64
def full : BB := BitVec.allOnes 64
/-- `BitBoard::from_pos`: `1 << pos`. -/
def ofSq (s : Sq) : BB := 1#64 <<< s.val
/-- `BitBoard::from_file`. -/
def ofFile (f : File) : BB := 0x0101010101010101#64 <<< f.val
/-- `BitBoard::from_rank`. -/
def ofRank (r : Rank) : BB := 0xff#64 <<< (r.val * 8)
/-- membership: bit `s` of the word. All set-level reasoning goes through this. -/
def mem (b : BB) (s : Sq) : Bool := b.getLsbD s.val
/-- `BitBoard::any`. -/
def any (b : BB) : Bool := b != 0#64
/-- `BitBoard::none`. -/
def none (b : BB) : Bool := b == 0#64
def or (a b : BB) : BB := a ||| b
def and (a b : BB) : BB := a &&& b
def xor (a b : BB) : BB := a ^^^ b
def not (a : BB) : BB := ~~~a
/-- `BitBoard::diff`: `self & !other`. -/
def diff (a b : BB) : BB := a &&& ~~~b
/-- `BitBoard::contains`: `self.and(from_pos(pos)).any()`. -/
def contains (b : BB) (s : Sq) : Bool := any (b &&& ofSq s)
/-- `BitBoard::with`. -/
def set (b : BB) (s : Sq) : BB := b ||| ofSq s
/-- `BitBoard::cleared`. -/
def clear (b : BB) (s : Sq) : BB := diff b (ofSq s)
/-- `BitBoard::all`. -/
def isFull (b : BB) : Bool := none (~~~b)
/-- `BitBoard::some`. -/
def notFull (b : BB) : Bool := any (~~~b)
def shiftUp (b : BB) : BB := (diff b (ofRank 7)) <<< 8
def shiftDown (b : BB) : BB := (diff b (ofRank 0)) >>> 8
def shiftLeft (b : BB) : BB := (diff b (ofFile 0)) >>> 1
def shiftRight (b : BB) : BB := (diff b (ofFile 7)) <<< 1

/-- model of `u64::count_ones`. -/
def popcountAux (b : BB) : Nat → Nat
  | 0 => 0
  | n + 1 => popcountAux b n + (if b.getLsbD n then 1 else 0)
/-- `BitBoard::count`. -/
def count (b : BB) : Nat := popcountAux b 64

/-- model of `u64::trailing_zeros` (64 for zero): scan upwards from bit `i`, `fuel` bits left. -/
def tzAux (b : BB) : Nat → Nat → Nat
  | 0, i => i
  | fuel + 1, i => if b.getLsbD i then i else tzAux b fuel (i + 1)
def tz (b : BB) : Nat := tzAux b 64 0

/-- model of `u64::swap_bytes`. -/
def swapBytes (b : BB) : BB :=
  ((b &&& 0xff#64) <<< 56) ||| ((b &&& 0xff00#64) <<< 40) |||
  ((b &&& 0xff0000#64) <<< 24) ||| ((b &&& 0xff000000#64) <<< 8) |||
  ((b >>> 8) &&& 0xff000000#64) ||| ((b >>> 24) &&& 0xff0000#64) |||
  ((b >>> 40) &&& 0xff00#64) ||| ((b >>> 56) &&& 0xff#64)
/-- `BitBoard::flip_ranks`. -/
def flipRanks (b : BB) : BB := swapBytes b

/-- `BitBoard::pop`: `None` on the empty board, otherwise the lowest square and the board without it
(`self.0 ^= 1 << zeros`). -/
def pop (b : BB) : Option (Sq × BB) :=
  if b == 0#64 then Option.none
  else match Sq.ofNat? (tz b) with
    | some s => some (s, b ^^^ ofSq s)
    | Option.none => Option.none   -- `Pos::from_u8(zeros).unwrap()`; unreachable for `b ≠ 0`

/-- the iterator `BitBoardIter` drained by repeated `next` (= `pop`), with explicit fuel. -/
def popLoop : Nat → BB → List Sq
  | 0, _ => []
  | fuel + 1, b => match pop b with
    | Option.none => []
    | some (s, b') => s :: popLoop fuel b'
/-- `bitboard.iter().collect()` / `for pos in bitboard`. -/
def iterList (b : BB) : List Sq := popLoop 64 b

/-- the set-level meaning of a bitboard: members in ascending order. -/
def toList (b : BB) : List Sq := (List.finRange 64).filter (mem b)

/-- `BitBoardIter::size_hint`. -/
def sizeHint (b : BB) : Nat := count b

/-- portable `Iterator::nth` (default implementation: `n` times `next`, then `next`). -/
def nthPortable : Nat → BB → Option Sq × BB
  | 0, b => match pop b with
    | Option.none => (Option.none, b)
    | some (s, b') => (some s, b')
  | n + 1, b => match pop b with
    | Option.none => (Option.none, b)
    | some (_, b') => nthPortable n b'

/-- model of the BMI2 intrinsic `_pdep_u64(src, mask)`: deposit the low bits of `src` at the set
positions of `mask`, scanning mask bits `i, i+1, …` with `k` the next source bit. -/
def pdepAux (src mask : BB) : Nat → Nat → Nat → BB
  | 0, _, _ => 0#64
  | fuel + 1, i, k =>
    if mask.getLsbD i then
      (if src.getLsbD k then (1#64 <<< i) else 0#64) ||| pdepAux src mask fuel (i + 1) (k + 1)
    else pdepAux src mask fuel (i + 1) k
def pdep (src mask : BB) : BB := pdepAux src mask 64 0 0

/-- The BMI2 `BitBoardIter::nth` (`chess-bitboard/src/lib.rs`, after the `fix:` commit that
returns `None` for `n ≥ 64` instead of evaluating `1 << n`).  When no element is returned the
iterator is left as it was. -/
def nthBmi2 (n : Nat) (b : BB) : Option Sq × BB :=
  if n ≥ 64 then (Option.none, b) else
  let bit : BB := 1#64 <<< n
  let x := tz (pdep bit b)
  match Sq.ofNat? x with
  | Option.none => (Option.none, b)
  | some s =>
    -- `((1u128 << (1 + pos)) - 1) as u64`
    let mask : BB := BitVec.ofNat 64 (2 ^ (1 + s.val) - 1)
    (some s, diff b mask)

/-- `FromIterator<Pos>`. -/
def ofList (l : List Sq) : BB := l.foldl set empty
/-- `FromIterator<BitBoard>`. -/
def unionList (l : List BB) : BB := l.foldl or empty

end BB

end Chess
