/-
Operation sequences on ONE `BitBoardIter` (chess-bitboard/src/lib.rs): `next`, `nth(k)` (both the portable default and
the BMI2/PDEP implementation), `size_hint`, interleaved in any order.  A run ends at the first `nth` that returns
nothing (what the iterator holds afterwards differs between the two implementations and is not specified).
-/
import ChessVerif.Model.Basic

namespace Chess

inductive IterOp
  | next
  | nth (k : Nat)
  | hint
  deriving DecidableEq, Repr

inductive IterOut
  | sq (o : Option Sq)
  | size (n : Nat)
  deriving DecidableEq, Repr

namespace BB

/-- the iterator is the word of squares not yet yielded; `bmi2` selects the `nth` implementation -/
def runIter (bmi2 : Bool) : List IterOp → BB → List IterOut
  | [], _ => []
  | .next :: ops, b =>
    match pop b with
    | some (s, b') => .sq (some s) :: runIter bmi2 ops b'
    | Option.none => .sq Option.none :: runIter bmi2 ops b
  | .hint :: ops, b => .size (sizeHint b) :: runIter bmi2 ops b
  | .nth k :: ops, b =>
    match (if bmi2 then nthBmi2 k b else nthPortable k b) with
    | (some s, rest) => .sq (some s) :: runIter bmi2 ops rest
    | (Option.none, _) => [.sq Option.none]

end BB

/-- the same run on the plain list of members (what a slice iterator would do) -/
def runIterList : List IterOp → List Sq → List IterOut
  | [], _ => []
  | .next :: ops, l =>
    match l with
    | s :: l' => .sq (some s) :: runIterList ops l'
    | [] => .sq none :: runIterList ops []
  | .hint :: ops, l => .size l.length :: runIterList ops l
  | .nth k :: ops, l =>
    match l.drop k with
    | s :: l' => .sq (some s) :: runIterList ops l'
    | [] => [.sq none]

end Chess
