/-
Model of `chess-movegen/src/{raw,castle_rights,lib}.rs`: `RawBoard`, `CastleRights`, `Board`,
validation, pin/check information, make-move.  Written in the shape of the Rust (same bitboards,
same xor helper with its transiently inconsistent intermediate states, same incremental
pin/check update), not in the shape of what it should do — that is `Spec/Rules.lean`.

Widths: the clocks are `u16` with saturating increments (after the `fix:` commit), modelled as
`Nat` capped at 65535; `castle` is the `u8` inside `CastleRights` (always < 16 on accepted boards).
Operations with an unchecked precondition (`king_sq`'s `pop_unchecked`, `to_index`'s
`unreachable_unchecked`, `piece_of_unchecked`) are total here and their preconditions are the
explicit predicates `kingSq?`, `castle < 16`, `colorOf ≠ none`; the trap-aware entry points in
`Model/Api*.lean`/driver check them, and C07 proves they hold on well-formed boards.
-/
import ChessVerif.Model.Lookup
import ChessVerif.Model.Text

namespace Chess

/-- `raw::RawBoard { colors: [BitBoard; 2], pieces: [BitBoard; 6] }` -/
structure RawBoard where
  white : BB
  black : BB
  pawn : BB
  knight : BB
  bishop : BB
  rook : BB
  queen : BB
  king : BB
  deriving DecidableEq, Repr, Inhabited

namespace RawBoard

def empty : RawBoard := ⟨0#64, 0#64, 0#64, 0#64, 0#64, 0#64, 0#64, 0#64⟩

/-- `RawBoard::standard()` (literals translated from the source) -/
def standard : RawBoard :=
  let c := Gen.Consts.standardColors
  let p := Gen.Consts.standardPieces
  ⟨Lookup.tbl1 c 0, Lookup.tbl1 c 1, Lookup.tbl1 p 0, Lookup.tbl1 p 1, Lookup.tbl1 p 2,
   Lookup.tbl1 p 3, Lookup.tbl1 p 4, Lookup.tbl1 p 5⟩

/-- `Index<Color>` -/
def color (r : RawBoard) : Color → BB
  | .white => r.white
  | .black => r.black
/-- `Index<Piece>` -/
def piece (r : RawBoard) : Piece → BB
  | .pawn => r.pawn | .knight => r.knight | .bishop => r.bishop
  | .rook => r.rook | .queen => r.queen | .king => r.king

def setColor (r : RawBoard) (c : Color) (b : BB) : RawBoard :=
  match c with
  | .white => { r with white := b }
  | .black => { r with black := b }
def setPiece (r : RawBoard) (p : Piece) (b : BB) : RawBoard :=
  match p with
  | .pawn => { r with pawn := b } | .knight => { r with knight := b }
  | .bishop => { r with bishop := b } | .rook => { r with rook := b }
  | .queen => { r with queen := b } | .king => { r with king := b }

/-- `RawBoard::all` -/
def all (r : RawBoard) : BB := r.white ||| r.black

/-- `RawBoard::color_of` -/
def colorOf (r : RawBoard) (s : Sq) : Option Color :=
  if BB.contains r.white s then some .white
  else if BB.contains r.black s then some .black
  else none

/-- `RawBoard::piece_of_unchecked` (precondition: some piece stands on `s`; otherwise the Rust
falls through to `King`, with a `debug_assert!`) -/
def pieceOfUnchecked (r : RawBoard) (s : Sq) : Piece :=
  if BB.contains (r.pawn ||| r.knight ||| r.bishop) s then
    if BB.contains r.pawn s then .pawn
    else if BB.contains r.knight s then .knight
    else .bishop
  else if BB.contains r.rook s then .rook
  else if BB.contains r.queen s then .queen
  else .king

/-- `RawBoard::piece_of` -/
def pieceOf (r : RawBoard) (s : Sq) : Option Piece :=
  match r.colorOf s with
  | none => none
  | some _ => some (r.pieceOfUnchecked s)

/-- `RawBoard::get` -/
def get (r : RawBoard) (s : Sq) : Option (Color × Piece) :=
  match r.colorOf s with
  | none => none
  | some c => some (c, r.pieceOfUnchecked s)

/-- `RawBoard::xor` -/
def xor (r : RawBoard) (c : Color) (p : Piece) (diff : BB) : RawBoard :=
  (r.setColor c (r.color c ^^^ diff)).setPiece p ((r.setColor c (r.color c ^^^ diff)).piece p ^^^ diff)

/-- `RawBoard::set_unchecked` -/
def setUnchecked (r : RawBoard) (c : Color) (p : Piece) (s : Sq) : RawBoard :=
  (r.setColor c (BB.set (r.color c) s)).setPiece p (BB.set ((r.setColor c (BB.set (r.color c) s)).piece p) s)

/-- `RawBoard::remove` -/
def remove (r : RawBoard) (c : Color) (p : Piece) (s : Sq) : RawBoard :=
  (r.setColor c (BB.clear (r.color c) s)).setPiece p (BB.clear ((r.setColor c (BB.clear (r.color c) s)).piece p) s)

/-- `RawBoard::has_kings` -/
def hasKings (r : RawBoard) : Bool :=
  BB.count r.king == 2 && BB.count (r.king &&& r.white) == 1 && BB.count (r.king &&& r.black) == 1

end RawBoard

/-! ### `CastleRights(u8)` -/
namespace Castle

/-- `offset(side, color) = side as u32 + color as u32 * 2` -/
def offset (sd : Side) (c : Color) : Nat := sd.idx + c.idx * 2
/-- `CastleRights::contains` -/
def contains (cr : Nat) (sd : Side) (c : Color) : Bool := cr.testBit (offset sd c)
/-- `CastleRights::with` -/
def add (cr : Nat) (sd : Side) (c : Color) : Nat := cr ||| (1 <<< offset sd c)
/-- `CastleRights::contains_color` -/
def containsColor (cr : Nat) (c : Color) : Bool := contains cr .king c || contains cr .queen c
/-- `CastleRights::remove_for_sq`: `self.0 &= CASTLE_RIGHTS_PER_SQ[color][sq].0` (grid translated from the source) -/
def removeForSq (cr : Nat) (c : Color) (s : Sq) : Nat :=
  cr &&& ((Gen.Consts.castleRightsPerSq.getD c.idx #[]).getD s.val 255)

end Castle

/-- `chess_movegen::Board` -/
structure Board where
  /-- the incrementally maintained hash of the piece placement (the `zobrist` field) -/
  zobrist : BB
  turn : Color
  castle : Nat
  ep : Option File
  half : Nat
  full : Nat
  pinned : BB
  checkers : BB
  raw : RawBoard
  deriving DecidableEq, Repr, Inhabited

/-- `u16::saturating_add` -/
def satAdd16 (a b : Nat) : Nat := if a + b ≥ 65535 then 65535 else a + b

namespace Board

/-- `impl PartialEq for Board`: turn, rights, e.p. file and placement; *not* clocks, hash, pins -/
def beq (a b : Board) : Bool :=
  decide (a.turn = b.turn) && a.castle == b.castle && decide (a.ep = b.ep) && decide (a.raw = b.raw)

/-- the board inside `Board::builder()` -/
def builderInit : Board :=
  { zobrist := 0#64, turn := .white, castle := 0, ep := none, half := 0, full := 0,
    pinned := 0#64, checkers := 0#64, raw := RawBoard.empty }

/-- `Board::standard()` (hash literal and piece literals translated from the source) -/
def standard : Board :=
  { zobrist := Lookup.bb Gen.Zobrist.standardLiteral, turn := .white, castle := Gen.Consts.castleFull,
    ep := none, half := 0, full := 0, pinned := 0#64, checkers := 0#64, raw := RawBoard.standard }

/-- the king bitboard of a colour -/
def kingBB (b : Board) (c : Color) : BB := b.raw.color c &&& b.raw.king
/-- precondition of `king_sq`'s `pop_unchecked`: the bitboard is not empty -/
def kingSq? (b : Board) (c : Color) : Option Sq :=
  if b.kingBB c == 0#64 then none else Sq.ofNat? (BB.tz (b.kingBB c))
/-- `Board::king_sq` (meaningful when `kingSq? ≠ none`) -/
def kingSq (b : Board) (c : Color) : Sq := (b.kingSq? c).getD 0

/-- `Board::zobrist()`: piece hash ^ turn key ^ e.p. key ^ castle key -/
def hash (b : Board) : BB :=
  b.zobrist ^^^ Lookup.zobristTurn b.turn ^^^
    (match b.ep with | some f => Lookup.zobristEp f | none => 0#64) ^^^
    Lookup.zobristCastle b.castle

/-- `Board::in_check` -/
def inCheck (b : Board) : Bool := BB.any b.checkers

/-- `Board::enpassant_pos` -/
def epPos (b : Board) : Option Sq := b.ep.map (fun f => Sq.mk f b.turn.epCaptureRank)

/-- the scan shared by `update_pin_info` and the tail of `move_unchecked_into`: for every
candidate slider aligned with `k`, empty between ⇒ checker, exactly one piece between ⇒ pinned -/
def scanSliders (occ : BB) (k : Sq) (cands : List Sq) (pinned checkers : BB) (useXor : Bool) : BB × BB :=
  cands.foldl (fun (pc : BB × BB) pos =>
    let between := occ &&& Lookup.between k pos
    if BB.none between then (pc.1, BB.set pc.2 pos)
    else if BB.count between == 1 then ((if useXor then pc.1 ^^^ between else pc.1 ||| between), pc.2)
    else pc) (pinned, checkers)

/-- `Board::update_pin_info` -/
def updatePinInfo (b : Board) : Board :=
  let k := b.kingSq b.turn
  let queens := b.raw.queen
  let bishopPinners := (b.raw.bishop ||| queens) &&& Lookup.bishopRays k
  let rookPinners := (b.raw.rook ||| queens) &&& Lookup.rookRays k
  let opp := b.raw.color b.turn.flip
  let pinners := opp &&& (bishopPinners ||| rookPinners)
  let (pinned, checkers) := scanSliders b.raw.all k (BB.toList pinners) 0#64 0#64 false
  let checkers := checkers ||| (Lookup.knightMoves k &&& b.raw.knight &&& opp)
  let checkers := checkers ||| (Lookup.pawnAttacksMoves k b.turn &&& b.raw.pawn &&& opp)
  { b with pinned := pinned, checkers := checkers }

inductive ValidationError
  | missingKings | invalidCastleRights | invalidEnpassant | tooManyPieces | opponentInCheck
  deriving DecidableEq, Repr

/-- `Board::validate_en_passant` -/
def validateEnPassant (b : Board) : Except ValidationError Unit :=
  match b.ep with
  | none => .ok ()
  | some f =>
    if (b.raw.get (Sq.mk f b.turn.epCaptureRank)).isSome then .error .invalidEnpassant
    else match b.raw.get (Sq.mk f b.turn.epPawnRank) with
      | some (c, p) =>
        if c = b.turn then .error .invalidEnpassant
        else if p ≠ .pawn then .error .invalidEnpassant
        else .ok ()
      | none => .error .invalidEnpassant

/-- `Board::validate_castle_rights` (including the h1 clause added by the `fix:` commit) -/
def validateCastleRights (b : Board) : Except ValidationError Unit :=
  let cr := b.castle
  if Castle.contains cr .queen .white && b.raw.get 0 != some (.white, .rook) then .error .invalidCastleRights
  else if Castle.contains cr .king .white && b.raw.get 7 != some (.white, .rook) then .error .invalidCastleRights
  else if Castle.contains cr .king .black && b.raw.get 63 != some (.black, .rook) then .error .invalidCastleRights
  else if Castle.contains cr .queen .black && b.raw.get 56 != some (.black, .rook) then .error .invalidCastleRights
  else if Castle.containsColor cr .white && b.raw.get 4 != some (.white, .king) then .error .invalidCastleRights
  else if Castle.containsColor cr .black && b.raw.get 60 != some (.black, .king) then .error .invalidCastleRights
  else .ok ()

/-- the attackers of square `k` among the pieces of colour `by_`, through occupancy `all`
(`validate_opponent_not_in_check`; pawns attack `k` from the squares a pawn of the other colour
standing on `k` would attack) -/
def attackersOf (r : RawBoard) (k : Sq) (by_ : Color) (all : BB) : BB :=
  ((Lookup.bishopMoves k all &&& (r.bishop ||| r.queen)) |||
   (Lookup.rookMoves k all &&& (r.rook ||| r.queen)) |||
   (Lookup.knightMoves k &&& r.knight) |||
   (Lookup.kingMoves k &&& r.king) |||
   (Lookup.pawnAttacksMoves k by_.flip &&& r.pawn)) &&& r.color by_

/-- `Board::validate_opponent_not_in_check` (added by the `fix:` commit) -/
def validateOpponentNotInCheck (b : Board) : Except ValidationError Unit :=
  if BB.any (attackersOf b.raw (b.kingSq b.turn.flip) b.turn b.raw.all) then .error .opponentInCheck
  else .ok ()

/-- `Board::validate` -/
def validate (b : Board) : Except ValidationError Unit :=
  if !b.raw.hasKings then .error .missingKings
  else if BB.count b.raw.white > 16 || BB.count b.raw.black > 16 then .error .tooManyPieces
  else match b.validateEnPassant with
    | .error e => .error e
    | .ok () => match b.validateCastleRights with
      | .error e => .error e
      | .ok () => b.validateOpponentNotInCheck

/-- `Board::xor`: xor the piece sets and fold the keys of every square of `diff` into the hash -/
def xorPieces (b : Board) (c : Color) (p : Piece) (diff : BB) : Board :=
  { b with raw := b.raw.xor c p diff,
           zobrist := (BB.toList diff).foldl (fun z s => z ^^^ Lookup.zobristPiece s p c) b.zobrist }

/-- `Board::move_unchecked_into` (the successor; preconditions are the Rust `# Safety` list) -/
def moveUnchecked (b : Board) (mv : Move) : Board :=
  let turn := b.turn
  let out : Board := { b with ep := none, checkers := 0#64, pinned := 0#64, turn := turn.flip }
  let sourceBB := BB.ofSq mv.source
  let destBB := BB.ofSq mv.dest
  let mvBB := sourceBB ^^^ destBB
  let piece := b.raw.pieceOfUnchecked mv.source
  let captured := b.raw.pieceOf mv.dest
  let out := out.xorPieces turn piece mvBB
  let out := match captured with
    | some cap => { out.xorPieces turn.flip cap destBB with half := 0 }
    | none => { out with half := satAdd16 out.half 1 }
  let out := { out with full := satAdd16 out.full turn.idx }
  let out := { out with castle := Castle.removeForSq (Castle.removeForSq out.castle turn.flip mv.dest) turn mv.source }
  let oppKing := b.kingSq turn.flip
  let castles := piece == .king && (mvBB &&& Gen.Consts.castleMoves) == mvBB
  let out :=
    if piece == .knight then
      { out with checkers := out.checkers ^^^ (Lookup.knightMoves oppKing &&& destBB) }
    else if piece == .pawn then
      let out := { out with half := 0 }
      let out := match mv.piece with
        | some promo =>
          let out := if promo == .knight then
              { out with checkers := out.checkers ^^^ (Lookup.knightMoves oppKing &&& destBB) } else out
          (out.xorPieces turn .pawn destBB).xorPieces turn promo.toPiece destBB
        | none =>
          if (mvBB &&& Lookup.pawnDoubleMove turn) == mvBB then { out with ep := some mv.dest.file }
          else if some mv.dest == b.epPos then
            out.xorPieces turn.flip .pawn (BB.ofSq (Sq.mk mv.dest.file turn.epPawnRank))
          else out
      if mv.piece.isNone then
        { out with checkers := out.checkers ^^^ (Lookup.pawnAttacksMoves oppKing turn.flip &&& destBB) }
      else out
    else if castles then
      let rookMv := Lookup.backrankBB turn &&&
        (match Sq.fileSide mv.dest.file with
         | .king => Gen.Consts.rookCastleKingside
         | .queen => Gen.Consts.rookCastleQueenside)
      out.xorPieces turn .rook rookMv
    else out
  let pieces := out.raw.color turn
  let bishops := out.raw.bishop ||| out.raw.queen
  let rooks := out.raw.rook ||| out.raw.queen
  let attackers := (bishops &&& pieces &&& Lookup.bishopRays oppKing) ||| (rooks &&& pieces &&& Lookup.rookRays oppKing)
  let (pinned, checkers) := scanSliders out.raw.all oppKing (BB.toList attackers) out.pinned out.checkers true
  { out with pinned := pinned, checkers := checkers }

end Board
end Chess
