/-
Model of the opening-book iterator of `chess-lookup/src/lib.rs` (`BookMoves`, `BookMovesIter`)
over the translated `BOOK` table, and the walk that C17 is about: every move met when walking
the whole trie from `INITIAL_BOOOK_MOVES` is played with the checked `move_new` from the standard
position, with no promotion piece.
-/
import ChessVerif.Model.MoveGen
import ChessVerif.Gen.Book

namespace Chess.Lookup
/-- one `u16` of `BOOK` (4096 words per literal); kept out of `Model/Lookup.lean` so that a changed
book invalidates only the modules that are about the book -/
def bookAt (i : Nat) : Nat :=
  if i < Gen.Book.bookSize then ((Gen.Book.chunks.getD (i / 4096) 0) >>> (16 * (i % 4096))) % 65536 else 0
end Chess.Lookup

namespace Chess.Book
open Chess

/-- what one `BookMovesIter::next` does at `index` -/
inductive Step
  /-- `offset == 0` (or the `checked_sub` failed): the iterator is finished -/
  | done
  /-- a read outside the table / an index underflow (`index - 1`, `index - 2` with `index < 2`) -/
  | oob
  /-- yields a move with its children, continues at `next` -/
  | yield (src dst : Sq) (children : Nat) (next : Nat)

def step (index : Nat) : Step :=
  if index ≥ Gen.Book.bookSize then .oob else
  let offset := Lookup.bookAt index
  if offset = 0 then .done else
  if index < 2 then .oob else
  let mv := Lookup.bookAt (index - 1)
  -- `self.index = self.index.checked_sub(offset + 1)?` returns `None` before anything is yielded
  if index < offset + 1 then .done else
  match Sq.ofNat? (mv % 64), Sq.ofNat? ((mv / 64) % 64) with
  | some s, some d => .yield s d (index - 2) (index - (offset + 1))
  | _, _ => .oob

structure Tally where
  nodes : Nat := 0
  edges : Nat := 0
  illegal : Nat := 0
  oob : Nat := 0
  fuelOut : Nat := 0
  digest : Nat := 0
  deriving Repr, DecidableEq

def mix (d : Nat) (depth : Nat) (s t : Sq) : Nat := (d * 1000003 + depth * 4096 + s.val * 64 + t.val) % 18446744073709551616

/-- visit the iterator position `index` whose moves are to be played on `b` (generic in how a move
is played, so that the specification can walk the same table with the rules of chess) -/
def visit {β : Type} (play : β → Move → Option β) : Nat → Nat → β → Nat → Tally → Tally
  | 0, _, _, _, t => { t with fuelOut := t.fuelOut + 1 }
  | fuel + 1, index, b, depth, t =>
    match step index with
    | .done => t
    | .oob => { t with oob := t.oob + 1 }
    | .yield s d children next =>
      let t := { t with edges := t.edges + 1, digest := mix t.digest depth s d }
      let t := match play b ⟨s, d, none⟩ with
        | none => { t with illegal := t.illegal + 1 }
        | some b' => visit play fuel children b' (depth + 1) { t with nodes := t.nodes + 1 }
      visit play fuel next b depth t

/-- the positions at which a walk that always follows a book move comes to rest: nodes whose child list yields
nothing (this is where the command-line front end leaves the book: it stops as soon as `count() == 0`) -/
def leaves {β : Type} (play : β → Move → Option β) : Nat → Nat → β → List β → List β
  | 0, _, _, acc => acc
  | fuel + 1, index, b, acc =>
    match step index with
    | .done => acc
    | .oob => acc
    | .yield s d children next =>
      let acc := match play b ⟨s, d, none⟩ with
        | none => acc
        | some b' =>
          match step children with
          | .yield .. => leaves play fuel children b' acc
          | _ => b' :: acc
      leaves play fuel next b acc

/-- `INITIAL_BOOOK_MOVES.index = BOOK_SIZE - 1` -/
def root : Nat := Gen.Book.bookSize - 1

/-- the whole book walked with the model's checked make-move -/
def walkModel : Tally := visit (fun b m => Board.moveNew b m) (root + 1) root Board.standard 0 { nodes := 1 }

def showTally (t : Tally) : String :=
  s!"nodes={t.nodes} edges={t.edges} illegal={t.illegal} oob={t.oob} fuelout={t.fuelOut} digest={t.digest}"

end Chess.Book
