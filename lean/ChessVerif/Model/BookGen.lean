/-
Model of the opening-book builder of `chess-lookup-generator/src/book.rs` from the trie on:
`MoveTrie::validate`, `MoveTrie::trim`, `encode` (the layout of the `u16` table), as run by
`read_lichess_games()` on `temp/moves_trie.json`, and of the reader `BookMovesIter::next` over an ARBITRARY
table (the model of the reader over the embedded table is `Model/Book.lean`).

A trie node carries its `count`, its `depth` field and its children in the order `encode` visits them
(ascending `count`; the harness gives siblings distinct counts, so that order is determined).  A move is
the 12-bit payload `source | dest << 6` of its table word.

`none` stands for a panic of the builder (`assert!` in `validate`, `u32` underflow in `trim`, the checked
`usize -> u16` conversion of a sibling link in `encode`): the builder refuses the trie.
-/
namespace Chess.BookGen

inductive Trie
  | node (count depth : Nat) (children : List (Nat × Trie))
  deriving Inhabited

def Trie.count : Trie → Nat | .node c _ _ => c
def Trie.depthField : Trie → Nat | .node _ d _ => d
def Trie.children : Trie → List (Nat × Trie) | .node _ _ cs => cs

mutual
/-- number of nodes (for the harness's statistics) -/
def Trie.size : Trie → Nat
  | .node _ _ cs => 1 + sizeList cs
def sizeList : List (Nat × Trie) → Nat
  | [] => 0
  | (_, t) :: r => t.size + sizeList r
end

mutual
/-- `MoveTrie::validate(depth)`: every leaf at ply 8, every inner count the sum of its children's -/
def validate : Trie → Nat → Bool
  | .node c _ cs, depth =>
    validateList cs (depth + 1) && (if cs.isEmpty then depth == 8 else c == sumCounts cs)
def validateList : List (Nat × Trie) → Nat → Bool
  | [], _ => true
  | (_, t) :: r, d => validate t d && validateList r d
def sumCounts : List (Nat × Trie) → Nat
  | [] => 0
  | (_, t) :: r => t.count + sumCounts r
end

/-- insert a child at its place in a list kept in ascending `count` (after equal counts: the source sorts with
`sort_unstable_by_key` on a `HashMap` drain, so the order of equal counts is not determined there) -/
def insertByCount (x : Nat × Trie) : List (Nat × Trie) → List (Nat × Trie)
  | [] => [x]
  | y :: r => if x.2.count < y.2.count then x :: y :: r else y :: insertByCount x r

mutual
/-- `MoveTrie::trim(depth)`: the trimmed node and "remove me" (`count <= 400`, or a childless node that is not at
ply 8); `none`: the `u32` subtraction `self.count -= next.count` underflowed -/
def trim : Trie → Nat → Option (Trie × Bool)
  | .node c d cs, depth =>
    match trimList cs (depth + 1) c with
    | none => none
    | some (cs', c') =>
      let t' := Trie.node c' d cs'
      some (t', if c' ≤ 400 then true else if cs'.isEmpty then depth != 8 else false)
/-- the children that stay, and the parent's count after subtracting the removed ones (computed in the
loop order of the source, which does not matter for a sum) -/
def trimList : List (Nat × Trie) → Nat → Nat → Option (List (Nat × Trie) × Nat)
  | [], _, c => some ([], c)
  | (m, t) :: r, d, c =>
    match trim t d with
    | none => none
    | some (t', remove) =>
      if remove then
        (if c < t'.count then none else trimList r d (c - t'.count))
      else
        match trimList r d c with
        | none => none
        -- the children are kept in ascending (trimmed) count: the order in which `encode` will visit them
        -- (`next.sort_unstable_by_key(|x| x.count)`; modelled here so that `encode` stays structurally recursive)
        | some (r', c') => some (insertByCount (m, t') r', c')
end

def commitThreshold : Nat := 100

mutual
/-- `encode(trie, data, depth)`: appends the blocks of the children to `data` -/
def encode : Trie → Array Nat → Nat → Option (Array Nat)
  | .node c d cs, data, depth =>
    if c < commitThreshold then some data
    else if d + depth < 5 then some data
    else encodeList cs data depth
def encodeList : List (Nat × Trie) → Array Nat → Nat → Option (Array Nat)
  | [], data, _ => some data
  | (m, t) :: r, data, depth =>
    let start := data.size
    match encode t (data.push 0) (depth + 1) with
    | none => none
    | some data1 =>
      let data2 := data1.push (m % 4096 + 32768)
      let len := data2.size - start
      if len ≥ 65536 then none          -- `(end - start).try_into().unwrap()` into a `u16`
      else encodeList r (data2.push len) depth
end

/-- the whole of `read_lichess_games()` after the JSON is read -/
def build (t : Trie) : Option (Array Nat) :=
  if !validate t 0 then none else
  match trim t 0 with
  | none => none
  | some (t', _) => encode t' #[] 0

/-! ### the reader over an arbitrary table -/

inductive Step
  | done
  | oob
  | yield (mv : Nat) (children next : Nat)

/-- `BookMovesIter::next` at `index` over `tbl` -/
def step (tbl : Array Nat) (index : Nat) : Step :=
  if index ≥ tbl.size then .oob else
  let offset := tbl.getD index 0
  if offset = 0 then .done else
  if index < 2 then .oob else
  let mv := tbl.getD (index - 1) 0
  if index < offset + 1 then .done else
  .yield (mv % 4096) (index - 2) (index - (offset + 1))

/-- all lines (root-to-node move sequences) the reader finds below `index`, each prefixed by `pre` -/
def lines (tbl : Array Nat) : Nat → Nat → List Nat → List (List Nat) → List (List Nat)
  | 0, _, _, acc => acc
  | fuel + 1, index, pre, acc =>
    match step tbl index with
    | .yield mv c n =>
      let line := pre ++ [mv]
      lines tbl fuel n pre (lines tbl fuel c line (line :: acc))
    | _ => acc

/-- does the walk from `index` stay inside the table? -/
def inRange (tbl : Array Nat) : Nat → Nat → Bool
  | 0, _ => true
  | fuel + 1, index =>
    match step tbl index with
    | .yield _ c n => inRange tbl fuel c && inRange tbl fuel n
    | .oob => false
    | .done => true

/-! ### what the table should hold (specification side): the lines of the trimmed trie that `encode` keeps -/

mutual
def keptLines : Trie → Nat → List Nat → List (List Nat) → List (List Nat)
  | .node c d cs, depth, pre, acc =>
    if c < commitThreshold then acc
    else if d + depth < 5 then acc
    else keptLinesList cs depth pre acc
def keptLinesList : List (Nat × Trie) → Nat → List Nat → List (List Nat) → List (List Nat)
  | [], _, _, acc => acc
  | (m, t) :: r, depth, pre, acc =>
    let line := pre ++ [m % 4096]
    keptLinesList r depth pre (keptLines t (depth + 1) line (line :: acc))
end

end Chess.BookGen
