/-
Model of `chess-bot/src/lib.rs`: `ChessBot { three_fold, engine, board }` behind the stable
interface of `chess-api` (whose move/score encodings are lossless: C16).
-/
import ChessVerif.Model.Engine

namespace Chess.Bot
open Chess Chess.Engine

structure State where
  board : Board
  table : ThreeFold

/-- the closure in `load_api` -/
def init : State := ⟨Board.standard, []⟩

/-- `set_board` -/
def setBoard (_ : State) (b : Board) : State := ⟨b, []⟩

/-- `MoveResult { is_valid, is_three_fold_draw }` -/
structure MoveResult where
  isValid : Bool
  isThreeFold : Bool
  deriving DecidableEq, Repr

/-- `make_move` -/
def makeMove (s : State) (mv : Move) : State × MoveResult :=
  if s.board.isLegal mv then
    let b' := s.board.moveUnchecked mv
    let (t', flag) := s.table.add b'
    (⟨b', t'⟩, ⟨true, flag⟩)
  else (s, ⟨false, false⟩)

/-- `evaluate(timeout)` with the timeout firing at poll `k` -/
def evaluate (s : State) (k : Nat) (prevMaxDepth : Nat := 0) : Result := search false s.board s.table k prevMaxDepth

end Chess.Bot
