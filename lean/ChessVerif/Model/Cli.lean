/-
Model of the book phase of the command-line front end (`chess-cli/src/main.rs`, `ArgKind::OnBoard` started
without a position):

    loop { let x = book_moves.into_iter().count(); if x == 0 { break; }
           let x = <weighted sample from 0..x>;
           let mv = book_moves.into_iter().nth(x).unwrap();
           assert!(board.move_mut(ChessMove { source: mv.source, dest: mv.dest, piece: None }));
           book_moves = mv.children; }

The random sampler is a parameter: a run is determined by the list of indices it drew.
-/
import ChessVerif.Model.Book
import ChessVerif.Model.Engine

namespace Chess.Cli
open Chess

/-- what `book_moves.into_iter()` yields at iterator position `index`: (source, destination, position of the children) -/
def siblings : Nat → Nat → List (Sq × Sq × Nat)
  | 0, _ => []
  | fuel + 1, index =>
    match Book.step index with
    | .yield s d c n => (s, d, c) :: siblings fuel n
    | _ => []

inductive Trap
  /-- `nth(x).unwrap()` on `None` -/
  | nthUnwrap
  /-- `assert!(board.move_mut(..))` failed -/
  | assertMoveMut
  deriving DecidableEq, Repr

/-- the book phase from iterator position `index` on board `b`, drawing the indices `draws` in order; it ends with
the board on which the program starts to think (`count() == 0`, or the draws given are used up) -/
def bookPhase : Nat → Nat → Board → List Nat → Except Trap Board
  | 0, _, b, _ => .ok b
  | fuel + 1, index, b, draws =>
    let sib := siblings (index + 1) index
    if sib.isEmpty then .ok b else
    match draws with
    | [] => .ok b
    | x :: rest =>
      match sib[x]? with
      | none => .error .nthUnwrap
      | some (s, d, c) =>
        match b.moveNew ⟨s, d, none⟩ with
        | none => .error .assertMoveMut
        | some b' => bookPhase fuel c b' rest

end Chess.Cli

namespace Chess.Cli
open Chess

/-! ### the game loop of `OnBoard` (after the book phase)

    loop { let (mv, score) = engine.search(&board, &three_fold, DurationTimeout::new(5000 ms));
           let Some(mv) = mv else { println!("DRAW (MATERIAL)"); break };
           assert!(board.move_mut(mv));
           if three_fold.add(board) { println!("DRAW (THREE FOLD)"); break }
           if board.legals().is_empty() { println!(if board.in_check() {"WIN"} else {"DRAW (NO LEGAL MOVES)"}); break } }

The wall clock is a parameter: a run is determined by the poll index at which each search's timeout expires. -/

inductive Outcome
  | noMove | threeFold | win | noLegalMoves
  /-- the expiry indices given are used up: the program would go on -/
  | stillPlaying
  deriving DecidableEq, Repr

def gameLoop : Nat → Board → Engine.ThreeFold → Nat → List Nat → Except Trap (Outcome × Board)
  | 0, b, _, _, _ => .ok (.stillPlaying, b)
  | fuel + 1, b, tf, prevDepth, ks =>
    match ks with
    | [] => .ok (.stillPlaying, b)
    | k :: ks' =>
      let r := Engine.search false b tf k prevDepth   -- `Engine::default()`: `positional = false`
      match r.move with
      | none => .ok (.noMove, b)
      | some mv =>
        match b.moveNew mv with
        | none => .error .assertMoveMut
        | some b' =>
          let (tf', three) := Engine.ThreeFold.add tf b'
          if three then .ok (.threeFold, b')
          else if (MoveGen.legals b').isEmpty then .ok (if b'.inCheck then .win else .noLegalMoves, b')
          else gameLoop fuel b' tf' r.maxDepth ks'

end Chess.Cli
