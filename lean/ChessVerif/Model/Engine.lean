/-
Model of `chess-engine/src/lib.rs`: `ThreeFold`, `BoardList`, `search_with`, `alphabeta`, `eval`,
`eval_endgame`, `score_pieces`, `insuffient_material` for both policies.  The field `Engine::positional`
is the leading argument `pos : Bool` of `eval`, `alphabeta`, …, `search` (`Engine::default()`, the shipped
configuration, is `pos = false`).

The timeout is the `Timeout` trait seen as a monotone poll counter: poll number `i` (0-based)
answers `i ≥ k`; `St.polls` counts the polls made so far.  Recursion: the deepening loop takes
fuel (every pass polls at least once), `alphabeta` takes fuel bounded by
`remaining_depth + number of men` (the capture extension at depth 0 only follows captures).
-/
import ChessVerif.Model.MoveGen
import ChessVerif.Model.ScoreOps
import ChessVerif.Gen.EngineConsts

namespace Chess.Engine
open Chess
open Chess.Gen.EngineConsts (queenValue rookValue bishopValue knightValue pawnValue limitBlackAhead limitWhiteAhead
  distWeight edgeWeight mobilityWeight edgeMix limitEqualBlack limitEqualWhite transposeIdx
  knightMapRaw pawnMapRaw queenMapRaw bishopMapRaw rookMapRaw kingEarlyMapRaw kingEndMapRaw)

/-- `ThreeFold`: `HashMap<Board, u8>` keyed by `Board`'s `Eq`, hashed by `zobrist()`; modelled as an
association list (sound when equal boards hash equal: C04) with saturating `u8` counts -/
abbrev ThreeFold := List (Board × Nat)

def satAdd8 (a : Nat) : Nat := if a + 1 ≥ 255 then 255 else a + 1

namespace ThreeFold
/-- `ThreeFold::get` -/
def get (t : ThreeFold) (b : Board) : Nat :=
  match t.find? (fun e => Board.beq e.1 b) with
  | some e => e.2
  | none => 0
/-- `ThreeFold::add`: increment (saturating after the `fix:`), report whether the count is now exactly 3 -/
def add (t : ThreeFold) (b : Board) : ThreeFold × Bool :=
  let c := satAdd8 (get t b)
  ((if t.any (fun e => Board.beq e.1 b) then t.map (fun e => if Board.beq e.1 b then (e.1, c) else e)
    else t ++ [(b, c)]), c == 3)
end ThreeFold

/-- `BoardList`: the boards on the current search line since the last capture, newest first, each
with its occurrence count; the root of the chain falls back to the `ThreeFold` table -/
structure BoardList where
  chain : List (Board × Nat)
  table : ThreeFold

namespace BoardList
/-- `BoardList::new(board, three_fold)` -/
def new (b : Board) (t : ThreeFold) : BoardList := ⟨[(b, t.get b)], t⟩
/-- `BoardList::count` -/
def count (l : BoardList) (b : Board) : Nat :=
  match l.chain.find? (fun e => Board.beq e.1 b) with
  | some e => e.2
  | none => l.table.get b
/-- `BoardList::add` -/
def add (l : BoardList) (b : Board) : BoardList := ⟨(b, satAdd8 (l.count b)) :: l.chain, l.table⟩
/-- the `count` field of the newest element -/
def headCount (l : BoardList) : Nat := match l.chain with | e :: _ => e.2 | [] => 0
end BoardList

/-- search state threaded through the recursion: polls of the timeout so far, `moves_evaluated` -/
structure St where
  polls : Nat
  evals : Nat
  deriving Repr

/-- `timeout.is_complete()`: poll number `polls` answers `polls ≥ k` -/
def poll (k : Nat) (st : St) : Bool × St := (decide (st.polls ≥ k), { st with polls := st.polls + 1 })

/-- the two `Policy` impls -/
def worst : Color → Score | .white => .min | .black => .max
/-- `P::is_better(score, new)` -/
def isBetter (c : Color) (score new : Score) : Bool :=
  match c with
  | .white => Score.lt score new
  | .black => Score.gt score new
/-- `P::update_cutoff` -/
def updateCutoff (c : Color) (alpha beta score : Score) : Score × Score :=
  match c with
  | .white => (Score.maxS score alpha, beta)
  | .black => (alpha, Score.minS score beta)

/-- `DIST_FROM_EDGE[pos]` (a `static` computed by a `while` loop in the source).  The numbers of the evaluation
(piece values, end-game limits, weights) are read from the source by `tools/translate.py` (`Gen/EngineConsts.lean`). -/
def distFromEdge (s : Sq) : Nat :=
  let f := s.file.val
  let r := s.rank.val
  let fe := if f < 7 - f then f else 7 - f
  let re := if r < 7 - r then r else 7 - r
  fe * re * edgeMix + fe * fe + re * re

/-- `Engine::score_pieces` with `positional = false` -/
def scorePieces (b : Board) (c : Color) : Int :=
  let mine := b.raw.color c
  ((BB.count (mine &&& b.raw.queen) * queenValue + BB.count (mine &&& b.raw.rook) * rookValue +
    BB.count (mine &&& b.raw.bishop) * bishopValue + BB.count (mine &&& b.raw.knight) * knightValue +
    BB.count (mine &&& b.raw.pawn) * pawnValue : Nat) : Int)

/-- `Engine::eval_endgame` -/
def evalEndgame (b : Board) (better : Color) : Int :=
  let bk := b.kingSq better
  let wk := b.kingSq better.flip
  let kingMoves := (MoveGen.kingLegals b better.flip).len
  let dist := Lookup.distance bk wk
  ((dist * dist * distWeight + distFromEdge wk * edgeWeight + kingMoves * mobilityWeight : Nat) : Int)

/-- `MAP[pos]` where `MAP = transpose(raw)` in the source: `transpose(raw)[i] = raw[transposeIdx i]` -/
def mapAt (raw : Array Int) (s : Sq) : Int := raw.getD (transposeIdx s.val) 0

/-- `for sq in bb { acc += i32::from(MAP[sq]) }` started from `0` -/
def mapSum (raw : Array Int) (bb : BB) : Int := (BB.toList bb).foldl (fun acc s => acc + mapAt raw s) 0

/-- the `position_score` of `Engine::score_pieces` when `positional`.  For Black the source reads
`my_pieces & board[Piece::Rook].flip_ranks()`, where the method call binds tighter than `&`: the squares of Black's
men (of any kind) that lie on the rank-flipped image of ALL rooks (both colours); likewise bishops and pawns.
That is the code that exists, and it is what is modelled. -/
def posScore (b : Board) (c : Color) : Int :=
  let mine := b.raw.color c
  mapSum queenMapRaw (mine &&& b.raw.queen) + mapSum knightMapRaw (mine &&& b.raw.knight) +
  (match c with
   | .white =>
     mapSum rookMapRaw (mine &&& b.raw.rook) + mapSum bishopMapRaw (mine &&& b.raw.bishop) +
     mapSum pawnMapRaw (mine &&& b.raw.pawn)
   | .black =>
     mapSum rookMapRaw (mine &&& BB.flipRanks b.raw.rook) + mapSum bishopMapRaw (mine &&& BB.flipRanks b.raw.bishop) +
     mapSum pawnMapRaw (mine &&& BB.flipRanks b.raw.pawn))

/-- `Engine::score_pieces`: material, plus `position_score` when `positional` -/
def scorePiecesP (pos : Bool) (b : Board) (c : Color) : Int :=
  if pos then scorePieces b c + posScore b c else scorePieces b c

/-- the `king_pos_score` of `Engine::eval` when `positional` -/
def kingPosScore (b : Board) (isEndgame : Bool) : Int :=
  if isEndgame then mapAt kingEndMapRaw (b.kingSq .white) - mapAt kingEndMapRaw (b.kingSq .black).flipRank
  else mapAt kingEarlyMapRaw (b.kingSq .white) - mapAt kingEarlyMapRaw (b.kingSq .black).flipRank

/-- `Engine::eval` with `positional = false`, as a definition of its own: `eval false` is this (`eval_false`) -/
def evalMaterial (b : Board) : Score :=
  if b.half ≥ 100 then .raw 0 else
  let w := scorePieces b .white
  let k := scorePieces b .black
  let diff := w - k
  let (we, be) : Int × Int :=
    if diff < 0 then (if k < limitBlackAhead then (evalEndgame b .black, 0) else (0, 0))
    else if diff = 0 then (0, 0)
    else (if w < limitWhiteAhead then (0, evalEndgame b .white) else (0, 0))
  .raw ((w + we) - (k + be))

/-- `Engine::eval` (the caller increments `moves_evaluated`); `pos` is `self.positional`.  With `positional` the
limits compare `score_pieces` INCLUDING the positional part, and the `Equal` arm decides `is_endgame`. -/
def eval (pos : Bool) (b : Board) : Score :=
  if b.half ≥ 100 then .raw 0 else
  let w := scorePiecesP pos b .white
  let k := scorePiecesP pos b .black
  let diff := w - k
  let (we, be, isEndgame) : Int × Int × Bool :=
    if diff < 0 then (if k < limitBlackAhead then (evalEndgame b .black, 0, true) else (0, 0, false))
    else if diff = 0 then (0, 0, decide (k < limitEqualBlack) && decide (w < limitEqualWhite))
    else (if w < limitWhiteAhead then (0, evalEndgame b .white, true) else (0, 0, false))
  let base := (w + we) - (k + be)
  .raw (if pos then base + kingPosScore b isEndgame else base)

/-- with `positional = false` the evaluation is the material-only one -/
theorem eval_false (b : Board) : eval false b = evalMaterial b := by
  unfold eval evalMaterial scorePiecesP
  simp only [Bool.false_eq_true, if_false]
  split
  · rfl
  · split
    · split <;> rfl
    · split
      · rfl
      · split <;> rfl

/-- `Engine::insuffient_material` -/
def insufficientMaterial (b : Board) : Bool :=
  if BB.any (b.raw.queen ||| b.raw.rook ||| b.raw.pawn) then false else
  let bishops := BB.count b.raw.bishop
  let knights := BB.count b.raw.knight
  (knights ≤ 1 && bishops == 0) || (knights == 0 && bishops ≤ 1)

mutual
/-- `Engine::alphabeta::<P>(mv, args)` where `P::COLOR` is the side to move after `mv`.
`fuel` bounds the recursion depth (see the file header). -/
def alphabeta (pos : Bool) (k : Nat) : Nat → Board → Move → (rem cur : Nat) → (alpha beta : Score) → BoardList → St → Score × St
  | 0, _, _, _, _, _, _, _, st => (.raw 0, st)        -- out of fuel: unreachable with `fuel ≥ rem + 33`
  | fuel + 1, old, mv, rem, cur, alpha, beta, list, st =>
    let board := old.moveUnchecked mv
    let pc := board.turn                      -- `P::COLOR`
    let wasCapture := (old.raw.get mv.dest).isSome
    let list := if wasCapture then BoardList.new board list.table else list.add board
    if wasCapture && insufficientMaterial board then (.raw 0, st) else
    let moves := MoveGen.legals board
    if moves.isEmpty then
      (if board.inCheck then
        (match pc with | .white => Score.blackMateIn cur | .black => Score.whiteMateIn cur)
       else .raw 0, st)
    else if board.half ≥ 100 then (.raw 0, st)
    else if list.headCount == 3 then (.raw 0, st)
    else
      let (isComplete, moves) :=
        if rem == 0 && wasCapture then
          let m := moves.setMask (board.raw.color pc.flip)
          (m.isEmpty, m)
        else (rem == 0, moves)
      if isComplete then (eval pos board, { st with evals := st.evals + 1 })
      else children pos k fuel board pc (rem - 1) (cur + 1) list 5000 moves (worst pc) alpha beta st

/-- the `for mv in moves` loop of `alphabeta` -/
def children (pos : Bool) (k : Nat) : Nat → Board → Color → (rem cur : Nat) → BoardList → Nat → MoveGen →
    (score alpha beta : Score) → St → Score × St
  | _, _, _, _, _, _, 0, _, score, _, _, st => (score, st)
  | fuel, board, pc, rem, cur, list, n + 1, moves, score, alpha, beta, st =>
    match moves.next with
    | (none, _) => (score, st)
    | (some mv, moves') =>
      let (done, st) := poll k st
      if done then (score, st) else
      let (new, st) := alphabeta pos k fuel board mv rem cur alpha beta list st
      let score := if isBetter pc score new then new else score
      let (alpha, beta) := updateCutoff pc alpha beta score
      if Score.le beta alpha then (score, st)
      else children pos k fuel board pc rem cur list n moves' score alpha beta st
end

/-- state of one deepening pass at the root -/
structure Pass where
  score : Score
  best : Option Move
  alpha : Score
  beta : Score

/-- one root move: `alphabeta`, poll, maybe improve; returns `none` when the poll said stop -/
def rootMove (pos : Bool) (k : Nat) (board : Board) (pc : Color) (depth : Nat) (tf : ThreeFold) (mv : Move)
    (p : Pass) (st : St) : Option Pass × St :=
  let (new, st) := alphabeta pos k (depth + 40) board mv depth 1 p.alpha p.beta (BoardList.new board tf) st
  let (done, st) := poll k st
  if done then (none, st) else
  let (score, best) := if isBetter pc p.score new then (new, some mv) else (p.score, p.best)
  let (alpha, beta) := updateCutoff pc p.alpha p.beta score
  (some ⟨score, best, alpha, beta⟩, st)

/-- a `for mv in &mut moves` loop at the root: returns the iterator as left behind -/
def rootLoop (pos : Bool) (k : Nat) (board : Board) (pc : Color) (depth : Nat) (tf : ThreeFold) :
    Nat → MoveGen → Pass → St → Pass × MoveGen × St
  | 0, g, p, st => (p, g, st)
  | n + 1, g, p, st =>
    match g.next with
    | (none, g') => (p, g', st)
    | (some mv, g') =>
      match rootMove pos k board pc depth tf mv p st with
      | (none, st) => (p, g', st)         -- `break`
      | (some p', st) => rootLoop pos k board pc depth tf n g' p' st

structure Result where
  move : Option Move
  score : Score
  maxDepth : Nat
  evals : Nat
  polls : Nat
  deriving Repr

/-- the `loop` of `search_with::<P>`; `passes` is fuel (each pass polls at least once, so
`k + 2` passes suffice) -/
def deepen (pos : Bool) (k : Nat) (board : Board) (pc : Color) (tf : ThreeFold) :
    Nat → (depth : Nat) → (bestMv : Option Move) → (bestScore : Score) → (maxDepth : Nat) → St → Result
  | 0, _, bestMv, bestScore, maxDepth, st => ⟨bestMv, bestScore, maxDepth, st.evals, st.polls⟩
  | passes + 1, depth, bestMv, bestScore, maxDepth, st =>
    let p0 : Pass := ⟨worst pc, none, .min, .max⟩
    let moves := MoveGen.legals board
    -- "consider previous best move"
    let (stop, p1, moves, st) : Bool × Pass × MoveGen × St :=
      match bestMv with
      | some mv =>
        let moves := (moves.removeMove mv).1
        match rootMove pos k board pc depth tf mv p0 st with
        | (none, st) => (true, p0, moves, st)
        | (some p, st) => (false, p, moves, st)
      | none => (false, p0, moves, st)
    if stop then ⟨bestMv, bestScore, maxDepth, st.evals, st.polls⟩ else
    -- captures first, then everything else; a `break` in the first loop still runs the second
    let moves := moves.setMask (board.raw.color pc.flip)
    let (p2, moves, st) := rootLoop pos k board pc depth tf 5000 moves p1 st
    let moves := moves.setMask BB.full
    let (p3, _, st) := rootLoop pos k board pc depth tf 5000 moves p2 st
    let (done, st) := poll k st
    if done then ⟨bestMv, bestScore, maxDepth, st.evals, st.polls⟩ else
    let depth' := if depth + 1 ≥ 65535 then 65535 else depth + 1
    match p3.score with
    | .blackMateIn _ | .whiteMateIn _ => ⟨p3.best, p3.score, depth, st.evals, st.polls⟩
    | _ => deepen pos k board pc tf passes depth' p3.best p3.score depth st

/-- `Engine::search(board, three_fold, timeout)` of an engine with `positional = pos`, with a timeout that fires at poll `k`;
`prevMaxDepth` is the `max_depth` field left by an earlier search (it is only written, never reset) -/
def search (pos : Bool) (board : Board) (tf : ThreeFold) (k : Nat) (prevMaxDepth : Nat := 0) : Result :=
  deepen pos k board board.turn tf (k + 2) 0 none (worst board.turn) prevMaxDepth ⟨0, 0⟩

end Chess.Engine
