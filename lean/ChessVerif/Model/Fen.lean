/-
Model of `chess-movegen/src/fen.rs` (`parse_fen`, byte for byte), of `Display for Board`
(the FEN writer, after the `fix:` commit for the e.p. rank) and of `BoardBuilder`.
The parser recurses on its input: every loop iteration that does not finish consumes one byte.
-/
import ChessVerif.Model.Board

namespace Chess.Fen
open Chess

inductive Whitespace | pieces | turn | castleRights | enpassant | halfMoveClock
  deriving DecidableEq, Repr

/-- `ParseFenError` (payloads other than the validation error are dropped: the property does not
constrain which error is reported, and the correspondence compares the variant) -/
inductive Error
  | invalidPiece | missingPiece | missingWhitespace (w : Whitespace) | invalidTurn | missingTurn
  | fileOutOfBounds | invalidEnpassant | missingEnpassant | missingCastleRights
  | missingHalfClock | missingFullClock | trailingBytes
  | boardValidation (e : Board.ValidationError)
  /-- not a `ParseFenError`: a panic (`unwrap` on `None`, arithmetic overflow) inside the parser -/
  | trap
  deriving DecidableEq, Repr

/-- `parse_piece`: a piece letter, a digit `1..8` (`Err(dist)`), or nothing consumed -/
inductive Tok | piece (c : Color) (p : Piece) | skip (n : Nat) | none

def parsePiece (c : Byte) : Tok :=
  match c.val with
  | 112 => .piece .black .pawn | 110 => .piece .black .knight | 98 => .piece .black .bishop
  | 114 => .piece .black .rook | 113 => .piece .black .queen | 107 => .piece .black .king
  | 80 => .piece .white .pawn | 78 => .piece .white .knight | 66 => .piece .white .bishop
  | 82 => .piece .white .rook | 81 => .piece .white .queen | 75 => .piece .white .king
  | n => if 49 ≤ n ∧ n ≤ 56 then .skip (n - 48) else .none

/-- the placement loop: `file` (0..7 at the loop head), `rank` (current rank index), `raw`, hash -/
def placement : List Byte → Nat → Nat → RawBoard → BB → Except Error (RawBoard × BB × List Byte)
  | [], _, _, _, _ => .error .missingPiece
  | c :: rest, file, rank, raw, z =>
    -- `Pos::new(File::from_u8(file).unwrap(), rank)`
    if h : file < 8 ∧ rank < 8 then
      let pos : Sq := Sq.mk ⟨file, h.1⟩ ⟨rank, h.2⟩
      -- `none` = the `continue` of the space branch; otherwise the new board, hash and `dist`
      let step : Except Error (Option (RawBoard × BB × Nat)) :=
        match parsePiece c with
        | .piece col p => .ok (some (raw.setUnchecked col p pos, z ^^^ Lookup.zobristPiece pos p col, 1))
        | .skip n => .ok (some (raw, z, n))
        | .none =>
          if c.val = 47 then .ok (some (raw, z, 0))        -- '/'
          else if c.val = 32 then .ok none                -- ' '
          else .error .invalidPiece
      match step with
      | .error e => .error e
      | .ok none => placement rest file rank raw z
      | .ok (some (raw, z, dist)) =>
        let file := file + dist
        if file ≤ 7 then placement rest file rank raw z
        else if file = 8 then
          if rank = 0 then .ok (raw, z, rest)             -- `ranks.next()` is `None`: break
          else placement rest 0 (rank - 1) raw z
        else .error .fileOutOfBounds
    else .error .trap

/-- `parse_whitespace`: at least one space, all of them consumed -/
def skipSpaces : List Byte → List Byte
  | [] => []
  | c :: rest => if c.val = 32 then skipSpaces rest else c :: rest

def parseWhitespace (s : List Byte) (w : Whitespace) : Except Error (List Byte) :=
  match s with
  | c :: rest => if c.val = 32 then .ok (skipSpaces rest) else .error (.missingWhitespace w)
  | [] => .error (.missingWhitespace w)

/-- `parse_castle_rights(s, b)` -/
def parseCastle (s : List Byte) (b : Nat) : Bool × List Byte :=
  match s with
  | c :: rest => if c.val = b then (true, rest) else (false, s)
  | [] => (false, s)

/-- `parse_number`: up to four leading digits; `None` when the first byte is not a digit -/
def digits : Nat → List Byte → Nat → Nat × List Byte
  | 0, s, acc => (acc, s)
  | n + 1, c :: rest, acc =>
    if 48 ≤ c.val ∧ c.val ≤ 57 then digits n rest (acc * 10 + (c.val - 48)) else (acc, c :: rest)
  | _ + 1, [], acc => (acc, [])

def parseNumber (s : List Byte) : Option (Nat × List Byte) :=
  match s with
  | c :: _ => if 48 ≤ c.val ∧ c.val ≤ 57 then some (digits 4 s 0) else none
  | [] => none

/-- the fields after the placement -/
def parseRest (raw : RawBoard) (z : BB) (s : List Byte) : Except Error Board :=
  match parseWhitespace s .pieces with
  | .error e => .error e
  | .ok s =>
  match (match s with
      | c :: rest => if c.val = 98 then Except.ok (Color.black, rest) else if c.val = 119 then .ok (Color.white, rest) else .error Error.invalidTurn
      | [] => .error Error.missingTurn) with
  | .error e => .error e
  | .ok (turn, s) =>
  match parseWhitespace s .turn with
  | .error e => .error e
  | .ok s =>
  let (wk, s) := parseCastle s 75
  let (wq, s) := parseCastle s 81
  let (bk, s) := parseCastle s 107
  let (bq, s) := parseCastle s 113
  let cr := 0
  let cr := if wk then Castle.add cr .king .white else cr
  let cr := if wq then Castle.add cr .queen .white else cr
  let cr := if bk then Castle.add cr .king .black else cr
  let cr := if bq then Castle.add cr .queen .black else cr
  match (if !(wk || wq || bk || bq) then
           (match s with
            | c :: rest => if c.val = 45 then Except.ok rest else .error Error.missingCastleRights
            | [] => .error Error.missingCastleRights)
         else .ok s) with
  | .error e => .error e
  | .ok s =>
  match parseWhitespace s .castleRights with
  | .error e => .error e
  | .ok s =>
  match ((match s with
      | f :: r :: rest =>
        if 97 ≤ f.val ∧ f.val ≤ 104 ∧ (r.val = 51 ∨ r.val = 54) then
          let expected := match turn with | .white => 54 | .black => 51
          if r.val ≠ expected then Except.error Error.invalidEnpassant
          else match Text.fin8? (f.val - 97) with
            | some file => Except.ok (some file, rest)
            | none => Except.error Error.trap
        else if f.val = 45 then Except.ok (none, r :: rest)
        else Except.error Error.invalidEnpassant
      | [f] => if f.val = 45 then Except.ok (none, []) else Except.error Error.missingEnpassant
      | [] => Except.error Error.missingEnpassant) : Except Error (Option File × List Byte)) with
  | .error e => .error e
  | .ok (ep, s) =>
  match parseWhitespace s .enpassant with
  | .error e => .error e
  | .ok s =>
  match parseNumber s with
  | none => .error .missingHalfClock
  | some (half, s) =>
  match parseWhitespace s .halfMoveClock with
  | .error e => .error e
  | .ok s =>
  match parseNumber s with
  | none => .error .missingFullClock
  | some (full, s) =>
  let board : Board := { zobrist := z, raw := raw, turn := turn, pinned := 0#64, checkers := 0#64,
                         castle := cr, ep := ep, half := half, full := full }
  match board.validate with
  | .error e => .error (.boardValidation e)
  | .ok () => if s.isEmpty then .ok board.updatePinInfo else .error .trailingBytes

/-- `fen::parse_fen` -/
def parseFen (s : List Byte) : Except Error Board :=
  match placement s 0 7 RawBoard.empty 0#64 with
  | .error e => .error e
  | .ok (raw, z, rest) => parseRest raw z rest

/-! ### `Display for Board` -/

def pieceChar (c : Color) (p : Piece) : Byte :=
  Fin.ofNat 256 ((Gen.Consts.pieceChars.getD c.idx #[]).getD p.idx 63)

/-- decimal digits of a number (`core::fmt::Display for u16/u32`) -/
def toDec (n : Nat) : List Byte := (Nat.toDigits 10 n).map (fun ch => Fin.ofNat 256 ch.toNat)

/-- one rank, files a..h, with the running count of empty squares -/
def showRank (raw : RawBoard) (rank : Rank) : List Byte :=
  let step := fun (st : List Byte × Nat) (f : Fin 8) =>
    match raw.get (Sq.mk f rank) with
    | some (c, p) => (st.1 ++ (if st.2 ≠ 0 then toDec st.2 else []) ++ [pieceChar c p], 0)
    | none => (st.1, st.2 + 1)
  let (out, missing) := (List.finRange 8).foldl step ([], 0)
  out ++ (if missing ≠ 0 then toDec missing else [])

/-- `Debug for CastleRights`: K Q k q in that order, `-` when the byte is 0 -/
def showCastle (cr : Nat) : List Byte :=
  let letter := fun (c : Color) (sd : Side) =>
    if Castle.contains cr sd c then
      [Fin.ofNat 256 ((Gen.Consts.castleLetters.getD c.idx #[]).getD sd.idx 63)] else []
  letter .white .king ++ letter .white .queen ++ letter .black .king ++ letter .black .queen ++
    (if cr = 0 then [45] else [])

/-- `Display for Board` -/
def display (b : Board) : List Byte :=
  let ranks : List Rank := [7, 6, 5, 4, 3, 2, 1, 0]
  let placement := ranks.foldl (fun acc r => acc ++ showRank b.raw r ++ (if r ≠ 0 then [47] else [])) []
  let turn : List Byte := match b.turn with | .white => [32, 119, 32] | .black => [32, 98, 32]
  let ep : List Byte := match b.ep with
    | some f => [32, Text.fileByte f, Text.rankByte b.turn.epCaptureRank, 32]
    | none => [32, 45, 32]
  placement ++ turn ++ showCastle b.castle ++ ep ++ toDec b.half ++ [32] ++ toDec b.full

/-! ### `BoardBuilder` -/

inductive BuildOp
  | turn (c : Color) | castle (cr : Nat) | half (n : Nat) | full (n : Nat) | ep (f : Option File)
  | place (s : Sq) (c : Color) (p : Piece) | remove (s : Sq)
  deriving Repr

/-- one builder call; `place` on an occupied square is `Err(PieceAlreadyExists)` and changes nothing -/
def buildStep (b : Board) : BuildOp → Board × Bool
  | .turn c => ({ b with turn := c }, true)
  | .castle cr => ({ b with castle := cr }, true)
  | .half n => ({ b with half := n }, true)
  | .full n => ({ b with full := n }, true)
  | .ep f => ({ b with ep := f }, true)
  | .place s c p =>
    if BB.contains b.raw.all s then (b, false)
    else ({ b with raw := b.raw.setUnchecked c p s, zobrist := b.zobrist ^^^ Lookup.zobristPiece s p c }, true)
  | .remove s =>
    match b.raw.get s with
    | some (c, p) => ({ b with zobrist := b.zobrist ^^^ Lookup.zobristPiece s p c, raw := b.raw.remove c p s }, true)
    | none => (b, true)

/-- a whole builder session: the calls in order from `Board::builder()`; the flags say which calls were accepted
(`place` returns `Err(PieceAlreadyExists)` on an occupied square) -/
def runBuild (ops : List BuildOp) : Board × List Bool :=
  ops.foldl (fun st op => let r := buildStep st.1 op; (r.1, st.2 ++ [r.2])) (Board.builderInit, [])

/-- `BoardBuilder::build` -/
def build (b : Board) : Except Board.ValidationError Board :=
  match b.validate with
  | .error e => .error e
  | .ok () => .ok b.updatePinInfo

end Chess.Fen
