/-
Model of the accessors of `chess-lookup/src/lib.rs` over the *translated* tables
(`Gen/Tables.lean`, `Gen/RookMagic.lean`, `Gen/BishopMagic.lean`, `Gen/Zobrist.lean`,
`Gen/Book.lean`, `Gen/Consts.lean`).  Out-of-range table reads (impossible for `Sq`/`Fin`
indices when the translator's shape assertions hold) read as 0; `Props/C09.lean` proves the
shapes so no read in the model ever takes that default.
-/
import ChessVerif.Model.Basic
import ChessVerif.Gen.Tables
import ChessVerif.Gen.RookMagic
import ChessVerif.Gen.BishopMagic
import ChessVerif.Gen.Zobrist
import ChessVerif.Gen.Consts

namespace Chess.Lookup
open Chess

def bb (n : Nat) : BB := BitVec.ofNat 64 n

def tbl1 (t : Array Nat) (i : Nat) : BB := bb (t.getD i 0)
def tbl2 (t : Array (Array Nat)) (i j : Nat) : BB := bb ((t.getD i #[]).getD j 0)

/-- `rook_rays(pos)` -/
def rookRays (s : Sq) : BB := tbl1 Gen.Tables.rookRays s.val
/-- `bishop_rays(pos)` -/
def bishopRays (s : Sq) : BB := tbl1 Gen.Tables.bishopRays s.val
/-- `knight_moves(pos)` -/
def knightMoves (s : Sq) : BB := tbl1 Gen.Tables.knightMoves s.val
/-- `king_moves(pos)` -/
def kingMoves (s : Sq) : BB := tbl1 Gen.Tables.kingMoves s.val
/-- `pawn_attacks_moves(pos, color)` -/
def pawnAttacksMoves (s : Sq) (c : Color) : BB := tbl2 Gen.Tables.pawnAttacks s.val c.idx
/-- `pawn_attacks(pos, color, all)` -/
def pawnAttacks (s : Sq) (c : Color) (all : BB) : BB := pawnAttacksMoves s c &&& all
/-- `pawn_quiets(pos, color, all)` -/
def pawnQuiets (s : Sq) (c : Color) (all : BB) : BB :=
  let cur := BB.ofSq s
  let next := match c with
    | .white => BB.shiftUp cur
    | .black => BB.shiftDown cur
  if BB.any (next &&& all) then BB.empty
  else tbl2 Gen.Tables.pawnQuiets s.val c.idx &&& ~~~all
/-- `pawn_moves(pos, color, all)` -/
def pawnMoves (s : Sq) (c : Color) (all : BB) : BB := pawnQuiets s c all ||| pawnAttacks s c all
/-- `between(a, b)` -/
def between (a b : Sq) : BB := tbl2 Gen.Tables.between a.val b.val
/-- `line(a, b)` -/
def line (a b : Sq) : BB := tbl2 Gen.Tables.line a.val b.val
/-- `distance(a, b)`: Chebyshev distance -/
def distance (a b : Sq) : Nat := Nat.max (Sq.dist8 a.rank b.rank) (Sq.dist8 a.file b.file)

/-- one entry of a `SOLUTIONS` table given as packed chunks (1024 words per literal) -/
def solAt (chunks : Array Nat) (prefixLen : Nat) (i : Nat) : BB :=
  if i < prefixLen then bb ((chunks.getD (i / 1024) 0) >>> (64 * (i % 1024))) else 0#64

structure Magic where
  factor : BB
  mask : BB
  offset : Nat
  shift : Nat

def magicOf (t : Array (Nat × Nat × Nat × Nat)) (s : Sq) : Magic :=
  let m := t.getD s.val (0, 0, 0, 0)
  ⟨bb m.1, bb m.2.1, m.2.2.1, m.2.2.2⟩

/-- the index computed by `rook_moves`/`bishop_moves`:
`((mask & occ).wrapping_mul(factor) >> shift).wrapping_add(offset as u64) as usize` -/
def magicIndex (m : Magic) (occ : BB) : Nat :=
  ((((m.mask &&& occ) * m.factor) >>> m.shift) + bb m.offset).toNat

def rookMagic (s : Sq) : Magic := magicOf Gen.RookMagic.magics s
def bishopMagic (s : Sq) : Magic := magicOf Gen.BishopMagic.magics s
def rookIndex (s : Sq) (occ : BB) : Nat := magicIndex (rookMagic s) occ
def bishopIndex (s : Sq) (occ : BB) : Nat := magicIndex (bishopMagic s) occ
/-- `rook_moves(pos, all)`; the table read is in bounds by `Props.C08.rook_index_lt` -/
def rookMoves (s : Sq) (occ : BB) : BB := solAt Gen.RookMagic.chunks Gen.RookMagic.prefixLen (rookIndex s occ)
/-- `bishop_moves(pos, all)` -/
def bishopMoves (s : Sq) (occ : BB) : BB := solAt Gen.BishopMagic.chunks Gen.BishopMagic.prefixLen (bishopIndex s occ)

/-- `zobrist(pos, piece, color)` = `PIECE_ZOBRIST[color][pos][piece]` -/
def zobristPiece (s : Sq) (p : Piece) (c : Color) : BB :=
  bb (((Gen.Zobrist.piece.getD c.idx #[]).getD s.val #[]).getD p.idx 0)
def zobristCastle (i : Nat) : BB := tbl1 Gen.Zobrist.castle i
def zobristEp (f : File) : BB := tbl1 Gen.Zobrist.enPassant f.val
def zobristTurn (c : Color) : BB := tbl1 Gen.Zobrist.turn c.idx

/-- `ADJACENT_FILES[i]`: computed in the source by a `while` loop from `from_file(i)` shifted left and right -/
def adjacentFiles (f : File) : BB := BB.shiftLeft (BB.ofFile f) ||| BB.shiftRight (BB.ofFile f)
/-- `ADJACENT_RANKS[i]` -/
def adjacentRanks (r : Rank) : BB := BB.shiftUp (BB.ofRank r) ||| BB.shiftDown (BB.ofRank r)

def backrankBB (c : Color) : BB := Gen.Consts.backrankBb.getD c.idx 0#64
def pawnDoubleMove (c : Color) : BB := Gen.Consts.pawnDoubleMove.getD c.idx 0#64
def promotionRank (c : Color) : Nat := Gen.Consts.promotionRank.getD c.idx 0

end Chess.Lookup
