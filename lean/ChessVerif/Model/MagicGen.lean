/-
Model of the magic-table generator of `chess-lookup-generator/src/magic.rs` (`generate_tables`), one square at a
time: the enumeration of the blocker sets of a square (`all_blockers`: index `idx` deposited onto the squares of the
relevance mask, `piece_moves.iter().nth(j)` for every set bit `j` of `idx`) and the acceptance loop that tries one
candidate multiplier (`'magic: loop { … for p in all_blockers { … } }`).  Which multiplier is tried is random in
the source (23 threads, `SmallRng`); the model is a function of the candidate, so what it states holds for
whichever candidate the search ends up accepting.
-/
import ChessVerif.Model.Basic

namespace Chess.MagicGen
open Chess

structure Blocker where
  /-- a subset of the relevance mask -/
  puzzle : BB
  /-- the attack set `solve(pos, puzzle)` -/
  solution : BB

/-- indices of the set bits of a word, ascending (`BitBoard::iter`) -/
def bitsOf (m : BB) : List Nat := (List.range 64).filter (fun i => m.getLsbD i)

/-- `idx` deposited onto the listed bit positions: bit `j` of `idx` goes to position `bits[j]` -/
def deposit : List Nat → Nat → BB
  | [], _ => 0#64
  | p :: ps, idx => (if idx % 2 = 1 then BitVec.twoPow 64 p else 0#64) ||| deposit ps (idx / 2)

/-- `all_blockers` for a square with relevance mask `mask` and solver `sol` -/
def blockersOf (mask : BB) (sol : BB → BB) : List Blocker :=
  (List.range (2 ^ (bitsOf mask).length)).map (fun i => ⟨deposit (bitsOf mask) i, sol (deposit (bitsOf mask) i)⟩)

/-- `p.puzzle.to_u64().wrapping_mul(magic) >> shift`, plus `offset` -/
def indexOf (magic : BB) (shift offset : Nat) (x : BB) : Nat := ((x * magic) >>> shift).toNat + offset

/-- the acceptance loop for one candidate: a slot that is still empty (`board.none()`) or already holds the same
solution takes the solution; any other slot is a collision (`continue 'magic`, here `none`).  A slot index outside
the table is a panic in the source (`data[index]`), also `none` here. -/
def fill (magic : BB) (shift offset : Nat) : List Blocker → Array BB → Option (Array BB)
  | [], data => some data
  | p :: ps, data =>
    let idx := indexOf magic shift offset p.puzzle
    if h : idx < data.size then
      if data[idx] == 0#64 || data[idx] == p.solution then fill magic shift offset ps (data.set idx p.solution)
      else none
    else none

/-- `shift = (all_blockers.len() as u64).leading_zeros() + 1` for `len = 2^n` -/
def shiftFor (mask : BB) : Nat := 64 - (bitsOf mask).length

/-- one square: try `magic` on the table `data` with the square's region starting at `offset` -/
def trySquare (magic mask : BB) (sol : BB → BB) (offset : Nat) (data : Array BB) : Option (Array BB) :=
  fill magic (shiftFor mask) offset (blockersOf mask sol) data

end Chess.MagicGen
