/-
Model of `chess-movegen/src/iter.rs` and `chess-movegen/src/iter/pieces.rs`: the entry list
(`LegalMovesAt`), `collect_moves` for every piece type in the code's order and with the code's
pin/check masks, the e.p. block (after the `fix:` commit), castling, and the `MoveGen` iterator
with its cursor, mask and promotion cursor (after the `fix:` commit).
-/
import ChessVerif.Model.Board

namespace Chess

/-- `LegalMovesAt` -/
structure Entry where
  src : Sq
  moves : BB
  promotion : Bool
  deriving DecidableEq, Repr, Inhabited

namespace Board

/-- `check_mask::<IS_IN_CHECK>` (its `assert_eq!(checkers.count(), IS_IN_CHECK as u8)` is the
precondition `checkMaskOk`) -/
def checkMask (b : Board) (inCheck : Bool) (k : Sq) : BB :=
  if inCheck then
    (match BB.pop b.checkers with
     | some (c, _) => Lookup.between k c
     | none => Lookup.between k 0) ||| b.checkers
  else BB.full

def checkMaskOk (b : Board) (inCheck : Bool) : Bool := BB.count b.checkers == (if inCheck then 1 else 0)

/-- `PieceType::pseudo_legals` for the five non-pawn piece types and pawns -/
def pseudoLegals (p : Piece) (src : Sq) (c : Color) (all mask : BB) : BB :=
  match p with
  | .pawn => Lookup.pawnMoves src c all &&& mask
  | .knight => Lookup.knightMoves src &&& mask
  | .bishop => Lookup.bishopMoves src all &&& mask
  | .rook => Lookup.rookMoves src all &&& mask
  | .queen => (Lookup.rookMoves src all ||| Lookup.bishopMoves src all) &&& mask
  | .king => Lookup.kingMoves src &&& mask

/-- push one entry per source in `srcs` with `f src` as destination set, skipping empty sets -/
def pushEntries (srcs : List Sq) (f : Sq → BB) (promo : Sq → Bool) : List Entry :=
  srcs.filterMap fun src =>
    let mv := f src
    if BB.none mv then none else some ⟨src, mv, promo src⟩

/-- the generic `PieceType::legals::<IS_IN_CHECK>` (knight, bishop, rook, queen) -/
def genericLegals (b : Board) (p : Piece) (inCheck : Bool) (mask : BB) : List Entry :=
  let all := b.raw.all
  let k := b.kingSq b.turn
  let pieces := b.raw.piece p &&& b.raw.color b.turn
  let cm := b.checkMask inCheck k
  let unpinned := pushEntries (BB.toList (pieces &&& ~~~b.pinned))
    (fun src => pseudoLegals p src b.turn all mask &&& cm) (fun _ => false)
  -- `if IS_IN_CHECK || !CAN_MOVE_IF_PINNED { return }`
  if inCheck || p == .knight then unpinned
  else unpinned ++ pushEntries (BB.toList (pieces &&& b.pinned))
    (fun src => pseudoLegals p src b.turn all mask &&& Lookup.line src k) (fun _ => false)

/-- `Board::is_safe_after_enpassant` (added by the `fix:` commit) -/
def isSafeAfterEnpassant (b : Board) (k : Sq) (src dest captured : BB) : Bool :=
  let opp := BB.diff (b.raw.color b.turn.flip) captured
  let all := BB.diff (BB.diff b.raw.all src) captured ||| dest
  let queens := b.raw.queen
  let bishops := (b.raw.bishop ||| queens) &&& opp
  let rooks := (b.raw.rook ||| queens) &&& opp
  let knights := b.raw.knight &&& opp
  let pawns := b.raw.pawn &&& opp
  BB.none (Lookup.bishopMoves k all &&& bishops) &&
  BB.none (Lookup.rookMoves k all &&& rooks) &&
  BB.none (Lookup.knightMoves k &&& knights) &&
  BB.none (Lookup.pawnAttacksMoves k b.turn &&& pawns)

/-- `Pawn::legals::<IS_IN_CHECK>` -/
def pawnLegals (b : Board) (inCheck : Bool) (mask : BB) : List Entry :=
  let all := b.raw.all
  let k := b.kingSq b.turn
  let pieces := b.raw.pawn &&& b.raw.color b.turn
  let cm := b.checkMask inCheck k
  let seventh : Rank := match b.turn with | .white => 6 | .black => 1
  let promo := fun (src : Sq) => decide (src.rank = seventh)
  let unpinned := pushEntries (BB.toList (pieces &&& ~~~b.pinned))
    (fun src => pseudoLegals .pawn src b.turn all mask &&& cm) promo
  let pinnedE := if inCheck then [] else
    pushEntries (BB.toList (pieces &&& b.pinned))
      (fun src => pseudoLegals .pawn src b.turn all mask &&& Lookup.line k src) promo
  let ep := match b.ep with
    | none => []
    | some f =>
      let rank := b.turn.epPawnRank
      let files := Lookup.adjacentFiles f
      let dest := BB.ofSq (Sq.mk f b.turn.epCaptureRank)
      let capturePawn := BB.ofSq (Sq.mk f rank)
      if BB.any (dest &&& mask) then
        (BB.toList (BB.ofRank rank &&& files &&& pieces)).filterMap fun src =>
          if b.isSafeAfterEnpassant k (BB.ofSq src) dest capturePawn then some ⟨src, dest, false⟩ else none
      else []
  unpinned ++ pinnedE ++ ep

/-- `Board::is_legal_king_position` (note: uses `self.turn`, also when called for the other colour) -/
def isLegalKingPosition (b : Board) (kp : Sq) : Bool :=
  let queens := b.raw.queen
  let bishopPinners := (b.raw.bishop ||| queens) &&& Lookup.bishopRays kp
  let rookPinners := (b.raw.rook ||| queens) &&& Lookup.rookRays kp
  let opp := b.raw.color b.turn.flip
  let pinners := opp &&& (bishopPinners ||| rookPinners)
  let actual := BB.ofSq (b.kingSq b.turn) ^^^ BB.ofSq kp
  let pieces := b.raw.all ^^^ actual
  (BB.toList pinners).all (fun pos => !BB.none (pieces &&& Lookup.between kp pos)) &&
  BB.none ((Lookup.kingMoves kp &&& b.raw.king &&& opp) |||
           (Lookup.knightMoves kp &&& b.raw.knight &&& opp) |||
           (Lookup.pawnAttacksMoves kp b.turn &&& b.raw.pawn &&& opp))

/-- `King::king_legals::<IS_IN_CHECK>(movelist, board, turn, mask)` -/
def kingLegals (b : Board) (inCheck : Bool) (turn : Color) (mask : BB) : List Entry :=
  let all := b.raw.all
  let k := b.kingSq turn
  let pseudo := pseudoLegals .king k turn all mask
  let moves := (BB.toList pseudo).foldl (fun m d => if b.isLegalKingPosition d then m else BB.clear m d) pseudo
  let castle := fun (moves : BB) (side : Side) (castleFiles safeFiles : BB) =>
    if !Castle.contains b.castle side turn then moves else
    let backrank := Lookup.backrankBB turn
    let tiles := castleFiles &&& backrank
    if BB.none (tiles &&& all) then
      let noCheck := safeFiles &&& backrank
      if (BB.toList noCheck).all (fun d => b.isLegalKingPosition d) then
        moves ^^^ (tiles &&& Gen.Consts.castleMoves &&& mask)
      else moves
    else moves
  let moves := if inCheck then moves else
    let m1 := castle moves .king Gen.Consts.kingsideCastleFiles Gen.Consts.kingsideCastleSafeFiles
    castle m1 .queen Gen.Consts.queensideCastleFiles Gen.Consts.queensideCastleSafeFiles
  if BB.none moves then [] else [⟨k, moves, false⟩]

/-- `Board::collect_moves(mask)` -/
def collectMoves (b : Board) (mask : BB) : List Entry :=
  let mask := ~~~(b.raw.color b.turn) &&& mask
  if BB.none b.checkers then
    b.pawnLegals false mask ++ b.genericLegals .knight false mask ++ b.genericLegals .bishop false mask ++
    b.genericLegals .rook false mask ++ b.genericLegals .queen false mask ++ b.kingLegals false b.turn mask
  else
    (if BB.count b.checkers == 1 then
      b.pawnLegals true mask ++ b.genericLegals .knight true mask ++ b.genericLegals .bishop true mask ++
      b.genericLegals .rook true mask ++ b.genericLegals .queen true mask
     else []) ++ b.kingLegals true b.turn mask

/-- `Board::collect_king_moves(turn)` -/
def collectKingMoves (b : Board) (turn : Color) : List Entry :=
  let mask := ~~~(b.raw.color turn)
  b.kingLegals (!BB.none b.checkers) turn mask

end Board

/-- `MoveGen`: `promoIdx` is the position of the `promotions` slice iterator in `PROMOTION_PIECES` -/
structure MoveGen where
  moves : List Entry
  promoIdx : Nat
  mask : BB
  index : Nat
  deriving DecidableEq, Repr, Inhabited

namespace MoveGen

def promoPieces : List Promo := Gen.Consts.promotionPieces
def numPromo : Nat := Gen.Consts.numPromotionPieces

/-- `Board::legals()` -/
def legals (b : Board) : MoveGen := ⟨b.collectMoves BB.full, 0, BB.full, 0⟩
/-- `Board::legals_masked(mask)` -/
def legalsMasked (b : Board) (mask : BB) : MoveGen := ⟨b.collectMoves mask, 0, mask, 0⟩
/-- `Board::king_legals(turn)` -/
def kingLegals (b : Board) (turn : Color) : MoveGen := ⟨b.collectKingMoves turn, 0, BB.full, 0⟩

/-- `MoveGen::is_empty` (after the `fix:` commit) -/
def isEmpty (g : MoveGen) : Bool := (g.moves.drop g.index).all (fun e => BB.none (e.moves &&& g.mask))

/-- `MoveGen::len` (after the `fix:` commit) -/
def len (g : MoveGen) : Nat :=
  ((g.moves.drop g.index).foldl (fun (acc : Nat × Nat) e =>
    let count := BB.count (e.moves &&& g.mask)
    if count == 0 then acc
    else if e.promotion then (acc.1 + (count * numPromo - acc.2), 0)
    else (acc.1 + count, acc.2)) (0, g.promoIdx)).1

/-- `MoveGen::remove(mask)` -/
def remove (g : MoveGen) (mask : BB) : MoveGen :=
  { g with moves := g.moves.map (fun e => { e with moves := BB.diff e.moves mask }) }

/-- `MoveGen::remove_move(mv)` (after the `fix:` commit: every entry with that source) -/
def removeMove (g : MoveGen) (mv : Move) : MoveGen × Bool :=
  ({ g with moves := g.moves.map (fun e => if e.src = mv.source then { e with moves := BB.clear e.moves mv.dest } else e) },
   g.moves.any (fun e => e.src = mv.source))

/-- the in-place compaction of `set_mask`: `i` walks all entries, `j` is the next free slot;
an entry that is non-empty under the mask is swapped into slot `j` -/
def compact (mask : BB) (l : List Entry) : List Entry :=
  ((List.range l.length).foldl (fun (st : List Entry × Nat) i =>
    match st.1[i]? with
    | some e =>
      if BB.any (e.moves &&& mask) then
        ((if i ≠ st.2 then (st.1.set i (st.1.getD st.2 default)).set st.2 e else st.1), st.2 + 1)
      else st
    | none => st) (l, 0)).1

/-- `MoveGen::set_mask` -/
def setMask (g : MoveGen) (mask : BB) : MoveGen :=
  { g with mask := mask, index := 0, moves := compact mask g.moves }

/-- `Iterator::next` (after the `fix:` commit: entries empty under the mask are skipped) -/
def skipEmpty (moves : List Entry) (mask : BB) (index : Nat) : Nat :=
  match moves.drop index with
  | [] => index
  | rest => index + (rest.takeWhile (fun e => BB.none (e.moves &&& mask))).length

def next (g : MoveGen) : Option Move × MoveGen :=
  let index := skipEmpty g.moves g.mask g.index
  let g := { g with index := index }
  match g.moves[index]? with
  | none => (none, g)
  | some legal =>
    let masked := legal.moves &&& g.mask
    match BB.pop masked with
    | none => (none, g)     -- unreachable: `skipEmpty` stops at a non-empty entry (`pop_unchecked`)
    | some (dest, rest) =>
      if legal.promotion then
        let promotion := promoPieces.getD g.promoIdx .queen   -- `self.promotions.next().unwrap()`
        let result : Move := ⟨legal.src, dest, some promotion⟩
        if g.promoIdx + 1 ≥ promoPieces.length then
          -- `self.promotions.len() == 0`: restart the choices, drop the destination
          let legal' := { legal with moves := BB.clear legal.moves dest }
          let g := { g with promoIdx := 0, moves := g.moves.set index legal' }
          (some result, if BB.none (rest &&& g.mask) then { g with index := index + 1 } else g)
        else (some result, { g with promoIdx := g.promoIdx + 1 })
      else
        let legal' := { legal with moves := BB.clear legal.moves dest }
        let g := { g with moves := g.moves.set index legal' }
        (some ⟨legal.src, dest, none⟩, if BB.none rest then { g with index := index + 1 } else g)

/-- drain the iterator (fuel: 18 entries × 64 squares × 4 choices is a safe bound) -/
def drain : Nat → MoveGen → List Move
  | 0, _ => []
  | fuel + 1, g => match next g with
    | (none, _) => []
    | (some m, g') => m :: drain fuel g'

def toList (g : MoveGen) : List Move := drain 5000 g

end MoveGen

namespace Board
/-- all legal moves in the order the iterator yields them -/
def legalsList (b : Board) : List Move := (MoveGen.legals b).toList
/-- `Board::is_legal`: `self.legals().any(|m| m == mv)` -/
def isLegal (b : Board) (mv : Move) : Bool := b.legalsList.contains mv

/-- `GameState` -/
inductive GameState | checkMate | staleMate | check | running
  deriving DecidableEq, Repr

/-- `Board::state` -/
def state (b : Board) : GameState :=
  match (MoveGen.legals b).isEmpty, b.inCheck, decide (b.half ≥ 100) with
  | true, true, _ => .checkMate
  | true, false, _ => .staleMate
  | _, _, true => .staleMate
  | false, true, false => .check
  | false, false, false => .running

/-- `move_new` / `move_mut` / `move_into`: the successor iff the move is legal -/
def moveNew (b : Board) (mv : Move) : Option Board :=
  if b.isLegal mv then some (b.moveUnchecked mv) else none

end Board
end Chess
