/-
Model of the referee of `chess-cli/src/bot_fight.rs` (one game between two plugins `x` (White) and `y` (Black)):

    a.set_board(Board::standard()); b.set_board(Board::standard()); let mut moves = Vec::new();
    let result = loop {
        let (bot, bot_id, opp_id) = match a.board().turn() { White => (&mut a, x, y), Black => (&mut b, y, x) };
        let timeout = DurationTimeout::new(time_control);
        let (mv, _score) = bot.evaluate(&timeout);
        if let Some(mv) = mv {
            moves.push(mv);
            let res = a.make_move(mv);
            b.make_move(mv);
            if res.is_three_fold_draw { break GameResult::StaleMate { .. } }
        } else { break GameResult::DidntMove { bot_id, opp_id } }
        match a.board().state() {
            CheckMate => break GameResult::CheckMate { winner: bot_id, loser: opp_id },
            StaleMate => break GameResult::StaleMate { .. },
            Check | Running => (),
        }
    };

The wall clock is a parameter: a game is determined by the poll index at which each evaluation's timeout expires (`ks`).
The two engines are the modelled plugin (`Model/Bot.lean`); the `max_depth` an engine carries from one search to the next
only feeds its own statistics (`Result.maxDepth`), not the move, and is left at 0 here.
-/
import ChessVerif.Model.Bot

namespace Chess.Referee
open Chess

inductive GameResult
  /-- `CheckMate { winner, .. }`: `true` = the bot playing White won -/
  | checkMate (winnerIsWhite : Bool)
  | staleMate
  /-- `DidntMove { bot_id, .. }`: `true` = the bot playing White returned no move -/
  | didntMove (white : Bool)
  /-- the expiry indices given are used up: the referee would go on -/
  | stillPlaying
  deriving DecidableEq, Repr

structure Game where
  result : GameResult
  a : Bot.State
  b : Bot.State
  /-- `moves`, in the order played -/
  moves : List Move

def loop : Nat → Bot.State → Bot.State → List Move → List Nat → Game
  | 0, a, b, ms, _ => ⟨.stillPlaying, a, b, ms⟩
  | fuel + 1, a, b, ms, ks =>
    match ks with
    | [] => ⟨.stillPlaying, a, b, ms⟩
    | k :: ks' =>
      let white := a.board.turn == .white
      let bot := if white then a else b
      match (Bot.evaluate bot k).move with
      | none => ⟨.didntMove white, a, b, ms⟩
      | some mv =>
        let ra := Bot.makeMove a mv
        let rb := Bot.makeMove b mv
        let ms' := ms ++ [mv]
        if ra.2.isThreeFold then ⟨.staleMate, ra.1, rb.1, ms'⟩
        else match ra.1.board.state with
          | .checkMate => ⟨.checkMate white, ra.1, rb.1, ms'⟩
          | .staleMate => ⟨.staleMate, ra.1, rb.1, ms'⟩
          | _ => loop fuel ra.1 rb.1 ms' ks'

/-- one game from the standard position under the clock `ks` -/
def game (ks : List Nat) : Game :=
  loop (ks.length + 1) (Bot.setBoard Bot.init Board.standard) (Bot.setBoard Bot.init Board.standard) [] ks

end Chess.Referee
