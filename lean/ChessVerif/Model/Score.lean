/-
Types of `chess-engine/src/score.rs`. Payloads are unbounded (`Nat` for `u16`, `Int` for `i32`):
the theorems then hold in particular on the 16/32-bit ranges.  The functions (`kind`, the derived
order of `ScoreKind`, `Ord::cmp`, `partial_cmp`) are *generated from the Rust source* into
`Gen/ScoreFns.lean` on every run; `Model/ScoreOps.lean` adds the std-derived operators.
-/
namespace Chess

inductive Score
  | min
  | blackMateIn (n : Nat)
  | raw (x : Int)
  | whiteMateIn (n : Nat)
  | max
  deriving DecidableEq, Repr, Inhabited

inductive ScoreKind | min | blackMateIn | raw | whiteMateIn | max
  deriving DecidableEq, Repr

end Chess
