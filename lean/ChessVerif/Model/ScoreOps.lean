import ChessVerif.Gen.ScoreFns
/-! Operators the Rust standard library derives from `Ord::cmp` / `PartialEq` for `Score`. -/
namespace Chess.Score
open Chess.Gen.ScoreFns

/-- derived `PartialEq`: structural equality. -/
def beq (a b : Score) : Bool := decide (a = b)
/-- `a < b` (`PartialOrd::lt` via `partial_cmp`). -/
def lt (a b : Score) : Bool := partialCmp a b == some .lt
/-- `a <= b`. -/
def le (a b : Score) : Bool := partialCmp a b == some .lt || partialCmp a b == some .eq
/-- `a > b`. -/
def gt (a b : Score) : Bool := partialCmp a b == some .gt
/-- `Ord::max`: `if other < self { self } else { other }`. -/
def maxS (a b : Score) : Score := if lt b a then a else b
/-- `Ord::min`: `if other < self { other } else { self }`. -/
def minS (a b : Score) : Score := if lt b a then b else a

end Chess.Score
