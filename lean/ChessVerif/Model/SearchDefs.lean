/-
Vocabulary of the search theorems (C11, C12): the first deepening pass, "mating move",
"mate-in-one score".  Kept with the model (core Lean only) so that the driver can evaluate
`firstPassFinished` on the same requests as the implementation: the harness reports whether it
observed the first pass finishing, and the two must agree.
-/
import ChessVerif.Model.Engine

namespace Chess.Proofs.Search
open Chess Chess.Engine Chess.MoveGen

/-- the first deepening pass of `search pos`: depth 0, no previous best move, fresh counters -/
def firstPass (pos : Bool) (b : Board) (tf : ThreeFold) (k : Nat) : Pass × St :=
  let pc := b.turn
  let p0 : Pass := ⟨worst pc, none, .min, .max⟩
  let moves := (MoveGen.legals b).setMask (b.raw.color pc.flip)
  let (p2, moves, st) := rootLoop pos k b pc 0 tf 5000 moves p0 ⟨0, 0⟩
  let (p3, _, st) := rootLoop pos k b pc 0 tf 5000 (moves.setMask BB.full) p2 st
  (p3, st)

/-- the poll that closes the first pass did not report expiry -/
def firstPassFinished (pos : Bool) (b : Board) (tf : ThreeFold) (k : Nat) : Bool :=
  !(poll k (firstPass pos b tf k).2).1

/-- the move delivers checkmate: the successor has no legal move and its side to move is in check -/
def isMateMove (b : Board) (mv : Move) : Bool :=
  (MoveGen.legals (b.moveUnchecked mv)).isEmpty && (b.moveUnchecked mv).inCheck

/-- `WhiteMateIn(1)` / `BlackMateIn(1)` -/
def mateInOne : Color → Score
  | .white => .whiteMateIn 1
  | .black => .blackMateIn 1

/-- the shortcut `was_capture && insuffient_material(board)` of `alphabeta` scores such a move as a
draw *before* looking for mate; in chess no such move can mate (a lone minor piece cannot mate a
bare king: `Proofs/Insufficient.lean`, `insufficient_not_mate`), so `mate1_found` needs no side condition -/
def drawnCapture (b : Board) (mv : Move) : Bool :=
  (b.raw.get mv.dest).isSome && insufficientMaterial (b.moveUnchecked mv)

end Chess.Proofs.Search
