/-
Model of the text forms in `chess-bitboard/src/{pos,piece}.rs` and `ChessMove` in
`chess-movegen/src/lib.rs`, and of the `Range<u8>`-backed enumerating iterators.
Bytes are `Fin 256` (Rust `u8`, wrapping `-` is `Fin` subtraction).
-/
import ChessVerif.Model.Basic

namespace Chess

abbrev Byte := Fin 256

structure Move where
  source : Sq
  dest : Sq
  piece : Option Promo
  deriving DecidableEq, Repr, Inhabited

namespace Text

def fin8? (n : Nat) : Option (Fin 8) := if h : n < 8 then some ⟨n, h⟩ else none

/-- `File::from_ascii_byte`: `File::from_u8((s | 0x20).wrapping_sub(b'a'))`. -/
def fileOfByte (c : Byte) : Option File := fin8? ((c ||| 32) - 97 : Byte).val
/-- `Rank::from_ascii_byte`: `Rank::from_u8(s.wrapping_sub(b'1'))`. -/
def rankOfByte (c : Byte) : Option Rank := fin8? (c - 49 : Byte).val

/-- `Piece::from_ascii_byte`. -/
def pieceOfByte (c : Byte) : Option Piece :=
  match c.val with
  | 112 | 80 => some .pawn      -- p P
  | 110 | 78 => some .knight    -- n N
  | 98 | 66 => some .bishop     -- b B
  | 114 | 82 => some .rook      -- r R
  | 113 | 81 => some .queen     -- q Q
  | 107 | 75 => some .king      -- k K
  | _ => none

/-- `PromotionPiece::from_ascii_byte`. -/
def promoOfByte (c : Byte) : Option Promo :=
  match c.val with
  | 110 | 78 => some .knight
  | 98 | 66 => some .bishop
  | 114 | 82 => some .rook
  | 113 | 81 => some .queen
  | _ => none

/-- `X::from_ascii_bytes` for the one-byte parsers: `let &[s] = s else { return None }`. -/
def single {α} (f : Byte → Option α) : List Byte → Option α
  | [c] => f c
  | _ => none

def fileOfBytes := single fileOfByte
def rankOfBytes := single rankOfByte
def pieceOfBytes := single pieceOfByte
def promoOfBytes := single promoOfByte

/-- `Pos::from_ascii_bytes`. -/
def sqOfBytes : List Byte → Option Sq
  | [f, r] =>
    match fileOfByte f with
    | none => none
    | some f => match rankOfByte r with
      | none => none
      | some r => some (Sq.mk f r)
  | _ => none

/-- `ChessMove::from_ascii_bytes`: `[sf, sr, b'-', df, dr] | [sf, sr, df, dr]`. -/
def moveOfBytes : List Byte → Option Move
  | [sf, sr, d, df, dr] =>
    if d.val = 45 then
      match sqOfBytes [sf, sr] with
      | none => none
      | some s => match sqOfBytes [df, dr] with
        | none => none
        | some t => some ⟨s, t, none⟩
    else none
  | [sf, sr, df, dr] =>
    match sqOfBytes [sf, sr] with
    | none => none
    | some s => match sqOfBytes [df, dr] with
      | none => none
      | some t => some ⟨s, t, none⟩
  | _ => none

/-- `Display for File`: `b'a' + file`. -/
def fileByte (f : File) : Byte := ⟨97 + f.val, by have := f.isLt; omega⟩
/-- `File::upper_letter`. -/
def fileUpperByte (f : File) : Byte := ⟨65 + f.val, by have := f.isLt; omega⟩
/-- `Display for Rank`: decimal of `rank + 1` (one digit). -/
def rankByte (r : Rank) : Byte := ⟨49 + r.val, by have := r.isLt; omega⟩
/-- `Display for Pos`. -/
def sqBytes (s : Sq) : List Byte := [fileByte s.file, rankByte s.rank]
/-- `Display for PromotionPiece`. -/
def promoByte : Promo → Byte
  | .knight => 78 | .bishop => 66 | .rook => 82 | .queen => 81
/-- `Display for ChessMove`: `{source}-{dest}` then the promotion letter if any. -/
def moveBytes (m : Move) : List Byte :=
  sqBytes m.source ++ [45] ++ sqBytes m.dest ++ (match m.piece with | none => [] | some p => [promoByte p])

/-! ### `core::ops::Range<u8>` as used by `AllFileIter`, `AllRankIter`, `AllPieceIter`,
`AllColorIter`, `AllSideIter` (each maps the yielded `u8` through a total `from_u8`). -/

structure Range where
  start : Nat
  stop : Nat
  deriving DecidableEq, Repr

namespace Range
def next (r : Range) : Option Nat × Range :=
  if r.start < r.stop then (some r.start, { r with start := r.start + 1 }) else (none, r)
def nextBack (r : Range) : Option Nat × Range :=
  if r.start < r.stop then (some (r.stop - 1), { r with stop := r.stop - 1 }) else (none, r)
/-- `Range::nth`: `forward_checked(start, n)` fails when `start + n` leaves `u8`. -/
def nth (r : Range) (n : Nat) : Option Nat × Range :=
  if r.start + n < 256 ∧ r.start + n < r.stop then
    (some (r.start + n), { r with start := r.start + n + 1 })
  else (none, { r with start := r.stop })
/-- `Range::nth_back`: `backward_checked(end, n)` fails when `end < n`. -/
def nthBack (r : Range) (n : Nat) : Option Nat × Range :=
  if n ≤ r.stop ∧ r.stop - n > r.start then
    (some (r.stop - n - 1), { r with stop := r.stop - n - 1 })
  else (none, { r with stop := r.start })
def sizeHint (r : Range) : Nat := if r.start < r.stop then r.stop - r.start else 0
end Range

/-- operations of a double-ended exact-size iterator -/
inductive IterOp
  | next | nextBack | nth (n : Nat) | nthBack (n : Nat) | sizeHint
  /-- `it.clone().last()` and `it.clone().count()`: the consuming adaptors, observed on a copy -/
  | last | count
  deriving DecidableEq, Repr

/-- one step of a `Range<u8>`-backed iterator: output (`none` or the yielded index / the hint) and new state -/
def Range.step (r : Range) : IterOp → Option Nat × Range
  | .next => r.next
  | .nextBack => r.nextBack
  | .nth n => r.nth n
  | .nthBack n => r.nthBack n
  | .sizeHint => (some r.sizeHint, r)
  | .last => (if r.start < r.stop then some (r.stop - 1) else none, r)
  | .count => (some r.sizeHint, r)

/-- the reference: a slice iterator, i.e. a list consumed from both ends -/
def listStep (l : List Nat) : IterOp → Option Nat × List Nat
  | .next => (l.head?, l.tail)
  | .nextBack => (l.getLast?, l.dropLast)
  | .nth n => ((l.drop n).head?, l.drop (n + 1))
  | .nthBack n => ((l.take (l.length - n)).getLast?, l.take (l.length - n - 1))
  | .sizeHint => (some l.length, l)
  | .last => (l.getLast?, l)
  | .count => (some l.length, l)

def Range.run (r : Range) : List IterOp → List (Option Nat)
  | [] => []
  | op :: ops => let (o, r') := r.step op; o :: Range.run r' ops

def listRun (l : List Nat) : List IterOp → List (Option Nat)
  | [] => []
  | op :: ops => let (o, l') := listStep l op; o :: listRun l' ops

end Text
end Chess
