/-
Model of `tracing-enabled/src/lib.rs`: one global `AtomicBool` (initially `true`) and one
thread-local `Cell<LocalFlag>` per thread (initially `Global`).  Each public function performs
at most one access to the atomic, so an interleaving at operation granularity is a list of
`(thread, op)` pairs.
-/
namespace Chess.Tracing

inductive LocalFlag | global | enabled | disabled
  deriving DecidableEq, Repr, Inhabited

/-- the nine public operations; `restore` carries the `LocalEnableState` being restored -/
inductive Op
  | enable | disable | toggle
  | localEnable | localDisable | localToggle
  | localTake
  | restore (saved : LocalFlag)
  | isEnabled
  deriving DecidableEq, Repr

structure State where
  global : Bool
  loc : Nat → LocalFlag

def init : State := { global := true, loc := fun _ => .global }

def setLoc (s : State) (t : Nat) (f : LocalFlag) : State :=
  { s with loc := fun t' => if t' = t then f else s.loc t' }

def toggleFlag : LocalFlag → LocalFlag
  | .global => .global
  | .enabled => .disabled
  | .disabled => .enabled

/-- `is_enabled()` evaluated on thread `t`. -/
def view (s : State) (t : Nat) : Bool :=
  match s.loc t with
  | .global => s.global
  | .enabled => true
  | .disabled => false

/-- result of an operation: nothing, the saved flag (`local_take`), or a Boolean (`is_enabled`) -/
inductive Out | unit | saved (f : LocalFlag) | bool (b : Bool)
  deriving DecidableEq, Repr

/-- one operation executed by thread `t` -/
def step (s : State) (t : Nat) : Op → State × Out
  | .enable => ({ setLoc s t .enabled with global := true }, .unit)
  | .disable => ({ setLoc s t .disabled with global := false }, .unit)
  | .toggle => ({ setLoc s t (toggleFlag (s.loc t)) with global := !s.global }, .unit)
  | .localEnable => (setLoc s t .enabled, .unit)
  | .localDisable => (setLoc s t .disabled, .unit)
  | .localToggle => (setLoc s t (toggleFlag (s.loc t)), .unit)
  | .localTake => (setLoc s t .global, .saved (s.loc t))
  | .restore f => (setLoc s t f, .unit)
  | .isEnabled => (s, .bool (view s t))

def run (s : State) : List (Nat × Op) → State
  | [] => s
  | (t, op) :: rest => run (step s t op).1 rest

end Chess.Tracing
