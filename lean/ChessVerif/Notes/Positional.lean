/-
Observation outside the listed properties (no check depends on this file): with `positional = true` the evaluation is not
colour-symmetric.  C13 is stated for the shipped configuration (positional evaluation off), and this shows the restriction
is necessary.
-/
import ChessVerif.Props.C13

namespace Chess.Notes
open Chess Chess.Engine Chess.Spec

/-! The property C13 is stated for the shipped configuration (positional evaluation off).  With the flag on, the evaluation is NOT
colour-symmetric — `score_pieces` intersects Black's men with the rank-flipped rooks / bishops / pawns of BOTH colours
(`my_pieces & board[Piece::Rook].flip_ranks()`: the method call binds tighter than `&`) instead of flipping Black's own —
so the restriction in the property's quantifier is necessary, and the model (which follows the code) shows it: -/

/-- after 1. e4 the positional engine scores the position +25 and its colour mirror +5 instead of −25 -/
theorem eval_positional_not_symmetric :
    ∃ b : Board, b.WF = true ∧ eval true b.mirror ≠ negScore (eval true b) :=
  ⟨Board.standard.moveUnchecked ⟨12, 28, none⟩, by decide +kernel, by decide +kernel⟩

end Chess.Notes
