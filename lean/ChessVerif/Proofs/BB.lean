/- Helper lemmas for C18 (bitboards as sets).  Core Lean first; single Mathlib modules only if needed. -/
import ChessVerif.Model.Basic
import ChessVerif.Spec.Sets

namespace Chess.Sq
theorem down_eq (t : Sq) :
    t.down = if h : 8 ≤ t.val then some ⟨t.val - 8, by omega⟩ else none := by
  obtain ⟨n, hn⟩ := t
  simp only [down, dec8, rank, file]
  by_cases h : 8 ≤ n
  · have : ¬ n / 8 = 0 := by omega
    simp [h, this, mk]; omega
  · have : n / 8 = 0 := by omega
    simp [h, this]

theorem up_eq (t : Sq) :
    t.up = if h : t.val < 56 then some ⟨t.val + 8, by omega⟩ else none := by
  obtain ⟨n, hn⟩ := t
  simp only [up, inc8, rank, file]
  by_cases h : n < 56
  · have : ¬ n / 8 = 7 := by omega
    simp [h, this, mk]; omega
  · have : n / 8 = 7 := by omega
    simp [h, this]

theorem left_eq (t : Sq) :
    t.left = if _h : t.val % 8 ≠ 0 then some ⟨t.val - 1, by omega⟩ else none := by
  obtain ⟨n, hn⟩ := t
  simp only [left, dec8, mk, rank, file]
  by_cases h0 : n % 8 = 0
  · simp [h0]
  · simp [h0]; omega

theorem right_eq (t : Sq) :
    t.right = if _h : t.val % 8 ≠ 7 then some ⟨t.val + 1, by omega⟩ else none := by
  obtain ⟨n, hn⟩ := t
  simp only [right, inc8, mk, rank, file]
  by_cases h0 : n % 8 = 7
  · simp [h0]
  · simp [h0]; omega
end Chess.Sq

namespace Chess.BB
open Chess.Spec

/-! ### extensionality -/

theorem ext_mem {a b : BB} (h : ∀ s : Sq, mem a s = mem b s) : a = b := by
  apply BitVec.eq_of_getLsbD_eq
  intro i hi
  exact h ⟨i, hi⟩

theorem mem_def (b : BB) (s : Sq) : mem b s = b.getLsbD s.val := rfl

/-! ### constants -/

theorem getLsbD_fileA (j : Nat) :
    (0x0101010101010101#64).getLsbD j = decide (j < 64 ∧ j % 8 = 0) := by
  by_cases h : j < 64
  · have : ∀ k : Fin 64, (0x0101010101010101#64).getLsbD k.val = decide (k.val < 64 ∧ k.val % 8 = 0) := by
      decide
    exact this ⟨j, h⟩
  · rw [BitVec.getLsbD_of_ge _ _ (by omega)]
    simp [h]

theorem getLsbD_rank1 (j : Nat) :
    (0xff#64).getLsbD j = decide (j < 8) := by
  by_cases h : j < 64
  · have : ∀ k : Fin 64, (0xff#64).getLsbD k.val = decide (k.val < 8) := by
      decide
    exact this ⟨j, h⟩
  · rw [BitVec.getLsbD_of_ge _ _ (by omega)]
    simp; omega

@[simp] theorem mem_empty (t : Sq) : mem empty t = false := by
  simp [mem, empty]

@[simp] theorem mem_full (t : Sq) : mem full t = true := by
  simp only [mem, full, BitVec.getLsbD_allOnes]
  simp

@[simp] theorem mem_ofSq (s t : Sq) : mem (ofSq s) t = (t == s) := by
  simp only [mem, ofSq, BitVec.getLsbD_shiftLeft, BitVec.getLsbD_one]
  have := t.isLt
  rw [Bool.eq_iff_iff]
  simp [Fin.ext_iff]
  omega

@[simp] theorem mem_ofFile (f : File) (t : Sq) : mem (ofFile f) t = (t.file == f) := by
  simp only [mem, ofFile, BitVec.getLsbD_shiftLeft, getLsbD_fileA]
  have := t.isLt
  have := f.isLt
  rw [Bool.eq_iff_iff]
  simp [Fin.ext_iff, Sq.file]
  omega

@[simp] theorem mem_ofRank (r : Rank) (t : Sq) : mem (ofRank r) t = (t.rank == r) := by
  simp only [mem, ofRank, BitVec.getLsbD_shiftLeft, getLsbD_rank1]
  have := t.isLt
  have := r.isLt
  rw [Bool.eq_iff_iff]
  simp [Fin.ext_iff, Sq.rank]
  omega

/-! ### Boolean operations -/

@[simp] theorem mem_or (a b : BB) (t : Sq) : mem (BB.or a b) t = (mem a t || mem b t) := by
  simp [mem, BB.or]
@[simp] theorem mem_and (a b : BB) (t : Sq) : mem (BB.and a b) t = (mem a t && mem b t) := by
  simp [mem, BB.and]
@[simp] theorem mem_xor (a b : BB) (t : Sq) : mem (BB.xor a b) t = (mem a t != mem b t) := by
  simp [mem, BB.xor]
@[simp] theorem mem_not (a : BB) (t : Sq) : mem (BB.not a) t = !mem a t := by
  simp [mem, BB.not]
@[simp] theorem mem_diff (a b : BB) (t : Sq) : mem (diff a b) t = (mem a t && !mem b t) := by
  simp [mem, diff]

@[simp] theorem mem_or' (a b : BB) (t : Sq) : mem (a ||| b) t = (mem a t || mem b t) := mem_or a b t
@[simp] theorem mem_and' (a b : BB) (t : Sq) : mem (a &&& b) t = (mem a t && mem b t) := mem_and a b t
@[simp] theorem mem_xor' (a b : BB) (t : Sq) : mem (a ^^^ b) t = (mem a t != mem b t) := mem_xor a b t
@[simp] theorem mem_not' (a : BB) (t : Sq) : mem (~~~a) t = !mem a t := mem_not a t
@[simp] theorem mem_zero (t : Sq) : mem (0#64) t = false := mem_empty t

@[simp] theorem mem_set (b : BB) (s t : Sq) : mem (set b s) t = (mem b t || t == s) := by
  simp [set]
@[simp] theorem mem_clear (b : BB) (s t : Sq) : mem (clear b s) t = (mem b t && t != s) := by
  simp [clear, bne]

/-! ### emptiness tests -/

theorem eq_zero_iff (b : BB) : b = 0#64 ↔ ∀ s, mem b s = false := by
  constructor
  · intro h s; subst h; simp
  · intro h; apply ext_mem; intro s; simp [h]

theorem none_iff (b : BB) : BB.none b = true ↔ ∀ s, mem b s = false := by
  simp [BB.none, eq_zero_iff]

theorem any_iff (b : BB) : any b = true ↔ ∃ s, mem b s = true := by
  simp [any, eq_zero_iff]

theorem isFull_iff (b : BB) : isFull b = true ↔ ∀ s, mem b s = true := by
  simp [isFull, none_iff]

theorem notFull_iff (b : BB) : notFull b = true ↔ ∃ s, mem b s = false := by
  simp [notFull, any_iff]

theorem contains_eq_mem (b : BB) (s : Sq) : contains b s = mem b s := by
  rw [Bool.eq_iff_iff, contains, any_iff]
  constructor
  · rintro ⟨t, ht⟩
    simp at ht
    obtain ⟨h1, h2⟩ := ht
    subst h2; exact h1
  · intro h; exact ⟨s, by simp [h]⟩

/-! ### shifts -/

theorem mem_shl (b : BB) (n : Nat) (t : Sq) :
    mem (b <<< n) t = if h : n ≤ t.val then mem b ⟨t.val - n, by omega⟩ else false := by
  have := t.isLt
  simp only [mem, BitVec.getLsbD_shiftLeft]
  split <;> simp <;> omega

theorem mem_shr (b : BB) (n : Nat) (t : Sq) :
    mem (b >>> n) t = if h : t.val + n < 64 then mem b ⟨t.val + n, h⟩ else false := by
  simp only [mem, BitVec.getLsbD_ushiftRight]
  split
  · rw [Nat.add_comm]
  · rw [BitVec.getLsbD_of_ge _ _ (by omega)]

theorem mem_shiftUp (b : BB) (t : Sq) : mem (shiftUp b) t = SqSet.up (setOf b) t := by
  have := t.isLt
  simp only [shiftUp, mem_shl, mem_diff, mem_ofRank, SqSet.up, Sq.down_eq, setOf]
  split <;> simp [mem, Sq.rank, Fin.ext_iff]
  omega

theorem mem_shiftDown (b : BB) (t : Sq) : mem (shiftDown b) t = SqSet.down (setOf b) t := by
  obtain ⟨n, hn⟩ := t
  simp only [shiftDown, mem_shr, mem_diff, mem_ofRank, SqSet.down, Sq.up_eq, setOf]
  by_cases h : n < 56
  · have h2 : n + 8 < 64 := by omega
    simp [h, h2, mem, Sq.rank, Fin.ext_iff]
  · have h2 : ¬ n + 8 < 64 := by omega
    simp [h, h2]

theorem mem_shiftLeft (b : BB) (t : Sq) : mem (shiftLeft b) t = SqSet.left (setOf b) t := by
  obtain ⟨n, hn⟩ := t
  simp only [shiftLeft, mem_shr, mem_diff, mem_ofFile, SqSet.left, Sq.right_eq, setOf]
  by_cases h : n % 8 = 7
  · by_cases h2 : n + 1 < 64
    · have : (n + 1) % 8 = 0 := by omega
      simp [h, h2, mem, Sq.file, this]
    · simp [h, h2]
  · have h2 : n + 1 < 64 := by omega
    have : ¬ (n + 1) % 8 = 0 := by omega
    simp [h, h2, mem, Sq.file, Fin.ext_iff, this]

theorem mem_shiftRight (b : BB) (t : Sq) : mem (shiftRight b) t = SqSet.right (setOf b) t := by
  obtain ⟨n, hn⟩ := t
  simp only [shiftRight, mem_shl, mem_diff, mem_ofFile, SqSet.right, Sq.left_eq, setOf]
  by_cases h : n % 8 = 0
  · by_cases h2 : 1 ≤ n
    · have : (n - 1) % 8 = 7 := by omega
      simp [h, h2, mem, Sq.file, this]
    · simp [h, h2]
  · have h2 : 1 ≤ n := by omega
    have : ¬ (n - 1) % 8 = 7 := by omega
    have h7 : ((7 : Fin 8) : Nat) = 7 := rfl
    simp [h, h2, mem, Sq.file, Fin.ext_iff, this, h7]

/-! ### byte swap -/

theorem getLsbD_byte (c : BB) (k : Nat) 
    (h : ∀ j : Fin 64, c.getLsbD j.val = decide (j.val / 8 = k)) (hk : k < 8) (j : Nat) :
    c.getLsbD j = decide (j / 8 = k) := by
  by_cases hj : j < 64
  · exact h ⟨j, hj⟩
  · rw [BitVec.getLsbD_of_ge _ _ (by omega)]
    simp; omega

theorem getLsbD_byte0 (j : Nat) : (0xff#64).getLsbD j = decide (j / 8 = 0) :=
  getLsbD_byte _ 0 (by decide) (by omega) j
theorem getLsbD_byte1 (j : Nat) : (0xff00#64).getLsbD j = decide (j / 8 = 1) :=
  getLsbD_byte _ 1 (by decide) (by omega) j
theorem getLsbD_byte2 (j : Nat) : (0xff0000#64).getLsbD j = decide (j / 8 = 2) :=
  getLsbD_byte _ 2 (by decide) (by omega) j
theorem getLsbD_byte3 (j : Nat) : (0xff000000#64).getLsbD j = decide (j / 8 = 3) :=
  getLsbD_byte _ 3 (by decide) (by omega) j

theorem lane_shl (b c : BB) (k d : Nat) (hc : ∀ j, c.getLsbD j = decide (j / 8 = k))
    (hd : d = 56 - 16 * k) (hk : k < 4) (n : Nat) (hn : n < 64) :
    ((b &&& c) <<< d).getLsbD n = (decide (n / 8 = 7 - k) && b.getLsbD ((7 - n / 8) * 8 + n % 8)) := by
  simp only [BitVec.getLsbD_shiftLeft, BitVec.getLsbD_and, hc]
  by_cases h : n / 8 = 7 - k
  · have e : n - d = (7 - n / 8) * 8 + n % 8 := by omega
    have h1 : ¬ n < d := by omega
    have h2 : ((7 - n / 8) * 8 + n % 8) / 8 = k := by omega
    rw [e, h2]
    simp [hn, h1, h]
  · have : n < d ∨ ¬ (n - d) / 8 = k := by omega
    rcases this with h1 | h1 <;> simp [h, h1]

theorem lane_shr (b c : BB) (k d : Nat) (hc : ∀ j, c.getLsbD j = decide (j / 8 = k))
    (hd : d = 56 - 16 * k) (hk : k < 4) (n : Nat) (_hn : n < 64) :
    ((b >>> d) &&& c).getLsbD n = (decide (n / 8 = k) && b.getLsbD ((7 - n / 8) * 8 + n % 8)) := by
  simp only [BitVec.getLsbD_ushiftRight, BitVec.getLsbD_and, hc]
  by_cases h : n / 8 = k
  · have e : d + n = (7 - n / 8) * 8 + n % 8 := by omega
    simp [e, h, Bool.and_comm]
  · simp [h]

theorem mem_flipRanks (b : BB) (t : Sq) : mem (flipRanks b) t = mem b t.flipRank := by
  obtain ⟨n, hn⟩ := t
  simp only [mem, flipRanks, swapBytes, BitVec.getLsbD_or,
    lane_shl b _ 0 56 getLsbD_byte0 rfl (by omega) n hn,
    lane_shl b _ 1 40 getLsbD_byte1 rfl (by omega) n hn,
    lane_shl b _ 2 24 getLsbD_byte2 rfl (by omega) n hn,
    lane_shl b _ 3 8 getLsbD_byte3 rfl (by omega) n hn,
    lane_shr b _ 3 8 getLsbD_byte3 rfl (by omega) n hn,
    lane_shr b _ 2 24 getLsbD_byte2 rfl (by omega) n hn,
    lane_shr b _ 1 40 getLsbD_byte1 rfl (by omega) n hn,
    lane_shr b _ 0 56 getLsbD_byte0 rfl (by omega) n hn,
    Sq.flipRank, Sq.mk, Sq.file, Sq.rank, Sq.flipRankR]
  have hk : n / 8 = 0 ∨ n / 8 = 1 ∨ n / 8 = 2 ∨ n / 8 = 3 ∨ n / 8 = 4 ∨ n / 8 = 5 ∨ n / 8 = 6 ∨ n / 8 = 7 := by
    omega
  rcases hk with h | h | h | h | h | h | h | h <;> simp [h]
/-! ### count, toList -/

theorem map_val_finRange (n : Nat) : (List.finRange n).map Fin.val = List.range n := by
  apply List.ext_getElem <;> simp

theorem popcountAux_eq (b : BB) (n : Nat) :
    popcountAux b n = ((List.range n).filter b.getLsbD).length := by
  induction n with
  | zero => simp [popcountAux]
  | succ n ih =>
    simp only [popcountAux, ih, List.range_succ, List.filter_append, List.length_append]
    by_cases h : b.getLsbD n <;> simp [h]

theorem toList_map_val (b : BB) : (toList b).map Fin.val = (List.range 64).filter b.getLsbD := by
  rw [← map_val_finRange, List.filter_map]
  rfl

theorem count_eq_length_toList (b : BB) : count b = (toList b).length := by
  rw [count, popcountAux_eq, ← toList_map_val, List.length_map]

theorem count_eq_card (b : BB) : count b = SqSet.card (setOf b) :=
  count_eq_length_toList b

theorem pairwise_finRange (n : Nat) : (List.finRange n).Pairwise (fun s t => s.val < t.val) := by
  have := @List.pairwise_lt_range n
  rw [← map_val_finRange, List.pairwise_map] at this
  exact this

theorem toList_ascending (b : BB) : (toList b).Pairwise (fun s t => s.val < t.val) :=
  (pairwise_finRange 64).filter _

theorem mem_toList (b : BB) (s : Sq) : s ∈ toList b ↔ mem b s = true := by
  simp [toList, List.mem_filter, List.mem_finRange]

theorem length_toList_le (b : BB) : (toList b).length ≤ 64 := by
  have := List.length_filter_le (mem b) (List.finRange 64)
  simpa [toList] using this

theorem eq_of_ascending {l1 l2 : List Sq}
    (h1 : l1.Pairwise (fun s t => s.val < t.val)) (h2 : l2.Pairwise (fun s t => s.val < t.val))
    (h : ∀ x, x ∈ l1 ↔ x ∈ l2) : l1 = l2 := by
  induction l1 generalizing l2 with
  | nil =>
    cases l2 with
    | nil => rfl
    | cons b l2 => exact absurd ((h b).2 (by simp)) (by simp)
  | cons a l1 ih =>
    cases l2 with
    | nil => exact absurd ((h a).1 (by simp)) (by simp)
    | cons b l2 =>
      rw [List.pairwise_cons] at h1 h2
      have hab : a = b := by
        have ha := (h a).1 (by simp)
        have hb := (h b).2 (by simp)
        rw [List.mem_cons] at ha hb
        rcases ha with ha | ha
        · exact ha
        · rcases hb with hb | hb
          · exact hb.symm
          · have := h1.1 b hb
            have := h2.1 a ha
            omega
      subst hab
      congr 1
      apply ih h1.2 h2.2
      intro x
      constructor
      · intro hx
        have := (h x).1 (List.mem_cons_of_mem _ hx)
        rw [List.mem_cons] at this
        rcases this with e | e
        · subst e; have := h1.1 x hx; omega
        · exact e
      · intro hx
        have := (h x).2 (List.mem_cons_of_mem _ hx)
        rw [List.mem_cons] at this
        rcases this with e | e
        · subst e; have := h2.1 x hx; omega
        · exact e

/-! ### tz, pop -/

theorem tzAux_spec (b : BB) (fuel i : Nat) :
    i ≤ tzAux b fuel i ∧ tzAux b fuel i ≤ i + fuel ∧
    (∀ j, i ≤ j → j < tzAux b fuel i → b.getLsbD j = false) ∧
    (tzAux b fuel i < i + fuel → b.getLsbD (tzAux b fuel i) = true) := by
  induction fuel generalizing i with
  | zero => simp [tzAux]; intro j h1 h2; omega
  | succ fuel ih =>
    simp only [tzAux]
    by_cases h : b.getLsbD i
    · rw [if_pos h]
      refine ⟨Nat.le_refl _, by omega, ?_, fun _ => h⟩
      intro j h1 h2; omega
    · rw [if_neg h]
      obtain ⟨a1, a2, a3, a4⟩ := ih (i + 1)
      refine ⟨by omega, by omega, ?_, ?_⟩
      · intro j h1 h2
        by_cases e : j = i
        · subst e; simpa using h
        · exact a3 j (by omega) h2
      · intro h'; exact a4 (by omega)

theorem tz_le (b : BB) : tz b ≤ 64 := by
  have := (tzAux_spec b 64 0).2.1; simpa [tz] using this

theorem tz_below (b : BB) (j : Nat) (h : j < tz b) : b.getLsbD j = false :=
  (tzAux_spec b 64 0).2.2.1 j (Nat.zero_le _) h

theorem tz_set (b : BB) (h : tz b < 64) : b.getLsbD (tz b) = true :=
  (tzAux_spec b 64 0).2.2.2 (by simpa [tz] using h)

theorem tz_lt_of_ne_zero (b : BB) (h : b ≠ 0#64) : tz b < 64 := by
  have := tz_le b
  by_cases e : tz b = 64
  · exfalso; apply h
    rw [eq_zero_iff]
    intro s
    exact tz_below b s.val (by have := s.isLt; omega)
  · omega

theorem tz_zero : tz (0#64) = 64 := by
  have := tz_le (0#64)
  by_cases e : tz (0#64) < 64
  · have := tz_set _ e; simp at this
  · omega

theorem tz_ofSq (s : Sq) : tz (ofSq s) = s.val := by
  have hne : ofSq s ≠ 0#64 := by
    intro h; have := (eq_zero_iff _).1 h s; simp at this
  have hlt := tz_lt_of_ne_zero _ hne
  have h1 : mem (ofSq s) ⟨tz (ofSq s), hlt⟩ = true := tz_set _ hlt
  rw [mem_ofSq] at h1
  exact congrArg Fin.val (eq_of_beq h1)

theorem pop_zero : pop (0#64) = Option.none := by simp [pop]

theorem pop_of_ne_zero (b : BB) (h : b ≠ 0#64) :
    pop b = some (⟨tz b, tz_lt_of_ne_zero b h⟩, b ^^^ ofSq ⟨tz b, tz_lt_of_ne_zero b h⟩) := by
  have hlt := tz_lt_of_ne_zero b h
  simp [pop, h, Sq.ofNat?, hlt]

theorem pop_none_iff (b : BB) : pop b = Option.none ↔ ∀ s, mem b s = false := by
  rw [← eq_zero_iff]
  constructor
  · intro h
    by_cases e : b = 0#64
    · exact e
    · rw [pop_of_ne_zero b e] at h; cases h
  · intro h; subst h; exact pop_zero

theorem pop_some (b b' : BB) (s : Sq) (h : pop b = some (s, b')) :
    mem b s = true ∧ (∀ t, mem b t = true → s.val ≤ t.val) ∧
      (∀ t, mem b' t = (mem b t && t != s)) := by
  have hne : b ≠ 0#64 := by
    intro e; subst e; rw [pop_zero] at h; cases h
  rw [pop_of_ne_zero b hne] at h
  simp only [Option.some.injEq, Prod.mk.injEq] at h
  obtain ⟨hs, hb'⟩ := h
  have hlt := tz_lt_of_ne_zero b hne
  have hmem : mem b s = true := by
    rw [← hs]; exact tz_set b hlt
  refine ⟨hmem, ?_, ?_⟩
  · intro t ht
    rw [← hs]
    show tz b ≤ t.val
    apply Nat.le_of_not_lt
    intro hlt'
    have := tz_below b t.val hlt'
    rw [mem_def] at ht
    rw [this] at ht; cases ht
  · intro t
    rw [← hb', hs, mem_xor', mem_ofSq]
    by_cases e : t = s
    · rw [e, hmem]; simp
    · have e' : (t == s) = false := by simp [e]
      simp [e', bne]

/-! ### iteration, nth (portable), collection -/

theorem toList_of_pop_none (b : BB) (h : pop b = Option.none) : toList b = [] := by
  rw [pop_none_iff] at h
  simp [toList, List.filter_eq_nil_iff, h]

theorem toList_of_pop_some (b b' : BB) (s : Sq) (h : pop b = some (s, b')) :
    toList b = s :: toList b' := by
  obtain ⟨h1, h2, h3⟩ := pop_some b b' s h
  apply eq_of_ascending (toList_ascending b)
  · rw [List.pairwise_cons]
    refine ⟨?_, toList_ascending b'⟩
    intro t ht
    rw [mem_toList, h3] at ht
    simp only [Bool.and_eq_true, bne_iff_ne, ne_eq] at ht
    have := h2 t ht.1
    have : t.val ≠ s.val := fun e => ht.2 (Fin.ext e)
    omega
  · intro x
    rw [List.mem_cons, mem_toList, mem_toList, h3]
    by_cases e : x = s
    · subst e; simp [h1]
    · simp [e]

theorem popLoop_eq_toList (fuel : Nat) (b : BB) (h : (toList b).length ≤ fuel) :
    popLoop fuel b = toList b := by
  induction fuel generalizing b with
  | zero =>
    have : toList b = [] := List.eq_nil_of_length_eq_zero (by omega)
    simp [popLoop, this]
  | succ fuel ih =>
    simp only [popLoop]
    cases hp : pop b with
    | none => simp [toList_of_pop_none b hp]
    | some p =>
      obtain ⟨s, b'⟩ := p
      have e := toList_of_pop_some b b' s hp
      rw [e] at h
      simp only [List.length_cons] at h
      simp only [e, ih b' (by omega)]

theorem iterList_eq_toList (b : BB) : iterList b = toList b :=
  popLoop_eq_toList 64 b (length_toList_le b)

theorem sizeHint_exact (b : BB) : sizeHint b = (iterList b).length := by
  rw [iterList_eq_toList, sizeHint, count_eq_length_toList]

theorem mem_eq_contains_toList (b : BB) (t : Sq) : mem b t = (toList b).contains t := by
  rw [Bool.eq_iff_iff, List.contains_iff_mem, mem_toList]

theorem nthPortable_spec (n : Nat) (b : BB) :
    (nthPortable n b).1 = (toList b)[n]? ∧
    (∀ t, mem (nthPortable n b).2 t = ((toList b).drop (n + 1)).contains t) := by
  induction n generalizing b with
  | zero =>
    simp only [nthPortable]
    cases hp : pop b with
    | none =>
      have e := toList_of_pop_none b hp
      have := (pop_none_iff b).1 hp
      simp [e, this]
    | some p =>
      obtain ⟨s, b'⟩ := p
      have e := toList_of_pop_some b b' s hp
      simp [e, mem_eq_contains_toList b']
  | succ n ih =>
    simp only [nthPortable]
    cases hp : pop b with
    | none =>
      have e := toList_of_pop_none b hp
      have := (pop_none_iff b).1 hp
      simp [e, this]
    | some p =>
      obtain ⟨s, b'⟩ := p
      have e := toList_of_pop_some b b' s hp
      obtain ⟨i1, i2⟩ := ih b'
      simp only [e, List.getElem?_cons_succ, List.drop_succ_cons]
      exact ⟨i1, i2⟩

theorem mem_foldl_set (l : List Sq) (a : BB) (t : Sq) :
    mem (l.foldl set a) t = (mem a t || l.contains t) := by
  induction l generalizing a with
  | nil => simp
  | cons x l ih =>
    simp only [List.foldl_cons, ih, mem_set, List.contains_cons, Bool.or_assoc]

theorem mem_ofList (l : List Sq) (t : Sq) : mem (ofList l) t = l.contains t := by
  simp [ofList, mem_foldl_set]

theorem mem_foldl_or (l : List BB) (a : BB) (t : Sq) :
    mem (l.foldl BB.or a) t = (mem a t || l.any (fun b => mem b t)) := by
  induction l generalizing a with
  | nil => simp
  | cons x l ih =>
    simp only [List.foldl_cons, ih, mem_or, List.any_cons, Bool.or_assoc]

theorem mem_unionList (l : List BB) (t : Sq) :
    mem (unionList l) t = l.any (fun b => mem b t) := by
  simp [unionList, mem_foldl_or]

/-! ### pdep, nth (BMI2) -/

theorem getLsbD_one_shl (n k : Nat) (hn : n < 64) :
    (1#64 <<< n).getLsbD k = decide (k = n) := by
  simp only [BitVec.getLsbD_shiftLeft, BitVec.getLsbD_one]
  rw [Bool.eq_iff_iff]
  simp
  omega

theorem pdepAux_zero_of_gt (mask : BB) (n : Nat) (hn : n < 64) (fuel i k : Nat) (hk : n < k) :
    pdepAux (1#64 <<< n) mask fuel i k = 0#64 := by
  induction fuel generalizing i k with
  | zero => rfl
  | succ fuel ih =>
    simp only [pdepAux, getLsbD_one_shl n _ hn]
    have : ¬ k = n := by omega
    split
    · simp [this, ih (i + 1) (k + 1) (by omega)]
    · exact ih (i + 1) k hk

theorem pdepAux_spec (mask : BB) (n : Nat) (hn : n < 64) (fuel i k : Nat) (hk : k ≤ n) :
    pdepAux (1#64 <<< n) mask fuel i k =
      match ((List.range' i fuel).filter mask.getLsbD)[n - k]? with
      | some p => 1#64 <<< p
      | Option.none => 0#64 := by
  induction fuel generalizing i k with
  | zero => simp [pdepAux]
  | succ fuel ih =>
    simp only [pdepAux, getLsbD_one_shl n _ hn, List.range'_succ]
    by_cases hm : mask.getLsbD i = true
    · rw [if_pos hm, List.filter_cons_of_pos hm]
      by_cases e : k = n
      · subst e
        simp [pdepAux_zero_of_gt mask k hn fuel (i + 1) (k + 1) (by omega)]
      · have : n - k = (n - (k + 1)) + 1 := by omega
        rw [this, List.getElem?_cons_succ, ← ih (i + 1) (k + 1) (by omega)]
        simp [e]
    · rw [if_neg hm, List.filter_cons_of_neg hm]
      exact ih (i + 1) k hk

theorem pdep_spec (b : BB) (n : Nat) (hn : n < 64) :
    pdep (1#64 <<< n) b =
      match (toList b)[n]? with
      | some s => ofSq s
      | Option.none => 0#64 := by
  have := pdepAux_spec b n hn 64 0 0 (Nat.zero_le _)
  rw [pdep, this, ← List.range_eq_range', ← toList_map_val, Nat.sub_zero, List.getElem?_map]
  cases (toList b)[n]? <;> rfl

theorem getLsbD_lowMask (k j : Nat) (hk : k ≤ 64) :
    (BitVec.ofNat 64 (2 ^ k - 1)).getLsbD j = decide (j < k) := by
  rw [BitVec.getLsbD_ofNat, Nat.testBit_two_pow_sub_one]
  rw [Bool.eq_iff_iff]; simp; omega

theorem mem_drop_succ_of_ascending (l : List Sq) (n : Nat) (s t : Sq)
    (hl : l.Pairwise (fun s t => s.val < t.val)) (hs : l[n]? = some s) :
    t ∈ l.drop (n + 1) ↔ t ∈ l ∧ s.val < t.val := by
  induction l generalizing n with
  | nil => simp at hs
  | cons a l ih =>
    rw [List.pairwise_cons] at hl
    cases n with
    | zero =>
      simp only [List.getElem?_cons_zero, Option.some.injEq] at hs
      subst hs
      simp only [Nat.zero_add, List.drop_succ_cons, List.drop_zero, List.mem_cons]
      constructor
      · intro h; exact ⟨Or.inr h, hl.1 t h⟩
      · rintro ⟨h | h, h'⟩
        · subst h; omega
        · exact h
    | succ n =>
      simp only [List.getElem?_cons_succ] at hs
      simp only [List.drop_succ_cons, List.mem_cons]
      rw [ih n hl.2 hs]
      constructor
      · rintro ⟨h, h'⟩; exact ⟨Or.inr h, h'⟩
      · rintro ⟨h | h, h'⟩
        · subst h
          have := hl.1 s (List.mem_of_getElem? hs)
          omega
        · exact ⟨h, h'⟩

theorem nthBmi2_eq (n : Nat) (b : BB) :
    nthBmi2 n b = match (toList b)[n]? with
      | some s => (some s, diff b (BitVec.ofNat 64 (2 ^ (1 + s.val) - 1)))
      | Option.none => (Option.none, b) := by
  unfold nthBmi2
  by_cases hn : n ≥ 64
  · have : (toList b)[n]? = Option.none := by
      rw [List.getElem?_eq_none_iff]; have := length_toList_le b; omega
    simp [hn, this]
  · rw [if_neg hn]
    simp only
    rw [pdep_spec b n (by omega)]
    cases (toList b)[n]? with
    | none => simp [tz_zero, Sq.ofNat?]
    | some s => simp [tz_ofSq, Sq.ofNat?]

theorem nthBmi2_elem (n : Nat) (b : BB) : (nthBmi2 n b).1 = (toList b)[n]? := by
  rw [nthBmi2_eq]; cases (toList b)[n]? <;> rfl

theorem nthBmi2_rest (n : Nat) (b : BB) (s : Sq) (h : (nthBmi2 n b).1 = some s) :
    ∀ t, mem (nthBmi2 n b).2 t = ((toList b).drop (n + 1)).contains t := by
  intro t
  have hs : (toList b)[n]? = some s := by rw [← nthBmi2_elem]; exact h
  rw [nthBmi2_eq, hs]
  simp only [mem_diff]
  rw [Bool.eq_iff_iff, List.contains_iff_mem,
    mem_drop_succ_of_ascending _ n s t (toList_ascending b) hs, mem_toList, mem_def, mem_def,
    getLsbD_lowMask _ _ (by have := s.isLt; omega)]
  simp; omega

end Chess.BB
