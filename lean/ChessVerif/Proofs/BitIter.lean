/-
C18: any interleaving of `next`, `nth(k)` and `size_hint` on one bit iterator behaves like the same operations on
the ascending list of the squares it still holds — for every word, every operation sequence, both `nth` implementations.

(Statement fixed before the proof; helper lemmas by a sub-agent confined to this file.)
-/
import ChessVerif.Model.BitIter
import ChessVerif.Proofs.BB

namespace Chess.BB
open Chess

/-- a word whose members are exactly those of a suffix of `toList b` lists as that suffix -/
theorem toList_eq_drop (b r : BB) (n : Nat)
    (h : ∀ t, mem r t = ((toList b).drop n).contains t) : toList r = (toList b).drop n := by
  apply eq_of_ascending (toList_ascending r)
  · exact (toList_ascending b).sublist (List.drop_sublist n _)
  · intro x
    rw [mem_toList, h x, List.contains_iff_mem]

/-- both `nth` implementations: the element is `(toList b)[k]?`, and when there is one the iterator is left
holding the rest of the list -/
theorem nth_spec (bmi2 : Bool) (k : Nat) (b : BB) :
    (if bmi2 then nthBmi2 k b else nthPortable k b).1 = (toList b)[k]? ∧
    (∀ s, (if bmi2 then nthBmi2 k b else nthPortable k b).1 = some s →
      toList (if bmi2 then nthBmi2 k b else nthPortable k b).2 = (toList b).drop (k + 1)) := by
  cases bmi2 with
  | true =>
    simp only [if_true]
    refine ⟨nthBmi2_elem k b, ?_⟩
    intro s hs
    exact toList_eq_drop b _ (k + 1) (nthBmi2_rest k b s hs)
  | false =>
    simp only [Bool.false_eq_true, if_false]
    refine ⟨(nthPortable_spec k b).1, ?_⟩
    intro s _
    exact toList_eq_drop b _ (k + 1) (nthPortable_spec k b).2

theorem drop_of_getElem?_some {α : Type} (l : List α) (k : Nat) (s : α) (h : l[k]? = some s) :
    l.drop k = s :: l.drop (k + 1) := by
  induction l generalizing k with
  | nil => simp at h
  | cons a l ih =>
    cases k with
    | zero => simp at h; simp [h]
    | succ k =>
      simp only [List.getElem?_cons_succ] at h
      simpa using ih k h

theorem drop_of_getElem?_none {α : Type} (l : List α) (k : Nat) (h : l[k]? = Option.none) :
    l.drop k = [] := by
  rw [List.getElem?_eq_none_iff] at h
  exact List.drop_eq_nil_of_le h

theorem runIter_refines (bmi2 : Bool) (ops : List IterOp) (b : BB) :
    runIter bmi2 ops b = runIterList ops (toList b) := by
  induction ops generalizing b with
  | nil => simp [runIter, runIterList]
  | cons op ops ih =>
    cases op with
    | next =>
      simp only [runIter, runIterList]
      cases hp : pop b with
      | none =>
        have e := toList_of_pop_none b hp
        simp only [e]
        rw [ih b, e]
      | some p =>
        obtain ⟨s, b'⟩ := p
        have e := toList_of_pop_some b b' s hp
        simp only [e]
        rw [ih b']
    | hint =>
      simp only [runIter, runIterList]
      rw [ih b, sizeHint_exact, iterList_eq_toList]
    | nth k =>
      simp only [runIter, runIterList]
      obtain ⟨h1, h2⟩ := nth_spec bmi2 k b
      generalize (if bmi2 then nthBmi2 k b else nthPortable k b) = r at h1 h2
      obtain ⟨o, rest⟩ := r
      simp only at h1 h2
      cases o with
      | none =>
        rw [drop_of_getElem?_none _ k h1.symm]
      | some s =>
        rw [drop_of_getElem?_some _ k s h1.symm]
        simp only
        rw [ih rest, h2 s rfl]

end Chess.BB
