/-
Round trip of the opening-book builder (`Model/BookGen.lean`): reading the table `encode` lays out, the way
`BookMovesIter::next` reads it, finds exactly the lines of the trie that `encode` keeps — except the subtree of the
first block written (the reader stops before yielding a block that starts at table index 0) — and never leaves the table.

(The two statements at the end were fixed before the proofs were written; the helper lemmas above them were found by a
sub-agent confined to this file.)
-/
import ChessVerif.Model.BookGen

namespace Chess.BookGen

/-- what a reader can reach: the root without its first child (in `encode`'s order) -/
def readable : Trie → Trie
  | .node c d cs => .node c d (cs.drop 1)

/-! ### tables that extend one another -/

/-- `b` extends `a`: at least as long, same words below `a.size` -/
def Ext (a b : Array Nat) : Prop :=
  a.size ≤ b.size ∧ ∀ i, i < a.size → b.getD i 0 = a.getD i 0

theorem Ext.refl (a : Array Nat) : Ext a a := ⟨Nat.le_refl _, fun _ _ => rfl⟩

theorem Ext.trans {a b c : Array Nat} (h1 : Ext a b) (h2 : Ext b c) : Ext a c :=
  ⟨Nat.le_trans h1.1 h2.1, fun i hi => by
    rw [h2.2 i (Nat.lt_of_lt_of_le hi h1.1), h1.2 i hi]⟩

theorem getD_push_lt (a : Array Nat) (x i : Nat) (h : i < a.size) : (a.push x).getD i 0 = a.getD i 0 := by
  simp [Array.getD, Array.getElem_push, h, Nat.lt_succ_of_lt h]

theorem getD_push_eq (a : Array Nat) (x : Nat) : (a.push x).getD a.size 0 = x := by
  simp [Array.getD]

theorem Ext.push (a : Array Nat) (x : Nat) : Ext a (a.push x) :=
  ⟨by simp, fun i hi => getD_push_lt a x i hi⟩

/-! ### the reader's step -/

theorem step_ext {a b : Array Nat} (h : Ext a b) {i : Nat} (hi : i < a.size) : step b i = step a i := by
  have h0 : b.getD i 0 = a.getD i 0 := h.2 i hi
  have h1 : b.getD (i - 1) 0 = a.getD (i - 1) 0 := h.2 (i - 1) (by omega)
  have hb : ¬ i ≥ b.size := by have := h.1; omega
  have ha : ¬ i ≥ a.size := by omega
  unfold step
  rw [if_neg hb, if_neg ha, h0, h1]

theorem step_zero {a : Array Nat} {i : Nat} (hi : i < a.size) (h0 : a.getD i 0 = 0) : step a i = .done := by
  have ha : ¬ i ≥ a.size := by omega
  unfold step
  rw [if_neg ha]
  simp only [h0, if_true]

theorem step_first {a : Array Nat} {i off : Nat} (hi : i < a.size) (h0 : a.getD i 0 = off) (hoff : off ≠ 0)
    (h2 : 2 ≤ i) (hlt : i < off + 1) : step a i = .done := by
  have ha : ¬ i ≥ a.size := by omega
  have h2' : ¬ i < 2 := by omega
  unfold step
  rw [if_neg ha]
  simp only [h0, if_neg hoff, if_neg h2', if_pos hlt]

theorem step_block {a : Array Nat} {i off : Nat} (hi : i < a.size) (h0 : a.getD i 0 = off) (hoff : off ≠ 0)
    (h2 : 2 ≤ i) (hle : off + 1 ≤ i) :
    step a i = .yield (a.getD (i - 1) 0 % 4096) (i - 2) (i - (off + 1)) := by
  have ha : ¬ i ≥ a.size := by omega
  have h2' : ¬ i < 2 := by omega
  have hlt : ¬ i < off + 1 := by omega
  unfold step
  rw [if_neg ha]
  simp only [h0, if_neg hoff, if_neg h2', if_neg hlt]

theorem step_oob {a : Array Nat} {i : Nat} (hi : a.size ≤ i) : step a i = .oob := by
  unfold step
  rw [if_pos hi]

/-- a yielding step goes strictly down -/
theorem step_yield_lt {a : Array Nat} {i mv c n : Nat} (h : step a i = .yield mv c n) : c < i ∧ n < i := by
  unfold step at h
  split at h
  · cases h
  · simp only at h
    split at h
    · cases h
    · split at h
      · cases h
      · split at h
        · cases h
        · rename_i h1 h2 h3 h4
          injection h with _ hc hn
          omega

/-! ### fuel -/

theorem lines_fuel (tbl : Array Nat) : ∀ (f1 f2 i : Nat) (pre : List Nat) (acc : List (List Nat)),
    i < f1 → i < f2 → lines tbl f1 i pre acc = lines tbl f2 i pre acc := by
  intro f1
  induction f1 with
  | zero => intro f2 i pre acc h; omega
  | succ f1 ih =>
    intro f2 i pre acc h1 h2
    cases f2 with
    | zero => omega
    | succ f2 =>
      unfold lines
      cases hs : step tbl i with
      | done => rfl
      | oob => rfl
      | yield mv c n =>
        have := step_yield_lt hs
        simp only
        rw [ih f2 c _ _ (by omega) (by omega), ih f2 n _ _ (by omega) (by omega)]

theorem inRange_fuel (tbl : Array Nat) : ∀ (f1 f2 i : Nat),
    i < f1 → i < f2 → inRange tbl f1 i = inRange tbl f2 i := by
  intro f1
  induction f1 with
  | zero => intro f2 i h; omega
  | succ f1 ih =>
    intro f2 i h1 h2
    cases f2 with
    | zero => omega
    | succ f2 =>
      unfold inRange
      cases hs : step tbl i with
      | done => rfl
      | oob => rfl
      | yield mv c n =>
        have := step_yield_lt hs
        simp only
        rw [ih f2 c (by omega) (by omega), ih f2 n (by omega) (by omega)]

/-- the lines read from `i` with enough fuel -/
def L (tbl : Array Nat) (i : Nat) (pre : List Nat) (acc : List (List Nat)) : List (List Nat) :=
  lines tbl (i + 1) i pre acc

/-- the range check from `i` with enough fuel -/
def IR (tbl : Array Nat) (i : Nat) : Bool := inRange tbl (i + 1) i

theorem lines_eq_L (tbl : Array Nat) {f i : Nat} (h : i < f) (pre : List Nat) (acc : List (List Nat)) :
    lines tbl f i pre acc = L tbl i pre acc :=
  lines_fuel tbl f (i + 1) i pre acc h (Nat.lt_succ_self i)

theorem inRange_eq_IR (tbl : Array Nat) {f i : Nat} (h : i < f) : inRange tbl f i = IR tbl i :=
  inRange_fuel tbl f (i + 1) i h (Nat.lt_succ_self i)

theorem L_yield {tbl : Array Nat} {i mv c n : Nat} (hs : step tbl i = .yield mv c n) (pre : List Nat)
    (acc : List (List Nat)) :
    L tbl i pre acc = L tbl n pre (L tbl c (pre ++ [mv]) ((pre ++ [mv]) :: acc)) := by
  have := step_yield_lt hs
  show lines tbl (i + 1) i pre acc = _
  unfold lines
  rw [hs]
  simp only
  rw [lines_eq_L tbl (by omega), lines_eq_L tbl (by omega)]

theorem L_done {tbl : Array Nat} {i : Nat} (hs : step tbl i = .done) (pre : List Nat) (acc : List (List Nat)) :
    L tbl i pre acc = acc := by
  show lines tbl (i + 1) i pre acc = _
  unfold lines
  rw [hs]

theorem L_oob {tbl : Array Nat} {i : Nat} (hs : step tbl i = .oob) (pre : List Nat) (acc : List (List Nat)) :
    L tbl i pre acc = acc := by
  show lines tbl (i + 1) i pre acc = _
  unfold lines
  rw [hs]

theorem IR_yield {tbl : Array Nat} {i mv c n : Nat} (hs : step tbl i = .yield mv c n) :
    IR tbl i = (IR tbl c && IR tbl n) := by
  have := step_yield_lt hs
  show inRange tbl (i + 1) i = _
  unfold inRange
  rw [hs]
  simp only
  rw [inRange_eq_IR tbl (by omega), inRange_eq_IR tbl (by omega)]

theorem IR_done {tbl : Array Nat} {i : Nat} (hs : step tbl i = .done) : IR tbl i = true := by
  show inRange tbl (i + 1) i = _
  unfold inRange
  rw [hs]

theorem IR_oob {tbl : Array Nat} {i : Nat} (hs : step tbl i = .oob) : IR tbl i = false := by
  show inRange tbl (i + 1) i = _
  unfold inRange
  rw [hs]

/-! ### reading below the end of a table is not changed by extending it -/

theorem L_ext {a b : Array Nat} (h : Ext a b) : ∀ (i : Nat), i < a.size → ∀ (pre : List Nat) (acc : List (List Nat)),
    L b i pre acc = L a i pre acc := by
  intro i
  induction i using Nat.strongRecOn with
  | _ i ih =>
    intro hi pre acc
    have hst := step_ext h hi
    cases hs : step a i with
    | done => rw [L_done hs, L_done (hst.trans hs)]
    | oob => rw [L_oob hs, L_oob (hst.trans hs)]
    | yield mv c n =>
      have := step_yield_lt hs
      rw [L_yield hs, L_yield (hst.trans hs), ih c this.1 (by omega), ih n this.2 (by omega)]

theorem IR_ext {a b : Array Nat} (h : Ext a b) : ∀ (i : Nat), i < a.size → IR b i = IR a i := by
  intro i
  induction i using Nat.strongRecOn with
  | _ i ih =>
    intro hi
    have hst := step_ext h hi
    cases hs : step a i with
    | done => rw [IR_done hs, IR_done (hst.trans hs)]
    | oob => rw [IR_oob hs, IR_oob (hst.trans hs)]
    | yield mv c n =>
      have := step_yield_lt hs
      rw [IR_yield hs, IR_yield (hst.trans hs), ih c this.1 (by omega), ih n this.2 (by omega)]

/-! ### the step at the link word of a block just written -/

theorem step_last (d1 : Array Nat) (mw s : Nat) (hs1 : 1 ≤ s) (hs : s + 1 ≤ d1.size) :
    step ((d1.push mw).push ((d1.push mw).size - s)) (((d1.push mw).push ((d1.push mw).size - s)).size - 1)
      = .yield (mw % 4096) (d1.size - 1) (s - 1) := by
  have hsz : ((d1.push mw).push ((d1.push mw).size - s)).size - 1 = (d1.push mw).size := by
    simp only [Array.size_push]; omega
  rw [hsz]
  have h0 : ((d1.push mw).push ((d1.push mw).size - s)).getD (d1.push mw).size 0 = (d1.push mw).size - s :=
    getD_push_eq _ _
  have hsz2 : (d1.push mw).size = d1.size + 1 := Array.size_push ..
  have h1 : ((d1.push mw).push ((d1.push mw).size - s)).getD ((d1.push mw).size - 1) 0 = mw := by
    have : (d1.push mw).size - 1 = d1.size := by omega
    rw [this, getD_push_lt _ _ _ (by omega), getD_push_eq]
  rw [step_block (off := (d1.push mw).size - s) (by simp only [Array.size_push]; omega) h0 (by omega) (by omega)
    (by omega), h1]
  congr 1 <;> omega

theorem step_last0 (d1 : Array Nat) (mw s : Nat) (hs0 : s = 0) (hs : 1 ≤ d1.size) :
    step ((d1.push mw).push ((d1.push mw).size - s)) (((d1.push mw).push ((d1.push mw).size - s)).size - 1)
      = .done := by
  have hsz : ((d1.push mw).push ((d1.push mw).size - s)).size - 1 = (d1.push mw).size := by
    simp only [Array.size_push]; omega
  rw [hsz]
  have h0 : ((d1.push mw).push ((d1.push mw).size - s)).getD (d1.push mw).size 0 = (d1.push mw).size - s :=
    getD_push_eq _ _
  have hsz2 : (d1.push mw).size = d1.size + 1 := Array.size_push ..
  exact step_first (off := (d1.push mw).size - s) (by simp only [Array.size_push]; omega) h0 (by omega) (by omega)
    (by omega)

/-! ### the lines in the order the reader finds them: later siblings first -/

mutual
def rk : Trie → Nat → List Nat → List (List Nat) → List (List Nat)
  | .node c d cs, depth, pre, acc =>
    if c < commitThreshold then acc
    else if d + depth < 5 then acc
    else rkList cs depth pre acc
def rkList : List (Nat × Trie) → Nat → List Nat → List (List Nat) → List (List Nat)
  | [], _, _, acc => acc
  | (m, t) :: r, depth, pre, acc =>
    let line := pre ++ [m % 4096]
    rk t (depth + 1) line (line :: rkList r depth pre acc)
end

/-- what appending to a nonempty `data` does to the walk from the last word -/
structure Inv (data data' : Array Nat) (K : List Nat → List (List Nat) → List (List Nat)) : Prop where
  ext : Ext data data'
  lines : ∀ pre acc, L data' (data'.size - 1) pre acc = L data (data.size - 1) pre (K pre acc)
  ir : IR data' (data'.size - 1) = IR data (data.size - 1)

theorem Inv.refl (data : Array Nat) (K : List Nat → List (List Nat) → List (List Nat)) (hK : ∀ pre acc, K pre acc = acc) :
    Inv data data K :=
  ⟨Ext.refl _, fun pre acc => by rw [hK], rfl⟩

mutual
theorem encode_inv : ∀ (t : Trie) (data : Array Nat) (depth : Nat) (data' : Array Nat),
    encode t data depth = some data' → 1 ≤ data.size → Inv data data' (rk t depth)
  | .node c d cs, data, depth, data', h, hpos => by
    unfold encode at h
    split at h
    · rename_i hc
      cases h
      exact Inv.refl _ _ (fun pre acc => by unfold rk; rw [if_pos hc])
    · rename_i hc
      split at h
      · rename_i hd
        cases h
        exact Inv.refl _ _ (fun pre acc => by unfold rk; rw [if_neg hc, if_pos hd])
      · rename_i hd
        have := encodeList_inv cs data depth data' h hpos
        refine ⟨this.ext, fun pre acc => ?_, this.ir⟩
        rw [this.lines]
        congr 1
        unfold rk
        rw [if_neg hc, if_neg hd]
theorem encodeList_inv : ∀ (cs : List (Nat × Trie)) (data : Array Nat) (depth : Nat) (data' : Array Nat),
    encodeList cs data depth = some data' → 1 ≤ data.size → Inv data data' (rkList cs depth)
  | [], data, depth, data', h, hpos => by
    unfold encodeList at h
    cases h
    exact Inv.refl _ _ (fun pre acc => by unfold rkList; rfl)
  | (m, t) :: r, data, depth, data', h, hpos => by
    unfold encodeList at h
    simp only at h
    split at h
    · cases h
    · rename_i data1 heq
      split at h
      · cases h
      · rename_i hlen
        have it := encode_inv t (data.push 0) (depth + 1) data1 heq (by simp only [Array.size_push]; omega)
        have ir := encodeList_inv r _ depth data' h (by simp only [Array.size_push]; omega)
        have hs0 : (data.push 0).size - 1 = data.size := by simp only [Array.size_push]; omega
        have hd1 : data.size + 1 ≤ data1.size := by
          have := it.ext.1; simp only [Array.size_push] at this; exact this
        have hz : step (data.push 0) data.size = .done :=
          step_zero (by simp only [Array.size_push]; omega) (getD_push_eq _ _)
        have hst := step_last data1 (m % 4096 + 32768) data.size hpos hd1
        have hmod : (m % 4096 + 32768) % 4096 = m % 4096 := by omega
        rw [hmod] at hst
        have e12 : Ext data1 ((data1.push (m % 4096 + 32768)).push ((data1.push (m % 4096 + 32768)).size - data.size)) :=
          (Ext.push _ _).trans (Ext.push _ _)
        have e02 : Ext data ((data1.push (m % 4096 + 32768)).push ((data1.push (m % 4096 + 32768)).size - data.size)) :=
          ((Ext.push _ _).trans it.ext).trans e12
        refine ⟨e02.trans ir.ext, fun pre acc => ?_, ?_⟩
        · rw [ir.lines, L_yield hst, L_ext e12 (data1.size - 1) (by omega), it.lines, hs0, L_done hz,
            L_ext e02 (data.size - 1) (by omega)]
          congr 1
        · rw [ir.ir, IR_yield hst, IR_ext e12 (data1.size - 1) (by omega), it.ir, hs0, IR_done hz,
            IR_ext e02 (data.size - 1) (by omega)]
          rfl
end

/-! ### the table as a whole: the first block starts at index 0 and is not yielded -/

theorem L_empty (i : Nat) (pre : List Nat) (acc : List (List Nat)) : L #[] i pre acc = acc :=
  L_oob (step_oob (Nat.zero_le _)) pre acc

theorem encodeList_top : ∀ (cs : List (Nat × Trie)) (depth : Nat) (tbl : Array Nat),
    encodeList cs #[] depth = some tbl →
    (∀ pre acc, L tbl (tbl.size - 1) pre acc = rkList (cs.drop 1) depth pre acc) ∧
    (tbl.size ≠ 0 → IR tbl (tbl.size - 1) = true)
  | [], depth, tbl, h => by
    unfold encodeList at h
    cases h
    exact ⟨fun pre acc => by rw [L_empty]; unfold rkList; rfl, fun h => absurd rfl h⟩
  | (m, t) :: r, depth, tbl, h => by
    unfold encodeList at h
    simp only at h
    split at h
    · cases h
    · rename_i data1 heq
      split at h
      · cases h
      · rename_i hlen
        have it := encode_inv t ((#[] : Array Nat).push 0) (depth + 1) data1 heq (Nat.le_refl 1)
        have ir := encodeList_inv r _ depth tbl h (by simp only [Array.size_push]; omega)
        have hd1 : 1 ≤ data1.size := it.ext.1
        have hst := step_last0 data1 (m % 4096 + 32768) (#[] : Array Nat).size rfl hd1
        refine ⟨fun pre acc => ?_, fun _ => ?_⟩
        · rw [ir.lines, L_done hst]
          rfl
        · rw [ir.ir, IR_done hst]

theorem encode_top : ∀ (t : Trie) (depth : Nat) (tbl : Array Nat),
    encode t #[] depth = some tbl →
    (∀ pre acc, L tbl (tbl.size - 1) pre acc = rk (readable t) depth pre acc) ∧
    (tbl.size ≠ 0 → IR tbl (tbl.size - 1) = true)
  | .node c d cs, depth, tbl, h => by
    unfold encode at h
    split at h
    · rename_i hc
      cases h
      exact ⟨fun pre acc => by rw [L_empty]; unfold readable rk; rw [if_pos hc], fun h => absurd rfl h⟩
    · rename_i hc
      split at h
      · rename_i hd
        cases h
        exact ⟨fun pre acc => by rw [L_empty]; unfold readable rk; rw [if_neg hc, if_pos hd], fun h => absurd rfl h⟩
      · rename_i hd
        have := encodeList_top cs depth tbl h
        refine ⟨fun pre acc => ?_, this.2⟩
        rw [this.1]
        unfold readable rk
        rw [if_neg hc, if_neg hd]

/-! ### the reader's order and `keptLines`' order give the same lines -/

mutual
theorem rk_acc : ∀ (t : Trie) (d : Nat) (pre : List Nat) (acc : List (List Nat)),
    rk t d pre acc = rk t d pre [] ++ acc
  | .node c dd cs, d, pre, acc => by
    unfold rk
    split
    · rfl
    · split
      · rfl
      · exact rkList_acc cs d pre acc
theorem rkList_acc : ∀ (cs : List (Nat × Trie)) (d : Nat) (pre : List Nat) (acc : List (List Nat)),
    rkList cs d pre acc = rkList cs d pre [] ++ acc
  | [], d, pre, acc => by unfold rkList; rfl
  | (m, t) :: r, d, pre, acc => by
    unfold rkList
    simp only
    rw [rk_acc t (d + 1) _ (_ :: rkList r d pre acc), rk_acc t (d + 1) _ (_ :: rkList r d pre []),
      rkList_acc r d pre acc]
    simp only [List.append_assoc, List.cons_append]
end

mutual
theorem keptLines_acc : ∀ (t : Trie) (d : Nat) (pre : List Nat) (acc : List (List Nat)),
    keptLines t d pre acc = keptLines t d pre [] ++ acc
  | .node c dd cs, d, pre, acc => by
    unfold keptLines
    split
    · rfl
    · split
      · rfl
      · exact keptLinesList_acc cs d pre acc
theorem keptLinesList_acc : ∀ (cs : List (Nat × Trie)) (d : Nat) (pre : List Nat) (acc : List (List Nat)),
    keptLinesList cs d pre acc = keptLinesList cs d pre [] ++ acc
  | [], d, pre, acc => by unfold keptLinesList; rfl
  | (m, t) :: r, d, pre, acc => by
    unfold keptLinesList
    simp only
    rw [keptLinesList_acc r d pre (keptLines t (d + 1) _ (_ :: acc)),
      keptLinesList_acc r d pre (keptLines t (d + 1) _ [_]),
      keptLines_acc t (d + 1) _ (_ :: acc), keptLines_acc t (d + 1) _ [_]]
    simp only [List.append_assoc, List.cons_append, List.nil_append]
end

mutual
theorem rk_perm : ∀ (t : Trie) (d : Nat) (pre : List Nat), (rk t d pre []).Perm (keptLines t d pre [])
  | .node c dd cs, d, pre => by
    unfold rk keptLines
    split
    · exact List.Perm.refl _
    · split
      · exact List.Perm.refl _
      · exact rkList_perm cs d pre
theorem rkList_perm : ∀ (cs : List (Nat × Trie)) (d : Nat) (pre : List Nat),
    (rkList cs d pre []).Perm (keptLinesList cs d pre [])
  | [], d, pre => by unfold rkList keptLinesList; exact List.Perm.refl _
  | (m, t) :: r, d, pre => by
    unfold rkList keptLinesList
    simp only
    rw [rk_acc, keptLinesList_acc, keptLines_acc]
    have pA := rk_perm t (d + 1) (pre ++ [m % 4096])
    have pB := rkList_perm r d pre
    refine (List.Perm.append pA (List.Perm.cons _ pB)).trans ?_
    refine List.perm_append_comm.trans ?_
    rw [List.cons_append]
    refine (List.perm_append_singleton _ _).symm.trans ?_
    rw [List.append_assoc]
end

/-- the walk from the last word of the table stays inside the table -/
theorem inRange_encode (t : Trie) (tbl : Array Nat) (h : encode t #[] 0 = some tbl) (hne : tbl.size ≠ 0) :
    inRange tbl (tbl.size + 1) (tbl.size - 1) = true := by
  rw [inRange_eq_IR tbl (by omega)]
  exact (encode_top t 0 tbl h).2 hne

/-- the lines read back are the lines kept, up to order -/
theorem lines_encode (t : Trie) (tbl : Array Nat) (h : encode t #[] 0 = some tbl) :
    (lines tbl (tbl.size + 1) (tbl.size - 1) [] []).Perm (keptLines (readable t) 0 [] []) := by
  rw [lines_eq_L tbl (by omega), (encode_top t 0 tbl h).1]
  exact rk_perm _ _ _

end Chess.BookGen
