/-
C17 at full strength: from "the walk over the whole book counts no illegal move" (`book_walk_ok`) to
"EVERY path through the book, taken from its root, is a sequence of moves each legal in the position
reached by the preceding ones" — a statement about all paths, obtained for an arbitrary `play` function by
induction over the walk (the count of refused moves never decreases, so a total of zero means that no
move on any path was refused).
-/
import ChessVerif.Proofs.BookWalk.All
import ChessVerif.Proofs.Legal.Reach

namespace Chess.Book
open Chess Chess.Spec

/-- the paths of the book below iterator position `i`: at every level take one of the moves the iterator yields
there (`take`: this one, continue among its children; `skip`: a later sibling) -/
inductive Path : Nat → List Move → Prop
  | nil (i : Nat) : Path i []
  | take {i : Nat} {s d : Sq} {c n : Nat} {ms : List Move} (h : step i = .yield s d c n) (t : Path c ms) :
      Path i (⟨s, d, none⟩ :: ms)
  | skip {i : Nat} {s d : Sq} {c n : Nat} {ms : List Move} (h : step i = .yield s d c n) (t : Path n ms) :
      Path i ms

/-- play a sequence of moves with `play`; `none` as soon as one is refused -/
def playAll {β : Type} (play : β → Move → Option β) : β → List Move → Option β
  | b, [] => some b
  | b, m :: ms => match play b m with
    | none => none
    | some b' => playAll play b' ms

/-- what `visit` does with one yielded move before it goes on to the next sibling -/
def child {β : Type} (play : β → Move → Option β) (fuel c : Nat) (b : β) (depth : Nat) (s d : Sq) (t : Tally) : Tally :=
  match play b ⟨s, d, none⟩ with
  | none => { t with edges := t.edges + 1, digest := mix t.digest depth s d, illegal := t.illegal + 1 }
  | some b' => visit play fuel c b' (depth + 1)
      { t with edges := t.edges + 1, digest := mix t.digest depth s d, nodes := t.nodes + 1 }

theorem visit_yield {β : Type} (play : β → Move → Option β) (fuel index : Nat) (b : β) (depth : Nat) (t : Tally)
    {s d : Sq} {c n : Nat} (h : step index = .yield s d c n) :
    visit play (fuel + 1) index b depth t = visit play fuel n b depth (child play fuel c b depth s d t) := by
  rw [visit, h]
  simp only [child]
  cases play b ⟨s, d, none⟩ <;> rfl

theorem illegal_mono {β : Type} (play : β → Move → Option β) :
    ∀ (fuel index : Nat) (b : β) (depth : Nat) (t : Tally),
      t.illegal ≤ (visit play fuel index b depth t).illegal := by
  intro fuel
  induction fuel with
  | zero => intro index b depth t; simp [visit]
  | succ fuel ih =>
    intro index b depth t
    cases hst : step index with
    | done => rw [visit, hst]; exact Nat.le_refl _
    | oob => rw [visit, hst]; exact Nat.le_refl _
    | yield s d c n =>
      rw [visit_yield play fuel index b depth t hst]
      refine Nat.le_trans ?_ (ih n b depth _)
      unfold child
      cases play b ⟨s, d, none⟩ with
      | none => simp
      | some b' => exact Nat.le_trans (by simp) (ih c b' (depth + 1) _)

theorem child_mono {β : Type} (play : β → Move → Option β) (fuel c : Nat) (b : β) (depth : Nat) (s d : Sq) (t : Tally) :
    t.illegal ≤ (child play fuel c b depth s d t).illegal := by
  unfold child
  cases play b ⟨s, d, none⟩ with
  | none => simp
  | some b' => exact Nat.le_trans (by simp) (illegal_mono play fuel c b' (depth + 1) _)

/-- if the step for one move adds no refused move, the move was played and the walk below it added none either -/
theorem child_clean {β : Type} (play : β → Move → Option β) (fuel c : Nat) (b : β) (depth : Nat) (s d : Sq) (t : Tally)
    (h : (child play fuel c b depth s d t).illegal = t.illegal) :
    ∃ b' t', play b ⟨s, d, none⟩ = some b' ∧ t'.illegal = t.illegal ∧
      (visit play fuel c b' (depth + 1) t').illegal = t'.illegal := by
  unfold child at h
  cases hp : play b ⟨s, d, none⟩ with
  | none => rw [hp] at h; simp at h
  | some b' =>
    rw [hp] at h
    dsimp only at h
    exact ⟨b', { t with edges := t.edges + 1, digest := mix t.digest depth s d, nodes := t.nodes + 1 }, rfl, rfl, h⟩

/-- if walking from `index` adds no refused move, every path from `index` can be played -/
theorem path_playable {β : Type} (play : β → Move → Option β) :
    ∀ (fuel index : Nat) (b : β) (depth : Nat) (t : Tally), index < fuel →
      (visit play fuel index b depth t).illegal = t.illegal →
      ∀ ms, Path index ms → (playAll play b ms).isSome = true := by
  intro fuel
  induction fuel with
  | zero => intro index b depth t h; omega
  | succ fuel ih =>
    intro index b depth t hlt hv ms hp
    cases hp with
    | nil => rfl
    | @take _ s d c n ms' hst tl =>
      have hd := Props.C17.step_decreases index s d c n hst
      rw [visit_yield play fuel index b depth t hst] at hv
      have m1 := child_mono play fuel c b depth s d t
      have m2 := illegal_mono play fuel n b depth (child play fuel c b depth s d t)
      obtain ⟨b', t', hpl, ht', hc⟩ := child_clean play fuel c b depth s d t (by omega)
      unfold playAll
      rw [hpl]
      exact ih c b' (depth + 1) t' (by omega) hc ms' tl
    | @skip _ s d c n _ hst tl =>
      have hd := Props.C17.step_decreases index s d c n hst
      rw [visit_yield play fuel index b depth t hst] at hv
      have m1 := child_mono play fuel c b depth s d t
      have m2 := illegal_mono play fuel n b depth (child play fuel c b depth s d t)
      exact ih n b depth (child play fuel c b depth s d t) (by omega) (by omega) ms tl

/-- every path through the book from its root can be played from the standard position with the checked
make-move: no move on it is refused -/
theorem paths_playable (ms : List Move) (hp : Path root ms) :
    (playAll (fun b m => Board.moveNew b m) Board.standard ms).isSome = true := by
  have h := Proofs.BookWalk.book_walk_ok'.1
  unfold walkModel at h
  exact path_playable _ (root + 1) root Board.standard 0 { nodes := 1 } (Nat.lt_succ_self _) h ms hp

/-- no move of a book path carries a promotion piece -/
theorem path_no_promotion : ∀ (i : Nat) (ms : List Move), Path i ms → ∀ m ∈ ms, m.piece = none := by
  intro i ms hp
  induction hp with
  | nil => intro m hm; cases hm
  | take h t ih =>
    intro m hm
    rcases List.mem_cons.1 hm with e | e
    · subst e; rfl
    · exact ih m e
  | skip h t ih => exact ih

/-- a path of the book below position `i` has at most `i / 2` moves (each move costs two table words) -/
theorem path_length : ∀ (i : Nat) (ms : List Move), Path i ms → 2 * ms.length ≤ i := by
  intro i ms hp
  induction hp with
  | nil => simp
  | @take i s d c n ms h t ih =>
    have hd := Props.C17.step_decreases i s d c n h
    have hc : c + 2 ≤ i := by
      unfold step at h
      split at h
      · cases h
      · simp only at h
        split at h
        · cases h
        · split at h
          · cases h
          · split at h
            · cases h
            · split at h
              · injection h with _ _ h3 h4
                omega
              · cases h
    simp only [List.length_cons]
    omega
  | @skip i s d c n ms h t ih =>
    have hd := Props.C17.step_decreases i s d c n h
    omega

end Chess.Book

namespace Chess.Spec.Position
/-- a sequence of moves each legal, by the rules, in the position reached by the preceding ones -/
def playable : Position → List Move → Prop
  | _, [] => True
  | p, m :: ms => p.legal m = true ∧ playable (p.apply m) ms
end Chess.Spec.Position

namespace Chess.Book
open Chess Chess.Spec

theorem apply_half_le (p : Position) (m : Move) : (p.apply m).half ≤ p.half + 1 := by
  unfold Position.apply
  split
  · omega
  · rename_i k _
    show (if (match p.pieceAt m.source with | some (_, .pawn) => true | _ => false) ||
      (p.occupied m.dest || k == .enPassant) then 0 else p.half + 1) ≤ p.half + 1
    generalize ((match p.pieceAt m.source with | some (_, .pawn) => true | _ => false) ||
      (p.occupied m.dest || k == .enPassant)) = c
    cases c <;> simp

theorem apply_full_le (p : Position) (m : Move) : (p.apply m).full ≤ p.full + 1 := by
  unfold Position.apply
  split
  · omega
  · rename_i k _
    show p.full + (match p.turn with | .white => 0 | .black => 1) ≤ p.full + 1
    cases p.turn <;> simp

/-- a sequence the checked make-move plays from a board reachable from the start, short enough for the 16-bit
clocks, is a legal game by the rules -/
theorem playAll_playable : ∀ (ms : List Move) (b : Board) (k : Nat), Board.Reachable Board.standard b →
    b.half ≤ k → b.full ≤ k → k + ms.length < 65535 →
    (playAll (fun b m => Board.moveNew b m) b ms).isSome = true → (abs b).playable ms := by
  intro ms
  induction ms with
  | nil => intro b k _ _ _ _ _; trivial
  | cons m ms ih =>
    intro b k hr hh hf hk hp
    simp only [List.length_cons] at hk
    unfold playAll at hp
    cases hm : Board.moveNew b m with
    | none => rw [hm] at hp; cases hp
    | some b' =>
      rw [hm] at hp
      obtain ⟨hl, hr', ha⟩ := Legal.moveNew_abs_reachable_standard b b' hr m (by omega) (by omega) hm
      refine ⟨hl, ?_⟩
      rw [← ha]
      have h1 : b'.half ≤ k + 1 := by
        have := apply_half_le (abs b) m
        rw [← ha] at this
        exact Nat.le_trans this (Nat.succ_le_succ hh)
      have h2 : b'.full ≤ k + 1 := by
        have := apply_full_le (abs b) m
        rw [← ha] at this
        exact Nat.le_trans this (Nat.succ_le_succ hf)
      exact ih b' (k + 1) hr' h1 h2 (by omega) hp

/-- **every path through the book, from its root, is a legal game by the rules of chess** -/
theorem paths_legal (ms : List Move) (hp : Path root ms) : (abs Board.standard).playable ms := by
  have hlen := path_length root ms hp
  have hroot : root < 87204 := by decide
  exact playAll_playable ms Board.standard 0 Board.Reachable.refl (by decide) (by decide) (by omega)
    (paths_playable ms hp)

end Chess.Book
