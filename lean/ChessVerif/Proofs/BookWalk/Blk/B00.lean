import ChessVerif.Proofs.BookWalk.Defs
namespace Chess.Proofs.BookWalk
set_option maxRecDepth 1000000 in
/-- the moves with table index in [0·512, 1·512) are legal in the positions reached (kernel evaluation) -/
theorem block_0 : blockOk 512 0 = true := by decide +kernel
set_option maxRecDepth 1000000 in
/-- the moves with table index in [1·512, 2·512) are legal in the positions reached (kernel evaluation) -/
theorem block_1 : blockOk 512 1 = true := by decide +kernel
set_option maxRecDepth 1000000 in
/-- the moves with table index in [2·512, 3·512) are legal in the positions reached (kernel evaluation) -/
theorem block_2 : blockOk 512 2 = true := by decide +kernel
end Chess.Proofs.BookWalk
