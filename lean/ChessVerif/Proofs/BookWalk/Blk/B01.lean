import ChessVerif.Proofs.BookWalk.Defs
namespace Chess.Proofs.BookWalk
set_option maxRecDepth 1000000 in
/-- the moves with table index in [3·512, 4·512) are legal in the positions reached (kernel evaluation) -/
theorem block_3 : blockOk 512 3 = true := by decide +kernel
set_option maxRecDepth 1000000 in
/-- the moves with table index in [4·512, 5·512) are legal in the positions reached (kernel evaluation) -/
theorem block_4 : blockOk 512 4 = true := by decide +kernel
set_option maxRecDepth 1000000 in
/-- the moves with table index in [5·512, 6·512) are legal in the positions reached (kernel evaluation) -/
theorem block_5 : blockOk 512 5 = true := by decide +kernel
end Chess.Proofs.BookWalk
