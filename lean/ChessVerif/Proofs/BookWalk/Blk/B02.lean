import ChessVerif.Proofs.BookWalk.Defs
namespace Chess.Proofs.BookWalk
set_option maxRecDepth 1000000 in
/-- the moves with table index in [6·512, 7·512) are legal in the positions reached (kernel evaluation) -/
theorem block_6 : blockOk 512 6 = true := by decide +kernel
set_option maxRecDepth 1000000 in
/-- the moves with table index in [7·512, 8·512) are legal in the positions reached (kernel evaluation) -/
theorem block_7 : blockOk 512 7 = true := by decide +kernel
set_option maxRecDepth 1000000 in
/-- the moves with table index in [8·512, 9·512) are legal in the positions reached (kernel evaluation) -/
theorem block_8 : blockOk 512 8 = true := by decide +kernel
end Chess.Proofs.BookWalk
