import ChessVerif.Proofs.BookWalk.Defs
namespace Chess.Proofs.BookWalk
set_option maxRecDepth 1000000 in
/-- the moves with table index in [9·512, 10·512) are legal in the positions reached (kernel evaluation) -/
theorem block_9 : blockOk 512 9 = true := by decide +kernel
set_option maxRecDepth 1000000 in
/-- the moves with table index in [10·512, 11·512) are legal in the positions reached (kernel evaluation) -/
theorem block_10 : blockOk 512 10 = true := by decide +kernel
set_option maxRecDepth 1000000 in
/-- the moves with table index in [11·512, 12·512) are legal in the positions reached (kernel evaluation) -/
theorem block_11 : blockOk 512 11 = true := by decide +kernel
end Chess.Proofs.BookWalk
