import ChessVerif.Proofs.BookWalk.Defs
namespace Chess.Proofs.BookWalk
set_option maxRecDepth 1000000 in
/-- the moves with table index in [12·512, 13·512) are legal in the positions reached (kernel evaluation) -/
theorem block_12 : blockOk 512 12 = true := by decide +kernel
set_option maxRecDepth 1000000 in
/-- the moves with table index in [13·512, 14·512) are legal in the positions reached (kernel evaluation) -/
theorem block_13 : blockOk 512 13 = true := by decide +kernel
set_option maxRecDepth 1000000 in
/-- the moves with table index in [14·512, 15·512) are legal in the positions reached (kernel evaluation) -/
theorem block_14 : blockOk 512 14 = true := by decide +kernel
end Chess.Proofs.BookWalk
