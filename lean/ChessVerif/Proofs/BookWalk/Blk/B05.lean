import ChessVerif.Proofs.BookWalk.Defs
namespace Chess.Proofs.BookWalk
set_option maxRecDepth 1000000 in
/-- the moves with table index in [15·512, 16·512) are legal in the positions reached (kernel evaluation) -/
theorem block_15 : blockOk 512 15 = true := by decide +kernel
set_option maxRecDepth 1000000 in
/-- the moves with table index in [16·512, 17·512) are legal in the positions reached (kernel evaluation) -/
theorem block_16 : blockOk 512 16 = true := by decide +kernel
set_option maxRecDepth 1000000 in
/-- the moves with table index in [17·512, 18·512) are legal in the positions reached (kernel evaluation) -/
theorem block_17 : blockOk 512 17 = true := by decide +kernel
end Chess.Proofs.BookWalk
