import ChessVerif.Proofs.BookWalk.Defs
namespace Chess.Proofs.BookWalk
set_option maxRecDepth 1000000 in
/-- the moves with table index in [18·512, 19·512) are legal in the positions reached (kernel evaluation) -/
theorem block_18 : blockOk 512 18 = true := by decide +kernel
set_option maxRecDepth 1000000 in
/-- the moves with table index in [19·512, 20·512) are legal in the positions reached (kernel evaluation) -/
theorem block_19 : blockOk 512 19 = true := by decide +kernel
set_option maxRecDepth 1000000 in
/-- the moves with table index in [20·512, 21·512) are legal in the positions reached (kernel evaluation) -/
theorem block_20 : blockOk 512 20 = true := by decide +kernel
end Chess.Proofs.BookWalk
