import ChessVerif.Proofs.BookWalk.Defs
namespace Chess.Proofs.BookWalk
set_option maxRecDepth 1000000 in
/-- the moves with table index in [21·512, 22·512) are legal in the positions reached (kernel evaluation) -/
theorem block_21 : blockOk 512 21 = true := by decide +kernel
set_option maxRecDepth 1000000 in
/-- the moves with table index in [22·512, 23·512) are legal in the positions reached (kernel evaluation) -/
theorem block_22 : blockOk 512 22 = true := by decide +kernel
set_option maxRecDepth 1000000 in
/-- the moves with table index in [23·512, 24·512) are legal in the positions reached (kernel evaluation) -/
theorem block_23 : blockOk 512 23 = true := by decide +kernel
end Chess.Proofs.BookWalk
