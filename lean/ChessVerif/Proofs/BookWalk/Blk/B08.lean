import ChessVerif.Proofs.BookWalk.Defs
namespace Chess.Proofs.BookWalk
set_option maxRecDepth 1000000 in
/-- the moves with table index in [24·512, 25·512) are legal in the positions reached (kernel evaluation) -/
theorem block_24 : blockOk 512 24 = true := by decide +kernel
set_option maxRecDepth 1000000 in
/-- the moves with table index in [25·512, 26·512) are legal in the positions reached (kernel evaluation) -/
theorem block_25 : blockOk 512 25 = true := by decide +kernel
set_option maxRecDepth 1000000 in
/-- the moves with table index in [26·512, 27·512) are legal in the positions reached (kernel evaluation) -/
theorem block_26 : blockOk 512 26 = true := by decide +kernel
end Chess.Proofs.BookWalk
