import ChessVerif.Proofs.BookWalk.Defs
namespace Chess.Proofs.BookWalk
set_option maxRecDepth 1000000 in
/-- the moves with table index in [27·512, 28·512) are legal in the positions reached (kernel evaluation) -/
theorem block_27 : blockOk 512 27 = true := by decide +kernel
set_option maxRecDepth 1000000 in
/-- the moves with table index in [28·512, 29·512) are legal in the positions reached (kernel evaluation) -/
theorem block_28 : blockOk 512 28 = true := by decide +kernel
set_option maxRecDepth 1000000 in
/-- the moves with table index in [29·512, 30·512) are legal in the positions reached (kernel evaluation) -/
theorem block_29 : blockOk 512 29 = true := by decide +kernel
end Chess.Proofs.BookWalk
