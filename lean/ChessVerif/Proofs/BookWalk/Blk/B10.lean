import ChessVerif.Proofs.BookWalk.Defs
namespace Chess.Proofs.BookWalk
set_option maxRecDepth 1000000 in
/-- the moves with table index in [30·512, 31·512) are legal in the positions reached (kernel evaluation) -/
theorem block_30 : blockOk 512 30 = true := by decide +kernel
set_option maxRecDepth 1000000 in
/-- the moves with table index in [31·512, 32·512) are legal in the positions reached (kernel evaluation) -/
theorem block_31 : blockOk 512 31 = true := by decide +kernel
set_option maxRecDepth 1000000 in
/-- the moves with table index in [32·512, 33·512) are legal in the positions reached (kernel evaluation) -/
theorem block_32 : blockOk 512 32 = true := by decide +kernel
end Chess.Proofs.BookWalk
