import ChessVerif.Proofs.BookWalk.Defs
namespace Chess.Proofs.BookWalk
set_option maxRecDepth 1000000 in
/-- the moves with table index in [33·512, 34·512) are legal in the positions reached (kernel evaluation) -/
theorem block_33 : blockOk 512 33 = true := by decide +kernel
set_option maxRecDepth 1000000 in
/-- the moves with table index in [34·512, 35·512) are legal in the positions reached (kernel evaluation) -/
theorem block_34 : blockOk 512 34 = true := by decide +kernel
set_option maxRecDepth 1000000 in
/-- the moves with table index in [35·512, 36·512) are legal in the positions reached (kernel evaluation) -/
theorem block_35 : blockOk 512 35 = true := by decide +kernel
end Chess.Proofs.BookWalk
