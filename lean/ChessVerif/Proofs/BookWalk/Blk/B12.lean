import ChessVerif.Proofs.BookWalk.Defs
namespace Chess.Proofs.BookWalk
set_option maxRecDepth 1000000 in
/-- the moves with table index in [36·512, 37·512) are legal in the positions reached (kernel evaluation) -/
theorem block_36 : blockOk 512 36 = true := by decide +kernel
set_option maxRecDepth 1000000 in
/-- the moves with table index in [37·512, 38·512) are legal in the positions reached (kernel evaluation) -/
theorem block_37 : blockOk 512 37 = true := by decide +kernel
set_option maxRecDepth 1000000 in
/-- the moves with table index in [38·512, 39·512) are legal in the positions reached (kernel evaluation) -/
theorem block_38 : blockOk 512 38 = true := by decide +kernel
end Chess.Proofs.BookWalk
