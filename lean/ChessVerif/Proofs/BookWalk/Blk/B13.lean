import ChessVerif.Proofs.BookWalk.Defs
namespace Chess.Proofs.BookWalk
set_option maxRecDepth 1000000 in
/-- the moves with table index in [39·512, 40·512) are legal in the positions reached (kernel evaluation) -/
theorem block_39 : blockOk 512 39 = true := by decide +kernel
set_option maxRecDepth 1000000 in
/-- the moves with table index in [40·512, 41·512) are legal in the positions reached (kernel evaluation) -/
theorem block_40 : blockOk 512 40 = true := by decide +kernel
set_option maxRecDepth 1000000 in
/-- the moves with table index in [41·512, 42·512) are legal in the positions reached (kernel evaluation) -/
theorem block_41 : blockOk 512 41 = true := by decide +kernel
end Chess.Proofs.BookWalk
