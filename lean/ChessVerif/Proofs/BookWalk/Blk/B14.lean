import ChessVerif.Proofs.BookWalk.Defs
namespace Chess.Proofs.BookWalk
set_option maxRecDepth 1000000 in
/-- the moves with table index in [42·512, 43·512) are legal in the positions reached (kernel evaluation) -/
theorem block_42 : blockOk 512 42 = true := by decide +kernel
set_option maxRecDepth 1000000 in
/-- the moves with table index in [43·512, 44·512) are legal in the positions reached (kernel evaluation) -/
theorem block_43 : blockOk 512 43 = true := by decide +kernel
set_option maxRecDepth 1000000 in
/-- the moves with table index in [44·512, 45·512) are legal in the positions reached (kernel evaluation) -/
theorem block_44 : blockOk 512 44 = true := by decide +kernel
end Chess.Proofs.BookWalk
