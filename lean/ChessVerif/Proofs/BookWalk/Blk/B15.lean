import ChessVerif.Proofs.BookWalk.Defs
namespace Chess.Proofs.BookWalk
set_option maxRecDepth 1000000 in
/-- the moves with table index in [45·512, 46·512) are legal in the positions reached (kernel evaluation) -/
theorem block_45 : blockOk 512 45 = true := by decide +kernel
set_option maxRecDepth 1000000 in
/-- the moves with table index in [46·512, 47·512) are legal in the positions reached (kernel evaluation) -/
theorem block_46 : blockOk 512 46 = true := by decide +kernel
set_option maxRecDepth 1000000 in
/-- the moves with table index in [47·512, 48·512) are legal in the positions reached (kernel evaluation) -/
theorem block_47 : blockOk 512 47 = true := by decide +kernel
end Chess.Proofs.BookWalk
