import ChessVerif.Proofs.BookWalk.Defs
namespace Chess.Proofs.BookWalk
set_option maxRecDepth 1000000 in
/-- the moves with table index in [48·512, 49·512) are legal in the positions reached (kernel evaluation) -/
theorem block_48 : blockOk 512 48 = true := by decide +kernel
set_option maxRecDepth 1000000 in
/-- the moves with table index in [49·512, 50·512) are legal in the positions reached (kernel evaluation) -/
theorem block_49 : blockOk 512 49 = true := by decide +kernel
set_option maxRecDepth 1000000 in
/-- the moves with table index in [50·512, 51·512) are legal in the positions reached (kernel evaluation) -/
theorem block_50 : blockOk 512 50 = true := by decide +kernel
end Chess.Proofs.BookWalk
