import ChessVerif.Proofs.BookWalk.Defs
namespace Chess.Proofs.BookWalk
set_option maxRecDepth 1000000 in
/-- the moves with table index in [51·512, 52·512) are legal in the positions reached (kernel evaluation) -/
theorem block_51 : blockOk 512 51 = true := by decide +kernel
set_option maxRecDepth 1000000 in
/-- the moves with table index in [52·512, 53·512) are legal in the positions reached (kernel evaluation) -/
theorem block_52 : blockOk 512 52 = true := by decide +kernel
set_option maxRecDepth 1000000 in
/-- the moves with table index in [53·512, 54·512) are legal in the positions reached (kernel evaluation) -/
theorem block_53 : blockOk 512 53 = true := by decide +kernel
end Chess.Proofs.BookWalk
