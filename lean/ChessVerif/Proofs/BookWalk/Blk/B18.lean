import ChessVerif.Proofs.BookWalk.Defs
namespace Chess.Proofs.BookWalk
set_option maxRecDepth 1000000 in
/-- the moves with table index in [54·512, 55·512) are legal in the positions reached (kernel evaluation) -/
theorem block_54 : blockOk 512 54 = true := by decide +kernel
set_option maxRecDepth 1000000 in
/-- the moves with table index in [55·512, 56·512) are legal in the positions reached (kernel evaluation) -/
theorem block_55 : blockOk 512 55 = true := by decide +kernel
set_option maxRecDepth 1000000 in
/-- the moves with table index in [56·512, 57·512) are legal in the positions reached (kernel evaluation) -/
theorem block_56 : blockOk 512 56 = true := by decide +kernel
end Chess.Proofs.BookWalk
