import ChessVerif.Proofs.BookWalk.Defs
namespace Chess.Proofs.BookWalk
set_option maxRecDepth 1000000 in
/-- the moves with table index in [57·512, 58·512) are legal in the positions reached (kernel evaluation) -/
theorem block_57 : blockOk 512 57 = true := by decide +kernel
set_option maxRecDepth 1000000 in
/-- the moves with table index in [58·512, 59·512) are legal in the positions reached (kernel evaluation) -/
theorem block_58 : blockOk 512 58 = true := by decide +kernel
set_option maxRecDepth 1000000 in
/-- the moves with table index in [59·512, 60·512) are legal in the positions reached (kernel evaluation) -/
theorem block_59 : blockOk 512 59 = true := by decide +kernel
end Chess.Proofs.BookWalk
