import ChessVerif.Proofs.BookWalk.Defs
namespace Chess.Proofs.BookWalk
set_option maxRecDepth 1000000 in
/-- the moves with table index in [60·512, 61·512) are legal in the positions reached (kernel evaluation) -/
theorem block_60 : blockOk 512 60 = true := by decide +kernel
set_option maxRecDepth 1000000 in
/-- the moves with table index in [61·512, 62·512) are legal in the positions reached (kernel evaluation) -/
theorem block_61 : blockOk 512 61 = true := by decide +kernel
set_option maxRecDepth 1000000 in
/-- the moves with table index in [62·512, 63·512) are legal in the positions reached (kernel evaluation) -/
theorem block_62 : blockOk 512 62 = true := by decide +kernel
end Chess.Proofs.BookWalk
