import ChessVerif.Proofs.BookWalk.Defs
namespace Chess.Proofs.BookWalk
set_option maxRecDepth 1000000 in
/-- the moves with table index in [63·512, 64·512) are legal in the positions reached (kernel evaluation) -/
theorem block_63 : blockOk 512 63 = true := by decide +kernel
set_option maxRecDepth 1000000 in
/-- the moves with table index in [64·512, 65·512) are legal in the positions reached (kernel evaluation) -/
theorem block_64 : blockOk 512 64 = true := by decide +kernel
set_option maxRecDepth 1000000 in
/-- the moves with table index in [65·512, 66·512) are legal in the positions reached (kernel evaluation) -/
theorem block_65 : blockOk 512 65 = true := by decide +kernel
end Chess.Proofs.BookWalk
