import ChessVerif.Proofs.BookWalk.Defs
namespace Chess.Proofs.BookWalk
set_option maxRecDepth 1000000 in
/-- the moves with table index in [66·512, 67·512) are legal in the positions reached (kernel evaluation) -/
theorem block_66 : blockOk 512 66 = true := by decide +kernel
set_option maxRecDepth 1000000 in
/-- the moves with table index in [67·512, 68·512) are legal in the positions reached (kernel evaluation) -/
theorem block_67 : blockOk 512 67 = true := by decide +kernel
set_option maxRecDepth 1000000 in
/-- the moves with table index in [68·512, 69·512) are legal in the positions reached (kernel evaluation) -/
theorem block_68 : blockOk 512 68 = true := by decide +kernel
end Chess.Proofs.BookWalk
