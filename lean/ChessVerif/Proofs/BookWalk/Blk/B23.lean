import ChessVerif.Proofs.BookWalk.Defs
namespace Chess.Proofs.BookWalk
set_option maxRecDepth 1000000 in
/-- the moves with table index in [69·512, 70·512) are legal in the positions reached (kernel evaluation) -/
theorem block_69 : blockOk 512 69 = true := by decide +kernel
set_option maxRecDepth 1000000 in
/-- the moves with table index in [70·512, 71·512) are legal in the positions reached (kernel evaluation) -/
theorem block_70 : blockOk 512 70 = true := by decide +kernel
set_option maxRecDepth 1000000 in
/-- the moves with table index in [71·512, 72·512) are legal in the positions reached (kernel evaluation) -/
theorem block_71 : blockOk 512 71 = true := by decide +kernel
end Chess.Proofs.BookWalk
