import ChessVerif.Proofs.BookWalk.Defs
namespace Chess.Proofs.BookWalk
set_option maxRecDepth 1000000 in
/-- the moves with table index in [72·512, 73·512) are legal in the positions reached (kernel evaluation) -/
theorem block_72 : blockOk 512 72 = true := by decide +kernel
set_option maxRecDepth 1000000 in
/-- the moves with table index in [73·512, 74·512) are legal in the positions reached (kernel evaluation) -/
theorem block_73 : blockOk 512 73 = true := by decide +kernel
set_option maxRecDepth 1000000 in
/-- the moves with table index in [74·512, 75·512) are legal in the positions reached (kernel evaluation) -/
theorem block_74 : blockOk 512 74 = true := by decide +kernel
end Chess.Proofs.BookWalk
