import ChessVerif.Proofs.BookWalk.Defs
namespace Chess.Proofs.BookWalk
set_option maxRecDepth 1000000 in
/-- the moves with table index in [75·512, 76·512) are legal in the positions reached (kernel evaluation) -/
theorem block_75 : blockOk 512 75 = true := by decide +kernel
set_option maxRecDepth 1000000 in
/-- the moves with table index in [76·512, 77·512) are legal in the positions reached (kernel evaluation) -/
theorem block_76 : blockOk 512 76 = true := by decide +kernel
set_option maxRecDepth 1000000 in
/-- the moves with table index in [77·512, 78·512) are legal in the positions reached (kernel evaluation) -/
theorem block_77 : blockOk 512 77 = true := by decide +kernel
end Chess.Proofs.BookWalk
