import ChessVerif.Proofs.BookWalk.Defs
namespace Chess.Proofs.BookWalk
set_option maxRecDepth 1000000 in
/-- the moves with table index in [78·512, 79·512) are legal in the positions reached (kernel evaluation) -/
theorem block_78 : blockOk 512 78 = true := by decide +kernel
set_option maxRecDepth 1000000 in
/-- the moves with table index in [79·512, 80·512) are legal in the positions reached (kernel evaluation) -/
theorem block_79 : blockOk 512 79 = true := by decide +kernel
set_option maxRecDepth 1000000 in
/-- the moves with table index in [80·512, 81·512) are legal in the positions reached (kernel evaluation) -/
theorem block_80 : blockOk 512 80 = true := by decide +kernel
end Chess.Proofs.BookWalk
