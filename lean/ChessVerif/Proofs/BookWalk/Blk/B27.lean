import ChessVerif.Proofs.BookWalk.Defs
namespace Chess.Proofs.BookWalk
set_option maxRecDepth 1000000 in
/-- the moves with table index in [81·512, 82·512) are legal in the positions reached (kernel evaluation) -/
theorem block_81 : blockOk 512 81 = true := by decide +kernel
set_option maxRecDepth 1000000 in
/-- the moves with table index in [82·512, 83·512) are legal in the positions reached (kernel evaluation) -/
theorem block_82 : blockOk 512 82 = true := by decide +kernel
set_option maxRecDepth 1000000 in
/-- the moves with table index in [83·512, 84·512) are legal in the positions reached (kernel evaluation) -/
theorem block_83 : blockOk 512 83 = true := by decide +kernel
end Chess.Proofs.BookWalk
