import ChessVerif.Proofs.BookWalk.Defs
namespace Chess.Proofs.BookWalk
set_option maxRecDepth 1000000 in
/-- the moves with table index in [84·512, 85·512) are legal in the positions reached (kernel evaluation) -/
theorem block_84 : blockOk 512 84 = true := by decide +kernel
set_option maxRecDepth 1000000 in
/-- the moves with table index in [85·512, 86·512) are legal in the positions reached (kernel evaluation) -/
theorem block_85 : blockOk 512 85 = true := by decide +kernel
set_option maxRecDepth 1000000 in
/-- the moves with table index in [86·512, 87·512) are legal in the positions reached (kernel evaluation) -/
theorem block_86 : blockOk 512 86 = true := by decide +kernel
end Chess.Proofs.BookWalk
