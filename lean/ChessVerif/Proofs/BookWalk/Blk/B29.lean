import ChessVerif.Proofs.BookWalk.Defs
namespace Chess.Proofs.BookWalk
set_option maxRecDepth 1000000 in
/-- the moves with table index in [87·512, 88·512) are legal in the positions reached (kernel evaluation) -/
theorem block_87 : blockOk 512 87 = true := by decide +kernel
set_option maxRecDepth 1000000 in
/-- the moves with table index in [88·512, 89·512) are legal in the positions reached (kernel evaluation) -/
theorem block_88 : blockOk 512 88 = true := by decide +kernel
set_option maxRecDepth 1000000 in
/-- the moves with table index in [89·512, 90·512) are legal in the positions reached (kernel evaluation) -/
theorem block_89 : blockOk 512 89 = true := by decide +kernel
end Chess.Proofs.BookWalk
