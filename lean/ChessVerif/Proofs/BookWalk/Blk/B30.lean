import ChessVerif.Proofs.BookWalk.Defs
namespace Chess.Proofs.BookWalk
set_option maxRecDepth 1000000 in
/-- the moves with table index in [90·512, 91·512) are legal in the positions reached (kernel evaluation) -/
theorem block_90 : blockOk 512 90 = true := by decide +kernel
set_option maxRecDepth 1000000 in
/-- the moves with table index in [91·512, 92·512) are legal in the positions reached (kernel evaluation) -/
theorem block_91 : blockOk 512 91 = true := by decide +kernel
set_option maxRecDepth 1000000 in
/-- the moves with table index in [92·512, 93·512) are legal in the positions reached (kernel evaluation) -/
theorem block_92 : blockOk 512 92 = true := by decide +kernel
end Chess.Proofs.BookWalk
