import ChessVerif.Proofs.BookWalk.Defs
namespace Chess.Proofs.BookWalk
set_option maxRecDepth 1000000 in
/-- the moves with table index in [93·512, 94·512) are legal in the positions reached (kernel evaluation) -/
theorem block_93 : blockOk 512 93 = true := by decide +kernel
set_option maxRecDepth 1000000 in
/-- the moves with table index in [94·512, 95·512) are legal in the positions reached (kernel evaluation) -/
theorem block_94 : blockOk 512 94 = true := by decide +kernel
set_option maxRecDepth 1000000 in
/-- the moves with table index in [95·512, 96·512) are legal in the positions reached (kernel evaluation) -/
theorem block_95 : blockOk 512 95 = true := by decide +kernel
end Chess.Proofs.BookWalk
