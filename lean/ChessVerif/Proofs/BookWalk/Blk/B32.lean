import ChessVerif.Proofs.BookWalk.Defs
namespace Chess.Proofs.BookWalk
set_option maxRecDepth 1000000 in
/-- the moves with table index in [96·512, 97·512) are legal in the positions reached (kernel evaluation) -/
theorem block_96 : blockOk 512 96 = true := by decide +kernel
set_option maxRecDepth 1000000 in
/-- the moves with table index in [97·512, 98·512) are legal in the positions reached (kernel evaluation) -/
theorem block_97 : blockOk 512 97 = true := by decide +kernel
set_option maxRecDepth 1000000 in
/-- the moves with table index in [98·512, 99·512) are legal in the positions reached (kernel evaluation) -/
theorem block_98 : blockOk 512 98 = true := by decide +kernel
end Chess.Proofs.BookWalk
