import ChessVerif.Proofs.BookWalk.Defs
namespace Chess.Proofs.BookWalk
set_option maxRecDepth 1000000 in
/-- the moves with table index in [99·512, 100·512) are legal in the positions reached (kernel evaluation) -/
theorem block_99 : blockOk 512 99 = true := by decide +kernel
set_option maxRecDepth 1000000 in
/-- the moves with table index in [100·512, 101·512) are legal in the positions reached (kernel evaluation) -/
theorem block_100 : blockOk 512 100 = true := by decide +kernel
set_option maxRecDepth 1000000 in
/-- the moves with table index in [101·512, 102·512) are legal in the positions reached (kernel evaluation) -/
theorem block_101 : blockOk 512 101 = true := by decide +kernel
end Chess.Proofs.BookWalk
