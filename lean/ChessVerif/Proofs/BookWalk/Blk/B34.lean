import ChessVerif.Proofs.BookWalk.Defs
namespace Chess.Proofs.BookWalk
set_option maxRecDepth 1000000 in
/-- the moves with table index in [102·512, 103·512) are legal in the positions reached (kernel evaluation) -/
theorem block_102 : blockOk 512 102 = true := by decide +kernel
set_option maxRecDepth 1000000 in
/-- the moves with table index in [103·512, 104·512) are legal in the positions reached (kernel evaluation) -/
theorem block_103 : blockOk 512 103 = true := by decide +kernel
set_option maxRecDepth 1000000 in
/-- the moves with table index in [104·512, 105·512) are legal in the positions reached (kernel evaluation) -/
theorem block_104 : blockOk 512 104 = true := by decide +kernel
end Chess.Proofs.BookWalk
