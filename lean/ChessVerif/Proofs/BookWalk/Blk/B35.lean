import ChessVerif.Proofs.BookWalk.Defs
namespace Chess.Proofs.BookWalk
set_option maxRecDepth 1000000 in
/-- the moves with table index in [105·512, 106·512) are legal in the positions reached (kernel evaluation) -/
theorem block_105 : blockOk 512 105 = true := by decide +kernel
set_option maxRecDepth 1000000 in
/-- the moves with table index in [106·512, 107·512) are legal in the positions reached (kernel evaluation) -/
theorem block_106 : blockOk 512 106 = true := by decide +kernel
set_option maxRecDepth 1000000 in
/-- the moves with table index in [107·512, 108·512) are legal in the positions reached (kernel evaluation) -/
theorem block_107 : blockOk 512 107 = true := by decide +kernel
end Chess.Proofs.BookWalk
