import ChessVerif.Proofs.BookWalk.Defs
namespace Chess.Proofs.BookWalk
set_option maxRecDepth 1000000 in
/-- the moves with table index in [108·512, 109·512) are legal in the positions reached (kernel evaluation) -/
theorem block_108 : blockOk 512 108 = true := by decide +kernel
set_option maxRecDepth 1000000 in
/-- the moves with table index in [109·512, 110·512) are legal in the positions reached (kernel evaluation) -/
theorem block_109 : blockOk 512 109 = true := by decide +kernel
set_option maxRecDepth 1000000 in
/-- the moves with table index in [110·512, 111·512) are legal in the positions reached (kernel evaluation) -/
theorem block_110 : blockOk 512 110 = true := by decide +kernel
end Chess.Proofs.BookWalk
