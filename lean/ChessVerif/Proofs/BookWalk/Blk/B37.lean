import ChessVerif.Proofs.BookWalk.Defs
namespace Chess.Proofs.BookWalk
set_option maxRecDepth 1000000 in
/-- the moves with table index in [111·512, 112·512) are legal in the positions reached (kernel evaluation) -/
theorem block_111 : blockOk 512 111 = true := by decide +kernel
set_option maxRecDepth 1000000 in
/-- the moves with table index in [112·512, 113·512) are legal in the positions reached (kernel evaluation) -/
theorem block_112 : blockOk 512 112 = true := by decide +kernel
set_option maxRecDepth 1000000 in
/-- the moves with table index in [113·512, 114·512) are legal in the positions reached (kernel evaluation) -/
theorem block_113 : blockOk 512 113 = true := by decide +kernel
end Chess.Proofs.BookWalk
