import ChessVerif.Proofs.BookWalk.Defs
namespace Chess.Proofs.BookWalk
set_option maxRecDepth 1000000 in
/-- the moves with table index in [114·512, 115·512) are legal in the positions reached (kernel evaluation) -/
theorem block_114 : blockOk 512 114 = true := by decide +kernel
set_option maxRecDepth 1000000 in
/-- the moves with table index in [115·512, 116·512) are legal in the positions reached (kernel evaluation) -/
theorem block_115 : blockOk 512 115 = true := by decide +kernel
set_option maxRecDepth 1000000 in
/-- the moves with table index in [116·512, 117·512) are legal in the positions reached (kernel evaluation) -/
theorem block_116 : blockOk 512 116 = true := by decide +kernel
end Chess.Proofs.BookWalk
