import ChessVerif.Proofs.BookWalk.Defs
namespace Chess.Proofs.BookWalk
set_option maxRecDepth 1000000 in
/-- the moves with table index in [117·512, 118·512) are legal in the positions reached (kernel evaluation) -/
theorem block_117 : blockOk 512 117 = true := by decide +kernel
set_option maxRecDepth 1000000 in
/-- the moves with table index in [118·512, 119·512) are legal in the positions reached (kernel evaluation) -/
theorem block_118 : blockOk 512 118 = true := by decide +kernel
set_option maxRecDepth 1000000 in
/-- the moves with table index in [119·512, 120·512) are legal in the positions reached (kernel evaluation) -/
theorem block_119 : blockOk 512 119 = true := by decide +kernel
end Chess.Proofs.BookWalk
