import ChessVerif.Proofs.BookWalk.Defs
namespace Chess.Proofs.BookWalk
set_option maxRecDepth 1000000 in
/-- the moves with table index in [120·512, 121·512) are legal in the positions reached (kernel evaluation) -/
theorem block_120 : blockOk 512 120 = true := by decide +kernel
set_option maxRecDepth 1000000 in
/-- the moves with table index in [121·512, 122·512) are legal in the positions reached (kernel evaluation) -/
theorem block_121 : blockOk 512 121 = true := by decide +kernel
set_option maxRecDepth 1000000 in
/-- the moves with table index in [122·512, 123·512) are legal in the positions reached (kernel evaluation) -/
theorem block_122 : blockOk 512 122 = true := by decide +kernel
end Chess.Proofs.BookWalk
