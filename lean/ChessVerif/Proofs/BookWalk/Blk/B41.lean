import ChessVerif.Proofs.BookWalk.Defs
namespace Chess.Proofs.BookWalk
set_option maxRecDepth 1000000 in
/-- the moves with table index in [123·512, 124·512) are legal in the positions reached (kernel evaluation) -/
theorem block_123 : blockOk 512 123 = true := by decide +kernel
set_option maxRecDepth 1000000 in
/-- the moves with table index in [124·512, 125·512) are legal in the positions reached (kernel evaluation) -/
theorem block_124 : blockOk 512 124 = true := by decide +kernel
set_option maxRecDepth 1000000 in
/-- the moves with table index in [125·512, 126·512) are legal in the positions reached (kernel evaluation) -/
theorem block_125 : blockOk 512 125 = true := by decide +kernel
end Chess.Proofs.BookWalk
