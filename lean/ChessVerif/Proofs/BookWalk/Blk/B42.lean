import ChessVerif.Proofs.BookWalk.Defs
namespace Chess.Proofs.BookWalk
set_option maxRecDepth 1000000 in
/-- the moves with table index in [126·512, 127·512) are legal in the positions reached (kernel evaluation) -/
theorem block_126 : blockOk 512 126 = true := by decide +kernel
set_option maxRecDepth 1000000 in
/-- the moves with table index in [127·512, 128·512) are legal in the positions reached (kernel evaluation) -/
theorem block_127 : blockOk 512 127 = true := by decide +kernel
set_option maxRecDepth 1000000 in
/-- the moves with table index in [128·512, 129·512) are legal in the positions reached (kernel evaluation) -/
theorem block_128 : blockOk 512 128 = true := by decide +kernel
end Chess.Proofs.BookWalk
