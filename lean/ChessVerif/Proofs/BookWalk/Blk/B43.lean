import ChessVerif.Proofs.BookWalk.Defs
namespace Chess.Proofs.BookWalk
set_option maxRecDepth 1000000 in
/-- the moves with table index in [129·512, 130·512) are legal in the positions reached (kernel evaluation) -/
theorem block_129 : blockOk 512 129 = true := by decide +kernel
set_option maxRecDepth 1000000 in
/-- the moves with table index in [130·512, 131·512) are legal in the positions reached (kernel evaluation) -/
theorem block_130 : blockOk 512 130 = true := by decide +kernel
set_option maxRecDepth 1000000 in
/-- the moves with table index in [131·512, 132·512) are legal in the positions reached (kernel evaluation) -/
theorem block_131 : blockOk 512 131 = true := by decide +kernel
end Chess.Proofs.BookWalk
