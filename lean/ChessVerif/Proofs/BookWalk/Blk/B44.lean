import ChessVerif.Proofs.BookWalk.Defs
namespace Chess.Proofs.BookWalk
set_option maxRecDepth 1000000 in
/-- the moves with table index in [132·512, 133·512) are legal in the positions reached (kernel evaluation) -/
theorem block_132 : blockOk 512 132 = true := by decide +kernel
set_option maxRecDepth 1000000 in
/-- the moves with table index in [133·512, 134·512) are legal in the positions reached (kernel evaluation) -/
theorem block_133 : blockOk 512 133 = true := by decide +kernel
set_option maxRecDepth 1000000 in
/-- the moves with table index in [134·512, 135·512) are legal in the positions reached (kernel evaluation) -/
theorem block_134 : blockOk 512 134 = true := by decide +kernel
end Chess.Proofs.BookWalk
