import ChessVerif.Proofs.BookWalk.Defs
namespace Chess.Proofs.BookWalk
set_option maxRecDepth 1000000 in
/-- the moves with table index in [135·512, 136·512) are legal in the positions reached (kernel evaluation) -/
theorem block_135 : blockOk 512 135 = true := by decide +kernel
set_option maxRecDepth 1000000 in
/-- the moves with table index in [136·512, 137·512) are legal in the positions reached (kernel evaluation) -/
theorem block_136 : blockOk 512 136 = true := by decide +kernel
set_option maxRecDepth 1000000 in
/-- the moves with table index in [137·512, 138·512) are legal in the positions reached (kernel evaluation) -/
theorem block_137 : blockOk 512 137 = true := by decide +kernel
end Chess.Proofs.BookWalk
