import ChessVerif.Proofs.BookWalk.Defs
namespace Chess.Proofs.BookWalk
set_option maxRecDepth 1000000 in
/-- the moves with table index in [138·512, 139·512) are legal in the positions reached (kernel evaluation) -/
theorem block_138 : blockOk 512 138 = true := by decide +kernel
set_option maxRecDepth 1000000 in
/-- the moves with table index in [139·512, 140·512) are legal in the positions reached (kernel evaluation) -/
theorem block_139 : blockOk 512 139 = true := by decide +kernel
set_option maxRecDepth 1000000 in
/-- the moves with table index in [140·512, 141·512) are legal in the positions reached (kernel evaluation) -/
theorem block_140 : blockOk 512 140 = true := by decide +kernel
end Chess.Proofs.BookWalk
