import ChessVerif.Proofs.BookWalk.Defs
namespace Chess.Proofs.BookWalk
set_option maxRecDepth 1000000 in
/-- the moves with table index in [141·512, 142·512) are legal in the positions reached (kernel evaluation) -/
theorem block_141 : blockOk 512 141 = true := by decide +kernel
set_option maxRecDepth 1000000 in
/-- the moves with table index in [142·512, 143·512) are legal in the positions reached (kernel evaluation) -/
theorem block_142 : blockOk 512 142 = true := by decide +kernel
set_option maxRecDepth 1000000 in
/-- the moves with table index in [143·512, 144·512) are legal in the positions reached (kernel evaluation) -/
theorem block_143 : blockOk 512 143 = true := by decide +kernel
end Chess.Proofs.BookWalk
