import ChessVerif.Proofs.BookWalk.Defs
namespace Chess.Proofs.BookWalk
set_option maxRecDepth 1000000 in
/-- the moves with table index in [144·512, 145·512) are legal in the positions reached (kernel evaluation) -/
theorem block_144 : blockOk 512 144 = true := by decide +kernel
set_option maxRecDepth 1000000 in
/-- the moves with table index in [145·512, 146·512) are legal in the positions reached (kernel evaluation) -/
theorem block_145 : blockOk 512 145 = true := by decide +kernel
set_option maxRecDepth 1000000 in
/-- the moves with table index in [146·512, 147·512) are legal in the positions reached (kernel evaluation) -/
theorem block_146 : blockOk 512 146 = true := by decide +kernel
end Chess.Proofs.BookWalk
