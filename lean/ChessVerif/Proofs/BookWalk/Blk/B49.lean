import ChessVerif.Proofs.BookWalk.Defs
namespace Chess.Proofs.BookWalk
set_option maxRecDepth 1000000 in
/-- the moves with table index in [147·512, 148·512) are legal in the positions reached (kernel evaluation) -/
theorem block_147 : blockOk 512 147 = true := by decide +kernel
set_option maxRecDepth 1000000 in
/-- the moves with table index in [148·512, 149·512) are legal in the positions reached (kernel evaluation) -/
theorem block_148 : blockOk 512 148 = true := by decide +kernel
set_option maxRecDepth 1000000 in
/-- the moves with table index in [149·512, 150·512) are legal in the positions reached (kernel evaluation) -/
theorem block_149 : blockOk 512 149 = true := by decide +kernel
end Chess.Proofs.BookWalk
