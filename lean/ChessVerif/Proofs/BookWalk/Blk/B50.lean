import ChessVerif.Proofs.BookWalk.Defs
namespace Chess.Proofs.BookWalk
set_option maxRecDepth 1000000 in
/-- the moves with table index in [150·512, 151·512) are legal in the positions reached (kernel evaluation) -/
theorem block_150 : blockOk 512 150 = true := by decide +kernel
set_option maxRecDepth 1000000 in
/-- the moves with table index in [151·512, 152·512) are legal in the positions reached (kernel evaluation) -/
theorem block_151 : blockOk 512 151 = true := by decide +kernel
set_option maxRecDepth 1000000 in
/-- the moves with table index in [152·512, 153·512) are legal in the positions reached (kernel evaluation) -/
theorem block_152 : blockOk 512 152 = true := by decide +kernel
end Chess.Proofs.BookWalk
