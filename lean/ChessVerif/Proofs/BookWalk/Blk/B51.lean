import ChessVerif.Proofs.BookWalk.Defs
namespace Chess.Proofs.BookWalk
set_option maxRecDepth 1000000 in
/-- the moves with table index in [153·512, 154·512) are legal in the positions reached (kernel evaluation) -/
theorem block_153 : blockOk 512 153 = true := by decide +kernel
set_option maxRecDepth 1000000 in
/-- the moves with table index in [154·512, 155·512) are legal in the positions reached (kernel evaluation) -/
theorem block_154 : blockOk 512 154 = true := by decide +kernel
set_option maxRecDepth 1000000 in
/-- the moves with table index in [155·512, 156·512) are legal in the positions reached (kernel evaluation) -/
theorem block_155 : blockOk 512 155 = true := by decide +kernel
end Chess.Proofs.BookWalk
