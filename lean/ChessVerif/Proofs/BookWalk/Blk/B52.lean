import ChessVerif.Proofs.BookWalk.Defs
namespace Chess.Proofs.BookWalk
set_option maxRecDepth 1000000 in
/-- the moves with table index in [156·512, 157·512) are legal in the positions reached (kernel evaluation) -/
theorem block_156 : blockOk 512 156 = true := by decide +kernel
set_option maxRecDepth 1000000 in
/-- the moves with table index in [157·512, 158·512) are legal in the positions reached (kernel evaluation) -/
theorem block_157 : blockOk 512 157 = true := by decide +kernel
set_option maxRecDepth 1000000 in
/-- the moves with table index in [158·512, 159·512) are legal in the positions reached (kernel evaluation) -/
theorem block_158 : blockOk 512 158 = true := by decide +kernel
end Chess.Proofs.BookWalk
