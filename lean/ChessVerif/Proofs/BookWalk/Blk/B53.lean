import ChessVerif.Proofs.BookWalk.Defs
namespace Chess.Proofs.BookWalk
set_option maxRecDepth 1000000 in
/-- the moves with table index in [159·512, 160·512) are legal in the positions reached (kernel evaluation) -/
theorem block_159 : blockOk 512 159 = true := by decide +kernel
set_option maxRecDepth 1000000 in
/-- the moves with table index in [160·512, 161·512) are legal in the positions reached (kernel evaluation) -/
theorem block_160 : blockOk 512 160 = true := by decide +kernel
set_option maxRecDepth 1000000 in
/-- the moves with table index in [161·512, 162·512) are legal in the positions reached (kernel evaluation) -/
theorem block_161 : blockOk 512 161 = true := by decide +kernel
end Chess.Proofs.BookWalk
