import ChessVerif.Proofs.BookWalk.Defs
namespace Chess.Proofs.BookWalk
set_option maxRecDepth 1000000 in
/-- the moves with table index in [162·512, 163·512) are legal in the positions reached (kernel evaluation) -/
theorem block_162 : blockOk 512 162 = true := by decide +kernel
set_option maxRecDepth 1000000 in
/-- the moves with table index in [163·512, 164·512) are legal in the positions reached (kernel evaluation) -/
theorem block_163 : blockOk 512 163 = true := by decide +kernel
set_option maxRecDepth 1000000 in
/-- the moves with table index in [164·512, 165·512) are legal in the positions reached (kernel evaluation) -/
theorem block_164 : blockOk 512 164 = true := by decide +kernel
end Chess.Proofs.BookWalk
