import ChessVerif.Proofs.BookWalk.Defs
namespace Chess.Proofs.BookWalk
set_option maxRecDepth 1000000 in
/-- the moves with table index in [165·512, 166·512) are legal in the positions reached (kernel evaluation) -/
theorem block_165 : blockOk 512 165 = true := by decide +kernel
set_option maxRecDepth 1000000 in
/-- the moves with table index in [166·512, 167·512) are legal in the positions reached (kernel evaluation) -/
theorem block_166 : blockOk 512 166 = true := by decide +kernel
set_option maxRecDepth 1000000 in
/-- the moves with table index in [167·512, 168·512) are legal in the positions reached (kernel evaluation) -/
theorem block_167 : blockOk 512 167 = true := by decide +kernel
end Chess.Proofs.BookWalk
