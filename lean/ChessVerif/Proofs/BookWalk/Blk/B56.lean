import ChessVerif.Proofs.BookWalk.Defs
namespace Chess.Proofs.BookWalk
set_option maxRecDepth 1000000 in
/-- the moves with table index in [168·512, 169·512) are legal in the positions reached (kernel evaluation) -/
theorem block_168 : blockOk 512 168 = true := by decide +kernel
set_option maxRecDepth 1000000 in
/-- the moves with table index in [169·512, 170·512) are legal in the positions reached (kernel evaluation) -/
theorem block_169 : blockOk 512 169 = true := by decide +kernel
set_option maxRecDepth 1000000 in
/-- the moves with table index in [170·512, 171·512) are legal in the positions reached (kernel evaluation) -/
theorem block_170 : blockOk 512 170 = true := by decide +kernel
end Chess.Proofs.BookWalk
