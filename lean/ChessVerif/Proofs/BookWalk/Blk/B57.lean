import ChessVerif.Proofs.BookWalk.Defs
namespace Chess.Proofs.BookWalk
set_option maxRecDepth 1000000 in
/-- the moves with table index in [171·512, 172·512) are legal in the positions reached (kernel evaluation) -/
theorem block_171 : blockOk 512 171 = true := by decide +kernel
set_option maxRecDepth 1000000 in
/-- the moves with table index in [172·512, 173·512) are legal in the positions reached (kernel evaluation) -/
theorem block_172 : blockOk 512 172 = true := by decide +kernel
set_option maxRecDepth 1000000 in
/-- the moves with table index in [173·512, 174·512) are legal in the positions reached (kernel evaluation) -/
theorem block_173 : blockOk 512 173 = true := by decide +kernel
end Chess.Proofs.BookWalk
