import ChessVerif.Proofs.BookWalk.Defs
namespace Chess.Proofs.BookWalk
set_option maxRecDepth 1000000 in
/-- the moves with table index in [174·512, 175·512) are legal in the positions reached (kernel evaluation) -/
theorem block_174 : blockOk 512 174 = true := by decide +kernel
set_option maxRecDepth 1000000 in
/-- the moves with table index in [175·512, 176·512) are legal in the positions reached (kernel evaluation) -/
theorem block_175 : blockOk 512 175 = true := by decide +kernel
set_option maxRecDepth 1000000 in
/-- the moves with table index in [176·512, 177·512) are legal in the positions reached (kernel evaluation) -/
theorem block_176 : blockOk 512 176 = true := by decide +kernel
end Chess.Proofs.BookWalk
