import ChessVerif.Proofs.BookWalk.Defs
namespace Chess.Proofs.BookWalk
set_option maxRecDepth 1000000 in
/-- the moves with table index in [177·512, 178·512) are legal in the positions reached (kernel evaluation) -/
theorem block_177 : blockOk 512 177 = true := by decide +kernel
set_option maxRecDepth 1000000 in
/-- the moves with table index in [178·512, 179·512) are legal in the positions reached (kernel evaluation) -/
theorem block_178 : blockOk 512 178 = true := by decide +kernel
set_option maxRecDepth 1000000 in
/-- the moves with table index in [179·512, 180·512) are legal in the positions reached (kernel evaluation) -/
theorem block_179 : blockOk 512 179 = true := by decide +kernel
end Chess.Proofs.BookWalk
