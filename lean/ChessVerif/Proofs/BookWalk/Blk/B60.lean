import ChessVerif.Proofs.BookWalk.Defs
namespace Chess.Proofs.BookWalk
set_option maxRecDepth 1000000 in
/-- the moves with table index in [180·512, 181·512) are legal in the positions reached (kernel evaluation) -/
theorem block_180 : blockOk 512 180 = true := by decide +kernel
set_option maxRecDepth 1000000 in
/-- the moves with table index in [181·512, 182·512) are legal in the positions reached (kernel evaluation) -/
theorem block_181 : blockOk 512 181 = true := by decide +kernel
set_option maxRecDepth 1000000 in
/-- the moves with table index in [182·512, 183·512) are legal in the positions reached (kernel evaluation) -/
theorem block_182 : blockOk 512 182 = true := by decide +kernel
end Chess.Proofs.BookWalk
