import ChessVerif.Proofs.BookWalk.Defs
namespace Chess.Proofs.BookWalk
set_option maxRecDepth 1000000 in
/-- the moves with table index in [183·512, 184·512) are legal in the positions reached (kernel evaluation) -/
theorem block_183 : blockOk 512 183 = true := by decide +kernel
set_option maxRecDepth 1000000 in
/-- the moves with table index in [184·512, 185·512) are legal in the positions reached (kernel evaluation) -/
theorem block_184 : blockOk 512 184 = true := by decide +kernel
set_option maxRecDepth 1000000 in
/-- the moves with table index in [185·512, 186·512) are legal in the positions reached (kernel evaluation) -/
theorem block_185 : blockOk 512 185 = true := by decide +kernel
end Chess.Proofs.BookWalk
