import ChessVerif.Proofs.BookWalk.Defs
namespace Chess.Proofs.BookWalk
set_option maxRecDepth 1000000 in
/-- the moves with table index in [186·512, 187·512) are legal in the positions reached (kernel evaluation) -/
theorem block_186 : blockOk 512 186 = true := by decide +kernel
set_option maxRecDepth 1000000 in
/-- the moves with table index in [187·512, 188·512) are legal in the positions reached (kernel evaluation) -/
theorem block_187 : blockOk 512 187 = true := by decide +kernel
set_option maxRecDepth 1000000 in
/-- the moves with table index in [188·512, 189·512) are legal in the positions reached (kernel evaluation) -/
theorem block_188 : blockOk 512 188 = true := by decide +kernel
end Chess.Proofs.BookWalk
