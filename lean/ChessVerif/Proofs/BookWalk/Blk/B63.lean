import ChessVerif.Proofs.BookWalk.Defs
namespace Chess.Proofs.BookWalk
set_option maxRecDepth 1000000 in
/-- the moves with table index in [189·512, 190·512) are legal in the positions reached (kernel evaluation) -/
theorem block_189 : blockOk 512 189 = true := by decide +kernel
set_option maxRecDepth 1000000 in
/-- the moves with table index in [190·512, 191·512) are legal in the positions reached (kernel evaluation) -/
theorem block_190 : blockOk 512 190 = true := by decide +kernel
set_option maxRecDepth 1000000 in
/-- the moves with table index in [191·512, 192·512) are legal in the positions reached (kernel evaluation) -/
theorem block_191 : blockOk 512 191 = true := by decide +kernel
end Chess.Proofs.BookWalk
