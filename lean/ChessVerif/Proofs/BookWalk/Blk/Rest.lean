import ChessVerif.Proofs.BookWalk.Defs
namespace Chess.Proofs.BookWalk
set_option maxRecDepth 1000000 in
/-- the moves with table index from 192·512 on are legal in the positions reached (kernel evaluation) -/
theorem rest_ok : restOk 512 192 = true := by decide +kernel
end Chess.Proofs.BookWalk
