import ChessVerif.Proofs.BookWalk.Defs
namespace Chess.Proofs.BookWalk
open Chess.Book
set_option maxRecDepth 1000000 in
/-- board-free: the number of moves in the trie (kernel evaluation) -/
theorem cnt_ok : cntT (root + 1) root = 29036 := by decide +kernel
end Chess.Proofs.BookWalk
