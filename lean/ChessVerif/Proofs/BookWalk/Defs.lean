/-
C17 with no trust in the compiler: the walk of the whole opening book (`Book.walkModel`) is checked by the
kernel alone.

`visit` threads a tally through a depth-first walk and plays every move with the checked
`Board.moveNew`.  Here the walk is separated into

 * a board-free part, evaluated once each (`Nest.lean`, `Count.lean`): `nestOk` (no read outside
   the table, the fuel suffices, and the table is *nested*: the subtree of a move lies strictly
   above the index of its next sibling) and `cntT` (the number of moves of the trie);
 * the legality of every move, cut by *index range*: `okIn lo hi` walks the trie from the root
   with the positions as unevaluated chains of `moveUnchecked`, checks only the moves whose table
   index lies in `[lo, hi)`, returns at once below `lo` and — thanks to the nesting — steps over
   every subtree that lies entirely above `hi`, so reaching a range costs a few hundred table reads
   instead of a walk over everything before it.  The ranges `[k·W, (k+1)·W)`, `k < K`, and the rest
   `[K·W, BOOK_SIZE)` cover every index; there is one kernel evaluation per range (`Blk/*.lean`),
   checked in parallel by `lake`.  Nothing depends on the shape of the book.

The legality test is `quickLegal` (`Quick.lean`) on the mirrored generator (`Fast*.lean`), which
implies `Board.isLegal`.  `visit_of_ok` relates the parts to `visit` for every tally, by induction
on the fuel.
-/
import ChessVerif.Props.C17.Basic
import ChessVerif.Proofs.BookWalk.Quick

namespace Chess.Proofs.BookWalk
open Chess Chess.Book

/-- how `walkModel` plays a move -/
abbrev play : Board → Move → Option Board := fun b m => Board.moveNew b m

/-- `Book.step` over the kernel-friendly accessor `Fast.bookAt` -/
def step' (index : Nat) : Step :=
  if index ≥ Gen.Book.bookSize then .oob else
  let offset := Fast.bookAt index
  if offset = 0 then .done else
  if index < 2 then .oob else
  let mv := Fast.bookAt (index - 1)
  if index < offset + 1 then .done else
  match Sq.ofNat? (mv % 64), Sq.ofNat? ((mv / 64) % 64) with
  | some s, some d => .yield s d (index - 2) (index - (offset + 1))
  | _, _ => .oob

theorem step'_eq : step' = step := by
  funext index
  simp only [step', step, Fast.bookAt_eq] <;> rfl

theorem step_yield_lt (index : Nat) (s d : Sq) (c n : Nat) (h : step index = .yield s d c n) :
    index < Gen.Book.bookSize := by
  unfold step at h
  split at h
  · cases h
  · omega

/-- board-free: walking the trie from `index` meets no read outside the table, the fuel suffices,
every index met is at least `lb`, and the subtree of a move lies above the index of its next sibling -/
def nestOk : Nat → Nat → Nat → Bool
  | 0, _, _ => false
  | fuel + 1, index, lb =>
    decide (lb ≤ index) &&
    match step' index with
    | .done => true
    | .oob => false
    | .yield _ _ children next => nestOk fuel children (next + 1) && nestOk fuel next lb

/-- board-free: the number of moves met when walking the trie from `index` -/
def cntT : Nat → Nat → Nat
  | 0, _ => 0
  | fuel + 1, index =>
    match step' index with
    | .yield _ _ children next => 1 + cntT fuel children + cntT fuel next
    | _ => 0

/-- the moves of the walk from `index` whose table index lies in `[lo, hi)` are legal (by the cheap
test); the successor positions are made with `moveUnchecked` -/
def okIn (lo hi : Nat) : Nat → Nat → Board → Bool
  | 0, _, _ => true
  | fuel + 1, index, b =>
    if index < lo then true else
    match step' index with
    | .yield s d children next =>
      (if hi ≤ next + 1 then true
       else (decide (hi ≤ index) || quickLegal b s d) &&
         okIn lo hi fuel children (Fast.moveUnchecked b ⟨s, d, none⟩)) &&
      okIn lo hi fuel next b
    | _ => true

theorem nestOk_le (fuel index lb : Nat) (h : nestOk fuel index lb = true) : lb ≤ index := by
  cases fuel with
  | zero => simp [nestOk] at h
  | succ fuel =>
    unfold nestOk at h
    rw [Bool.and_eq_true, decide_eq_true_eq] at h
    exact h.1

theorem okIn_below (lo hi fuel index : Nat) (b : Board) (h : index < lo) :
    okIn lo hi fuel index b = true := by
  cases fuel with
  | zero => rfl
  | succ fuel => unfold okIn; rw [if_pos h]

/-- a range below everything that is walked holds trivially -/
theorem okIn_above (lo hi : Nat) (fuel : Nat) : ∀ (index lb : Nat) (b : Board),
    nestOk fuel index lb = true → hi ≤ lb → okIn lo hi fuel index b = true := by
  induction fuel with
  | zero => intro index lb b h; simp [nestOk] at h
  | succ fuel ih =>
    intro index lb b hn hl
    have hle := nestOk_le _ _ _ hn
    unfold nestOk at hn
    unfold okIn
    split
    · rfl
    · cases hst : step' index <;> rw [hst] at hn <;> simp only at hn ⊢
      rename_i s d children next
      simp only [Bool.and_eq_true, decide_eq_true_eq] at hn
      obtain ⟨_, hc, hx⟩ := hn
      have hnx := nestOk_le _ _ _ hx
      rw [ih next lb b hx hl, Bool.and_true]
      split
      · rfl
      · rw [ih children (next + 1) _ hc (by omega), Bool.and_true, Bool.or_eq_true,
          decide_eq_true_eq]
        left; omega

/-- the tally after a clean walk: nothing illegal, nothing out of bounds, no fuel-out, and
nodes/edges advanced by the board-free count -/
def Clean (t r : Tally) (n : Nat) : Prop :=
  r.illegal = t.illegal ∧ r.oob = t.oob ∧ r.fuelOut = t.fuelOut ∧
    r.nodes = t.nodes + n ∧ r.edges = t.edges + n

/-- if the ranges `R` cover every index of the table, the checks give a clean walk -/
theorem visit_of_ok (R : Nat → Nat → Prop)
    (hcov : ∀ i, i < Gen.Book.bookSize → ∃ lo hi, R lo hi ∧ lo ≤ i ∧ i < hi) (fuel : Nat) :
    ∀ (index lb : Nat) (b : Board) (depth : Nat) (t : Tally),
    nestOk fuel index lb = true → (∀ lo hi, R lo hi → okIn lo hi fuel index b = true) →
    Clean t (visit play fuel index b depth t) (cntT fuel index) := by
  induction fuel with
  | zero => intro index lb b depth t h; simp [nestOk] at h
  | succ fuel ih =>
    intro index lb b depth t hn he
    unfold nestOk at hn
    unfold visit cntT
    simp only [step'_eq] at hn ⊢
    cases hst : step index <;> rw [hst] at hn <;> simp only at hn ⊢
    · simp [Clean]
    · simp at hn
    · rename_i s d children next
      have hdec := Props.C17.step_decreases index s d children next hst
      have hlt := step_yield_lt index s d children next hst
      simp only [Bool.and_eq_true, decide_eq_true_eq] at hn
      obtain ⟨_, hc, hx⟩ := hn
      -- what one range says at this node
      have hnode : ∀ lo hi, R lo hi → ¬ index < lo →
          (if hi ≤ next + 1 then true
           else (decide (hi ≤ index) || quickLegal b s d) &&
             okIn lo hi fuel children (Fast.moveUnchecked b ⟨s, d, none⟩)) = true ∧
          okIn lo hi fuel next b = true := by
        intro lo hi hr hlo
        have h := he lo hi hr
        unfold okIn at h
        rw [if_neg hlo, step'_eq, hst] at h
        simp only [Bool.and_eq_true] at h
        exact h
      -- the move is legal
      have hl' : Board.moveNew b ⟨s, d, none⟩ = some (b.moveUnchecked ⟨s, d, none⟩) := by
        obtain ⟨lo, hi, hr, h1, h2⟩ := hcov index hlt
        have h := (hnode lo hi hr (by omega)).1
        rw [if_neg (by omega), Bool.and_eq_true, Bool.or_eq_true, decide_eq_true_eq] at h
        have hq : quickLegal b s d = true := by
          rcases h.1 with h | h
          · omega
          · exact h
        simp [Board.moveNew, isLegal_of_quick b s d hq]
      -- every range holds below the move and after it
      have hcs : ∀ lo hi, R lo hi → okIn lo hi fuel children (b.moveUnchecked ⟨s, d, none⟩) = true := by
        intro lo hi hr
        by_cases hlo : index < lo
        · exact okIn_below _ _ _ _ _ (by omega)
        · have h := (hnode lo hi hr hlo).1
          by_cases hhi : hi ≤ next + 1
          · exact okIn_above lo hi fuel children (next + 1) _ hc hhi
          · rw [if_neg hhi, Bool.and_eq_true, Fast.moveUnchecked_eq] at h
            exact h.2
      have hns : ∀ lo hi, R lo hi → okIn lo hi fuel next b = true := by
        intro lo hi hr
        by_cases hlo : index < lo
        · exact okIn_below _ _ _ _ _ (by omega)
        · exact (hnode lo hi hr hlo).2
      simp only [play, hl']
      have h1 := ih children (next + 1) (b.moveUnchecked ⟨s, d, none⟩) (depth + 1)
        { nodes := t.nodes + 1, edges := t.edges + 1, illegal := t.illegal, oob := t.oob,
          fuelOut := t.fuelOut, digest := mix t.digest depth s d } hc hcs
      have h2 := ih next lb b depth
        (visit play fuel children (b.moveUnchecked ⟨s, d, none⟩) (depth + 1)
          { nodes := t.nodes + 1, edges := t.edges + 1, illegal := t.illegal, oob := t.oob,
            fuelOut := t.fuelOut, digest := mix t.digest depth s d }) hx hns
      unfold Clean at h1 h2 ⊢
      obtain ⟨a1, a2, a3, a4, a5⟩ := h1
      simp only [] at a1 a2 a3 a4 a5
      obtain ⟨b1, b2, b3, b4, b5⟩ := h2
      refine ⟨?_, ?_, ?_, ?_, ?_⟩
      · rw [b1, a1]
      · rw [b2, a2]
      · rw [b3, a3]
      · rw [b4, a4]; omega
      · rw [b5, a5]; omega

/-! ### the cut into ranges -/

/-- the moves with table index in `[k·W, (k+1)·W)` are legal -/
def blockOk (W k : Nat) : Bool := okIn (k * W) ((k + 1) * W) (root + 1) root Board.standard

/-- the moves with table index from `K·W` on are legal -/
def restOk (W K : Nat) : Bool := okIn (K * W) Gen.Book.bookSize (root + 1) root Board.standard

/-- the ranges of `blockOk W k`, `k < K`, and of `restOk W K` -/
def Ranges (W K : Nat) (lo hi : Nat) : Prop :=
  (∃ k, k < K ∧ lo = k * W ∧ hi = (k + 1) * W) ∨ (lo = K * W ∧ hi = Gen.Book.bookSize)

theorem ranges_cover (W K : Nat) (hW : 0 < W) (i : Nat) (hi : i < Gen.Book.bookSize) :
    ∃ lo hi, Ranges W K lo hi ∧ lo ≤ i ∧ i < hi := by
  by_cases h : i < K * W
  · refine ⟨(i / W) * W, (i / W + 1) * W, Or.inl ⟨i / W, ?_, rfl, rfl⟩, ?_, ?_⟩
    · exact (Nat.div_lt_iff_lt_mul hW).2 h
    · exact Nat.div_mul_le_self i W
    · rw [Nat.add_mul, Nat.one_mul]
      exact Nat.lt_div_mul_add hW
  · exact ⟨K * W, Gen.Book.bookSize, Or.inr ⟨rfl, rfl⟩, by omega, hi⟩

/-- assembly: the nesting check, the count and the legality in every range give the two C17 facts -/
theorem walk_of_ok (W K n : Nat) (hW : 0 < W) (hs : nestOk (root + 1) root 0 = true)
    (hc : cntT (root + 1) root = n) (hb : ∀ k, k < K → blockOk W k = true)
    (hr : restOk W K = true) :
    (walkModel.illegal = 0 ∧ walkModel.oob = 0 ∧ walkModel.fuelOut = 0) ∧
      (walkModel.nodes = n + 1 ∧ walkModel.edges = n) := by
  have h := visit_of_ok (Ranges W K) (ranges_cover W K hW) (root + 1) root 0 Board.standard 0
    { nodes := 1 } hs (by
      intro lo hi hR
      rcases hR with ⟨k, hk, rfl, rfl⟩ | ⟨rfl, rfl⟩
      · exact hb k hk
      · exact hr)
  rw [hc] at h
  obtain ⟨a1, a2, a3, a4, a5⟩ := h
  refine ⟨⟨a1, a2, a3⟩, ?_, ?_⟩
  · show (visit play (root + 1) root Board.standard 0 { nodes := 1 }).nodes = n + 1
    rw [a4]; simp only []; omega
  · show (visit play (root + 1) root Board.standard 0 { nodes := 1 }).edges = n
    rw [a5]; simp

end Chess.Proofs.BookWalk
