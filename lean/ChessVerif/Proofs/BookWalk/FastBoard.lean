/-
Kernel-friendly mirror of `Board.moveUnchecked` (`Model/Board.lean`): the same text over the
accessors of `FastLookup.lean`, proved equal to the model's function.
-/
import ChessVerif.Proofs.BookWalk.FastLookup

namespace Chess.Proofs.BookWalk.Fast
open Chess

def scanSliders (occ : BB) (k : Sq) (cands : List Sq) (pinned checkers : BB) (useXor : Bool) : BB × BB :=
  cands.foldl (fun (pc : BB × BB) pos =>
    let between := occ &&& between k pos
    if BB.none between then (pc.1, BB.set pc.2 pos)
    else if BB.count between == 1 then ((if useXor then pc.1 ^^^ between else pc.1 ||| between), pc.2)
    else pc) (pinned, checkers)

theorem scanSliders_eq : scanSliders = Board.scanSliders := by
  funext occ k cands p c u
  simp only [scanSliders, Board.scanSliders, between_eq]

def xorPieces (b : Board) (c : Color) (p : Piece) (diff : BB) : Board :=
  { b with raw := b.raw.xor c p diff,
           zobrist := (BB.toList diff).foldl (fun z s => z ^^^ zobristPiece s p c) b.zobrist }

theorem xorPieces_eq : xorPieces = Board.xorPieces := by
  funext b c p d
  simp only [xorPieces, Board.xorPieces, zobristPiece_eq]

def moveUnchecked (b : Board) (mv : Move) : Board :=
  let turn := b.turn
  let out : Board := { b with ep := none, checkers := 0#64, pinned := 0#64, turn := turn.flip }
  let sourceBB := BB.ofSq mv.source
  let destBB := BB.ofSq mv.dest
  let mvBB := sourceBB ^^^ destBB
  let piece := b.raw.pieceOfUnchecked mv.source
  let captured := b.raw.pieceOf mv.dest
  let out := xorPieces out turn piece mvBB
  let out := match captured with
    | some cap => { xorPieces out turn.flip cap destBB with half := 0 }
    | none => { out with half := satAdd16 out.half 1 }
  let out := { out with full := satAdd16 out.full turn.idx }
  let out := { out with castle := removeForSq (removeForSq out.castle turn.flip mv.dest) turn mv.source }
  let oppKing := b.kingSq turn.flip
  let castles := piece == .king && (mvBB &&& Gen.Consts.castleMoves) == mvBB
  let out :=
    if piece == .knight then
      { out with checkers := out.checkers ^^^ (knightMoves oppKing &&& destBB) }
    else if piece == .pawn then
      let out := { out with half := 0 }
      let out := match mv.piece with
        | some promo =>
          let out := if promo == .knight then
              { out with checkers := out.checkers ^^^ (knightMoves oppKing &&& destBB) } else out
          xorPieces (xorPieces out turn .pawn destBB) turn promo.toPiece destBB
        | none =>
          if (mvBB &&& pawnDoubleMove turn) == mvBB then { out with ep := some mv.dest.file }
          else if some mv.dest == b.epPos then
            xorPieces out turn.flip .pawn (BB.ofSq (Sq.mk mv.dest.file turn.epPawnRank))
          else out
      if mv.piece.isNone then
        { out with checkers := out.checkers ^^^ (pawnAttacksMoves oppKing turn.flip &&& destBB) }
      else out
    else if castles then
      let rookMv := backrankBB turn &&&
        (match Sq.fileSide mv.dest.file with
         | .king => Gen.Consts.rookCastleKingside
         | .queen => Gen.Consts.rookCastleQueenside)
      xorPieces out turn .rook rookMv
    else out
  let pieces := out.raw.color turn
  let bishops := out.raw.bishop ||| out.raw.queen
  let rooks := out.raw.rook ||| out.raw.queen
  let attackers := (bishops &&& pieces &&& bishopRays oppKing) ||| (rooks &&& pieces &&& rookRays oppKing)
  let (pinned, checkers) := scanSliders out.raw.all oppKing (BB.toList attackers) out.pinned out.checkers true
  { out with pinned := pinned, checkers := checkers }

theorem moveUnchecked_eq : moveUnchecked = Board.moveUnchecked := by
  funext b mv
  simp only [moveUnchecked, Board.moveUnchecked, xorPieces_eq, removeForSq_eq, knightMoves_eq,
    pawnDoubleMove_eq, pawnAttacksMoves_eq, backrankBB_eq, bishopRays_eq, rookRays_eq, scanSliders_eq] <;> rfl

end Chess.Proofs.BookWalk.Fast
