/-
Kernel-friendly mirror of the legal-move generator (`Model/MoveGen.lean`) up to `Board.isLegal`:
the same text over the accessors of `FastLookup.lean`, proved equal to the model's functions.
The iterator (`MoveGen.next`, `drain`, `toList`) reads no table and is used as it is.
-/
import ChessVerif.Proofs.BookWalk.FastBoard

namespace Chess.Proofs.BookWalk.Fast
open Chess

def checkMask (b : Board) (inCheck : Bool) (k : Sq) : BB :=
  if inCheck then
    (match BB.pop b.checkers with
     | some (c, _) => between k c
     | none => between k 0) ||| b.checkers
  else BB.full

theorem checkMask_eq : checkMask = Board.checkMask := by
  funext b i k
  simp only [checkMask, Board.checkMask, between_eq] <;> rfl

def pseudoLegals (p : Piece) (src : Sq) (c : Color) (all mask : BB) : BB :=
  match p with
  | .pawn => pawnMoves src c all &&& mask
  | .knight => knightMoves src &&& mask
  | .bishop => bishopMoves src all &&& mask
  | .rook => rookMoves src all &&& mask
  | .queen => (rookMoves src all ||| bishopMoves src all) &&& mask
  | .king => kingMoves src &&& mask

theorem pseudoLegals_eq : pseudoLegals = Board.pseudoLegals := by
  funext p src c all mask
  cases p <;>
    simp only [pseudoLegals, Board.pseudoLegals, pawnMoves_eq, knightMoves_eq, bishopMoves_eq,
      rookMoves_eq, kingMoves_eq]

def genericLegals (b : Board) (p : Piece) (inCheck : Bool) (mask : BB) : List Entry :=
  let all := b.raw.all
  let k := b.kingSq b.turn
  let pieces := b.raw.piece p &&& b.raw.color b.turn
  let cm := checkMask b inCheck k
  let unpinned := Board.pushEntries (BB.toList (pieces &&& ~~~b.pinned))
    (fun src => pseudoLegals p src b.turn all mask &&& cm) (fun _ => false)
  if inCheck || p == .knight then unpinned
  else unpinned ++ Board.pushEntries (BB.toList (pieces &&& b.pinned))
    (fun src => pseudoLegals p src b.turn all mask &&& line src k) (fun _ => false)

theorem genericLegals_eq : genericLegals = Board.genericLegals := by
  funext b p i m
  simp only [genericLegals, Board.genericLegals, checkMask_eq, pseudoLegals_eq, line_eq]

def isSafeAfterEnpassant (b : Board) (k : Sq) (src dest captured : BB) : Bool :=
  let opp := BB.diff (b.raw.color b.turn.flip) captured
  let all := BB.diff (BB.diff b.raw.all src) captured ||| dest
  let queens := b.raw.queen
  let bishops := (b.raw.bishop ||| queens) &&& opp
  let rooks := (b.raw.rook ||| queens) &&& opp
  let knights := b.raw.knight &&& opp
  let pawns := b.raw.pawn &&& opp
  BB.none (bishopMoves k all &&& bishops) &&
  BB.none (rookMoves k all &&& rooks) &&
  BB.none (knightMoves k &&& knights) &&
  BB.none (pawnAttacksMoves k b.turn &&& pawns)

theorem isSafeAfterEnpassant_eq : isSafeAfterEnpassant = Board.isSafeAfterEnpassant := by
  funext b k s d c
  simp only [isSafeAfterEnpassant, Board.isSafeAfterEnpassant, bishopMoves_eq, rookMoves_eq,
    knightMoves_eq, pawnAttacksMoves_eq]

def pawnLegals (b : Board) (inCheck : Bool) (mask : BB) : List Entry :=
  let all := b.raw.all
  let k := b.kingSq b.turn
  let pieces := b.raw.pawn &&& b.raw.color b.turn
  let cm := checkMask b inCheck k
  let seventh : Rank := match b.turn with | .white => 6 | .black => 1
  let promo := fun (src : Sq) => decide (src.rank = seventh)
  let unpinned := Board.pushEntries (BB.toList (pieces &&& ~~~b.pinned))
    (fun src => pseudoLegals .pawn src b.turn all mask &&& cm) promo
  let pinnedE := if inCheck then [] else
    Board.pushEntries (BB.toList (pieces &&& b.pinned))
      (fun src => pseudoLegals .pawn src b.turn all mask &&& line k src) promo
  let ep := match b.ep with
    | none => []
    | some f =>
      let rank := b.turn.epPawnRank
      let files := Lookup.adjacentFiles f
      let dest := BB.ofSq (Sq.mk f b.turn.epCaptureRank)
      let capturePawn := BB.ofSq (Sq.mk f rank)
      if BB.any (dest &&& mask) then
        (BB.toList (BB.ofRank rank &&& files &&& pieces)).filterMap fun src =>
          if isSafeAfterEnpassant b k (BB.ofSq src) dest capturePawn then some ⟨src, dest, false⟩ else none
      else []
  unpinned ++ pinnedE ++ ep

theorem pawnLegals_eq : pawnLegals = Board.pawnLegals := by
  funext b i m
  simp only [pawnLegals, Board.pawnLegals, checkMask_eq, pseudoLegals_eq, line_eq,
    isSafeAfterEnpassant_eq] <;> rfl

def isLegalKingPosition (b : Board) (kp : Sq) : Bool :=
  let queens := b.raw.queen
  let bishopPinners := (b.raw.bishop ||| queens) &&& bishopRays kp
  let rookPinners := (b.raw.rook ||| queens) &&& rookRays kp
  let opp := b.raw.color b.turn.flip
  let pinners := opp &&& (bishopPinners ||| rookPinners)
  let actual := BB.ofSq (b.kingSq b.turn) ^^^ BB.ofSq kp
  let pieces := b.raw.all ^^^ actual
  (BB.toList pinners).all (fun pos => !BB.none (pieces &&& between kp pos)) &&
  BB.none ((kingMoves kp &&& b.raw.king &&& opp) |||
           (knightMoves kp &&& b.raw.knight &&& opp) |||
           (pawnAttacksMoves kp b.turn &&& b.raw.pawn &&& opp))

theorem isLegalKingPosition_eq : isLegalKingPosition = Board.isLegalKingPosition := by
  funext b k
  simp only [isLegalKingPosition, Board.isLegalKingPosition, bishopRays_eq, rookRays_eq, between_eq,
    kingMoves_eq, knightMoves_eq, pawnAttacksMoves_eq]

def kingLegals (b : Board) (inCheck : Bool) (turn : Color) (mask : BB) : List Entry :=
  let all := b.raw.all
  let k := b.kingSq turn
  let pseudo := pseudoLegals .king k turn all mask
  let moves := (BB.toList pseudo).foldl (fun m d => if isLegalKingPosition b d then m else BB.clear m d) pseudo
  let castle := fun (moves : BB) (side : Side) (castleFiles safeFiles : BB) =>
    if !Castle.contains b.castle side turn then moves else
    let backrank := backrankBB turn
    let tiles := castleFiles &&& backrank
    if BB.none (tiles &&& all) then
      let noCheck := safeFiles &&& backrank
      if (BB.toList noCheck).all (fun d => isLegalKingPosition b d) then
        moves ^^^ (tiles &&& Gen.Consts.castleMoves &&& mask)
      else moves
    else moves
  let moves := if inCheck then moves else
    let m1 := castle moves .king Gen.Consts.kingsideCastleFiles Gen.Consts.kingsideCastleSafeFiles
    castle m1 .queen Gen.Consts.queensideCastleFiles Gen.Consts.queensideCastleSafeFiles
  if BB.none moves then [] else [⟨k, moves, false⟩]

theorem kingLegals_eq : kingLegals = Board.kingLegals := by
  funext b i t m
  simp only [kingLegals, Board.kingLegals, pseudoLegals_eq, isLegalKingPosition_eq, backrankBB_eq]

def collectMoves (b : Board) (mask : BB) : List Entry :=
  let mask := ~~~(b.raw.color b.turn) &&& mask
  if BB.none b.checkers then
    pawnLegals b false mask ++ genericLegals b .knight false mask ++ genericLegals b .bishop false mask ++
    genericLegals b .rook false mask ++ genericLegals b .queen false mask ++ kingLegals b false b.turn mask
  else
    (if BB.count b.checkers == 1 then
      pawnLegals b true mask ++ genericLegals b .knight true mask ++ genericLegals b .bishop true mask ++
      genericLegals b .rook true mask ++ genericLegals b .queen true mask
     else []) ++ kingLegals b true b.turn mask

theorem collectMoves_eq : collectMoves = Board.collectMoves := by
  funext b m
  simp only [collectMoves, Board.collectMoves, pawnLegals_eq, genericLegals_eq, kingLegals_eq]

/-- `Board.isLegal` over the mirrored generator -/
def isLegal (b : Board) (mv : Move) : Bool :=
  (MoveGen.toList ⟨collectMoves b BB.full, 0, BB.full, 0⟩).contains mv

theorem isLegal_eq : isLegal = Board.isLegal := by
  funext b mv
  simp only [isLegal, Board.isLegal, Board.legalsList, MoveGen.legals, collectMoves_eq]

end Chess.Proofs.BookWalk.Fast
