/-
Kernel-friendly mirrors of the table accessors of `Model/Lookup.lean`.

`Array.getD a i d` unfolds to `List.get a.toList ⟨i, h⟩`, whose compiled dependent match costs the
kernel about 0.13 ms *per index level* (measured), i.e. several milliseconds for one read of a
64-entry table and more than 10 ms for one read of the 100-literal rook table.  `List.getD` on the
same list costs a few microseconds per level.  The mirrors below read `a.toList.getD i d`; each is
proved equal to the model's accessor, so the mirror of the legality check is *equal* to the model's.
-/
import ChessVerif.Model.Book

namespace Chess.Proofs.BookWalk.Fast
open Chess

/-- `Array.getD` through the list -/
def agetD {α : Type} (a : Array α) (i : Nat) (d : α) : α := a.toList.getD i d

theorem agetD_eq {α : Type} : @agetD α = @Array.getD α := by
  funext a i d
  cases a with
  | mk l =>
    unfold agetD Array.getD
    simp only [List.getD_eq_getElem?_getD, List.size_toArray]
    split
    · rename_i h
      simp [h, Array.getInternal]
    · rename_i h
      simp at h
      simp [h]

def tbl1 (t : Array Nat) (i : Nat) : BB := Lookup.bb (agetD t i 0)
def tbl2 (t : Array (Array Nat)) (i j : Nat) : BB := Lookup.bb (agetD (agetD t i #[]) j 0)

theorem tbl1_eq : tbl1 = Lookup.tbl1 := by
  funext t i; simp only [tbl1, Lookup.tbl1, agetD_eq]
theorem tbl2_eq : tbl2 = Lookup.tbl2 := by
  funext t i j; simp only [tbl2, Lookup.tbl2, agetD_eq]

def rookRays (s : Sq) : BB := tbl1 Gen.Tables.rookRays s.val
def bishopRays (s : Sq) : BB := tbl1 Gen.Tables.bishopRays s.val
def knightMoves (s : Sq) : BB := tbl1 Gen.Tables.knightMoves s.val
def kingMoves (s : Sq) : BB := tbl1 Gen.Tables.kingMoves s.val
def pawnAttacksMoves (s : Sq) (c : Color) : BB := tbl2 Gen.Tables.pawnAttacks s.val c.idx
def pawnAttacks (s : Sq) (c : Color) (all : BB) : BB := pawnAttacksMoves s c &&& all
def pawnQuiets (s : Sq) (c : Color) (all : BB) : BB :=
  let cur := BB.ofSq s
  let next := match c with
    | .white => BB.shiftUp cur
    | .black => BB.shiftDown cur
  if BB.any (next &&& all) then BB.empty
  else tbl2 Gen.Tables.pawnQuiets s.val c.idx &&& ~~~all
def pawnMoves (s : Sq) (c : Color) (all : BB) : BB := pawnQuiets s c all ||| pawnAttacks s c all
def between (a b : Sq) : BB := tbl2 Gen.Tables.between a.val b.val
def line (a b : Sq) : BB := tbl2 Gen.Tables.line a.val b.val

theorem rookRays_eq : rookRays = Lookup.rookRays := by
  funext s; simp only [rookRays, Lookup.rookRays, tbl1_eq]
theorem bishopRays_eq : bishopRays = Lookup.bishopRays := by
  funext s; simp only [bishopRays, Lookup.bishopRays, tbl1_eq]
theorem knightMoves_eq : knightMoves = Lookup.knightMoves := by
  funext s; simp only [knightMoves, Lookup.knightMoves, tbl1_eq]
theorem kingMoves_eq : kingMoves = Lookup.kingMoves := by
  funext s; simp only [kingMoves, Lookup.kingMoves, tbl1_eq]
theorem pawnAttacksMoves_eq : pawnAttacksMoves = Lookup.pawnAttacksMoves := by
  funext s c; simp only [pawnAttacksMoves, Lookup.pawnAttacksMoves, tbl2_eq]
theorem pawnAttacks_eq : pawnAttacks = Lookup.pawnAttacks := by
  funext s c a; simp only [pawnAttacks, Lookup.pawnAttacks, pawnAttacksMoves_eq]
theorem pawnQuiets_eq : pawnQuiets = Lookup.pawnQuiets := by
  funext s c a; simp only [pawnQuiets, Lookup.pawnQuiets, tbl2_eq] <;> rfl
theorem pawnMoves_eq : pawnMoves = Lookup.pawnMoves := by
  funext s c a; simp only [pawnMoves, Lookup.pawnMoves, pawnQuiets_eq, pawnAttacks_eq]
theorem between_eq : between = Lookup.between := by
  funext a b; simp only [between, Lookup.between, tbl2_eq]
theorem line_eq : line = Lookup.line := by
  funext a b; simp only [line, Lookup.line, tbl2_eq]

def solAt (chunks : Array Nat) (prefixLen : Nat) (i : Nat) : BB :=
  if i < prefixLen then Lookup.bb ((agetD chunks (i / 1024) 0) >>> (64 * (i % 1024))) else 0#64

theorem solAt_eq : solAt = Lookup.solAt := by
  funext c p i; simp only [solAt, Lookup.solAt, agetD_eq]

def magicOf (t : Array (Nat × Nat × Nat × Nat)) (s : Sq) : Lookup.Magic :=
  let m := agetD t s.val (0, 0, 0, 0)
  ⟨Lookup.bb m.1, Lookup.bb m.2.1, m.2.2.1, m.2.2.2⟩

theorem magicOf_eq : magicOf = Lookup.magicOf := by
  funext t s; simp only [magicOf, Lookup.magicOf, agetD_eq]

def rookMoves (s : Sq) (occ : BB) : BB :=
  solAt Gen.RookMagic.chunks Gen.RookMagic.prefixLen (Lookup.magicIndex (magicOf Gen.RookMagic.magics s) occ)
def bishopMoves (s : Sq) (occ : BB) : BB :=
  solAt Gen.BishopMagic.chunks Gen.BishopMagic.prefixLen (Lookup.magicIndex (magicOf Gen.BishopMagic.magics s) occ)

theorem rookMoves_eq : rookMoves = Lookup.rookMoves := by
  funext s o
  simp only [rookMoves, Lookup.rookMoves, Lookup.rookIndex, Lookup.rookMagic, solAt_eq, magicOf_eq]
theorem bishopMoves_eq : bishopMoves = Lookup.bishopMoves := by
  funext s o
  simp only [bishopMoves, Lookup.bishopMoves, Lookup.bishopIndex, Lookup.bishopMagic, solAt_eq, magicOf_eq]

def zobristPiece (s : Sq) (p : Piece) (c : Color) : BB :=
  Lookup.bb (agetD (agetD (agetD Gen.Zobrist.piece c.idx #[]) s.val #[]) p.idx 0)
theorem zobristPiece_eq : zobristPiece = Lookup.zobristPiece := by
  funext s p c; simp only [zobristPiece, Lookup.zobristPiece, agetD_eq]

def backrankBB (c : Color) : BB := agetD Gen.Consts.backrankBb c.idx 0#64
def pawnDoubleMove (c : Color) : BB := agetD Gen.Consts.pawnDoubleMove c.idx 0#64
theorem backrankBB_eq : backrankBB = Lookup.backrankBB := by
  funext c; simp only [backrankBB, Lookup.backrankBB, agetD_eq]
theorem pawnDoubleMove_eq : pawnDoubleMove = Lookup.pawnDoubleMove := by
  funext c; simp only [pawnDoubleMove, Lookup.pawnDoubleMove, agetD_eq]

def removeForSq (cr : Nat) (c : Color) (s : Sq) : Nat :=
  cr &&& (agetD (agetD Gen.Consts.castleRightsPerSq c.idx #[]) s.val 255)
theorem removeForSq_eq : removeForSq = Castle.removeForSq := by
  funext cr c s; simp only [removeForSq, Castle.removeForSq, agetD_eq]

/-- one `u16` of `BOOK` -/
def bookAt (i : Nat) : Nat :=
  if i < Gen.Book.bookSize then ((agetD Gen.Book.chunks (i / 4096) 0) >>> (16 * (i % 4096))) % 65536 else 0
theorem bookAt_eq : bookAt = Lookup.bookAt := by
  funext i; simp only [bookAt, Lookup.bookAt, agetD_eq]

end Chess.Proofs.BookWalk.Fast
