import ChessVerif.Proofs.BookWalk.Defs
namespace Chess.Proofs.BookWalk
open Chess.Book
set_option maxRecDepth 1000000 in
/-- board-free: no read outside the table, the fuel suffices, the table is nested (kernel evaluation) -/
theorem nest_ok : nestOk (root + 1) root 0 = true := by decide +kernel
end Chess.Proofs.BookWalk
