/-
A cheap sufficient test for `Board.isLegal b ⟨s, d, none⟩`.

`Board.isLegal` drains the move iterator (`MoveGen.toList`, fuel 5000) and searches the list; the
kernel pays about 15 ms for every yielded move.  The iterator yields what its entries denote
(`MoveGen.next_spec`), so a non-promotion move is found as soon as one of the first 18 entries
(`MOVE_LIST_CAPACITY`; 18 × 256 < 5000, so the fuel cannot run out before) has its source, is not
a promotion entry and contains its destination.  `quickLegal` tests exactly that, on the mirrored
generator, evaluating the entry list only as far as the first hit.
-/
import ChessVerif.Proofs.Iter
import ChessVerif.Proofs.BookWalk.FastGen

namespace Chess.Proofs.BookWalk
open Chess Chess.MoveGen

/-- the entry yields the plain move `s → d` -/
def entryHas (s d : Sq) (e : Entry) : Bool := e.src == s && !e.promotion && BB.mem e.moves d

/-- one of the first 18 entries yields the plain move `s → d` -/
def quickLegal (b : Board) (s d : Sq) : Bool :=
  ((Fast.collectMoves b BB.full).take 18).any (entryHas s d)

/-- without the fuel condition: the drained list is a prefix of the denotation -/
theorem drain_eq_take (fuel : Nat) (g : MoveGen) (hg : Good g) :
    drain fuel g = (mvsAt g).take fuel := by
  induction fuel generalizing g with
  | zero => simp [drain]
  | succ fuel ih =>
    obtain ⟨h1, h2, h3⟩ := next_spec g hg
    unfold drain
    cases hm : mvsAt g with
    | nil =>
      rw [hm] at h1
      have : (next g) = (none, (next g).2) := Prod.ext h1 rfl
      rw [this]
      rfl
    | cons m t =>
      rw [hm] at h1 h2
      have : (next g) = (some m, (next g).2) := Prod.ext h1 rfl
      rw [this]
      simp only
      rw [ih (next g).2 h3, h2]
      rfl

theorem flatMap_length_le {α β} (f : α → List β) (k : Nat) (l : List α)
    (h : ∀ a ∈ l, (f a).length ≤ k) : (l.flatMap f).length ≤ l.length * k := by
  induction l with
  | nil => simp
  | cons a l ih =>
    rw [List.flatMap_cons, List.length_append, List.length_cons, Nat.succ_mul]
    have := h a List.mem_cons_self
    have := ih (fun a' ha' => h a' (List.mem_cons_of_mem _ ha'))
    omega

theorem eMoves_length_le (e : Entry) (mask : BB) : (eMoves e mask).length ≤ 256 := by
  rw [eMoves_length, BB.count_eq_length_toList]
  have := BB.length_toList_le (e.moves &&& mask)
  split <;> omega

theorem mem_eMoves_of_entryHas (s d : Sq) (e : Entry) (h : entryHas s d e = true) :
    (⟨s, d, none⟩ : Move) ∈ eMoves e BB.full := by
  unfold entryHas at h
  simp only [Bool.and_eq_true, beq_iff_eq, Bool.not_eq_true'] at h
  obtain ⟨⟨hs, hp⟩, hd⟩ := h
  rw [eMoves_eq, List.mem_flatMap]
  refine ⟨d, ?_, ?_⟩
  · rw [BB.mem_toList, BB.mem_and', hd, BB.mem_full]; rfl
  · unfold destMoves
    rw [hp, hs]
    simp

theorem mem_take_of_prefix {α} (x : α) (X A Y : List α) (n : Nat) (hx : x ∈ A)
    (hn : (X ++ A).length ≤ n) : x ∈ (X ++ A ++ Y).take n := by
  have : n = (X ++ A).length + (n - (X ++ A).length) := by omega
  rw [this, List.take_length_add_append]
  apply List.mem_append_left
  exact List.mem_append_right _ hx

/-- the cheap test is sufficient -/
theorem isLegal_of_quick (b : Board) (s d : Sq) (h : quickLegal b s d = true) :
    b.isLegal ⟨s, d, none⟩ = true := by
  unfold quickLegal at h
  rw [Fast.collectMoves_eq, List.any_eq_true] at h
  obtain ⟨e, he, hh⟩ := h
  obtain ⟨l1, l2, hl⟩ := List.append_of_mem he
  have hlen : l1.length ≤ 17 := by
    have := congrArg List.length hl
    rw [List.length_take, List.length_append, List.length_cons] at this
    omega
  have hes : b.collectMoves BB.full = l1 ++ e :: l2 ++ (b.collectMoves BB.full).drop 18 := by
    rw [← hl, List.take_append_drop]
  unfold Board.isLegal Board.legalsList MoveGen.toList
  rw [List.contains_iff_mem, drain_eq_take 5000 _ (good_of_zero _ rfl), mvsAt_of_zero _ rfl]
  unfold mvsOf legals
  simp only [List.drop_zero]
  rw [hes]
  simp only [List.flatMap_append, List.flatMap_cons]
  simp only [List.append_assoc]
  rw [← List.append_assoc]
  apply mem_take_of_prefix _ _ _ _ _ (mem_eMoves_of_entryHas s d e hh)
  rw [List.length_append]
  have h1 := flatMap_length_le (fun e => eMoves e BB.full) 256 l1 (fun a _ => eMoves_length_le a _)
  have h2 := eMoves_length_le e BB.full
  have : l1.length * 256 ≤ 17 * 256 := Nat.mul_le_mul_right _ hlen
  omega

end Chess.Proofs.BookWalk
