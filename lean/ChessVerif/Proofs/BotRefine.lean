/-
Refinement behind C15: the plugin model (`Bot.State`, a board and a repetition table keyed by
`Board.beq`) simulates the specification (`Spec.Bot.State`, a mailbox position and the list of
positions produced by accepted moves) for every sequence of set-board / make-move calls.
Clocks are not part of a position's identity and saturate in the implementation, so positions are
related by `KeyEq` (placement, side to move, rights, e.p. file), not by equality.
-/
import ChessVerif.Props.C01
import ChessVerif.Props.C02
import ChessVerif.Props.C15.Basic
import ChessVerif.Spec.Bot

namespace Chess.Proofs.BotRefine
open Chess Chess.Spec Chess.Bot Chess.Engine

/-- the calls of the stable interface that change the plugin's state -/
inductive Op
  | set (b : Board)
  | mv (m : Move)

/-- same placement, side to move, castling rights and en-passant file -/
def KeyEq (p q : Position) : Prop :=
  p.pieceAt = q.pieceAt ∧ p.turn = q.turn ∧ (∀ sd c, p.rights sd c = q.rights sd c) ∧ p.ep = q.ep

def stepModel (s : Bot.State) : Op → Bot.State × Option MoveResult
  | .set b => (setBoard s b, none)
  | .mv m => ((makeMove s m).1, some (makeMove s m).2)

def stepSpec (t : Spec.Bot.State) : Op → Spec.Bot.State × Option (Bool × Bool)
  | .set b => (Spec.Bot.setBoard (abs b), none)
  | .mv m => ((Spec.Bot.makeMove t m).1, some (Spec.Bot.makeMove t m).2)

/-- same answer: is_valid and is_three_fold_draw -/
def outEq : Option MoveResult → Option (Bool × Bool) → Prop
  | none, none => True
  | some r, some (v, f) => r.isValid = v ∧ r.isThreeFold = f
  | _, _ => False

/-- model and specification answer every call of the sequence alike and stay in related positions -/
def Agree : Bot.State → Spec.Bot.State → List Op → Prop
  | _, _, [] => True
  | s, t, op :: ops =>
    outEq (stepModel s op).2 (stepSpec t op).2 ∧
    KeyEq (abs (stepModel s op).1.board) (stepSpec t op).1.pos ∧
    (stepModel s op).1.board.WF = true ∧
    Agree (stepModel s op).1 (stepSpec t op).1 ops

/-! ### `KeyEq` is an equivalence, decided by `sameKey` -/

theorem KeyEq.refl (p : Position) : KeyEq p p := ⟨rfl, rfl, fun _ _ => rfl, rfl⟩
theorem KeyEq.symm {p q : Position} (h : KeyEq p q) : KeyEq q p :=
  ⟨h.1.symm, h.2.1.symm, fun sd c => (h.2.2.1 sd c).symm, h.2.2.2.symm⟩
theorem KeyEq.trans {p q r : Position} (h : KeyEq p q) (h' : KeyEq q r) : KeyEq p r :=
  ⟨h.1.trans h'.1, h.2.1.trans h'.2.1, fun sd c => (h.2.2.1 sd c).trans (h'.2.2.1 sd c), h.2.2.2.trans h'.2.2.2⟩

theorem sameKey_iff (p q : Position) : Spec.Bot.sameKey p q = true ↔ KeyEq p q := by
  unfold Spec.Bot.sameKey KeyEq
  simp only [Bool.and_eq_true, List.all_eq_true, beq_iff_eq, List.mem_finRange, true_implies,
    List.mem_cons, List.not_mem_nil, or_false, forall_eq_or_imp, forall_eq]
  constructor
  · rintro ⟨⟨⟨h1, h2⟩, ⟨h3, h4⟩, h5, h6⟩, h7⟩
    refine ⟨funext h1, h2, ?_, h7⟩
    intro sd c
    cases sd <;> cases c <;> assumption
  · rintro ⟨h1, h2, h3, h4⟩
    exact ⟨⟨⟨fun s => congrFun h1 s, h2⟩, ⟨h3 _ _, h3 _ _⟩, h3 _ _, h3 _ _⟩, h4⟩

theorem sameKey_congr {p q : Position} (h : KeyEq p q) : Spec.Bot.sameKey p = Spec.Bot.sameKey q := by
  funext r
  rw [Bool.eq_iff_iff, sameKey_iff, sameKey_iff]
  exact ⟨fun h' => h.symm.trans h', fun h' => h.trans h'⟩

/-! ### the rules do not read the clocks -/

theorem keyEq_eq {p q : Position} (h : KeyEq p q) : p = { q with half := p.half, full := p.full } := by
  obtain ⟨pa, tu, ri, ep, hh, ff⟩ := p
  obtain ⟨pa', tu', ri', ep', hh', ff'⟩ := q
  obtain ⟨h1, h2, h3, h4⟩ := h
  simp only at h1 h2 h3 h4
  have h3' : ri = ri' := funext fun sd => funext fun c => h3 sd c
  subst h1 h2 h3' h4
  rfl

theorem pseudo_clock (q : Position) (h f : Nat) (m : Move) :
    ({ q with half := h, full := f } : Position).pseudo m = q.pseudo m := rfl

theorem applyKind_clock (q : Position) (h f : Nat) (m : Move) (k : Position.Kind) :
    KeyEq (({ q with half := h, full := f } : Position).applyKind m k) (q.applyKind m k) :=
  ⟨rfl, rfl, fun _ _ => rfl, rfl⟩

theorem inCheck_congr {p q : Position} (h : p.pieceAt = q.pieceAt) (c : Color) : p.inCheck c = q.inCheck c := by
  obtain ⟨pa, tu, ri, ep, hh, ff⟩ := p
  obtain ⟨pa', tu', ri', ep', hh', ff'⟩ := q
  simp only at h
  subst h
  rfl

theorem pseudo_congr {p q : Position} (h : KeyEq p q) (m : Move) : p.pseudo m = q.pseudo m := by
  rw [keyEq_eq h]; exact pseudo_clock q _ _ m

theorem applyKind_congr {p q : Position} (h : KeyEq p q) (m : Move) (k : Position.Kind) :
    KeyEq (p.applyKind m k) (q.applyKind m k) := by
  rw [keyEq_eq h]; exact applyKind_clock q _ _ m k

theorem legal_congr {p q : Position} (h : KeyEq p q) (m : Move) : p.legal m = q.legal m := by
  unfold Position.legal
  rw [pseudo_congr h m]
  cases q.pseudo m with
  | none => rfl
  | some k => 
    simp only
    rw [inCheck_congr (applyKind_congr h m k).1, h.2.1]

theorem apply_congr {p q : Position} (h : KeyEq p q) (m : Move) : KeyEq (p.apply m) (q.apply m) := by
  unfold Position.apply
  rw [pseudo_congr h m]
  cases q.pseudo m with
  | none => exact h
  | some k => exact applyKind_congr h m k

/-! ### `Board.beq` on well-formed boards is `KeyEq` of the abstractions -/

theorem raw_ext (a b : RawBoard) (ha : a.partitionOk = true) (hb : b.partitionOk = true)
    (h : pieceOn a = pieceOn b) : a = b := by
  have hA : ∀ s, RawBoard.At a s (pieceOn a s) := fun s =>
    RawBoard.at_of_sqOk _ _ ((RawBoard.partitionOk_iff_sqOk _).1 ha s)
  have hB : ∀ s, RawBoard.At b s (pieceOn a s) := fun s => by
    rw [h]; exact RawBoard.at_of_sqOk _ _ ((RawBoard.partitionOk_iff_sqOk _).1 hb s)
  have hc : ∀ c, a.color c = b.color c := fun c =>
    BB.ext_mem fun s => ((hA s).1 c).trans ((hB s).1 c).symm
  have hp : ∀ p, a.piece p = b.piece p := fun p =>
    BB.ext_mem fun s => ((hA s).2 p).trans ((hB s).2 p).symm
  obtain ⟨w, bl, pa, kn, bi, ro, qu, ki⟩ := a
  obtain ⟨w', bl', pa', kn', bi', ro', qu', ki'⟩ := b
  have h1 := hc .white; have h2 := hc .black
  have h3 := hp .pawn; have h4 := hp .knight; have h5 := hp .bishop; have h6 := hp .rook
  have h7 := hp .queen; have h8 := hp .king
  simp only [RawBoard.color, RawBoard.piece] at h1 h2 h3 h4 h5 h6 h7 h8
  subst h1 h2 h3 h4 h5 h6 h7 h8
  rfl

theorem castle_ext (x y : Nat) (hx : x < 16) (hy : y < 16)
    (h : ∀ sd c, Castle.contains x sd c = Castle.contains y sd c) : x = y := by
  apply Nat.eq_of_testBit_eq
  intro i
  by_cases hi : i < 4
  · have h0 := h .king .white; have h1 := h .queen .white
    have h2 := h .king .black; have h3 := h .queen .black
    simp only [Castle.contains, Castle.offset, Side.idx, Color.idx] at h0 h1 h2 h3
    have : i = 0 ∨ i = 1 ∨ i = 2 ∨ i = 3 := by omega
    rcases this with rfl | rfl | rfl | rfl <;> assumption
  · have hp : (16 : Nat) ≤ 2 ^ i := by
      have : 2 ^ 4 ≤ 2 ^ i := Nat.pow_le_pow_right (by decide) (by omega)
      simpa using this
    rw [Nat.testBit_lt_two_pow (Nat.lt_of_lt_of_le hx hp), Nat.testBit_lt_two_pow (Nat.lt_of_lt_of_le hy hp)]

theorem beq_iff_keyEq (a b : Board) (ha : a.WF = true) (hb : b.WF = true) :
    Board.beq a b = true ↔ KeyEq (abs a) (abs b) := by
  simp only [Board.beq, Bool.and_eq_true, decide_eq_true_eq, beq_iff_eq]
  constructor
  · rintro ⟨⟨⟨h1, h2⟩, h3⟩, h4⟩
    refine ⟨?_, h1, ?_, h3⟩
    · show pieceOn a.raw = pieceOn b.raw
      rw [h4]
    · intro sd c
      show Castle.contains a.castle sd c = Castle.contains b.castle sd c
      rw [h2]
  · rintro ⟨h1, h2, h3, h4⟩
    exact ⟨⟨⟨h2, castle_ext _ _ (AbsL.wf_castle a ha) (AbsL.wf_castle b hb) h3⟩, h4⟩,
      raw_ext _ _ (AbsL.wf_partition a ha) (AbsL.wf_partition b hb) h1⟩

/-! ### the repetition table -/

theorem beq_right_congr (b x : Board) (h : Board.beq b x = true) (e : Board) :
    Board.beq e x = Board.beq e b := by
  rw [Bool.eq_iff_iff]
  exact ⟨fun h' => Props.C15.beq_trans _ _ _ h' (Props.C15.beq_symm _ _ h),
    fun h' => Props.C15.beq_trans _ _ _ h' h⟩

theorem find_map_hit (b : Board) (c : Nat) (t : ThreeFold)
    (h : t.any (fun e => Board.beq e.1 b) = true) :
    ∃ k, (t.map (fun e => if Board.beq e.1 b then (e.1, c) else e)).find? (fun e => Board.beq e.1 b) = some (k, c) := by
  induction t with
  | nil => simp at h
  | cons e t ih =>
    by_cases he : Board.beq e.1 b = true
    · exact ⟨e.1, by simp [he]⟩
    · simp only [List.any_cons, he, Bool.false_or] at h
      obtain ⟨k, hk⟩ := ih h
      exact ⟨k, by simp [he, hk]⟩

theorem find_map_miss (b x : Board) (c : Nat) (t : ThreeFold) (hbx : Board.beq b x = false) :
    (t.map (fun e => if Board.beq e.1 b then (e.1, c) else e)).find? (fun e => Board.beq e.1 x) =
      t.find? (fun e => Board.beq e.1 x) := by
  induction t with
  | nil => rfl
  | cons e t ih =>
    by_cases he : Board.beq e.1 b = true
    · have hx : Board.beq e.1 x = false := by
        cases hx : Board.beq e.1 x with
        | false => rfl
        | true =>
          have := Props.C15.beq_trans _ _ _ (Props.C15.beq_symm _ _ he) hx
          rw [hbx] at this; cases this
      simp [he, hx, ih]
    · simp only [List.map_cons, he]
      simp only [Bool.false_eq_true, if_false, List.find?_cons, ih]

/-- the table after `add`: the counter of the added key is incremented (saturating), the others are unchanged -/
theorem get_add (t : ThreeFold) (b x : Board) :
    (t.add b).1.get x = if Board.beq b x = true then satAdd8 (t.get b) else t.get x := by
  unfold ThreeFold.add
  simp only
  by_cases hbx : Board.beq b x = true
  · rw [if_pos hbx]
    have hfun : (fun e : Board × Nat => Board.beq e.1 x) = (fun e => Board.beq e.1 b) :=
      funext fun e => beq_right_congr b x hbx e.1
    by_cases hany : t.any (fun e => Board.beq e.1 b) = true
    · rw [if_pos hany]
      obtain ⟨k, hk⟩ := find_map_hit b (satAdd8 (t.get b)) t hany
      unfold ThreeFold.get at *
      rw [hfun, hk]
    · rw [if_neg hany]
      have hnone : t.find? (fun e => Board.beq e.1 b) = none := by
        rw [List.find?_eq_none]
        intro e he
        simp only [List.any_eq_true, not_exists, not_and] at hany
        exact hany e he
      show ThreeFold.get (t ++ [(b, satAdd8 (t.get b))]) x = _
      unfold ThreeFold.get
      rw [hfun, List.find?_append, hnone]
      simp [Props.C15.beq_refl]
  · rw [if_neg hbx]
    have hbx' : Board.beq b x = false := by simpa using hbx
    by_cases hany : t.any (fun e => Board.beq e.1 b) = true
    · rw [if_pos hany]
      unfold ThreeFold.get
      rw [find_map_miss b x _ t hbx']
    · rw [if_neg hany]
      show ThreeFold.get (t ++ [(b, satAdd8 (t.get b))]) x = _
      unfold ThreeFold.get
      rw [List.find?_append]
      simp [hbx']

/-! ### the simulation relation -/

def cnt (p : Position) (l : List Position) : Nat := (l.filter (Spec.Bot.sameKey p)).length

structure R (s : Bot.State) (t : Spec.Bot.State) : Prop where
  wf : s.board.WF = true
  key : KeyEq (abs s.board) t.pos
  tbl : ∀ x : Board, x.WF = true → s.table.get x = min 255 (cnt (abs x) t.produced)

theorem R_reset (b : Board) (hb : b.WF = true) : R ⟨b, []⟩ (Spec.Bot.setBoard (abs b)) :=
  ⟨hb, KeyEq.refl _, fun _ _ => rfl⟩

theorem satAdd8_min (n : Nat) : satAdd8 (min 255 n) = min 255 (n + 1) := by
  unfold satAdd8; split <;> omega

theorem step_ok (s : Bot.State) (t : Spec.Bot.State) (hR : R s t) (op : Op)
    (hop : ∀ b, op = Op.set b → b.WF = true) :
    outEq (stepModel s op).2 (stepSpec t op).2 ∧
    KeyEq (abs (stepModel s op).1.board) (stepSpec t op).1.pos ∧
    (stepModel s op).1.board.WF = true ∧
    R (stepModel s op).1 (stepSpec t op).1 := by
  cases op with
  | set b =>
    have hb := hop b rfl
    exact ⟨trivial, KeyEq.refl _, hb, R_reset b hb⟩
  | mv m =>
    have hleg : s.board.isLegal m = t.pos.legal m := by
      rw [Props.C01.isLegal_iff_spec _ hR.wf m, legal_congr hR.key m]
    simp only [stepModel, stepSpec]
    cases hl : t.pos.legal m with
    | false =>
      rw [hl] at hleg
      rw [Props.C15.makeMove_illegal s m hleg]
      have : Spec.Bot.makeMove t m = (t, false, false) := by simp [Spec.Bot.makeMove, hl]
      rw [this]
      exact ⟨⟨rfl, rfl⟩, hR.key, hR.wf, hR⟩
    | true =>
      rw [hl] at hleg
      obtain ⟨h1, h2, h3, h4⟩ := Props.C15.makeMove_legal s m hleg
      have hsp : Spec.Bot.makeMove t m = (⟨t.pos.apply m, t.produced ++ [t.pos.apply m]⟩, true,
          ((t.produced ++ [t.pos.apply m]).filter (Spec.Bot.sameKey (t.pos.apply m))).length == 3) := by
        simp [Spec.Bot.makeMove, hl]
      rw [hsp]
      have hwf' : (s.board.moveUnchecked m).WF = true := Props.C02.move_WF _ hR.wf m hleg
      have hl' : (abs s.board).legal m = true := by rw [legal_congr hR.key m]; exact hl
      obtain ⟨κ, hps⟩ := Legal.pseudo_of_legal _ _ hl'
      have hkey0 : KeyEq (abs (s.board.moveUnchecked m)) ((abs s.board).apply m) := by
        unfold Position.apply
        rw [hps]
        refine ⟨?_, ?_, ?_, ?_⟩
        · funext sq
          exact Legal.move_placement _ hR.wf m κ hps sq
        · show (s.board.moveUnchecked m).turn = _
          rw [Props.C02.move_turn, Legal.applyKind_turn]; rfl
        · intro sd c
          exact Legal.move_rights _ hR.wf m κ hps sd c
        · exact Legal.move_ep_spec _ hR.wf m κ hps
      have hkey : KeyEq (abs (s.board.moveUnchecked m)) (t.pos.apply m) :=
        hkey0.trans (apply_congr hR.key m)
      have hcnt : ∀ p, cnt p (t.produced ++ [t.pos.apply m]) =
          cnt p t.produced + (if Spec.Bot.sameKey p (t.pos.apply m) = true then 1 else 0) := by
        intro p
        unfold cnt
        rw [List.filter_append, List.length_append]
        by_cases hp : Spec.Bot.sameKey p (t.pos.apply m) = true <;> simp [hp]
      have hself : Spec.Bot.sameKey (t.pos.apply m) (t.pos.apply m) = true := (sameKey_iff _ _).2 (KeyEq.refl _)
      have hget : s.table.get (s.board.moveUnchecked m) = min 255 (cnt (t.pos.apply m) t.produced) := by
        rw [hR.tbl _ hwf']
        unfold cnt
        rw [sameKey_congr hkey]
      refine ⟨⟨h2, ?_⟩, ?_, ?_, ⟨?_, ?_, ?_⟩⟩
      · rw [h3, Props.C15.add_flag, hget]
        have := hcnt (t.pos.apply m)
        rw [if_pos hself] at this
        show _ = (cnt (t.pos.apply m) (t.produced ++ [t.pos.apply m]) == 3)
        rw [this]
        have h3' := Props.C15.satAdd8_three (min 255 (cnt (t.pos.apply m) t.produced))
        rw [Bool.eq_iff_iff, beq_iff_eq, beq_iff_eq, h3']
        omega
      · rw [h1]; exact hkey
      · rw [h1]; exact hwf'
      · rw [h1]; exact hwf'
      · rw [h1]; exact hkey
      · intro x hx
        rw [h4, get_add, hcnt]
        have hiff : Board.beq (s.board.moveUnchecked m) x = true ↔ Spec.Bot.sameKey (abs x) (t.pos.apply m) = true := by
          rw [beq_iff_keyEq _ _ hwf' hx, sameKey_iff]
          exact ⟨fun h => h.symm.trans hkey, fun h => hkey.trans h.symm⟩
        by_cases hb : Board.beq (s.board.moveUnchecked m) x = true
        · rw [if_pos hb, if_pos (hiff.1 hb), hget, satAdd8_min]
          unfold cnt
          rw [sameKey_congr ((sameKey_iff _ _).1 (hiff.1 hb))]
        · rw [if_neg hb, if_neg (fun h => hb (hiff.2 h)), hR.tbl x hx]
          rfl

theorem agree_of_R (ops : List Op) : ∀ (s : Bot.State) (t : Spec.Bot.State), R s t →
    (∀ b, Op.set b ∈ ops → b.WF = true) → Agree s t ops := by
  induction ops with
  | nil => intros; trivial
  | cons op ops ih =>
    intro s t hR hwf
    obtain ⟨h1, h2, h3, h4⟩ := step_ok s t hR op (fun b hb => hwf b (by rw [hb]; exact List.mem_cons_self))
    exact ⟨h1, h2, h3, ih _ _ h4 (fun b hb => hwf b (List.mem_cons_of_mem _ hb))⟩

/-- **C15**: for every sequence of calls in which the boards handed to `set_board` are well formed,
the plugin accepts a move iff the rules say it is legal, its position is the reference successor,
and it raises the threefold flag exactly when the produced position occurs for the third time since
the board was last set (the position passed to `set_board` itself is not counted) -/
theorem bot_refines (ops : List Op) (hwf : ∀ b, Op.set b ∈ ops → b.WF = true) :
    Agree Bot.init ⟨abs Board.standard, []⟩ ops :=
  agree_of_R ops _ _ (R_reset Board.standard Legal.standard_WF) hwf

/-- the same from any related pair of states whose repetition table is empty (just after `set_board`) -/
theorem bot_refines_from (b : Board) (hb : b.WF = true) (ops : List Op)
    (hwf : ∀ b, Op.set b ∈ ops → b.WF = true) :
    Agree ⟨b, []⟩ (Spec.Bot.setBoard (abs b)) ops :=
  agree_of_R ops _ _ (R_reset b hb) hwf

end Chess.Proofs.BotRefine
