/-
`BoardBuilder` (C05, C06): every sequence of builder calls keeps the placement a partition and the
incrementally maintained hash equal to the hash from scratch; the model builder refines the mailbox
builder of `Spec/Build.lean` call by call (same accepted/refused flags, same squares, same fields); what
`build()` returns is well-formed, hence — by the C05 round trip — the very board the parser returns for
the text of that position.
-/
import ChessVerif.Proofs.FenParse
import ChessVerif.Proofs.FenRound
import ChessVerif.Spec.Build

namespace Chess.RawBoard
open Chess Chess.BB Chess.Spec

theorem mem_remove (r : RawBoard) (c : Color) (p : Piece) (sq s : Sq) :
    mem (r.remove c p sq).white s = (mem r.white s && !(s == sq && decide (c = .white))) ∧
    mem (r.remove c p sq).black s = (mem r.black s && !(s == sq && decide (c = .black))) ∧
    mem (r.remove c p sq).pawn s = (mem r.pawn s && !(s == sq && decide (p = .pawn))) ∧
    mem (r.remove c p sq).knight s = (mem r.knight s && !(s == sq && decide (p = .knight))) ∧
    mem (r.remove c p sq).bishop s = (mem r.bishop s && !(s == sq && decide (p = .bishop))) ∧
    mem (r.remove c p sq).rook s = (mem r.rook s && !(s == sq && decide (p = .rook))) ∧
    mem (r.remove c p sq).queen s = (mem r.queen s && !(s == sq && decide (p = .queen))) ∧
    mem (r.remove c p sq).king s = (mem r.king s && !(s == sq && decide (p = .king))) := by
  cases c <;> cases p <;> simp [remove, setColor, setPiece, color, piece, bne]

/-- on a partitioned board, the eight membership bits of a square that holds `(c, p)` are exactly those of `(c, p)` -/
theorem bits_of_pieceOnB : ∀ (w b p n bi r q k : Bool) (c : Color) (pc : Piece),
    okAt w b p n bi r q k = true → pieceOnB w b p n bi r q k = some (c, pc) →
    w = decide (c = .white) ∧ b = decide (c = .black) ∧ p = decide (pc = .pawn) ∧ n = decide (pc = .knight) ∧
    bi = decide (pc = .bishop) ∧ r = decide (pc = .rook) ∧ q = decide (pc = .queen) ∧ k = decide (pc = .king) := by
  intro w b p n bi r q k c pc
  cases w <;> cases b <;> cases p <;> cases n <;> cases bi <;> cases r <;> cases q <;> cases k <;>
    cases c <;> cases pc <;> decide

theorem okAt_none : okAt false false false false false false false false = true := by decide

theorem pieceOnB_none : pieceOnB false false false false false false false false = Option.none := by decide

theorem bits_at {r : RawBoard} (h : r.partitionOk = true) {sq : Sq} {c : Color} {p : Piece}
    (hg : pieceOn r sq = some (c, p)) :
    mem r.white sq = decide (c = .white) ∧ mem r.black sq = decide (c = .black) ∧
    mem r.pawn sq = decide (p = .pawn) ∧ mem r.knight sq = decide (p = .knight) ∧
    mem r.bishop sq = decide (p = .bishop) ∧ mem r.rook sq = decide (p = .rook) ∧
    mem r.queen sq = decide (p = .queen) ∧ mem r.king sq = decide (p = .king) := by
  rw [pieceOn_eq] at hg
  exact bits_of_pieceOnB _ _ _ _ _ _ _ _ c p ((partitionOk_iff r).1 h sq) hg

theorem and_not_self_decide (x : Bool) : (x && !(true && x)) = false := by cases x <;> rfl

theorem partitionOk_remove {r : RawBoard} (h : r.partitionOk = true) {c : Color} {p : Piece} {sq : Sq}
    (hg : pieceOn r sq = some (c, p)) : (r.remove c p sq).partitionOk = true := by
  rw [partitionOk_iff]
  intro s
  obtain ⟨m1, m2, m3, m4, m5, m6, m7, m8⟩ := mem_remove r c p sq s
  rw [m1, m2, m3, m4, m5, m6, m7, m8]
  by_cases hs : s = sq
  · subst hs
    obtain ⟨e1, e2, e3, e4, e5, e6, e7, e8⟩ := bits_at h hg
    simp only [e1, e2, e3, e4, e5, e6, e7, e8, beq_self_eq_true, and_not_self_decide]
    exact okAt_none
  · have : (s == sq) = false := by simpa using hs
    simp only [this, Bool.false_and, Bool.not_false, Bool.and_true]
    exact (partitionOk_iff r).1 h s

theorem pieceOn_remove {r : RawBoard} (h : r.partitionOk = true) {c : Color} {p : Piece} {sq : Sq}
    (hg : pieceOn r sq = some (c, p)) (s : Sq) :
    pieceOn (r.remove c p sq) s = if s = sq then Option.none else pieceOn r s := by
  obtain ⟨m1, m2, m3, m4, m5, m6, m7, m8⟩ := mem_remove r c p sq s
  rw [pieceOn_eq, m1, m2, m3, m4, m5, m6, m7, m8]
  by_cases hs : s = sq
  · subst hs
    obtain ⟨e1, e2, e3, e4, e5, e6, e7, e8⟩ := bits_at h hg
    simp only [e1, e2, e3, e4, e5, e6, e7, e8, beq_self_eq_true, and_not_self_decide, if_true]
    exact pieceOnB_none
  · have : (s == sq) = false := by simpa using hs
    simp only [this, Bool.false_and, Bool.not_false, Bool.and_true, hs, if_false]
    rfl

theorem pieceHash_remove {r : RawBoard} (h : r.partitionOk = true) {c : Color} {p : Piece} {sq : Sq}
    (hg : pieceOn r sq = some (c, p)) :
    (r.remove c p sq).pieceHash = r.pieceHash ^^^ Lookup.zobristPiece sq p c := by
  rw [pieceHash_eq, pieceHash_eq]
  apply foldl_xor_update (keyAt r) (keyAt (r.remove c p sq)) sq
  · simp only [keyAt, pieceOn_remove h hg, hg, if_true]
    simp
  · intro s hs
    simp only [keyAt, pieceOn_remove h hg, hs, if_false]
  · exact List.nodup_finRange 64
  · exact List.mem_finRange sq

/-- occupied (by colour) ⇔ some piece stands there, on a partitioned board -/
theorem mem_all_iff_pieceOn {r : RawBoard} (h : r.partitionOk = true) (sq : Sq) :
    mem r.all sq = (pieceOn r sq).isSome := by
  have h1 := (partitionOk_iff r).1 h sq
  rw [pieceOn_eq]
  simp only [all, mem_or']
  revert h1
  generalize mem r.white sq = w
  generalize mem r.black sq = b
  generalize mem r.pawn sq = p
  generalize mem r.knight sq = n
  generalize mem r.bishop sq = bi
  generalize mem r.rook sq = rr
  generalize mem r.queen sq = q
  generalize mem r.king sq = k
  revert w b p n bi rr q k
  decide

end Chess.RawBoard

namespace Chess.Fen
open Chess Chess.BB Chess.Spec Chess.RawBoard

/-- invariant of a builder session -/
structure BInv (b : Board) : Prop where
  part : b.raw.partitionOk = true
  hash : b.zobrist = b.raw.pieceHash
  castle : b.castle < 16

/-- the caller passes a `CastleRights` value: four bits -/
def OpOk : BuildOp → Prop
  | .castle cr => cr < 16
  | _ => True

theorem BInv.init : BInv Board.builderInit :=
  ⟨partitionOk_empty, pieceHash_empty.symm, by decide⟩

theorem BInv.step {b : Board} (h : BInv b) (op : BuildOp) (hop : OpOk op) : BInv (buildStep b op).1 := by
  cases op with
  | turn c => exact ⟨h.part, h.hash, h.castle⟩
  | castle cr => exact ⟨h.part, h.hash, hop⟩
  | half n => exact ⟨h.part, h.hash, h.castle⟩
  | full n => exact ⟨h.part, h.hash, h.castle⟩
  | ep f => exact ⟨h.part, h.hash, h.castle⟩
  | place s c p =>
    simp only [buildStep]
    split
    · exact h
    · rename_i hc
      have he : mem b.raw.all s = false := by
        rw [contains_eq_mem] at hc; simpa using hc
      refine ⟨partitionOk_setUnchecked h.part c p he, ?_, h.castle⟩
      show b.zobrist ^^^ _ = _
      rw [pieceHash_setUnchecked h.part c p he, h.hash]
  | remove s =>
    simp only [buildStep]
    split
    · rename_i c p hg
      have hg' : pieceOn b.raw s = some (c, p) := by rw [← get_eq_pieceOn _ h.part]; exact hg
      refine ⟨partitionOk_remove h.part hg', ?_, h.castle⟩
      show b.zobrist ^^^ _ = _
      rw [pieceHash_remove h.part hg', h.hash]
    · exact h

/-- the relation between the model builder's board and the mailbox builder's state -/
structure Rel (b : Board) (s : BuildSt) : Prop where
  size : s.sq.size = 64
  sq : ∀ q, pieceOn b.raw q = s.at_ q
  turn : b.turn = s.turn
  castle : b.castle = s.castle
  ep : b.ep = s.ep
  half : b.half = s.half
  full : b.full = s.full

theorem at_set (s : BuildSt) (hs : s.sq.size = 64) (q : Sq) (v : Option (Color × Piece)) (q' : Sq) :
    BuildSt.at_ { s with sq := s.sq.set! q.val v } q' = if q' = q then v else s.at_ q' := by
  unfold BuildSt.at_
  simp only [Array.set!_eq_setIfInBounds, Array.getElem?_setIfInBounds]
  by_cases h : q' = q
  · subst h
    have : q'.val < s.sq.size := by rw [hs]; exact q'.isLt
    simp [this]
  · have : ¬ q.val = q'.val := fun e => h (Fin.ext e.symm)
    simp [this, h]

theorem Rel.init : Rel Board.builderInit BuildSt.init := by
  refine ⟨by simp [BuildSt.init], ?_, rfl, rfl, rfl, rfl, rfl⟩
  intro q
  have h1 : pieceOn Board.builderInit.raw q = Option.none := by
    simp [Board.builderInit, pieceOn, RawBoard.empty]
  rw [h1]
  unfold BuildSt.at_ BuildSt.init
  simp

theorem Rel.step {b : Board} {s : BuildSt} (hi : BInv b) (h : Rel b s) (op : BuildOp) :
    Rel (buildStep b op).1 (Spec.buildStep s op).1 ∧ (buildStep b op).2 = (Spec.buildStep s op).2 := by
  cases op with
  | turn c => exact ⟨⟨h.size, h.sq, rfl, h.castle, h.ep, h.half, h.full⟩, rfl⟩
  | castle cr => exact ⟨⟨h.size, h.sq, h.turn, rfl, h.ep, h.half, h.full⟩, rfl⟩
  | half n => exact ⟨⟨h.size, h.sq, h.turn, h.castle, h.ep, rfl, h.full⟩, rfl⟩
  | full n => exact ⟨⟨h.size, h.sq, h.turn, h.castle, h.ep, h.half, rfl⟩, rfl⟩
  | ep f => exact ⟨⟨h.size, h.sq, h.turn, h.castle, rfl, h.half, h.full⟩, rfl⟩
  | place q c p =>
    have hocc : BB.contains b.raw.all q = (s.at_ q).isSome := by
      rw [contains_eq_mem, mem_all_iff_pieceOn hi.part, h.sq]
    simp only [buildStep, Spec.buildStep]
    cases hq : s.at_ q with
    | some x =>
      rw [hq] at hocc
      simp only [hocc, Option.isSome_some, if_true]
      exact ⟨h, trivial⟩
    | none =>
      rw [hq] at hocc
      have he : mem b.raw.all q = false := by rw [← contains_eq_mem]; simpa using hocc
      simp only [hocc, Option.isSome_none, Bool.false_eq_true, if_false]
      refine ⟨⟨by simpa using h.size, ?_, h.turn, h.castle, h.ep, h.half, h.full⟩, trivial⟩
      intro q'
      show pieceOn (b.raw.setUnchecked c p q) q' = _
      rw [pieceOn_setUnchecked hi.part c p he, at_set s h.size, h.sq]
  | remove q =>
    simp only [buildStep, Spec.buildStep]
    have hg := get_eq_pieceOn b.raw hi.part q
    cases hq : b.raw.get q with
    | some x =>
      obtain ⟨c, p⟩ := x
      have hg' : pieceOn b.raw q = some (c, p) := by rw [← hg, hq]
      refine ⟨⟨by simpa using h.size, ?_, h.turn, h.castle, h.ep, h.half, h.full⟩, rfl⟩
      intro q'
      show pieceOn (b.raw.remove c p q) q' = _
      rw [pieceOn_remove hi.part hg', at_set s h.size, h.sq]
    | none =>
      have hg' : pieceOn b.raw q = Option.none := by rw [← hg, hq]
      refine ⟨⟨by simpa using h.size, ?_, h.turn, h.castle, h.ep, h.half, h.full⟩, rfl⟩
      intro q'
      show pieceOn b.raw q' = _
      rw [at_set s h.size, h.sq]
      by_cases e : q' = q
      · subst e; rw [if_pos rfl, ← h.sq, hg']
      · rw [if_neg e]

/-- the fold, with the invariant, the relation and the equality of the flag lists -/
theorem run_aux (ops : List BuildOp) (hops : ∀ op ∈ ops, OpOk op) :
    ∀ (b : Board) (s : BuildSt) (fl : List Bool), BInv b → Rel b s →
      let m := ops.foldl (fun st op => let r := buildStep st.1 op; (r.1, st.2 ++ [r.2])) (b, fl)
      let sp := ops.foldl (fun st op => let r := Spec.buildStep st.1 op; (r.1, st.2 ++ [r.2])) (s, fl)
      BInv m.1 ∧ Rel m.1 sp.1 ∧ m.2 = sp.2 := by
  induction ops with
  | nil => intro b s fl hi hr; exact ⟨hi, hr, rfl⟩
  | cons op ops ih =>
    intro b s fl hi hr
    simp only [List.foldl_cons]
    have hop := hops op (by simp)
    obtain ⟨hr', hf⟩ := Rel.step hi hr op
    rw [hf]
    exact ih (fun o ho => hops o (by simp [ho])) _ _ _ (hi.step op hop) hr'

theorem runBuild_spec (ops : List BuildOp) (hops : ∀ op ∈ ops, OpOk op) :
    BInv (runBuild ops).1 ∧ Rel (runBuild ops).1 (Spec.runBuild ops).1 ∧ (runBuild ops).2 = (Spec.runBuild ops).2 :=
  run_aux ops hops _ _ _ BInv.init Rel.init

/-- what `build()` returns after any session is well-formed -/
theorem build_WF (ops : List BuildOp) (hops : ∀ op ∈ ops, OpOk op) (b : Board)
    (h : build (runBuild ops).1 = .ok b) : b.WF = true := by
  obtain ⟨hi, -, -⟩ := runBuild_spec ops hops
  unfold build at h
  split at h
  · cases h
  · rename_i hv
    cases h
    have hp' : (runBuild ops).1.updatePinInfo.raw.partitionOk = true := hi.part
    have hz' : (runBuild ops).1.updatePinInfo.zobrist = (runBuild ops).1.updatePinInfo.raw.pieceHash := hi.hash
    have hc' : (runBuild ops).1.updatePinInfo.castle < 16 := hi.castle
    simp only [Board.WF, hp', Board.validate_updatePinInfo, hv, hc', Board.pinInfoOk_updatePinInfo, hz',
      decide_true, beq_self_eq_true, Bool.and_self]

end Chess.Fen
