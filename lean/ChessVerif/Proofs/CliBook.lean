/-
The command line's book phase never trips its assertion: whatever indices the sampler draws, every book move it
plays is accepted by the checked make-move (corollary of `Book.paths_playable`), and `nth(x).unwrap()` can only
fail for a draw outside `0..count`, which the weighted sampler over `count` weights cannot produce.
-/
import ChessVerif.Model.Cli
import ChessVerif.Proofs.BookLines

namespace Chess.Cli
open Chess Chess.Book

/-- the x-th sibling at `index`, followed by a path among its children, is a path at `index` -/
theorem siblings_path : ∀ (fuel index x : Nat) (s d : Sq) (c : Nat) (ms : List Move),
    (siblings fuel index)[x]? = some (s, d, c) → Path c ms → Path index (⟨s, d, none⟩ :: ms) := by
  intro fuel
  induction fuel with
  | zero => intro index x s d c ms h; simp [siblings] at h
  | succ fuel ih =>
    intro index x s d c ms h hp
    unfold siblings at h
    cases hst : step index with
    | done => rw [hst] at h; simp at h
    | oob => rw [hst] at h; simp at h
    | yield s' d' c' n' =>
      rw [hst] at h
      cases x with
      | zero =>
        simp only [List.getElem?_cons_zero, Option.some.injEq, Prod.mk.injEq] at h
        obtain ⟨rfl, rfl, rfl⟩ := h
        exact Path.take hst hp
      | succ x =>
        simp only [List.getElem?_cons_succ] at h
        exact Path.skip hst (ih n' x s d c ms h hp)

theorem playAll_append {β : Type} (play : β → Move → Option β) : ∀ (ms : List Move) (b b' : β) (m : Move),
    playAll play b ms = some b' → playAll play b (ms ++ [m]) = play b' m := by
  intro ms
  induction ms with
  | nil =>
    intro b b' m h
    simp only [playAll, Option.some.injEq] at h
    subst h
    simp only [List.nil_append, playAll]
    cases play b m <;> rfl
  | cons a ms ih =>
    intro b b' m h
    rw [List.cons_append]
    unfold playAll at h ⊢
    cases hp : play b a with
    | none => rw [hp] at h; cases h
    | some b1 =>
      rw [hp] at h
      exact ih b1 b' m h

/-- the invariant of a run: the moves played so far are the start of book paths, and they were all accepted -/
theorem bookPhase_ok : ∀ (fuel index : Nat) (b : Board) (draws : List Nat) (ms : List Move),
    (∀ ms', Path index ms' → Path root (ms ++ ms')) →
    playAll (fun b m => Board.moveNew b m) Board.standard ms = some b →
    bookPhase fuel index b draws ≠ .error .assertMoveMut := by
  intro fuel
  induction fuel with
  | zero => intro index b draws ms _ _; simp [bookPhase]
  | succ fuel ih =>
    intro index b draws ms hext hplay
    unfold bookPhase
    simp only []
    split
    · simp
    · cases draws with
      | nil => simp
      | cons x rest =>
        simp only []
        cases hx : (siblings (index + 1) index)[x]? with
        | none => simp
        | some t =>
          obtain ⟨s, d, c⟩ := t
          simp only []
          have hpath : ∀ ms', Path c ms' → Path root ((ms ++ [⟨s, d, none⟩]) ++ ms') := by
            intro ms' hp
            rw [List.append_assoc]
            exact hext _ (siblings_path (index + 1) index x s d c ms' hx hp)
          have hsome := paths_playable (ms ++ [⟨s, d, none⟩]) (by simpa using hpath [] (Path.nil c))
          rw [playAll_append _ ms Board.standard b ⟨s, d, none⟩ hplay] at hsome
          cases hm : b.moveNew ⟨s, d, none⟩ with
          | none => rw [hm] at hsome; cases hsome
          | some b' =>
            simp only []
            refine ih c b' rest (ms ++ [⟨s, d, none⟩]) hpath ?_
            rw [playAll_append _ ms Board.standard b ⟨s, d, none⟩ hplay, hm]

/-- **the book phase of the command line never fails `assert!(board.move_mut(..))`**, whatever the sampler draws -/
theorem cli_book_phase_never_asserts (fuel : Nat) (draws : List Nat) :
    bookPhase fuel root Board.standard draws ≠ .error .assertMoveMut :=
  bookPhase_ok fuel root Board.standard draws [] (fun ms' hp => by simpa using hp) rfl

/-- `nth(x).unwrap()` fails only for a draw outside `0..count` -/
theorem bookPhase_unwrap : ∀ (fuel index : Nat) (b : Board) (draws : List Nat),
    bookPhase fuel index b draws = .error .nthUnwrap →
    ∃ (i : Nat) (x : Nat), x ∈ draws ∧ (siblings (i + 1) i).length ≤ x := by
  intro fuel
  induction fuel with
  | zero => intro index b draws h; simp [bookPhase] at h
  | succ fuel ih =>
    intro index b draws h
    unfold bookPhase at h
    simp only [] at h
    split at h
    · cases h
    · cases draws with
      | nil => cases h
      | cons x rest =>
        simp only [] at h
        cases hx : (siblings (index + 1) index)[x]? with
        | none =>
          refine ⟨index, x, by simp, ?_⟩
          exact List.getElem?_eq_none_iff.1 hx
        | some t =>
          obtain ⟨s, d, c⟩ := t
          rw [hx] at h
          simp only [] at h
          cases hm : b.moveNew ⟨s, d, none⟩ with
          | none => rw [hm] at h; cases h
          | some b' =>
            rw [hm] at h
            obtain ⟨i, y, hy, hl⟩ := ih c b' rest h
            exact ⟨i, y, by simp [hy], hl⟩

end Chess.Cli
