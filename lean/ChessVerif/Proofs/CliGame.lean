/-
The command line's game loop never fails `assert!(board.move_mut(mv))`: whatever the clock does (every list of
expiry indices), from every well-formed board and every repetition table — corollary of C11 (`search_legal`: a
returned move is a generator move) and C02 (`move_WF`: the successor is well-formed again).
-/
import ChessVerif.Model.Cli
import ChessVerif.Proofs.Search
import ChessVerif.Proofs.IterMask
import ChessVerif.Proofs.Legal.Reach

namespace Chess.Cli
open Chess Chess.Engine

theorem gameLoop_never_asserts : ∀ (fuel : Nat) (b : Board), b.WF = true → ∀ (tf : ThreeFold) (prev : Nat) (ks : List Nat),
    gameLoop fuel b tf prev ks ≠ .error .assertMoveMut := by
  intro fuel
  induction fuel with
  | zero => intro b _ tf prev ks; simp [gameLoop]
  | succ fuel ih =>
    intro b hwf tf prev ks
    unfold gameLoop
    cases ks with
    | nil => simp
    | cons k ks' =>
      simp only []
      cases hm : (search false b tf k prev).move with
      | none => simp
      | some mv =>
        simp only []
        have hmem := Proofs.Search.search_legal false b tf k prev mv hm
        have hl : b.isLegal mv = true := by
          rw [Props.C01.isLegal_iff, Proofs.IterMask.legalsList_eq b hwf]
          exact hmem
        have hnew : b.moveNew mv = some (b.moveUnchecked mv) := by simp [Board.moveNew, hl]
        rw [hnew]
        simp only []
        have hwf' := Legal.move_WF b hwf mv hl
        split
        · simp
        · split
          · simp
          · exact ih _ hwf' _ _ _

end Chess.Cli
