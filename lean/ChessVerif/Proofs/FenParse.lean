/- Helper lemmas for C06 (FEN parser). -/
import ChessVerif.Model.Fen
import ChessVerif.Spec.WF
import ChessVerif.Proofs.BB

namespace Chess.Fen
open Chess

def crOf (wk wq bk bq : Bool) : Nat :=
  let cr := 0
  let cr := if wk then Castle.add cr .king .white else cr
  let cr := if wq then Castle.add cr .queen .white else cr
  let cr := if bk then Castle.add cr .king .black else cr
  let cr := if bq then Castle.add cr .queen .black else cr
  cr

theorem crOf_lt (wk wq bk bq : Bool) : crOf wk wq bk bq < 16 := by
  cases wk <;> cases wq <;> cases bk <;> cases bq <;> decide

def mkB (raw : RawBoard) (z : BB) (turn : Color) (cr : Nat) (ep : Option File) (half full : Nat) : Board :=
  { zobrist := z, raw := raw, turn := turn, pinned := 0#64, checkers := 0#64,
    castle := cr, ep := ep, half := half, full := full }

def parseTurn (s : List Byte) : Except Error (Color × List Byte) :=
  match s with
  | c :: rest => if c.val = 98 then Except.ok (Color.black, rest) else if c.val = 119 then .ok (Color.white, rest) else .error Error.invalidTurn
  | [] => .error Error.missingTurn

def parseDash (any : Bool) (s : List Byte) : Except Error (List Byte) :=
  if !any then
    (match s with
     | c :: rest => if c.val = 45 then Except.ok rest else .error Error.missingCastleRights
     | [] => .error Error.missingCastleRights)
  else .ok s

def parseEp (turn : Color) (s : List Byte) : Except Error (Option File × List Byte) :=
  match s with
  | f :: r :: rest =>
    if 97 ≤ f.val ∧ f.val ≤ 104 ∧ (r.val = 51 ∨ r.val = 54) then
      let expected := match turn with | .white => 54 | .black => 51
      if r.val ≠ expected then Except.error Error.invalidEnpassant
      else match Text.fin8? (f.val - 97) with
        | some file => Except.ok (some file, rest)
        | none => Except.error Error.trap
    else if f.val = 45 then Except.ok (none, r :: rest)
    else Except.error Error.invalidEnpassant
  | [f] => if f.val = 45 then Except.ok (none, []) else Except.error Error.missingEnpassant
  | [] => Except.error Error.missingEnpassant

def finish (b : Board) (s : List Byte) : Except Error Board :=
  match b.validate with
  | .error e => .error (.boardValidation e)
  | .ok () => if s.isEmpty then .ok b.updatePinInfo else .error .trailingBytes

theorem parseRest_eq (raw : RawBoard) (z : BB) (s : List Byte) : parseRest raw z s =
  match parseWhitespace s .pieces with
  | .error e => .error e
  | .ok s =>
  match parseTurn s with
  | .error e => .error e
  | .ok (turn, s) =>
  match parseWhitespace s .turn with
  | .error e => .error e
  | .ok s =>
  let (wk, s) := parseCastle s 75
  let (wq, s) := parseCastle s 81
  let (bk, s) := parseCastle s 107
  let (bq, s) := parseCastle s 113
  match parseDash (wk || wq || bk || bq) s with
  | .error e => .error e
  | .ok s =>
  match parseWhitespace s .castleRights with
  | .error e => .error e
  | .ok s =>
  match parseEp turn s with
  | .error e => .error e
  | .ok (ep, s) =>
  match parseWhitespace s .enpassant with
  | .error e => .error e
  | .ok s =>
  match parseNumber s with
  | none => .error .missingHalfClock
  | some (half, s) =>
  match parseWhitespace s .halfMoveClock with
  | .error e => .error e
  | .ok s =>
  match parseNumber s with
  | none => .error .missingFullClock
  | some (full, s) => finish (mkB raw z turn (crOf wk wq bk bq) ep half full) s := by
  unfold parseRest parseTurn parseDash parseEp finish mkB crOf
  rfl

theorem parseWhitespace_ne_trap {s w e} (h : parseWhitespace s w = .error e) : e ≠ .trap := by
  unfold parseWhitespace at h
  repeat' split at h
  all_goals (cases h; try simp)

theorem parseTurn_ne_trap {s e} (h : parseTurn s = .error e) : e ≠ .trap := by
  unfold parseTurn at h
  repeat' split at h
  all_goals (cases h; try simp)

theorem parseDash_ne_trap {a s e} (h : parseDash a s = .error e) : e ≠ .trap := by
  unfold parseDash at h
  repeat' split at h
  all_goals (cases h; try simp)

theorem parseEp_ne_trap {t s e} (h : parseEp t s = .error e) : e ≠ .trap := by
  unfold parseEp at h
  split at h
  · rename_i f r rest
    split at h
    · rename_i hc
      have hlt : f.val - 97 < 8 := by omega
      simp only [Text.fin8?, hlt, dite_true] at h
      repeat' split at h
      all_goals first | (cases h; simp; done) | cases h
    · split at h <;> cases h; simp
  · split at h <;> cases h; simp
  · cases h; simp

/-- the shape of every result of `parseRest` -/
theorem parseRest_cases (raw : RawBoard) (z : BB) (s : List Byte) :
    (∃ e, parseRest raw z s = .error e ∧ e ≠ .trap) ∨
    (∃ turn wk wq bk bq ep half full s1 s2 s3 s4,
      parseNumber s1 = some (half, s2) ∧ parseNumber s3 = some (full, s4) ∧
      (mkB raw z turn (crOf wk wq bk bq) ep half full).validate = .ok () ∧
      parseRest raw z s = .ok (mkB raw z turn (crOf wk wq bk bq) ep half full).updatePinInfo) := by
  rw [parseRest_eq]
  repeat' split
  all_goals first
    | exact .inl ⟨_, rfl, parseWhitespace_ne_trap ‹_›⟩
    | exact .inl ⟨_, rfl, parseTurn_ne_trap ‹_›⟩
    | exact .inl ⟨_, rfl, parseDash_ne_trap ‹_›⟩
    | exact .inl ⟨_, rfl, parseEp_ne_trap ‹_›⟩
    | exact .inl ⟨_, rfl, by simp⟩
    | skip
  rename_i hh _ _ _ _ _ _ hf
  unfold finish
  split
  · exact .inl ⟨_, rfl, by simp⟩
  · split
    · exact .inr ⟨_, _, _, _, _, _, _, _, _, _, _, _, hh, hf, ‹_›, rfl⟩
    · exact .inl ⟨_, rfl, by simp⟩
end Chess.Fen
namespace Chess.Fen
open Chess

/-- one iteration of the placement loop, as a function of the byte and the current square -/
def pstep (c : Byte) (pos : Sq) (raw : RawBoard) (z : BB) : Except Error (Option (RawBoard × BB × Nat)) :=
  match parsePiece c with
  | .piece col p => .ok (some (raw.setUnchecked col p pos, z ^^^ Lookup.zobristPiece pos p col, 1))
  | .skip n => .ok (some (raw, z, n))
  | .none =>
    if c.val = 47 then .ok (some (raw, z, 0))
    else if c.val = 32 then .ok none
    else .error .invalidPiece

theorem placement_cons (c : Byte) (rest : List Byte) (file rank : Nat) (raw : RawBoard) (z : BB) :
    placement (c :: rest) file rank raw z =
      if h : file < 8 ∧ rank < 8 then
        match pstep c (Sq.mk ⟨file, h.1⟩ ⟨rank, h.2⟩) raw z with
        | .error e => .error e
        | .ok none => placement rest file rank raw z
        | .ok (some (raw, z, dist)) =>
          if file + dist ≤ 7 then placement rest (file + dist) rank raw z
          else if file + dist = 8 then
            if rank = 0 then .ok (raw, z, rest)
            else placement rest 0 (rank - 1) raw z
          else .error .fileOutOfBounds
      else .error .trap := by
  rw [placement]; rfl

theorem pstep_ne_trap {c pos raw z e} (h : pstep c pos raw z = .error e) : e ≠ .trap := by
  unfold pstep at h
  repeat' split at h
  all_goals first | (cases h; simp; done) | cases h

theorem pstep_some {c pos raw z raw' z' d} (h : pstep c pos raw z = .ok (some (raw', z', d))) :
    (∃ col p, raw' = raw.setUnchecked col p pos ∧ z' = z ^^^ Lookup.zobristPiece pos p col ∧ d = 1) ∨
    (raw' = raw ∧ z' = z) := by
  unfold pstep at h
  repeat' split at h
  all_goals first | cases h | skip
  · exact .inl ⟨_, _, rfl, rfl, rfl⟩
  all_goals exact .inr ⟨rfl, rfl⟩

theorem placement_ne_trap (s : List Byte) : ∀ (file rank : Nat) (raw : RawBoard) (z : BB),
    file < 8 → rank < 8 → placement s file rank raw z ≠ .error .trap := by
  induction s with
  | nil => intro file rank raw z _ _; simp [placement]
  | cons c rest ih =>
    intro file rank raw z hf hr
    rw [placement_cons]
    simp only [hf, hr, and_self, dite_true]
    repeat' split
    · rename_i h; have := pstep_ne_trap h; simpa using this
    · exact ih _ _ _ _ hf hr
    · exact ih _ _ _ _ (by omega) hr
    · simp
    · exact ih _ _ _ _ (by omega) (by omega)
    · simp

theorem digits_lt (n : Nat) : ∀ (s : List Byte) (acc : Nat), (digits n s acc).1 < (acc + 1) * 10 ^ n := by
  induction n with
  | zero => intro s acc; simp [digits]
  | succ n ih =>
    intro s acc
    have base : acc < (acc + 1) * 10 ^ (n + 1) := by
      have : 0 < 10 ^ (n+1) := Nat.pow_pos (by omega)
      calc acc < acc + 1 := by omega
        _ = (acc + 1) * 1 := by omega
        _ ≤ (acc + 1) * 10 ^ (n+1) := Nat.mul_le_mul_left _ this
    cases s with
    | nil => simpa only [digits] using base
    | cons c rest =>
      simp only [digits]
      split
      · have := ih rest (acc * 10 + (c.val - 48))
        have h2 : (acc * 10 + (c.val - 48) + 1) * 10 ^ n ≤ ((acc + 1) * 10) * 10 ^ n :=
          Nat.mul_le_mul_right _ (by omega)
        rw [Nat.pow_succ, Nat.mul_comm (10 ^ n) 10, ← Nat.mul_assoc]
        omega
      · exact base

theorem parseNumber_le {s n s'} (h : parseNumber s = some (n, s')) : n ≤ 9999 := by
  unfold parseNumber at h
  split at h
  · split at h
    · rename_i c rest _
      have h1 := congrArg Prod.fst (Option.some.inj h)
      have := digits_lt 4 (c :: rest) 0
      simp only at h1
      omega
    · cases h
  · cases h

end Chess.Fen
namespace Chess.Board
open Chess

@[simp] theorem updatePinInfo_raw (b : Board) : b.updatePinInfo.raw = b.raw := rfl
@[simp] theorem updatePinInfo_turn (b : Board) : b.updatePinInfo.turn = b.turn := rfl
@[simp] theorem updatePinInfo_castle (b : Board) : b.updatePinInfo.castle = b.castle := rfl
@[simp] theorem updatePinInfo_ep (b : Board) : b.updatePinInfo.ep = b.ep := rfl
@[simp] theorem updatePinInfo_half (b : Board) : b.updatePinInfo.half = b.half := rfl
@[simp] theorem updatePinInfo_full (b : Board) : b.updatePinInfo.full = b.full := rfl
@[simp] theorem updatePinInfo_zobrist (b : Board) : b.updatePinInfo.zobrist = b.zobrist := rfl

theorem kingSq_congr (a b : Board) (c : Color) (hr : a.raw = b.raw) : a.kingSq c = b.kingSq c := by
  unfold kingSq kingSq? kingBB; rw [hr]

theorem validate_congr (a b : Board) (hr : a.raw = b.raw) (ht : a.turn = b.turn) (hc : a.castle = b.castle)
    (he : a.ep = b.ep) : a.validate = b.validate := by
  simp only [validate, validateEnPassant, validateCastleRights, validateOpponentNotInCheck,
    kingSq_congr a b _ hr, hr, ht, hc, he]

theorem updatePinInfo_congr (a b : Board) (hr : a.raw = b.raw) (ht : a.turn = b.turn) :
    a.updatePinInfo.pinned = b.updatePinInfo.pinned ∧ a.updatePinInfo.checkers = b.updatePinInfo.checkers := by
  simp only [updatePinInfo, kingSq_congr a b _ hr, hr, ht, and_self]

theorem validate_updatePinInfo (b : Board) : b.updatePinInfo.validate = b.validate :=
  validate_congr _ _ rfl rfl rfl rfl

theorem pinInfoOk_updatePinInfo (b : Board) : b.updatePinInfo.pinInfoOk = true := by
  have := updatePinInfo_congr b.updatePinInfo b rfl rfl
  simp only [pinInfoOk, this.1, this.2, beq_self_eq_true, Bool.and_self]

end Chess.Board
namespace Chess.RawBoard
open Chess BB Spec

/-- pointwise partition predicate on the eight membership bits of a square -/
def okAt (w b p n bi r q k : Bool) : Bool :=
  !(w && b) && !(p && n) && !(p && bi) && !(p && r) && !(p && q) && !(p && k) &&
  !(n && bi) && !(n && r) && !(n && q) && !(n && k) && !(bi && r) && !(bi && q) && !(bi && k) &&
  !(r && q) && !(r && k) && !(q && k) && ((p || n || bi || r || q || k) == (w || b))

theorem bb_eq_iff (a b : BB) : a = b ↔ ∀ s, mem a s = mem b s :=
  ⟨fun h _ => h ▸ rfl, ext_mem⟩

theorem partitionOk_iff (r : RawBoard) :
    r.partitionOk = true ↔ ∀ s, okAt (mem r.white s) (mem r.black s) (mem r.pawn s) (mem r.knight s)
      (mem r.bishop s) (mem r.rook s) (mem r.queen s) (mem r.king s) = true := by
  simp only [partitionOk, okAt, Bool.and_eq_true, beq_iff_eq, bb_eq_iff, mem_and', mem_or', mem_zero,
    Bool.not_eq_true', forall_and, and_assoc]

theorem okAt_empty : ∀ p n bi r q k : Bool, okAt false false p n bi r q k = true →
    p = false ∧ n = false ∧ bi = false ∧ r = false ∧ q = false ∧ k = false := by decide

theorem okAt_place (c : Color) (p : Piece) :
    okAt (decide (c = .white)) (decide (c = .black)) (decide (p = .pawn)) (decide (p = .knight))
      (decide (p = .bishop)) (decide (p = .rook)) (decide (p = .queen)) (decide (p = .king)) = true := by
  cases c <;> cases p <;> decide

theorem mem_setUnchecked (r : RawBoard) (c : Color) (p : Piece) (sq s : Sq) :
    mem (r.setUnchecked c p sq).white s = (mem r.white s || (s == sq && decide (c = .white))) ∧
    mem (r.setUnchecked c p sq).black s = (mem r.black s || (s == sq && decide (c = .black))) ∧
    mem (r.setUnchecked c p sq).pawn s = (mem r.pawn s || (s == sq && decide (p = .pawn))) ∧
    mem (r.setUnchecked c p sq).knight s = (mem r.knight s || (s == sq && decide (p = .knight))) ∧
    mem (r.setUnchecked c p sq).bishop s = (mem r.bishop s || (s == sq && decide (p = .bishop))) ∧
    mem (r.setUnchecked c p sq).rook s = (mem r.rook s || (s == sq && decide (p = .rook))) ∧
    mem (r.setUnchecked c p sq).queen s = (mem r.queen s || (s == sq && decide (p = .queen))) ∧
    mem (r.setUnchecked c p sq).king s = (mem r.king s || (s == sq && decide (p = .king))) := by
  cases c <;> cases p <;> simp [setUnchecked, setColor, setPiece, color, piece]


/-- on a partitioned board an empty square (no colour) carries no piece bit either -/
theorem empty_at {r : RawBoard} (h : r.partitionOk = true) {sq : Sq} (he : mem r.all sq = false) :
    mem r.white sq = false ∧ mem r.black sq = false ∧ mem r.pawn sq = false ∧ mem r.knight sq = false ∧
    mem r.bishop sq = false ∧ mem r.rook sq = false ∧ mem r.queen sq = false ∧ mem r.king sq = false := by
  have h1 := (partitionOk_iff r).1 h sq
  simp only [all, mem_or', Bool.or_eq_false_iff] at he
  rw [he.1, he.2] at h1
  exact ⟨he.1, he.2, okAt_empty _ _ _ _ _ _ h1⟩

theorem partitionOk_setUnchecked {r : RawBoard} (h : r.partitionOk = true) (c : Color) (p : Piece)
    {sq : Sq} (he : mem r.all sq = false) : (r.setUnchecked c p sq).partitionOk = true := by
  rw [partitionOk_iff]
  intro s
  obtain ⟨m1, m2, m3, m4, m5, m6, m7, m8⟩ := mem_setUnchecked r c p sq s
  rw [m1, m2, m3, m4, m5, m6, m7, m8]
  by_cases hs : s = sq
  · subst hs
    obtain ⟨e1, e2, e3, e4, e5, e6, e7, e8⟩ := empty_at h he
    simp only [e1, e2, e3, e4, e5, e6, e7, e8, beq_self_eq_true, Bool.true_and, Bool.false_or]
    exact okAt_place c p
  · have : (s == sq) = false := by simpa using hs
    simp only [this, Bool.false_and, Bool.or_false]
    exact (partitionOk_iff r).1 h s

theorem mem_all_setUnchecked (r : RawBoard) (c : Color) (p : Piece) (sq s : Sq) :
    mem (r.setUnchecked c p sq).all s = (mem r.all s || s == sq) := by
  obtain ⟨m1, m2, -⟩ := mem_setUnchecked r c p sq s
  simp only [all, mem_or', m1, m2]
  cases c <;> simp <;> cases mem r.white s <;> cases mem r.black s <;> simp

/-- `pieceOn` as a function of the eight membership bits -/
def pieceOnB (w b p n bi r q k : Bool) : Option (Color × Piece) :=
  let col : Option Color := if w then some .white else if b then some .black else Option.none
  let pc : Option Piece :=
    if p then some .pawn else if n then some .knight else if bi then some .bishop
    else if r then some .rook else if q then some .queen else if k then some .king else Option.none
  match col, pc with
  | some c, some p => some (c, p)
  | _, _ => Option.none

theorem pieceOn_eq (r : RawBoard) (s : Sq) : pieceOn r s =
    pieceOnB (mem r.white s) (mem r.black s) (mem r.pawn s) (mem r.knight s)
      (mem r.bishop s) (mem r.rook s) (mem r.queen s) (mem r.king s) := rfl

theorem pieceOnB_place (c : Color) (p : Piece) :
    pieceOnB (decide (c = .white)) (decide (c = .black)) (decide (p = .pawn)) (decide (p = .knight))
      (decide (p = .bishop)) (decide (p = .rook)) (decide (p = .queen)) (decide (p = .king)) = some (c, p) := by
  cases c <;> cases p <;> rfl

theorem pieceOn_of_empty {r : RawBoard} (h : r.partitionOk = true) {sq : Sq} (he : mem r.all sq = false) :
    pieceOn r sq = Option.none := by
  obtain ⟨e1, e2, e3, e4, e5, e6, e7, e8⟩ := empty_at h he
  rw [pieceOn_eq, e1, e2, e3, e4, e5, e6, e7, e8]; rfl

theorem pieceOn_setUnchecked {r : RawBoard} (h : r.partitionOk = true) (c : Color) (p : Piece)
    {sq : Sq} (he : mem r.all sq = false) (s : Sq) :
    pieceOn (r.setUnchecked c p sq) s = if s = sq then some (c, p) else pieceOn r s := by
  obtain ⟨m1, m2, m3, m4, m5, m6, m7, m8⟩ := mem_setUnchecked r c p sq s
  rw [pieceOn_eq, m1, m2, m3, m4, m5, m6, m7, m8]
  by_cases hs : s = sq
  · subst hs
    obtain ⟨e1, e2, e3, e4, e5, e6, e7, e8⟩ := empty_at h he
    simp only [e1, e2, e3, e4, e5, e6, e7, e8, beq_self_eq_true, Bool.true_and, Bool.false_or, if_true]
    exact pieceOnB_place c p
  · have : (s == sq) = false := by simpa using hs
    simp only [this, Bool.false_and, Bool.or_false, hs, if_false]
    rfl


theorem foldl_xor_acc (f : Sq → BB) (l : List Sq) (a k : BB) :
    l.foldl (fun z s => z ^^^ f s) (a ^^^ k) = l.foldl (fun z s => z ^^^ f s) a ^^^ k := by
  induction l generalizing a with
  | nil => rfl
  | cons x l ih =>
    simp only [List.foldl_cons]
    rw [← ih]
    congr 1
    ac_rfl

theorem foldl_xor_congr (f g : Sq → BB) (l : List Sq) (a : BB) (h : ∀ s ∈ l, g s = f s) :
    l.foldl (fun z s => z ^^^ g s) a = l.foldl (fun z s => z ^^^ f s) a := by
  induction l generalizing a with
  | nil => rfl
  | cons x l ih =>
    simp only [List.foldl_cons]
    rw [h x (by simp), ih _ (fun s hs => h s (by simp [hs]))]

theorem foldl_xor_update (f g : Sq → BB) (sq : Sq) (k : BB) (hsq : g sq = f sq ^^^ k)
    (hne : ∀ s, s ≠ sq → g s = f s) (l : List Sq) (hl : l.Nodup) (hm : sq ∈ l) (a : BB) :
    l.foldl (fun z s => z ^^^ g s) a = l.foldl (fun z s => z ^^^ f s) a ^^^ k := by
  induction l generalizing a with
  | nil => cases hm
  | cons x l ih =>
    simp only [List.foldl_cons]
    rw [List.nodup_cons] at hl
    by_cases hx : x = sq
    · subst hx
      rw [foldl_xor_congr f g l _ (fun s hs => hne s (fun e => hl.1 (e ▸ hs))), hsq,
        ← BitVec.xor_assoc, foldl_xor_acc]
    · rw [hne x hx]
      exact ih hl.2 (by simpa [Ne.symm hx] using hm) _

def keyAt (r : RawBoard) (s : Sq) : BB :=
  match pieceOn r s with
  | some (c, p) => Lookup.zobristPiece s p c
  | Option.none => 0#64

theorem pieceHash_eq (r : RawBoard) :
    r.pieceHash = (List.finRange 64).foldl (fun z s => z ^^^ keyAt r s) 0#64 := by
  unfold pieceHash
  congr 1
  funext z s
  unfold keyAt
  cases pieceOn r s with
  | none => simp
  | some cp => rfl

theorem pieceHash_setUnchecked {r : RawBoard} (h : r.partitionOk = true) (c : Color) (p : Piece)
    {sq : Sq} (he : mem r.all sq = false) :
    (r.setUnchecked c p sq).pieceHash = r.pieceHash ^^^ Lookup.zobristPiece sq p c := by
  rw [pieceHash_eq, pieceHash_eq]
  apply foldl_xor_update (keyAt r) (keyAt (r.setUnchecked c p sq)) sq
  · simp only [keyAt, pieceOn_setUnchecked h c p he, pieceOn_of_empty h he, if_true]
    simp
  · intro s hs
    simp only [keyAt, pieceOn_setUnchecked h c p he, hs, if_false]
  · exact List.nodup_finRange 64
  · exact List.mem_finRange sq

theorem pieceHash_empty : RawBoard.empty.pieceHash = 0#64 := by
  rw [pieceHash_eq]
  have : ∀ s, keyAt RawBoard.empty s = 0#64 := by
    intro s
    simp [keyAt, pieceOn, RawBoard.empty]
  simp only [this, BitVec.xor_zero]
  generalize List.finRange 64 = l
  induction l with
  | nil => rfl
  | cons x l ih => simpa using ih

theorem partitionOk_empty : RawBoard.empty.partitionOk = true := by decide

end Chess.RawBoard
namespace Chess.Fen
open Chess BB

theorem rank_mk (f : File) (r : Rank) : (Sq.mk f r).rank = r := by
  apply Fin.ext; simp only [Sq.mk, Sq.rank]; have := f.isLt; omega
theorem file_mk (f : File) (r : Rank) : (Sq.mk f r).file = f := by
  apply Fin.ext; simp only [Sq.mk, Sq.file]; have := f.isLt; omega

/-- the loop invariant of `placement`: partition, hash, and every square not yet visited is empty -/
def Inv (file rank : Nat) (raw : RawBoard) (z : BB) : Prop :=
  raw.partitionOk = true ∧ z = raw.pieceHash ∧
  ∀ s : Sq, (s.rank.val < rank ∨ (s.rank.val = rank ∧ file ≤ s.file.val)) → BB.mem raw.all s = false

theorem Inv.weaken {file rank file' rank' : Nat} {raw : RawBoard} {z : BB} (h : Inv file rank raw z)
    (hw : ∀ s : Sq, (s.rank.val < rank' ∨ (s.rank.val = rank' ∧ file' ≤ s.file.val)) →
      (s.rank.val < rank ∨ (s.rank.val = rank ∧ file ≤ s.file.val))) : Inv file' rank' raw z :=
  ⟨h.1, h.2.1, fun s hs => h.2.2 s (hw s hs)⟩

theorem Inv.place {file rank : Nat} {raw : RawBoard} {z : BB} (h : Inv file rank raw z)
    (hf : file < 8) (hr : rank < 8) (col : Color) (p : Piece) :
    Inv (file + 1) rank (raw.setUnchecked col p (Sq.mk ⟨file, hf⟩ ⟨rank, hr⟩))
      (z ^^^ Lookup.zobristPiece (Sq.mk ⟨file, hf⟩ ⟨rank, hr⟩) p col) := by
  obtain ⟨h1, h2, h3⟩ := h
  have he : BB.mem raw.all (Sq.mk ⟨file, hf⟩ ⟨rank, hr⟩) = false := by
    apply h3; right; rw [rank_mk, file_mk]; exact ⟨rfl, Nat.le_refl _⟩
  refine ⟨RawBoard.partitionOk_setUnchecked h1 col p he, ?_, ?_⟩
  · rw [RawBoard.pieceHash_setUnchecked h1 col p he, h2]
  · intro s hs
    rw [RawBoard.mem_all_setUnchecked, h3 s (by omega), Bool.false_or]
    apply beq_false_of_ne
    intro e
    subst e
    rw [rank_mk, file_mk] at hs
    simp only at hs
    omega

theorem Inv.init : Inv 0 7 RawBoard.empty 0#64 :=
  ⟨RawBoard.partitionOk_empty, RawBoard.pieceHash_empty.symm, fun s _ => by simp [RawBoard.all, RawBoard.empty]⟩

theorem placement_inv (s : List Byte) : ∀ (file rank : Nat) (raw : RawBoard) (z : BB)
    (raw' : RawBoard) (z' : BB) (rest : List Byte), Inv file rank raw z →
    placement s file rank raw z = .ok (raw', z', rest) →
    raw'.partitionOk = true ∧ z' = raw'.pieceHash := by
  induction s with
  | nil => intro file rank raw z raw' z' rest _ h; simp [placement] at h
  | cons c tl ih =>
    intro file rank raw z raw' z' rest hI h
    rw [placement_cons] at h
    split at h
    case isFalse => cases h
    rename_i hfr
    split at h
    · cases h
    · exact ih _ _ _ _ _ _ _ hI h
    · rename_i raw1 z1 dist hp
      have I1 : Inv (file + dist) rank raw1 z1 := by
        rcases pstep_some hp with ⟨col, p, e1, e2, e3⟩ | ⟨e1, e2⟩
        · subst e1 e2 e3; exact hI.place hfr.1 hfr.2 col p
        · subst e1 e2; exact hI.weaken (fun s hs => by omega)
      split at h
      · exact ih _ _ _ _ _ _ _ I1 h
      · split at h
        · split at h
          · cases h; exact ⟨I1.1, I1.2.1⟩
          · exact ih _ _ _ _ _ _ _ (I1.weaken (fun s hs => by omega)) h
        · cases h

end Chess.Fen

namespace Chess.Fen
open Chess

theorem parseFen_ne_trap (s : List Byte) : parseFen s ≠ .error .trap := by
  unfold parseFen
  split
  · rename_i e h
    intro he
    cases he
    exact placement_ne_trap s 0 7 _ _ (by omega) (by omega) h
  · rename_i raw z rest _
    rcases parseRest_cases raw z rest with ⟨e, h1, h2⟩ | ⟨_, _, _, _, _, _, _, _, _, _, _, _, _, _, _, h1⟩
    · rw [h1]; intro he; cases he; exact h2 rfl
    · rw [h1]; intro he; cases he

/-- everything the parser establishes about an accepted board, before `update_pin_info` -/
theorem parseFen_ok {s : List Byte} {b : Board} (h : parseFen s = .ok b) :
    ∃ raw z turn wk wq bk bq ep half full,
      raw.partitionOk = true ∧ z = raw.pieceHash ∧ half ≤ 9999 ∧ full ≤ 9999 ∧
      (mkB raw z turn (crOf wk wq bk bq) ep half full).validate = .ok () ∧
      b = (mkB raw z turn (crOf wk wq bk bq) ep half full).updatePinInfo := by
  unfold parseFen at h
  split at h
  · cases h
  · rename_i raw z rest hp
    obtain ⟨hpart, hz⟩ := placement_inv s 0 7 _ _ _ _ _ Inv.init hp
    rcases parseRest_cases raw z rest with ⟨e, h1, _⟩ | ⟨turn, wk, wq, bk, bq, ep, half, full, _, _, _, _, n1, n2, hv, h1⟩
    · rw [h1] at h; cases h
    · rw [h1] at h
      cases h
      exact ⟨raw, z, turn, wk, wq, bk, bq, ep, half, full, hpart, hz, parseNumber_le n1, parseNumber_le n2, hv, rfl⟩

end Chess.Fen
