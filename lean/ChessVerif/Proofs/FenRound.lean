/- Helper lemmas for C05 (FEN round trip). -/
import ChessVerif.Model.Fen
import ChessVerif.Spec.WF
import ChessVerif.Proofs.BB

namespace Chess.Fen
open Chess Chess.Spec

/-! ### evaluation helpers -/

/-- Boolean form of `r = .ok b` (there is no `DecidableEq (Except _ _)` instance) -/
def okIs (r : Except Error Board) (b : Board) : Bool :=
  match r with | .ok b' => decide (b' = b) | .error _ => false

theorem eq_of_okIs {r b} (h : okIs r b = true) : r = .ok b := by
  unfold okIs at h; split at h
  · simp at h; rw [h]
  · cases h

/-! ### decimal numbers -/

/-- the byte of a decimal digit -/
def digB (d : Nat) : Byte := Fin.ofNat 256 (48 + d)

theorem digB_val (d : Nat) (h : d < 10) : (digB d).val = 48 + d := by
  simp only [digB, Fin.ofNat]; omega

theorem ofNat_digitChar (d : Nat) (h : d < 10) : (Fin.ofNat 256 d.digitChar.toNat : Byte) = digB d := by
  rw [Nat.toNat_digitChar_of_lt_ten h, digB]

theorem toDec_eq_if (n : Nat) :
    toDec n = if n < 10 then [digB n] else toDec (n / 10) ++ [digB (n % 10)] := by
  unfold toDec
  rw [Nat.toDigits_eq_if (by decide)]
  split
  · simp [ofNat_digitChar _ ‹_›]
  · simp [ofNat_digitChar _ (Nat.mod_lt n (by decide : 10 > 0))]

theorem toDec_digit (n : Nat) : ∀ c ∈ toDec n, 48 ≤ c.val ∧ c.val ≤ 57 := by
  induction n using Nat.strongRecOn with
  | _ n ih =>
    intro c hc
    rw [toDec_eq_if] at hc
    split at hc
    · simp at hc; subst hc; rw [digB_val _ ‹_›]; omega
    · simp at hc
      rcases hc with hc | hc
      · exact ih (n / 10) (by omega) c hc
      · subst hc; rw [digB_val _ (Nat.mod_lt n (by decide))]; omega

theorem toDec_ne_nil (n : Nat) : toDec n ≠ [] := by
  simp [toDec]

theorem toDec_length_le (n k : Nat) (hk : 0 < k) : (toDec n).length ≤ k ↔ n < 10 ^ k := by
  simp only [toDec, List.length_map]
  exact Nat.length_toDigits_le_iff (by decide) hk

theorem digits_toDec (n : Nat) : ∀ (k : Nat) (rest : List Byte) (acc : Nat), (toDec n).length ≤ k →
    digits k (toDec n ++ rest) acc =
      digits (k - (toDec n).length) rest (acc * 10 ^ (toDec n).length + n) := by
  induction n using Nat.strongRecOn with
  | _ n ih =>
    intro k rest acc hk
    rw [toDec_eq_if] at hk ⊢
    by_cases h : n < 10
    · simp only [if_pos h, List.length_cons, List.length_nil] at hk ⊢
      obtain ⟨k, rfl⟩ : ∃ k', k = k' + 1 := ⟨k - 1, by omega⟩
      simp only [List.cons_append, List.nil_append, digits, digB_val _ h]
      rw [if_pos (by omega)]
      simp
    · simp only [if_neg h, List.length_append, List.length_cons, List.length_nil] at hk ⊢
      rw [List.append_assoc, ih (n / 10) (by omega) k _ acc (by omega)]
      obtain ⟨j, hj⟩ : ∃ j, k - (toDec (n / 10)).length = j + 1 := ⟨k - (toDec (n / 10)).length - 1, by omega⟩
      rw [hj]
      simp only [List.cons_append, List.nil_append, digits, digB_val _ (Nat.mod_lt n (by decide : 10 > 0))]
      rw [if_pos (by omega)]
      have e1 : j = k - ((toDec (n / 10)).length + 1) := by omega
      rw [e1]
      congr 1
      rw [Nat.pow_succ]
      have := Nat.div_add_mod n 10
      generalize 10 ^ (toDec (n / 10)).length = P
      rw [Nat.add_mul, Nat.mul_assoc]
      omega

theorem digits_stop (k : Nat) (rest : List Byte) (acc : Nat)
    (hrest : ∀ c r, rest = c :: r → ¬ (48 ≤ c.val ∧ c.val ≤ 57)) : digits k rest acc = (acc, rest) := by
  cases k with
  | zero => rfl
  | succ k =>
    cases rest with
    | nil => rfl
    | cons c r => simp only [digits]; rw [if_neg (hrest c r rfl)]

theorem parseNumber_toDec (n : Nat) (hn : n ≤ 9999) (rest : List Byte)
    (hrest : ∀ c r, rest = c :: r → ¬ (48 ≤ c.val ∧ c.val ≤ 57)) :
    parseNumber (toDec n ++ rest) = some (n, rest) := by
  have hlen : (toDec n).length ≤ 4 := (toDec_length_le n 4 (by decide)).2 (by omega)
  have hd := toDec_digit n
  have hne := toDec_ne_nil n
  unfold parseNumber
  cases h : toDec n with
  | nil => exact absurd h hne
  | cons c r =>
    have hc := hd c (by rw [h]; simp)
    simp only [List.cons_append]
    rw [if_pos hc, ← List.cons_append, ← h, digits_toDec n 4 rest 0 hlen, digits_stop _ _ _ hrest]
    simp

/-! ### the placement loop, token by token -/

/-- what the loop does after a token has been read and `file` advanced -/
def after (rest : List Byte) (file rank : Nat) (raw : RawBoard) (z : BB) :
    Except Error (RawBoard × BB × List Byte) :=
  if file ≤ 7 then placement rest file rank raw z
  else if file = 8 then
    if rank = 0 then .ok (raw, z, rest) else placement rest 0 (rank - 1) raw z
  else .error .fileOutOfBounds

theorem after_le (rest file rank raw z) (h : file ≤ 7) :
    after rest file rank raw z = placement rest file rank raw z := by
  simp only [after, if_pos h]

theorem placement_piece (c : Byte) (rest : List Byte) (g : File) (r : Rank) (raw z col p)
    (hp : parsePiece c = .piece col p) :
    placement (c :: rest) g.val r.val raw z =
      after rest (g.val + 1) r.val (raw.setUnchecked col p (Sq.mk g r))
        (z ^^^ Lookup.zobristPiece (Sq.mk g r) p col) := by
  rw [placement]
  simp only [dif_pos (And.intro g.isLt r.isLt), hp, after]

theorem placement_skip (c : Byte) (rest : List Byte) (file rank : Nat) (raw z n)
    (hf : file < 8) (hr : rank < 8) (hp : parsePiece c = .skip n) :
    placement (c :: rest) file rank raw z = after rest (file + n) rank raw z := by
  rw [placement]
  simp only [dif_pos (And.intro hf hr), hp, after]

theorem parsePiece_slash : parsePiece 47 = .none := rfl

theorem placement_slash (rest : List Byte) (file rank : Nat) (raw z)
    (hf : file < 8) (hr : rank < 8) :
    placement (47 :: rest) file rank raw z = placement rest file rank raw z := by
  rw [placement]
  have h7 : file ≤ 7 := by omega
  have e : ((47 : Byte) : Nat) = 47 := rfl
  simp only [dif_pos (And.intro hf hr), parsePiece_slash, e, if_true, Nat.add_zero, if_pos h7]

theorem parsePiece_pieceChar (c : Color) (p : Piece) : parsePiece (pieceChar c p) = .piece c p := by
  cases c <;> cases p <;> rfl

theorem parsePiece_digB (m : Nat) (h1 : 1 ≤ m) (h8 : m ≤ 8) : parsePiece (digB m) = .skip m := by
  rcases (by omega : m = 1 ∨ m = 2 ∨ m = 3 ∨ m = 4 ∨ m = 5 ∨ m = 6 ∨ m = 7 ∨ m = 8) with
    rfl | rfl | rfl | rfl | rfl | rfl | rfl | rfl <;> rfl

theorem toDec_small (m : Nat) (h : m < 10) : toDec m = [digB m] := by
  rw [toDec_eq_if, if_pos h]

/-! ### one rank -/

/-- the text of the files `fs` of rank `r` with `m` pending empty squares -/
def rankText (src : RawBoard) (r : Rank) : List File → Nat → List Byte
  | [], m => if m ≠ 0 then toDec m else []
  | f :: fs, m =>
    match src.get (Sq.mk f r) with
    | some (c, p) => (if m ≠ 0 then toDec m else []) ++ [pieceChar c p] ++ rankText src r fs 0
    | none => rankText src r fs (m + 1)

theorem showRank_eq (src : RawBoard) (r : Rank) :
    showRank src r = rankText src r (List.finRange 8) 0 := by
  let step := fun (st : List Byte × Nat) (f : Fin 8) =>
    match src.get (Sq.mk f r) with
    | some (c, p) => (st.1 ++ (if st.2 ≠ 0 then toDec st.2 else []) ++ [pieceChar c p], 0)
    | none => (st.1, st.2 + 1)
  have key : ∀ (fs : List File) (out : List Byte) (m : Nat),
      (fs.foldl step (out, m)).1 ++
        (if (fs.foldl step (out, m)).2 ≠ 0 then toDec (fs.foldl step (out, m)).2 else []) =
      out ++ rankText src r fs m := by
    intro fs
    induction fs with
    | nil => intro out m; rfl
    | cons f fs ih =>
      intro out m
      cases h : src.get (Sq.mk f r) with
      | none =>
        have e : (f :: fs).foldl step (out, m) = fs.foldl step (out, m + 1) := by
          simp only [List.foldl_cons, step, h]
        rw [e, ih]
        simp only [rankText, h]
      | some cp =>
        obtain ⟨c, p⟩ := cp
        have e : (f :: fs).foldl step (out, m) =
            fs.foldl step (out ++ (if m ≠ 0 then toDec m else []) ++ [pieceChar c p], 0) := by
          simp only [List.foldl_cons, step, h]
        rw [e, ih]
        simp only [rankText, h, List.append_assoc]
  exact key (List.finRange 8) [] 0

/-- the board and hash updates of one square -/
def rawStep (src : RawBoard) (acc : RawBoard) (s : Sq) : RawBoard :=
  match src.get s with
  | some (c, p) => acc.setUnchecked c p s
  | none => acc

def keyStep (src : RawBoard) (z : BB) (s : Sq) : BB :=
  match src.get s with
  | some (c, p) => z ^^^ Lookup.zobristPiece s p c
  | none => z

theorem after_rankText (src : RawBoard) (r : Rank) (rest : List Byte) :
    ∀ (fs : List File) (f m : Nat) (raw' : RawBoard) (z' : BB),
      fs = (List.finRange 8).drop f → f ≤ 8 → m ≤ f →
      after (rankText src r fs m ++ rest) (f - m) r.val raw' z' =
        after rest 8 r.val ((fs.map (fun g => Sq.mk g r)).foldl (rawStep src) raw')
          ((fs.map (fun g => Sq.mk g r)).foldl (keyStep src) z') := by
  intro fs
  induction fs with
  | nil =>
    intro f m raw' z' hfs hf hm
    have hf8 : f = 8 := by
      have := congrArg List.length hfs
      simp at this; omega
    subst hf8
    simp only [rankText, List.map_nil, List.foldl_nil]
    by_cases h0 : m = 0
    · subst h0; simp
    · simp only [ne_eq, h0, not_false_eq_true, if_true]
      rw [toDec_small m (by omega), after_le _ _ _ _ _ (by omega)]
      simp only [List.cons_append, List.nil_append]
      rw [placement_skip _ _ _ _ _ _ m (by omega) r.isLt (parsePiece_digB m (by omega) hm)]
      congr 1; omega
  | cons g fs ih =>
    intro f m raw' z' hfs hf hm
    have hlen := congrArg List.length hfs
    simp only [List.length_cons, List.length_drop, List.length_finRange] at hlen
    have hf7 : f < 8 := by omega
    rw [List.drop_eq_getElem_cons (by simpa using hf7)] at hfs
    simp only [List.getElem_finRange, List.cons.injEq] at hfs
    obtain ⟨hg, hfs'⟩ := hfs
    have hgv : g.val = f := by simp [hg]
    simp only [rankText, List.map_cons, List.foldl_cons, rawStep, keyStep]
    cases hget : src.get (Sq.mk g r) with
    | none =>
      simp only []
      have := ih (f + 1) (m + 1) raw' z' hfs' (by omega) (by omega)
      rw [show f + 1 - (m + 1) = f - m by omega] at this
      exact this
    | some cp =>
      obtain ⟨c, p⟩ := cp
      simp only []
      have hih := ih (f + 1) 0 (raw'.setUnchecked c p (Sq.mk g r))
        (z' ^^^ Lookup.zobristPiece (Sq.mk g r) p c) hfs' (by omega) (by omega)
      rw [Nat.sub_zero] at hih
      rw [← hih]
      by_cases h0 : m = 0
      · subst h0
        simp only [ne_eq, not_true_eq_false, if_false, List.nil_append, List.cons_append,
          Nat.sub_zero]
        rw [after_le _ _ _ _ _ (by omega), ← hgv,
          placement_piece _ _ g r _ _ c p (parsePiece_pieceChar c p)]
      · simp only [ne_eq, h0, not_false_eq_true, if_true]
        rw [toDec_small m (by omega), after_le _ _ _ _ _ (by omega)]
        simp only [List.cons_append, List.nil_append]
        rw [placement_skip _ _ _ _ _ _ m (by omega) r.isLt (parsePiece_digB m (by omega) (by omega)),
          show f - m + m = g.val by omega, after_le _ _ _ _ _ (by omega),
          placement_piece _ _ g r _ _ c p (parsePiece_pieceChar c p), hgv]

/-! ### all eight ranks -/

/-- the squares of rank `r`, files a..h -/
def rankSqs (r : Rank) : List Sq := (List.finRange 8).map (fun g => Sq.mk g r)

/-- one complete rank: the loop arrives at `file = 8` with the rank's pieces added -/
theorem after_showRank (src : RawBoard) (r : Rank) (rest : List Byte) (raw' : RawBoard) (z' : BB) :
    after (showRank src r ++ rest) 0 r.val raw' z' =
      after rest 8 r.val ((rankSqs r).foldl (rawStep src) raw') ((rankSqs r).foldl (keyStep src) z') := by
  rw [showRank_eq]
  exact after_rankText src r rest (List.finRange 8) 0 0 raw' z' rfl (by omega) (by omega)

theorem after_showRank_slash (src : RawBoard) (r : Rank) (hr : r.val ≠ 0) (rest : List Byte)
    (raw' : RawBoard) (z' : BB) :
    after (showRank src r ++ 47 :: rest) 0 r.val raw' z' =
      after rest 0 (r.val - 1) ((rankSqs r).foldl (rawStep src) raw')
        ((rankSqs r).foldl (keyStep src) z') := by
  rw [after_showRank]
  have := r.isLt
  simp only [after, show ¬ (8 ≤ 7) by omega, if_false, if_true, if_neg hr, Nat.zero_le]
  rw [placement_slash _ _ _ _ _ (by omega) (by omega)]

theorem after_showRank_last (src : RawBoard) (rest : List Byte) (raw' : RawBoard) (z' : BB) :
    after (showRank src 0 ++ rest) 0 0 raw' z' =
      .ok ((rankSqs 0).foldl (rawStep src) raw', (rankSqs 0).foldl (keyStep src) z', rest) := by
  have := after_showRank src 0 rest raw' z'
  rw [show ((0 : Rank) : Nat) = 0 from rfl] at this
  rw [this]
  simp [after]

/-- the order in which the placement text visits the squares: a8..h8, a7..h7, …, a1..h1 -/
def fenOrder : List Sq :=
  rankSqs 7 ++ rankSqs 6 ++ rankSqs 5 ++ rankSqs 4 ++ rankSqs 3 ++ rankSqs 2 ++ rankSqs 1 ++ rankSqs 0

/-- the placement field written by `display` -/
def placementText (src : RawBoard) : List Byte :=
  ([7, 6, 5, 4, 3, 2, 1, 0] : List Rank).foldl
    (fun acc r => acc ++ showRank src r ++ (if r ≠ 0 then [47] else [])) []

theorem placementText_eq (src : RawBoard) : placementText src =
    showRank src 7 ++ 47 :: (showRank src 6 ++ 47 :: (showRank src 5 ++ 47 :: (showRank src 4 ++ 47 ::
      (showRank src 3 ++ 47 :: (showRank src 2 ++ 47 :: (showRank src 1 ++ 47 :: showRank src 0)))))) := by
  simp [placementText]

/-- **placement round trip**: the loop reads the placement text back, stops right after it, and
has rebuilt board and hash square by square in text order -/
theorem placement_placementText (src : RawBoard) (rest : List Byte) :
    placement (placementText src ++ rest) 0 7 RawBoard.empty 0#64 =
      .ok (fenOrder.foldl (rawStep src) RawBoard.empty, fenOrder.foldl (keyStep src) 0#64, rest) := by
  rw [← after_le _ _ _ _ _ (by omega), placementText_eq]
  simp only [List.append_assoc, List.cons_append]
  have h7 : ∀ (rest : List Byte) (raw' : RawBoard) (z' : BB),
      after (showRank src 7 ++ 47 :: rest) 0 7 raw' z' =
        after rest 0 6 ((rankSqs 7).foldl (rawStep src) raw') ((rankSqs 7).foldl (keyStep src) z') :=
    after_showRank_slash src 7 (by decide)
  have h6 : ∀ (rest : List Byte) (raw' : RawBoard) (z' : BB),
      after (showRank src 6 ++ 47 :: rest) 0 6 raw' z' =
        after rest 0 5 ((rankSqs 6).foldl (rawStep src) raw') ((rankSqs 6).foldl (keyStep src) z') :=
    after_showRank_slash src 6 (by decide)
  have h5 : ∀ (rest : List Byte) (raw' : RawBoard) (z' : BB),
      after (showRank src 5 ++ 47 :: rest) 0 5 raw' z' =
        after rest 0 4 ((rankSqs 5).foldl (rawStep src) raw') ((rankSqs 5).foldl (keyStep src) z') :=
    after_showRank_slash src 5 (by decide)
  have h4 : ∀ (rest : List Byte) (raw' : RawBoard) (z' : BB),
      after (showRank src 4 ++ 47 :: rest) 0 4 raw' z' =
        after rest 0 3 ((rankSqs 4).foldl (rawStep src) raw') ((rankSqs 4).foldl (keyStep src) z') :=
    after_showRank_slash src 4 (by decide)
  have h3 : ∀ (rest : List Byte) (raw' : RawBoard) (z' : BB),
      after (showRank src 3 ++ 47 :: rest) 0 3 raw' z' =
        after rest 0 2 ((rankSqs 3).foldl (rawStep src) raw') ((rankSqs 3).foldl (keyStep src) z') :=
    after_showRank_slash src 3 (by decide)
  have h2 : ∀ (rest : List Byte) (raw' : RawBoard) (z' : BB),
      after (showRank src 2 ++ 47 :: rest) 0 2 raw' z' =
        after rest 0 1 ((rankSqs 2).foldl (rawStep src) raw') ((rankSqs 2).foldl (keyStep src) z') :=
    after_showRank_slash src 2 (by decide)
  have h1 : ∀ (rest : List Byte) (raw' : RawBoard) (z' : BB),
      after (showRank src 1 ++ 47 :: rest) 0 1 raw' z' =
        after rest 0 0 ((rankSqs 1).foldl (rawStep src) raw') ((rankSqs 1).foldl (keyStep src) z') :=
    after_showRank_slash src 1 (by decide)
  rw [h7, h6, h5, h4, h3, h2, h1]
  simp only [fenOrder, List.foldl_append]
  exact after_showRank_last src rest _ _

/-! ### the rebuilt board is the board -/

/-- `RawBoard.get` as a function of the eight membership bits of the square -/
def getB (w b p n bi r q : Bool) : Option (Color × Piece) :=
  let pc : Piece := if (p || n || bi) then (if p then .pawn else if n then .knight else .bishop)
    else if r then .rook else if q then .queen else .king
  if w then some (.white, pc) else if b then some (.black, pc) else none

theorem get_eq_getB (src : RawBoard) (t : Sq) :
    src.get t = getB (BB.mem src.white t) (BB.mem src.black t) (BB.mem src.pawn t)
      (BB.mem src.knight t) (BB.mem src.bishop t) (BB.mem src.rook t) (BB.mem src.queen t) := by
  simp only [RawBoard.get, RawBoard.colorOf, RawBoard.pieceOfUnchecked, BB.contains_eq_mem,
    BB.mem_or', getB]
  generalize BB.mem src.white t = w
  generalize BB.mem src.black t = b
  generalize BB.mem src.pawn t = p
  generalize BB.mem src.knight t = n
  generalize BB.mem src.bishop t = bi
  generalize BB.mem src.rook t = r
  generalize BB.mem src.queen t = q
  cases w <;> cases b <;> cases p <;> cases n <;> cases bi <;> cases r <;> cases q <;> rfl

/-- `Spec.pieceOn` as a function of the bits -/
def pieceOnB (w b p n bi r q k : Bool) : Option (Color × Piece) :=
  let col : Option Color := if w then some .white else if b then some .black else none
  let pc : Option Piece :=
    if p then some .pawn else if n then some .knight
    else if bi then some .bishop else if r then some .rook
    else if q then some .queen else if k then some .king else none
  match col, pc with
  | some c, some p => some (c, p)
  | _, _ => none

theorem pieceOn_eq_pieceOnB (src : RawBoard) (t : Sq) :
    pieceOn src t = pieceOnB (BB.mem src.white t) (BB.mem src.black t) (BB.mem src.pawn t)
      (BB.mem src.knight t) (BB.mem src.bishop t) (BB.mem src.rook t) (BB.mem src.queen t)
      (BB.mem src.king t) := rfl

/-- the partition property of one square -/
def partB (w b p n bi r q k : Bool) : Bool :=
  !(w && b) &&
  !(p && n) && !(p && bi) && !(p && r) && !(p && q) && !(p && k) &&
  !(n && bi) && !(n && r) && !(n && q) && !(n && k) &&
  !(bi && r) && !(bi && q) && !(bi && k) &&
  !(r && q) && !(r && k) && !(q && k) &&
  ((p || n || bi || r || q || k) == (w || b))

theorem partB_of_partitionOk (src : RawBoard) (h : src.partitionOk = true) (t : Sq) :
    partB (BB.mem src.white t) (BB.mem src.black t) (BB.mem src.pawn t)
      (BB.mem src.knight t) (BB.mem src.bishop t) (BB.mem src.rook t) (BB.mem src.queen t)
      (BB.mem src.king t) = true := by
  simp only [RawBoard.partitionOk, Bool.and_eq_true, beq_iff_eq] at h
  obtain ⟨⟨⟨⟨⟨⟨⟨⟨⟨⟨⟨⟨⟨⟨⟨⟨h1, h2⟩, h3⟩, h4⟩, h5⟩, h6⟩, h7⟩, h8⟩, h9⟩, h10⟩, h11⟩, h12⟩, h13⟩, h14⟩, h15⟩, h16⟩, h17⟩ := h
  simp only [partB, ← BB.mem_and', ← BB.mem_or', h1, h2, h3, h4, h5, h6, h7, h8, h9, h10, h11, h12,
    h13, h14, h15, h16, h17, BB.mem_zero]
  simp

theorem get_eq_pieceOn (src : RawBoard) (h : src.partitionOk = true) (t : Sq) :
    src.get t = pieceOn src t := by
  have hp := partB_of_partitionOk src h t
  rw [get_eq_getB, pieceOn_eq_pieceOnB]
  revert hp
  generalize BB.mem src.white t = w
  generalize BB.mem src.black t = b
  generalize BB.mem src.pawn t = p
  generalize BB.mem src.knight t = n
  generalize BB.mem src.bishop t = bi
  generalize BB.mem src.rook t = r
  generalize BB.mem src.queen t = q
  generalize BB.mem src.king t = k
  revert w b p n bi r q k
  decide

/-- the colour / the piece type that `get` reports on a square -/
def colAt (src : RawBoard) (t : Sq) (c : Color) : Bool :=
  match src.get t with
  | some (c', _) => c' == c
  | none => false

def pcAt (src : RawBoard) (t : Sq) (p : Piece) : Bool :=
  match src.get t with
  | some (_, p') => p' == p
  | none => false

theorem colAt_eq (src : RawBoard) (h : src.partitionOk = true) (t : Sq) (c : Color) :
    colAt src t c = BB.mem (src.color c) t := by
  have hp := partB_of_partitionOk src h t
  rw [colAt, get_eq_getB]
  cases c <;> simp only [RawBoard.color] <;>
  · revert hp
    generalize BB.mem src.white t = w
    generalize BB.mem src.black t = b
    generalize BB.mem src.pawn t = p
    generalize BB.mem src.knight t = n
    generalize BB.mem src.bishop t = bi
    generalize BB.mem src.rook t = r
    generalize BB.mem src.queen t = q
    generalize BB.mem src.king t = k
    revert w b p n bi r q k
    decide

theorem pcAt_eq (src : RawBoard) (h : src.partitionOk = true) (t : Sq) (pc : Piece) :
    pcAt src t pc = BB.mem (src.piece pc) t := by
  have hp := partB_of_partitionOk src h t
  rw [pcAt, get_eq_getB]
  cases pc <;> simp only [RawBoard.piece] <;>
  · revert hp
    generalize BB.mem src.white t = w
    generalize BB.mem src.black t = b
    generalize BB.mem src.pawn t = p
    generalize BB.mem src.knight t = n
    generalize BB.mem src.bishop t = bi
    generalize BB.mem src.rook t = r
    generalize BB.mem src.queen t = q
    generalize BB.mem src.king t = k
    revert w b p n bi r q k
    decide

theorem mem_setUnchecked_color (r : RawBoard) (c : Color) (p : Piece) (s t : Sq) (c' : Color) :
    BB.mem ((r.setUnchecked c p s).color c') t = (BB.mem (r.color c') t || (c' == c && t == s)) := by
  cases c <;> cases p <;> cases c' <;>
    simp [RawBoard.setUnchecked, RawBoard.setColor, RawBoard.setPiece, RawBoard.color, RawBoard.piece]

theorem mem_setUnchecked_piece (r : RawBoard) (c : Color) (p : Piece) (s t : Sq) (p' : Piece) :
    BB.mem ((r.setUnchecked c p s).piece p') t = (BB.mem (r.piece p') t || (p' == p && t == s)) := by
  cases c <;> cases p <;> cases p' <;>
    simp [RawBoard.setUnchecked, RawBoard.setColor, RawBoard.setPiece, RawBoard.color, RawBoard.piece]

theorem mem_rawStep_color (src acc : RawBoard) (s t : Sq) (c : Color) :
    BB.mem ((rawStep src acc s).color c) t = (BB.mem (acc.color c) t || (t == s && colAt src s c)) := by
  simp only [rawStep, colAt]
  cases src.get s with
  | none => simp
  | some cp =>
    obtain ⟨c', p'⟩ := cp
    simp only [mem_setUnchecked_color]
    rw [Bool.and_comm (c == c'), BEq.comm (a := c)]

theorem mem_rawStep_piece (src acc : RawBoard) (s t : Sq) (p : Piece) :
    BB.mem ((rawStep src acc s).piece p) t = (BB.mem (acc.piece p) t || (t == s && pcAt src s p)) := by
  simp only [rawStep, pcAt]
  cases src.get s with
  | none => simp
  | some cp =>
    obtain ⟨c', p'⟩ := cp
    simp only [mem_setUnchecked_piece]
    rw [Bool.and_comm (p == p'), BEq.comm (a := p)]

theorem mem_foldl_rawStep_color (src : RawBoard) (l : List Sq) (acc : RawBoard) (t : Sq) (c : Color) :
    BB.mem ((l.foldl (rawStep src) acc).color c) t =
      (BB.mem (acc.color c) t || (l.contains t && colAt src t c)) := by
  induction l generalizing acc with
  | nil => simp
  | cons s l ih =>
    simp only [List.foldl_cons, ih, mem_rawStep_color, List.contains_cons]
    by_cases e : t = s
    · subst e; cases colAt src t c <;> simp
    · have : (t == s) = false := by simp [e]
      simp [this]

theorem mem_foldl_rawStep_piece (src : RawBoard) (l : List Sq) (acc : RawBoard) (t : Sq) (p : Piece) :
    BB.mem ((l.foldl (rawStep src) acc).piece p) t =
      (BB.mem (acc.piece p) t || (l.contains t && pcAt src t p)) := by
  induction l generalizing acc with
  | nil => simp
  | cons s l ih =>
    simp only [List.foldl_cons, ih, mem_rawStep_piece, List.contains_cons]
    by_cases e : t = s
    · subst e; cases pcAt src t p <;> simp
    · have : (t == s) = false := by simp [e]
      simp [this]

theorem fenOrder_contains : ∀ t : Sq, fenOrder.contains t = true := by decide +kernel

theorem RawBoard.ext_color_piece {a b : RawBoard} (hc : ∀ c, a.color c = b.color c)
    (hp : ∀ p, a.piece p = b.piece p) : a = b := by
  cases a; cases b
  have h1 := hc .white; have h2 := hc .black
  have h3 := hp .pawn; have h4 := hp .knight; have h5 := hp .bishop
  have h6 := hp .rook; have h7 := hp .queen; have h8 := hp .king
  simp only [RawBoard.color, RawBoard.piece] at h1 h2 h3 h4 h5 h6 h7 h8
  simp [*]

/-- **the rebuilt placement**: on a partitioned board, setting every reported piece on the empty
board gives the board back -/
theorem foldl_rawStep_fenOrder (src : RawBoard) (h : src.partitionOk = true) :
    fenOrder.foldl (rawStep src) RawBoard.empty = src := by
  apply RawBoard.ext_color_piece
  · intro c; apply BB.ext_mem; intro t
    rw [mem_foldl_rawStep_color, fenOrder_contains, colAt_eq src h]
    cases c <;> simp [RawBoard.empty, RawBoard.color]
  · intro p; apply BB.ext_mem; intro t
    rw [mem_foldl_rawStep_piece, fenOrder_contains, pcAt_eq src h]
    cases p <;> simp [RawBoard.empty, RawBoard.piece]

/-! ### the rebuilt hash is the piece hash -/

theorem keyStep_comm (src : RawBoard) (z : BB) (x y : Sq) :
    keyStep src (keyStep src z x) y = keyStep src (keyStep src z y) x := by
  simp only [keyStep]
  cases src.get x <;> cases src.get y <;> simp only [] 
  rw [BitVec.xor_assoc, BitVec.xor_assoc, BitVec.xor_comm (Lookup.zobristPiece _ _ _)]

theorem fenOrder_perm : fenOrder.Perm (List.finRange 64) := by decide +kernel

theorem foldl_keyStep_fenOrder (src : RawBoard) (h : src.partitionOk = true) :
    fenOrder.foldl (keyStep src) 0#64 = src.pieceHash := by
  rw [fenOrder_perm.foldl_eq' (fun x _ y _ z => keyStep_comm src z x y)]
  unfold RawBoard.pieceHash
  congr 1
  funext z s
  simp only [keyStep, get_eq_pieceOn src h]
  rfl

/-! ### the fields after the placement -/

theorem skipSpaces_cons_ne (c : Byte) (rest : List Byte) (h : c.val ≠ 32) :
    skipSpaces (c :: rest) = c :: rest := by
  simp only [skipSpaces, if_neg h]

theorem parseWhitespace_space (s : List Byte) (w : Whitespace) :
    parseWhitespace (32 :: s) w = .ok (skipSpaces s) := by
  have e : ((32 : Byte) : Nat) = 32 := rfl
  simp only [parseWhitespace, e, if_true]

theorem skipSpaces_toDec (n : Nat) (rest : List Byte) :
    skipSpaces (toDec n ++ rest) = toDec n ++ rest := by
  cases h : toDec n with
  | nil => exact absurd h (toDec_ne_nil n)
  | cons c r =>
    have := toDec_digit n c (by rw [h]; simp)
    exact skipSpaces_cons_ne _ _ (by omega)

/-- the castling field, for each of the 16 values: no leading space, and the four
`parse_castle_rights` calls plus the `-` rule recover the rights and stop at the space -/
theorem castle_field (cr : Nat) (h : cr < 16) (rest : List Byte) :
    skipSpaces (showCastle cr ++ 32 :: rest) = showCastle cr ++ 32 :: rest ∧
    ∃ wk wq bk bq s1 s2 s3 s4,
      parseCastle (showCastle cr ++ 32 :: rest) 75 = (wk, s1) ∧
      parseCastle s1 81 = (wq, s2) ∧
      parseCastle s2 107 = (bk, s3) ∧
      parseCastle s3 113 = (bq, s4) ∧
      (if bq then Castle.add (if bk then Castle.add (if wq then Castle.add (if wk then Castle.add 0 .king .white else 0) .queen .white else (if wk then Castle.add 0 .king .white else 0)) .king .black else (if wq then Castle.add (if wk then Castle.add 0 .king .white else 0) .queen .white else (if wk then Castle.add 0 .king .white else 0))) .queen .black else (if bk then Castle.add (if wq then Castle.add (if wk then Castle.add 0 .king .white else 0) .queen .white else (if wk then Castle.add 0 .king .white else 0)) .king .black else (if wq then Castle.add (if wk then Castle.add 0 .king .white else 0) .queen .white else (if wk then Castle.add 0 .king .white else 0)))) = cr ∧
      (if !(wk || wq || bk || bq) then s4 = 45 :: 32 :: rest else s4 = 32 :: rest) := by
  have : cr = 0 ∨ cr = 1 ∨ cr = 2 ∨ cr = 3 ∨ cr = 4 ∨ cr = 5 ∨ cr = 6 ∨ cr = 7 ∨ cr = 8 ∨ cr = 9 ∨
      cr = 10 ∨ cr = 11 ∨ cr = 12 ∨ cr = 13 ∨ cr = 14 ∨ cr = 15 := by omega
  rcases this with rfl | rfl | rfl | rfl | rfl | rfl | rfl | rfl | rfl | rfl | rfl | rfl | rfl | rfl | rfl | rfl <;>
    exact ⟨rfl, _, _, _, _, _, _, _, _, rfl, rfl, rfl, rfl, rfl, rfl⟩

theorem skipSpaces_toDec' (n : Nat) : skipSpaces (toDec n) = toDec n := by
  have := skipSpaces_toDec n []
  simpa using this

theorem parseNumber_toDec_space (n : Nat) (hn : n ≤ 9999) (rest : List Byte) :
    parseNumber (toDec n ++ 32 :: rest) = some (n, 32 :: rest) :=
  parseNumber_toDec n hn _ (by
    intro c r h
    simp only [List.cons.injEq] at h
    rw [← h.1]; decide)

theorem parseNumber_toDec_end (n : Nat) (hn : n ≤ 9999) :
    parseNumber (toDec n) = some (n, []) := by
  have := parseNumber_toDec n hn [] (by intro c r h; cases h)
  simpa using this

theorem fin8_fileByte (f : File) : Text.fin8? ((Text.fileByte f).val - 97) = some f := by
  simp [Text.fin8?, Text.fileByte]

theorem fileByte_ge (f : File) : 97 ≤ (Text.fileByte f).val := by
  simp [Text.fileByte]

theorem fileByte_le (f : File) : (Text.fileByte f).val ≤ 104 := by
  have := f.isLt
  simp only [Text.fileByte]; omega

theorem skipSpaces_fileByte (f : File) (rest : List Byte) :
    skipSpaces (Text.fileByte f :: rest) = Text.fileByte f :: rest :=
  skipSpaces_cons_ne _ _ (by have := fileByte_ge f; omega)

/-- the board the parser assembles before validation -/
def assembled (raw : RawBoard) (z : BB) (b : Board) : Board :=
  { zobrist := z, raw := raw, turn := b.turn, pinned := 0#64, checkers := 0#64,
    castle := b.castle, ep := b.ep, half := b.half, full := b.full }

/-- the five fields after the placement, as written by `display` -/
def restText (b : Board) : List Byte :=
  (match b.turn with | .white => ([32, 119, 32] : List Byte) | .black => [32, 98, 32]) ++ showCastle b.castle ++
  (match b.ep with
    | some f => [32, Text.fileByte f, Text.rankByte b.turn.epCaptureRank, 32]
    | none => [32, 45, 32]) ++ toDec b.half ++ [32] ++ toDec b.full

theorem parseRest_restText (b : Board) (hc : b.castle < 16) (hh : b.half ≤ 9999) (hf : b.full ≤ 9999)
    (raw : RawBoard) (z : BB) :
    parseRest raw z (restText b) =
      match (assembled raw z b).validate with
      | .error e => .error (.boardValidation e)
      | .ok () => .ok (assembled raw z b).updatePinInfo := by
  obtain ⟨zb, turn, castle, ep, half, full, pinned, checkers, rawb⟩ := b
  simp only at hc hh hf
  simp only [restText, assembled]
  have e32 : ((32 : Byte) : Nat) = 32 := rfl
  have e119 : ((119 : Byte) : Nat) = 119 := rfl
  have e98 : ((98 : Byte) : Nat) = 98 := rfl
  have e45 : ((45 : Byte) : Nat) = 45 := rfl
  have e54 : ((Text.rankByte 5 : Byte) : Nat) = 54 := rfl
  have e51 : ((Text.rankByte 2 : Byte) : Nat) = 51 := rfl
  obtain ⟨hsk, wk, wq, bk, bq, s1, s2, s3, s4, h1, h2, h3, h4, hcr, hs4⟩ := castle_field castle hc
    ((match ep with
    | some f => [32, Text.fileByte f, Text.rankByte turn.epCaptureRank, 32]
    | none => [32, 45, 32]) ++ toDec half ++ [32] ++ toDec full).tail
  cases turn <;> cases ep <;>
    simp only [List.cons_append, List.append_assoc, List.nil_append, List.tail_cons,
      Color.epCaptureRank] at * <;>
    unfold parseRest <;>
    simp only [parseWhitespace_space, skipSpaces_cons_ne (119 : Byte) _ (by decide),
      skipSpaces_cons_ne (98 : Byte) _ (by decide), e119, e98, hsk, h1, h2,
      h3, h4, Nat.reduceEqDiff, ↓reduceIte, hcr] <;>
    cases hb : (!(wk || wq || bk || bq)) <;>
    simp only [hb, Bool.false_eq_true, ↓reduceIte] at hs4 ⊢ <;>
    subst hs4 <;>
    simp only [e45, ↓reduceIte, parseWhitespace_space, skipSpaces_cons_ne (45 : Byte) _ (by decide)]
  all_goals
    simp only [Nat.reduceLeDiff, false_and, ↓reduceIte, parseWhitespace_space, skipSpaces_toDec,
      skipSpaces_toDec', parseNumber_toDec_space _ hh, parseNumber_toDec_end _ hf, List.isEmpty_nil,
      fileByte_ge, fileByte_le, e54, e51, Nat.reduceEqDiff, or_true, true_or, and_self, ne_eq,
      not_true_eq_false, fin8_fileByte,
      skipSpaces_fileByte]
  all_goals rfl


/-! ### validation and pin information -/

theorem validate_congr (b1 b2 : Board) (hr : b1.raw = b2.raw) (ht : b1.turn = b2.turn)
    (he : b1.ep = b2.ep) (hc : b1.castle = b2.castle) : b1.validate = b2.validate := by
  obtain ⟨z1, t1, c1, e1, h1, f1, p1, k1, r1⟩ := b1
  obtain ⟨z2, t2, c2, e2, h2, f2, p2, k2, r2⟩ := b2
  simp only at hr ht he hc
  subst hr ht he hc
  rfl

theorem updatePinInfo_fields (b : Board) :
    b.updatePinInfo = { b with pinned := b.updatePinInfo.pinned, checkers := b.updatePinInfo.checkers } := rfl

theorem updatePinInfo_congr (b1 b2 : Board) (hr : b1.raw = b2.raw) (ht : b1.turn = b2.turn) :
    b1.updatePinInfo.pinned = b2.updatePinInfo.pinned ∧
    b1.updatePinInfo.checkers = b2.updatePinInfo.checkers := by
  obtain ⟨z1, t1, c1, e1, h1, f1, p1, k1, r1⟩ := b1
  obtain ⟨z2, t2, c2, e2, h2, f2, p2, k2, r2⟩ := b2
  simp only at hr ht
  subst hr ht
  exact ⟨rfl, rfl⟩

theorem updatePinInfo_restore (b : Board) (h : b.pinInfoOk = true) :
    ({ b with pinned := 0#64, checkers := 0#64 } : Board).updatePinInfo = b := by
  simp only [Board.pinInfoOk, Bool.and_eq_true, beq_iff_eq] at h
  obtain ⟨h1, h2⟩ := h
  obtain ⟨e1, e2⟩ := updatePinInfo_congr { b with pinned := 0#64, checkers := 0#64 } b rfl rfl
  rw [updatePinInfo_fields, e1, e2, ← h1, ← h2]

/-! ### the whole text -/

theorem display_eq (b : Board) : display b = placementText b.raw ++ restText b := by
  simp only [display, placementText, restText, List.append_assoc]
  rfl

/-- **C05 round trip** -/
theorem parseFen_display (b : Board) (hwf : b.WF = true) (hh : b.half ≤ 9999) (hf : b.full ≤ 9999) :
    parseFen (display b) = .ok b := by
  simp only [Board.WF, Bool.and_eq_true, decide_eq_true_eq, beq_iff_eq] at hwf
  obtain ⟨⟨⟨⟨hpart, hval⟩, hc⟩, hpin⟩, hz⟩ := hwf
  rw [display_eq, parseFen, placement_placementText]
  simp only []
  rw [foldl_rawStep_fenOrder _ hpart, foldl_keyStep_fenOrder _ hpart, ← hz,
    parseRest_restText b hc hh hf]
  have hv : (assembled b.raw b.zobrist b).validate = b.validate := validate_congr _ _ rfl rfl rfl rfl
  rw [hv]
  cases hvb : b.validate with
  | error e => rw [hvb] at hval; cases hval
  | ok u =>
    cases u
    simp only []
    congr 1
    exact updatePinInfo_restore b hpin

end Chess.Fen
