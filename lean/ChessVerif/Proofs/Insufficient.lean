/-
The chess fact behind C12's side condition: with insufficient material in the engine's sense
(no queen, rook or pawn; at most one minor piece on the whole board) nobody is checkmated.  Hence a
capture that leaves insufficient material — which `alphabeta` scores as a draw before it looks for
mate — is never a mating move, and `mate1_found` holds without side condition.
Statements fixed; proofs below.

Route: the bit counts say that the mailbox holds kings and at most one knight or bishop (`Bare`);
in check, the checker is that piece (`bare_check_attacker`: the kings are not adjacent because the
side not to move is not in check); the finite geometric fact `checkK_all` (kernel evaluation,
`Insufficient/K0.lean` … `K7.lean`) yields a king step to a square that is neither the other king's
nor next to it nor attacked by the piece once the king has left; such a step is legal
(`bare_escape_legal`, through `Legal.legal_king_step_iff` and `Legal.attacked_iff`).
-/
import ChessVerif.Proofs.Search
import ChessVerif.Proofs.Mirror.Valid
import ChessVerif.Proofs.Insufficient.All

namespace Chess.Proofs.Insufficient
open Chess Chess.Spec Chess.Engine Chess.MoveGen Chess.Proofs.Search

section Helpers
open Chess.Legal Chess.Rays

/-- the mailbox holds kings and at most one further man, a knight or a bishop -/
structure Bare (p : Position) : Prop where
  only : ∀ s col pc, p.pieceAt s = some (col, pc) → pc = .king ∨ pc = .knight ∨ pc = .bishop
  one : ∀ s s' col col' pc pc', p.pieceAt s = some (col, pc) → p.pieceAt s' = some (col', pc') →
    pc ≠ .king → pc' ≠ .king → s = s'

def minorOf (kn : Bool) : Piece := if kn then .knight else .bishop

theorem okCfg_use (k e y : Sq) (kn : Bool) (h1 : minorAtt kn y k e = true) (h2 : k ≠ e) (h3 : e ≠ y)
    (h4 : kingAtt e k = false) : ∃ n, kingAtt k n = true ∧ esc e y kn n = true := by
  have h := checkK_all k
  unfold checkK at h
  rw [List.all_eq_true] at h
  have h := h y (List.mem_finRange y)
  rw [List.all_eq_true] at h
  have h := h kn (by cases kn <;> simp)
  rw [List.all_eq_true] at h
  have h := h e (List.mem_finRange e)
  unfold okCfg at h
  rw [h1] at h
  have e1 : (k != e) = true := by simpa using h2
  have e2 : (e != y) = true := by simpa using h3
  rw [e1, e2, h4] at h
  simp only [Bool.and_self, Bool.not_false, Bool.not_true, Bool.false_or, List.any_eq_true] at h
  obtain ⟨n, hn, hesc⟩ := h
  unfold kingSteps at hn
  rw [List.mem_filter] at hn
  exact ⟨n, hn.2, hesc⟩

/-- a clear segment does not contain an occupied square -/
theorem clear_all_ne (occ : Sq → Bool) (a b e : Sq) (he : occ e = true) (h : clear occ a b = true) :
    (betweenList a b).all (· != e) = true := by
  unfold clear at h
  rw [List.all_eq_true] at h ⊢
  intro u hu
  have := h u hu
  rw [bne_iff_ne]
  intro hue
  rw [hue, he] at this
  cases this


theorem color_cases (c c' : Color) : c' = c ∨ c' = c.flip := by cases c <;> cases c' <;> simp [Color.flip]

theorem minorOf_ne_king (kn : Bool) : minorOf kn ≠ .king := by cases kn <;> simp [minorOf]

/-- in check with bare kings and one minor piece: the checker is that piece -/
theorem bare_check_attacker (p : Position) (c : Color) (k e : Sq) (hb : Bare p)
    (hk : p.pieceAt k = some (c, .king)) (he : p.pieceAt e = some (c.flip, .king))
    (heu : ∀ x, p.pieceAt x = some (c.flip, .king) → x = e)
    (hatt : p.attacked k c.flip = true) (hsafe : p.attacked e c = false) :
    ∃ y kn, p.pieceAt y = some (c.flip, minorOf kn) ∧ minorAtt kn y k e = true := by
  rw [attacked_iff] at hatt
  obtain ⟨x, hx⟩ := hatt
  rcases hpx : p.pieceAt x with _ | ⟨c', pc⟩
  · rw [contactOn_none _ _ _ _ hpx, sliderOn_none _ _ _ _ hpx] at hx
    simp at hx
  · rcases hb.only x c' pc hpx with rfl | rfl | rfl
    · simp only [contactOn, sliderOn, hpx, Bool.and_eq_true, beq_iff_eq, Bool.false_eq_true, false_and,
        or_false] at hx
      obtain ⟨rfl, hkk⟩ := hx
      have hxe := heu x hpx
      subst hxe
      exfalso
      have : p.attacked x c = true := by
        rw [attacked_iff]
        refine ⟨k, Or.inl ?_⟩
        simp only [contactOn, hk, beq_self_eq_true, Bool.true_and]
        rw [kingAtt_symm]; exact hkk
      rw [hsafe] at this
      cases this
    · simp only [contactOn, sliderOn, hpx, Bool.and_eq_true, beq_iff_eq, Bool.false_eq_true, false_and,
        or_false] at hx
      obtain ⟨rfl, hkk⟩ := hx
      exact ⟨x, true, hpx, hkk⟩
    · simp only [contactOn, sliderOn, hpx, Bool.and_eq_true, beq_iff_eq, Bool.false_eq_true,
        false_or] at hx
      obtain ⟨⟨rfl, hal⟩, hcl⟩ := hx
      refine ⟨x, false, hpx, ?_⟩
      simp only [minorAtt, Bool.false_eq_true, if_false, Bool.and_eq_true]
      refine ⟨hal, clear_all_ne _ _ _ _ ?_ hcl⟩
      simp only [Position.occupied, he, Option.isSome_some]


/-- an escape square of the finite test is the destination of a legal king step -/
theorem bare_escape_legal (p : Position) (k e y n : Sq) (kn : Bool) (hb : Bare p)
    (hk : p.kings p.turn = [k]) (he : p.pieceAt e = some (p.turn.flip, .king))
    (heu : ∀ x, p.pieceAt x = some (p.turn.flip, .king) → x = e)
    (hy : p.pieceAt y = some (p.turn.flip, minorOf kn))
    (hstep : kingAtt k n = true) (hesc : esc e y kn n = true) : p.legal ⟨k, n, none⟩ = true := by
  obtain ⟨hkk, hku⟩ := (kings_iff p p.turn k).1 hk
  have hkn : k ≠ n := by
    intro h
    rw [h] at hstep
    simp [kingAtt] at hstep
  simp only [esc, Bool.and_eq_true, bne_iff_ne, ne_eq, Bool.not_eq_true', Bool.or_eq_true, beq_iff_eq] at hesc
  obtain ⟨⟨hne, hka⟩, hor⟩ := hesc
  have hek : e ≠ k := by
    intro h
    rw [h, hkk] at he
    exact Color.flip_ne _ (Prod.mk.inj (Option.some.inj he)).1.symm
  rw [legal_king_step_iff p ⟨k, n, none⟩ k hkk hk hstep]
  refine ⟨rfl, ?_, ?_⟩
  · -- the destination
    show destOk p p.turn n = true
    unfold destOk
    rcases hpn : p.pieceAt n with _ | ⟨c', pc'⟩
    · rfl
    · simp only [Bool.and_eq_true, bne_iff_ne, ne_eq]
      rcases hb.only n c' pc' hpn with rfl | hm
      · exfalso
        rcases color_cases p.turn c' with rfl | rfl
        · exact hkn (hku n hpn).symm
        · exact hne (heu n hpn)
      · have hpk : pc' ≠ .king := by rcases hm with rfl | rfl <;> simp
        have hny := hb.one n y _ _ _ _ hpn hy hpk (minorOf_ne_king kn)
        rw [hny, hy] at hpn
        obtain ⟨h1, h2⟩ := Prod.mk.inj (Option.some.inj hpn)
        exact ⟨h1 ▸ Color.flip_ne _, hpk⟩
  · -- not attacked afterwards
    intro q hq
    show q.attacked n p.turn.flip = false
    cases hatt : q.attacked n p.turn.flip with
    | false => rfl
    | true =>
      exfalso
      rw [attacked_iff] at hatt
      obtain ⟨x, hx⟩ := hatt
      have hqe : q.occupied e = true := by
        have hen : e ≠ n := fun h => hne h.symm
        simp only [Position.occupied, hq, moveAt, if_neg hen, if_neg hek, he, Option.isSome_some]
      have hqx : q.pieceAt x = if x = n then some (p.turn, .king) else if x = k then none else p.pieceAt x := by
        rw [hq]; rfl
      by_cases hxn : x = n
      · rw [if_pos hxn] at hqx
        simp only [contactOn, sliderOn, hqx, Bool.and_eq_true, beq_iff_eq, Bool.false_eq_true, false_and,
          or_false] at hx
        exact Color.flip_ne _ hx.1.symm
      · rw [if_neg hxn] at hqx
        by_cases hxk : x = k
        · rw [if_pos hxk] at hqx
          rw [contactOn_none _ _ _ _ hqx, sliderOn_none _ _ _ _ hqx] at hx
          simp at hx
        · rw [if_neg hxk] at hqx
          rcases hpx : p.pieceAt x with _ | ⟨c', pc⟩
          · rw [hpx] at hqx
            rw [contactOn_none _ _ _ _ hqx, sliderOn_none _ _ _ _ hqx] at hx
            simp at hx
          · rw [hpx] at hqx
            rcases hb.only x c' pc hpx with rfl | rfl | rfl
            · simp only [contactOn, sliderOn, hqx, Bool.and_eq_true, beq_iff_eq, Bool.false_eq_true,
                false_and, or_false] at hx
              obtain ⟨rfl, hkk'⟩ := hx
              have := heu x hpx
              subst this
              rw [hka] at hkk'
              cases hkk'
            · simp only [contactOn, sliderOn, hqx, Bool.and_eq_true, beq_iff_eq, Bool.false_eq_true,
                false_and, or_false] at hx
              obtain ⟨rfl, hkk'⟩ := hx
              have hxy := hb.one x y _ _ _ _ hpx hy (by simp) (minorOf_ne_king kn)
              subst hxy
              rw [hpx] at hy
              have hkn' : kn = true := by
                cases kn
                · simp [minorOf] at hy
                · rfl
              subst hkn'
              rcases hor with h | h
              · exact hxn h.symm
              · simp only [minorAtt, if_true] at h
                rw [h] at hkk'
                cases hkk'
            · simp only [contactOn, sliderOn, hqx, Bool.and_eq_true, beq_iff_eq, Bool.false_eq_true,
                false_or] at hx
              obtain ⟨⟨rfl, hal⟩, hcl⟩ := hx
              have hxy := hb.one x y _ _ _ _ hpx hy (by simp) (minorOf_ne_king kn)
              subst hxy
              rw [hpx] at hy
              have hkn' : kn = false := by
                cases kn
                · rfl
                · simp [minorOf] at hy
              subst hkn'
              rcases hor with h | h
              · exact hxn h.symm
              · simp only [minorAtt, Bool.false_eq_true, if_false] at h
                rw [hal, clear_all_ne _ _ _ _ hqe hcl] at h
                cases h


theorem countP_le_one_unique {α} (f : α → Bool) : ∀ (l : List α), l.countP f ≤ 1 →
    ∀ a b, a ∈ l → b ∈ l → f a = true → f b = true → a = b
  | [], _, a, _, ha, _, _, _ => by cases ha
  | x :: l, h, a, b, ha, hb, fa, fb => by
    rw [List.countP_cons] at h
    rcases List.mem_cons.1 ha with rfl | ha'
    · rcases List.mem_cons.1 hb with rfl | hb'
      · rfl
      · exfalso
        rw [if_pos fa] at h
        have h0 : l.countP f = 0 := by omega
        exact List.countP_eq_zero.1 h0 b hb' fb
    · rcases List.mem_cons.1 hb with rfl | hb'
      · exfalso
        rw [if_pos fb] at h
        have h0 : l.countP f = 0 := by omega
        exact List.countP_eq_zero.1 h0 a ha' fa
      · exact countP_le_one_unique f l (by omega) a b ha' hb' fa fb

/-- the engine's test, on the mailbox -/
theorem bare_of_insufficient (b : Board) (hp : b.raw.partitionOk = true)
    (hi : insufficientMaterial b = true) : Bare (abs b) := by
  unfold insufficientMaterial at hi
  by_cases hany : BB.any (b.raw.queen ||| b.raw.rook ||| b.raw.pawn) = true
  · rw [if_pos hany] at hi; cases hi
  · rw [if_neg hany] at hi
    have hnone : ∀ s, BB.mem (b.raw.queen ||| b.raw.rook ||| b.raw.pawn) s = false := by
      intro s
      cases hm : BB.mem (b.raw.queen ||| b.raw.rook ||| b.raw.pawn) s with
      | false => rfl
      | true => exact absurd ((BB.any_iff _).2 ⟨s, hm⟩) hany
    have hcnt : BB.count b.raw.knight + BB.count b.raw.bishop ≤ 1 := by
      simp only [Bool.or_eq_true, Bool.and_eq_true, decide_eq_true_eq, beq_iff_eq] at hi
      omega
    have hsum := Entries.countP_add_of_pointwise (BB.mem b.raw.knight) (BB.mem b.raw.bishop)
      (fun s => BB.mem b.raw.knight s || BB.mem b.raw.bishop s) (List.finRange 64) (by
        intro s
        have e1 := AbsL.mem_piece b hp s .knight
        have e2 := AbsL.mem_piece b hp s .bishop
        rw [show b.raw.piece .knight = b.raw.knight from rfl] at e1
        rw [show b.raw.piece .bishop = b.raw.bishop from rfl] at e2
        simp only [e1, e2]
        rcases (abs b).pieceAt s with _ | ⟨c', p'⟩
        · rfl
        · cases p' <;> rfl)
    rw [← Entries.count_eq_countP, ← Entries.count_eq_countP] at hsum
    have honly : ∀ s col pc, (abs b).pieceAt s = some (col, pc) → pc = .king ∨ pc = .knight ∨ pc = .bishop := by
      intro s col pc hs
      have hq := AbsL.mem_piece b hp s .queen
      have hr := AbsL.mem_piece b hp s .rook
      have hw := AbsL.mem_piece b hp s .pawn
      rw [show b.raw.piece .queen = b.raw.queen from rfl] at hq
      rw [show b.raw.piece .rook = b.raw.rook from rfl] at hr
      rw [show b.raw.piece .pawn = b.raw.pawn from rfl] at hw
      have hn := hnone s
      rw [BB.mem_or', BB.mem_or', hq, hr, hw, hs] at hn
      cases pc
      · simp at hn
      · exact Or.inr (Or.inl rfl)
      · exact Or.inr (Or.inr rfl)
      · simp at hn
      · simp at hn
      · exact Or.inl rfl
    refine ⟨honly, ?_⟩
    intro s s' col col' pc pc' hs hs' hk hk'
    have hf : ∀ t col pc, (abs b).pieceAt t = some (col, pc) → pc ≠ .king →
        (BB.mem b.raw.knight t || BB.mem b.raw.bishop t) = true := by
      intro t col pc ht hpk
      have e1 := AbsL.mem_piece b hp t .knight
      have e2 := AbsL.mem_piece b hp t .bishop
      rw [show b.raw.piece .knight = b.raw.knight from rfl] at e1
      rw [show b.raw.piece .bishop = b.raw.bishop from rfl] at e2
      rw [e1, e2, ht]
      rcases honly t col pc ht with rfl | rfl | rfl
      · exact absurd rfl hpk
      · rfl
      · rfl
    exact countP_le_one_unique _ (List.finRange 64) (by rw [← hsum]; exact hcnt) s s'
      (List.mem_finRange s) (List.mem_finRange s') (hf s col pc hs hk) (hf s' col' pc' hs' hk')

end Helpers

/-- no checkmate with insufficient material -/
theorem insufficient_not_mate (b : Board) (h : b.WF = true) (hi : insufficientMaterial b = true) :
    ((MoveGen.legals b).isEmpty && b.inCheck) = false := by
  have hp := AbsL.wf_partition b h
  have hk := AbsL.wf_hasKings b h
  have hb := bare_of_insufficient b hp hi
  rw [Props.C03.isEmpty_iff b h, Props.C03.inCheck_iff b h]
  cases hc : (abs b).inCheck b.turn with
  | false => rw [Bool.and_false]
  | true =>
    rw [Bool.and_true]
    have hkk := AbsL.kings_eq b hp hk b.turn
    have hke := AbsL.kings_eq b hp hk b.turn.flip
    obtain ⟨he, heu⟩ := (Legal.kings_iff _ _ _).1 hke
    have hsafe : (abs b).inCheck b.turn.flip = false :=
      (Valid.validateOpp_iff' b hp hk).1 ((Valid.validate_ok_iff b).1 (AbsL.wf_validate b h)).2.2.2.2.2
    rw [Legal.inCheck_single _ _ _ hkk] at hc
    rw [Legal.inCheck_single _ _ _ hke, Color.flip_flip] at hsafe
    obtain ⟨y, kn, hy, hatt⟩ := bare_check_attacker (abs b) b.turn _ _ hb (Legal.kings_pieceAt _ _ _ hkk) he heu hc hsafe
    have hne : b.kingSq b.turn ≠ b.kingSq b.turn.flip := by
      intro e
      have := Legal.kings_pieceAt _ _ _ hkk
      rw [e, he] at this
      exact Color.flip_ne _ (Prod.mk.inj (Option.some.inj this)).1
    have hey : b.kingSq b.turn.flip ≠ y := by
      intro e
      rw [e, hy] at he
      exact minorOf_ne_king kn (Prod.mk.inj (Option.some.inj he)).2
    have hadj : kingAtt (b.kingSq b.turn.flip) (b.kingSq b.turn) = false := by
      cases hadj : kingAtt (b.kingSq b.turn.flip) (b.kingSq b.turn) with
      | false => rfl
      | true =>
        exfalso
        have : (abs b).attacked (b.kingSq b.turn.flip) b.turn = true := by
          rw [Legal.attacked_iff]
          refine ⟨b.kingSq b.turn, Or.inl ?_⟩
          simp only [Legal.contactOn, Legal.kings_pieceAt _ _ _ hkk, beq_self_eq_true, Bool.true_and]
          rw [Rays.kingAtt_symm]; exact hadj
        rw [hsafe] at this
        cases this
    obtain ⟨n, hstep, hesc⟩ := okCfg_use _ _ y kn hatt hne hey hadj
    have hl := bare_escape_legal (abs b) _ _ y n kn hb hkk he heu hy hstep hesc
    have hm := (Props.C03.mem_legalMoves_iff _ _).2 hl
    cases hlm : (abs b).legalMoves with
    | nil => rw [hlm] at hm; cases hm
    | cons _ _ => rfl

/-- a capture into insufficient material does not mate -/
theorem drawnCapture_not_mate (b : Board) (hwf : b.WF = true) (mv : Move)
    (hm : mv ∈ Props.C10.movesOf (MoveGen.legals b)) (hd : drawnCapture b mv = true) :
    isMateMove b mv = false := by
  have hl : b.isLegal mv = true := by
    rw [Props.C01.isLegal_iff, legalsList_eq b hwf]
    exact hm
  unfold drawnCapture at hd
  rw [Bool.and_eq_true] at hd
  exact insufficient_not_mate _ (Props.C02.move_WF b hwf mv hl) hd.2

/-- **C12, found** — without side condition -/
theorem mate1_found_full (pos : Bool) (b : Board) (hwf : b.WF = true) (tf : ThreeFold) (k prev : Nat)
    (hf : firstPassFinished pos b tf k = true)
    (hm : ∃ mv ∈ Props.C10.movesOf (MoveGen.legals b), isMateMove b mv = true) :
    ∃ mv, (search pos b tf k prev).move = some mv ∧ isMateMove b mv = true ∧
      (search pos b tf k prev).score = mateInOne b.turn := by
  obtain ⟨x, hxL, hxm⟩ := hm
  apply mate1_found pos b hwf tf k prev hf
  refine ⟨x, hxL, hxm, ?_⟩
  cases hd : drawnCapture b x with
  | false => rfl
  | true =>
    rw [drawnCapture_not_mate b hwf x hxL hd] at hxm
    cases hxm

end Chess.Proofs.Insufficient
