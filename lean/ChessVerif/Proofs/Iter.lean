/- Helper lemmas for C10 (move iterator). -/
import ChessVerif.Model.MoveGen
import ChessVerif.Proofs.BB

namespace Chess.MoveGen

/-! ### denotation of an iterator state (same text as `Props.C10.entryMoves` / `movesOf`) -/

/-- the choices for one destination of an entry -/
def destMoves (e : Entry) (d : Sq) : List Move :=
  if e.promotion then promoPieces.map (fun p => (⟨e.src, d, some p⟩ : Move)) else [⟨e.src, d, none⟩]

def eMoves (e : Entry) (mask : BB) : List Move :=
  (BB.toList (e.moves &&& mask)).flatMap fun d =>
    if e.promotion then promoPieces.map (fun p => (⟨e.src, d, some p⟩ : Move)) else [⟨e.src, d, none⟩]

def mvsOf (g : MoveGen) : List Move := (g.moves.drop g.index).flatMap (fun e => eMoves e g.mask)

theorem eMoves_eq (e : Entry) (mask : BB) :
    eMoves e mask = (BB.toList (e.moves &&& mask)).flatMap (destMoves e) := rfl

theorem promoPieces_length : promoPieces.length = 4 := by decide

theorem destMoves_length (e : Entry) (d : Sq) :
    (destMoves e d).length = if e.promotion then 4 else 1 := by
  unfold destMoves
  split <;> simp [promoPieces_length]

theorem destMoves_ne_nil (e : Entry) (d : Sq) : destMoves e d ≠ [] := by
  intro h
  have := destMoves_length e d
  rw [h] at this
  split at this <;> simp at this

theorem mem_destMoves {e : Entry} {d : Sq} {x : Move} (h : x ∈ destMoves e d) :
    x.source = e.src ∧ x.dest = d := by
  unfold destMoves at h
  split at h
  · rw [List.mem_map] at h
    obtain ⟨p, _, rfl⟩ := h
    exact ⟨rfl, rfl⟩
  · rw [List.mem_singleton] at h
    subst h
    exact ⟨rfl, rfl⟩

theorem mem_eMoves {e : Entry} {mask : BB} {x : Move} (h : x ∈ eMoves e mask) :
    x.source = e.src := by
  rw [eMoves_eq, List.mem_flatMap] at h
  obtain ⟨d, _, hd⟩ := h
  exact (mem_destMoves hd).1

/-! ### bitboard list facts -/

theorem toList_eq_nil_iff (b : BB) : BB.toList b = [] ↔ BB.none b = true := by
  rw [BB.none_iff, List.eq_nil_iff_forall_not_mem]
  constructor
  · intro h s
    have := h s
    rw [BB.mem_toList] at this
    simpa using this
  · intro h s
    rw [BB.mem_toList, h s]
    simp

theorem toList_filter (b : BB) (q : Sq → Bool) (c : BB)
    (h : ∀ s, BB.mem c s = (BB.mem b s && q s)) :
    BB.toList c = (BB.toList b).filter q := by
  unfold BB.toList
  rw [List.filter_filter]
  apply List.filter_congr
  intro s _
  rw [h s, Bool.and_comm]

/-! ### length, emptiness -/

theorem flatMap_destMoves_length (e : Entry) (l : List Sq) :
    (l.flatMap (destMoves e)).length = l.length * (if e.promotion then 4 else 1) := by
  induction l with
  | nil => simp
  | cons d l ih =>
    rw [List.flatMap_cons, List.length_append, ih, destMoves_length, List.length_cons, Nat.succ_mul]
    omega

theorem eMoves_length (e : Entry) (mask : BB) :
    (eMoves e mask).length = BB.count (e.moves &&& mask) * (if e.promotion then 4 else 1) := by
  rw [eMoves_eq, flatMap_destMoves_length, BB.count_eq_length_toList]

theorem eMoves_eq_nil_iff (e : Entry) (mask : BB) :
    eMoves e mask = [] ↔ BB.none (e.moves &&& mask) = true := by
  rw [← toList_eq_nil_iff, eMoves_eq, List.flatMap_eq_nil_iff]
  constructor
  · intro h
    cases hl : BB.toList (e.moves &&& mask) with
    | nil => rfl
    | cons d l =>
      exact absurd (h d (by rw [hl]; exact List.mem_cons_self)) (destMoves_ne_nil e d)
  · intro h d hd
    rw [h] at hd
    cases hd

/-- the step function of `len` -/
def lenStep (mask : BB) (acc : Nat × Nat) (e : Entry) : Nat × Nat :=
  let count := BB.count (e.moves &&& mask)
  if count == 0 then acc
  else if e.promotion then (acc.1 + (count * numPromo - acc.2), 0)
  else (acc.1 + count, acc.2)

theorem len_def (g : MoveGen) :
    g.len = ((g.moves.drop g.index).foldl (lenStep g.mask) (0, g.promoIdx)).1 := rfl

theorem lenStep_zero (mask : BB) (t : Nat) (e : Entry) :
    lenStep mask (t, 0) e = (t + (eMoves e mask).length, 0) := by
  have hn : numPromo = 4 := by decide
  rw [eMoves_length]
  unfold lenStep
  by_cases h0 : BB.count (e.moves &&& mask) = 0
  · simp [h0]
  · by_cases hp : e.promotion = true
    · simp [h0, hp, hn]
    · simp [h0, hp]

theorem len_fold (mask : BB) (l : List Entry) (t : Nat) :
    l.foldl (lenStep mask) (t, 0) = (t + (l.flatMap (fun e => eMoves e mask)).length, 0) := by
  induction l generalizing t with
  | nil => simp
  | cons e l ih =>
    rw [List.foldl_cons, lenStep_zero, ih, List.flatMap_cons, List.length_append, Nat.add_assoc]

theorem len_eq_mvsOf (g : MoveGen) (h : g.promoIdx = 0) : g.len = (mvsOf g).length := by
  rw [len_def, h, len_fold]
  simp [mvsOf]

theorem isEmpty_eq_mvsOf (g : MoveGen) : g.isEmpty = (mvsOf g).isEmpty := by
  rw [Bool.eq_iff_iff, List.isEmpty_iff]
  unfold isEmpty mvsOf
  rw [List.all_eq_true, List.flatMap_eq_nil_iff]
  constructor
  · intro h e he
    exact (eMoves_eq_nil_iff e g.mask).2 (h e he)
  · intro h e he
    exact (eMoves_eq_nil_iff e g.mask).1 (h e he)

/-! ### remove, removeMove -/

theorem filter_flatMap_of (q : Sq → Bool) (Q : Move → Bool) (f : Sq → List Move)
    (h : ∀ d, ∀ x ∈ f d, Q x = q d) (l : List Sq) :
    (l.filter q).flatMap f = (l.flatMap f).filter Q := by
  induction l with
  | nil => rfl
  | cons d l ih =>
    rw [List.flatMap_cons, List.filter_append, ← ih]
    by_cases hq : q d = true
    · rw [List.filter_cons_of_pos hq, List.flatMap_cons]
      congr 1
      symm
      rw [List.filter_eq_self]
      intro x hx
      rw [h d x hx, hq]
    · rw [List.filter_cons_of_neg hq]
      have : (f d).filter Q = [] := by
        rw [List.filter_eq_nil_iff]
        intro x hx
        rw [h d x hx]
        exact hq
      rw [this, List.nil_append]

theorem map_flatMap_filter (F : Entry → List Move) (hh : Entry → Entry) (Q : Move → Bool)
    (l : List Entry) (h : ∀ e ∈ l, F (hh e) = (F e).filter Q) :
    (l.map hh).flatMap F = (l.flatMap F).filter Q := by
  induction l with
  | nil => rfl
  | cons e l ih =>
    rw [List.map_cons, List.flatMap_cons, List.flatMap_cons, List.filter_append,
      h e List.mem_cons_self, ih (fun e' he' => h e' (List.mem_cons_of_mem _ he'))]

theorem eMoves_diff (e : Entry) (m mask : BB) :
    eMoves { e with moves := BB.diff e.moves m } mask =
      (eMoves e mask).filter (fun mv => !BB.mem m mv.dest) := by
  rw [eMoves_eq, eMoves_eq]
  show (BB.toList (BB.diff e.moves m &&& mask)).flatMap (destMoves e) = _
  rw [toList_filter (e.moves &&& mask) (fun d => !BB.mem m d) (BB.diff e.moves m &&& mask)]
  · apply filter_flatMap_of
    intro d x hx
    rw [(mem_destMoves hx).2]
  · intro s
    simp only [BB.mem_and', BB.mem_diff]
    cases BB.mem e.moves s <;> cases BB.mem m s <;> cases BB.mem mask s <;> rfl

theorem mvsOf_remove (g : MoveGen) (m : BB) :
    mvsOf (g.remove m) = (mvsOf g).filter (fun mv => !BB.mem m mv.dest) := by
  unfold mvsOf remove
  show ((g.moves.map _).drop g.index).flatMap _ = _
  rw [← List.map_drop]
  apply map_flatMap_filter
  intro e _
  exact eMoves_diff e m g.mask

theorem eMoves_clear (e : Entry) (mv : Move) (mask : BB)
    (hs : e.src = mv.source) (hnp : e.promotion = false) (hp : mv.piece = none) :
    eMoves { e with moves := BB.clear e.moves mv.dest } mask =
      (eMoves e mask).filter (fun x => x != mv) := by
  rw [eMoves_eq, eMoves_eq]
  show (BB.toList (BB.clear e.moves mv.dest &&& mask)).flatMap (destMoves e) = _
  rw [toList_filter (e.moves &&& mask) (fun d => d != mv.dest) (BB.clear e.moves mv.dest &&& mask)]
  · apply filter_flatMap_of
    intro d x hx
    unfold destMoves at hx
    rw [hnp] at hx
    simp only [Bool.false_eq_true, if_false, List.mem_singleton] at hx
    subst hx
    obtain ⟨ms, md, mp⟩ := mv
    simp only at hs hp
    subst hs hp
    rw [Bool.eq_iff_iff]
    simp
  · intro s
    simp only [BB.mem_and', BB.mem_clear]
    cases BB.mem e.moves s <;> cases BB.mem mask s <;> cases (s != mv.dest) <;> rfl

theorem eMoves_filter_other (e : Entry) (mv : Move) (mask : BB) (hs : ¬ e.src = mv.source) :
    eMoves e mask = (eMoves e mask).filter (fun x => x != mv) := by
  symm
  rw [List.filter_eq_self]
  intro x hx
  have := mem_eMoves hx
  simp only [bne_iff_ne, ne_eq]
  intro hx'
  subst hx'
  exact hs this.symm

theorem mvsOf_removeMove (g : MoveGen) (mv : Move)
    (hnp : ∀ e ∈ g.moves, e.src = mv.source → e.promotion = false) (hp : mv.piece = none) :
    mvsOf (g.removeMove mv).1 = (mvsOf g).filter (fun x => x != mv) := by
  unfold mvsOf removeMove
  show ((g.moves.map _).drop g.index).flatMap _ = _
  rw [← List.map_drop]
  apply map_flatMap_filter
  intro e he
  have he' : e ∈ g.moves := List.mem_of_mem_drop he
  by_cases hs : e.src = mv.source
  · rw [if_pos hs]
    exact eMoves_clear e mv g.mask hs (hnp e he' hs) hp
  · rw [if_neg hs]
    exact eMoves_filter_other e mv g.mask hs

/-! ### setMask: compaction is a permutation -/

theorem swap_perm (l : List Entry) (i j : Nat) (e : Entry) (hi : l[i]? = some e) (hj : j < l.length) :
    ((l.set i (l.getD j default)).set j e).Perm l := by
  rw [List.getElem?_eq_some_iff] at hi
  obtain ⟨hi, rfl⟩ := hi
  rw [List.perm_iff_count]
  intro a
  have hjd : l.getD j default = l[j] := by simp [List.getD, hj]
  rw [hjd, List.count_set (by simpa using hj), List.count_set hi]
  by_cases hij : i = j
  · subst hij
    simp only [List.getElem_set_self]
    have := List.count_pos_iff.2 (List.getElem_mem hi)
    by_cases h : l[i] = a
    · subst h; simp <;> omega
    · simp [h]
  · rw [List.getElem_set_ne hij]
    have h1 : 0 < l.count l[i] := List.count_pos_iff.2 (List.getElem_mem hi)
    have h2 : 0 < l.count l[j] := List.count_pos_iff.2 (List.getElem_mem hj)
    by_cases ha : l[i] = a <;> by_cases hb : l[j] = a
    · simp only [ha, hb, beq_self_eq_true, if_true]; subst ha; omega
    · subst ha; simp [hb] <;> omega
    · subst hb; simp [ha] <;> omega
    · simp [ha, hb]

/-- the step function of `compact` -/
def compactStep (mask : BB) (st : List Entry × Nat) (i : Nat) : List Entry × Nat :=
  match st.1[i]? with
  | some e =>
    if BB.any (e.moves &&& mask) then
      ((if i ≠ st.2 then (st.1.set i (st.1.getD st.2 default)).set st.2 e else st.1), st.2 + 1)
    else st
  | none => st

theorem compact_def (mask : BB) (l : List Entry) :
    compact mask l = ((List.range l.length).foldl (compactStep mask) (l, 0)).1 := rfl

theorem compactStep_inv (mask : BB) (l : List Entry) (st : List Entry × Nat) (i : Nat)
    (h1 : st.2 ≤ i) (h2 : st.1.Perm l) :
    (compactStep mask st i).2 ≤ i + 1 ∧ (compactStep mask st i).1.Perm l := by
  unfold compactStep
  cases hi : st.1[i]? with
  | none => exact ⟨by simp only; omega, h2⟩
  | some e =>
    simp only
    by_cases ha : BB.any (e.moves &&& mask) = true
    · rw [if_pos ha]
      refine ⟨by simp only; omega, ?_⟩
      simp only
      by_cases hij : i = st.2
      · rw [if_neg (by simpa using hij)]
        exact h2
      · rw [if_pos hij]
        have hlt : i < st.1.length := (List.getElem?_eq_some_iff.1 hi).1
        exact (swap_perm st.1 i st.2 e hi (by omega)).trans h2
    · rw [if_neg ha]
      exact ⟨by omega, h2⟩

theorem compact_fold_inv (mask : BB) (l : List Entry) (n : Nat) :
    ((List.range n).foldl (compactStep mask) (l, 0)).2 ≤ n ∧
    ((List.range n).foldl (compactStep mask) (l, 0)).1.Perm l := by
  induction n with
  | zero => exact ⟨Nat.le_refl _, List.Perm.refl _⟩
  | succ n ih =>
    rw [List.range_succ, List.foldl_append, List.foldl_cons, List.foldl_nil]
    exact compactStep_inv mask l _ n ih.1 ih.2

theorem compact_perm (mask : BB) (l : List Entry) : (compact mask l).Perm l := by
  rw [compact_def]
  exact (compact_fold_inv mask l l.length).2

theorem mvsOf_setMask_perm (g : MoveGen) (m : BB) :
    (mvsOf (g.setMask m)).Perm (g.moves.flatMap (fun e => eMoves e m)) := by
  unfold mvsOf setMask
  show ((compact m g.moves).drop 0).flatMap _ |>.Perm _
  rw [List.drop_zero]
  exact (compact_perm m g.moves).flatMap_right _

/-! ### next -/

theorem drop_length_takeWhile {α} (p : α → Bool) (l : List α) :
    l.drop (l.takeWhile p).length = l.dropWhile p := by
  induction l with
  | nil => rfl
  | cons a l ih =>
    rw [List.takeWhile_cons, List.dropWhile_cons]
    split
    · simpa using ih
    · rfl

theorem drop_skipEmpty (moves : List Entry) (mask : BB) (index : Nat) :
    moves.drop (skipEmpty moves mask index) =
      (moves.drop index).dropWhile (fun e => BB.none (e.moves &&& mask)) := by
  unfold skipEmpty
  split
  · next h => rw [h]; rfl
  · rw [← List.drop_drop, drop_length_takeWhile]

theorem flatMap_dropWhile {α β} (p : α → Bool) (F : α → List β) (h : ∀ a, p a = true → F a = [])
    (l : List α) : (l.dropWhile p).flatMap F = l.flatMap F := by
  induction l with
  | nil => rfl
  | cons a l ih =>
    rw [List.dropWhile_cons]
    split
    · next hp => rw [ih, List.flatMap_cons, h a hp, List.nil_append]
    · rfl

theorem dropWhile_head {α} (p : α → Bool) (l : List α) (a : α) (r : List α)
    (h : l.dropWhile p = a :: r) : p a = false := by
  have := List.head?_dropWhile_not p l
  rw [h] at this
  simpa using this

theorem skipEmpty_self (moves : List Entry) (mask : BB) (index : Nat) (e : Entry)
    (he : moves[index]? = some e) (hne : BB.none (e.moves &&& mask) = false) :
    skipEmpty moves mask index = index := by
  obtain ⟨hlt, rfl⟩ := List.getElem?_eq_some_iff.1 he
  unfold skipEmpty
  split
  · rfl
  · rw [List.drop_eq_getElem_cons hlt, List.takeWhile_cons, hne]
    simp

theorem next_nil (g : MoveGen) (h : g.moves[skipEmpty g.moves g.mask g.index]? = none) :
    g.next = (none, { g with index := skipEmpty g.moves g.mask g.index }) := by
  unfold next
  simp only [h]

theorem next_plain (g : MoveGen) (e : Entry) (dest : Sq) (r : BB)
    (h : g.moves[skipEmpty g.moves g.mask g.index]? = some e)
    (hpop : BB.pop (e.moves &&& g.mask) = some (dest, r)) (hp : e.promotion = false) :
    g.next = (some ⟨e.src, dest, none⟩,
      if BB.none r then
        { g with index := skipEmpty g.moves g.mask g.index + 1,
                 moves := g.moves.set (skipEmpty g.moves g.mask g.index)
                   { e with moves := BB.clear e.moves dest } }
      else
        { g with index := skipEmpty g.moves g.mask g.index,
                 moves := g.moves.set (skipEmpty g.moves g.mask g.index)
                   { e with moves := BB.clear e.moves dest } }) := by
  unfold next
  simp only [h, hpop, hp]
  rfl

theorem next_promo_last (g : MoveGen) (e : Entry) (dest : Sq) (r : BB)
    (h : g.moves[skipEmpty g.moves g.mask g.index]? = some e)
    (hpop : BB.pop (e.moves &&& g.mask) = some (dest, r)) (hp : e.promotion = true)
    (hk : g.promoIdx + 1 ≥ promoPieces.length) :
    g.next = (some ⟨e.src, dest, some (promoPieces.getD g.promoIdx .queen)⟩,
      if BB.none (r &&& g.mask) then
        { g with index := skipEmpty g.moves g.mask g.index + 1, promoIdx := 0,
                 moves := g.moves.set (skipEmpty g.moves g.mask g.index)
                   { e with moves := BB.clear e.moves dest } }
      else
        { g with index := skipEmpty g.moves g.mask g.index, promoIdx := 0,
                 moves := g.moves.set (skipEmpty g.moves g.mask g.index)
                   { e with moves := BB.clear e.moves dest } }) := by
  unfold next
  simp only [h, hpop, hp, hk]
  rfl

theorem next_promo_mid (g : MoveGen) (e : Entry) (dest : Sq) (r : BB)
    (h : g.moves[skipEmpty g.moves g.mask g.index]? = some e)
    (hpop : BB.pop (e.moves &&& g.mask) = some (dest, r)) (hp : e.promotion = true)
    (hk : ¬ g.promoIdx + 1 ≥ promoPieces.length) :
    g.next = (some ⟨e.src, dest, some (promoPieces.getD g.promoIdx .queen)⟩,
      { g with index := skipEmpty g.moves g.mask g.index, promoIdx := g.promoIdx + 1 }) := by
  unfold next
  simp only [h, hpop, hp, hk]
  rfl

/-! ### what `next` does to the denotation -/

/-- denotation with the promotion cursor taken into account -/
def mvsAt (g : MoveGen) : List Move := (mvsOf g).drop g.promoIdx

/-- the promotion cursor is at a group boundary, or inside the group of a non-empty promotion entry -/
def Good (g : MoveGen) : Prop :=
  g.promoIdx = 0 ∨ (g.promoIdx < 4 ∧ ∃ e, g.moves[g.index]? = some e ∧ e.promotion = true ∧
    BB.none (e.moves &&& g.mask) = false)

theorem mvsOf_skip (g : MoveGen) :
    mvsOf g = (g.moves.drop (skipEmpty g.moves g.mask g.index)).flatMap (fun e => eMoves e g.mask) := by
  rw [drop_skipEmpty, flatMap_dropWhile]
  · rfl
  · intro e he
    exact (eMoves_eq_nil_iff e g.mask).2 he

theorem clear_and_eq (a mask r : BB) (dest : Sq) (hpop : BB.pop (a &&& mask) = some (dest, r)) :
    BB.clear a dest &&& mask = r := by
  obtain ⟨_, _, h3⟩ := BB.pop_some _ _ _ hpop
  apply BB.ext_mem
  intro s
  rw [h3 s]
  simp only [BB.mem_and', BB.mem_clear]
  cases BB.mem a s <;> cases BB.mem mask s <;> cases (s != dest) <;> rfl

theorem rest_and_mask (a mask r : BB) (dest : Sq) (hpop : BB.pop (a &&& mask) = some (dest, r)) :
    r &&& mask = r := by
  obtain ⟨_, _, h3⟩ := BB.pop_some _ _ _ hpop
  apply BB.ext_mem
  intro s
  simp only [BB.mem_and', h3 s]
  cases BB.mem a s <;> cases BB.mem mask s <;> cases (s != dest) <;> rfl

theorem eMoves_cleared (e : Entry) (mask r : BB) (dest : Sq)
    (hpop : BB.pop (e.moves &&& mask) = some (dest, r)) :
    eMoves { e with moves := BB.clear e.moves dest } mask = (BB.toList r).flatMap (destMoves e) := by
  rw [eMoves_eq]
  show (BB.toList (BB.clear e.moves dest &&& mask)).flatMap (destMoves e) = _
  rw [clear_and_eq e.moves mask r dest hpop]

theorem mvsOf_after (moves : List Entry) (mask : BB) (i j k : Nat) (e : Entry) (rest : List Entry)
    (dest : Sq) (r : BB)
    (hd : moves.drop i = e :: rest) (hpop : BB.pop (e.moves &&& mask) = some (dest, r))
    (hj : j = i ∨ (j = i + 1 ∧ BB.none r = true)) :
    mvsOf ⟨moves.set i { e with moves := BB.clear e.moves dest }, k, mask, j⟩ =
      (BB.toList r).flatMap (destMoves e) ++ rest.flatMap (fun e => eMoves e mask) := by
  unfold mvsOf
  simp only
  have hrest : moves.drop (i + 1) = rest := by
    rw [← List.tail_drop, hd]; rfl
  rcases hj with rfl | ⟨rfl, hn⟩
  · rw [List.drop_set, if_neg (Nat.lt_irrefl _), hd, Nat.sub_self, List.set_cons_zero,
      List.flatMap_cons, eMoves_cleared e mask r dest hpop]
  · rw [List.drop_set_of_lt (Nat.lt_succ_self _), hrest, (toList_eq_nil_iff r).2 hn]
    rfl

theorem getD_eq_head_drop {α} (l : List α) (k : Nat) (d : α) (h : k < l.length) :
    (l.drop k).head? = some (l.getD k d) := by
  rw [List.head?_drop]
  simp [List.getD, h]

theorem next_spec (g : MoveGen) (hg : Good g) :
    (next g).1 = (mvsAt g).head? ∧ mvsAt (next g).2 = (mvsAt g).tail ∧ Good (next g).2 := by
  have hskip := mvsOf_skip g
  cases hd : g.moves.drop (skipEmpty g.moves g.mask g.index) with
  | nil =>
    have hget : g.moves[skipEmpty g.moves g.mask g.index]? = none := by
      rw [List.getElem?_eq_none_iff]
      exact List.drop_eq_nil_iff.1 hd
    rw [hd] at hskip
    have hnil : mvsOf g = [] := hskip
    rw [next_nil g hget]
    refine ⟨?_, ?_, ?_⟩
    · simp [mvsAt, hnil]
    · have : mvsOf { g with index := skipEmpty g.moves g.mask g.index } = [] := by
        unfold mvsOf
        simp only
        rw [hd]; rfl
      simp [mvsAt, hnil, this]
    · rcases hg with h0 | ⟨_, e, he, _, hne⟩
      · exact Or.inl h0
      · rw [skipEmpty_self g.moves g.mask g.index e he hne, he] at hget
        cases hget
  | cons e rest =>
    have hne : BB.none (e.moves &&& g.mask) = false := by
      rw [drop_skipEmpty] at hd
      exact dropWhile_head (fun e => BB.none (e.moves &&& g.mask)) _ e rest hd
    have hget : g.moves[skipEmpty g.moves g.mask g.index]? = some e := by
      rw [← List.head?_drop, hd]; rfl
    cases hpop : BB.pop (e.moves &&& g.mask) with
    | none =>
      exfalso
      have := (BB.none_iff _).2 ((BB.pop_none_iff _).1 hpop)
      rw [this] at hne
      cases hne
    | some pr =>
      obtain ⟨dest, r⟩ := pr
      have htl := BB.toList_of_pop_some _ _ _ hpop
      have hA : mvsOf g = destMoves e dest ++
          ((BB.toList r).flatMap (destMoves e) ++ rest.flatMap (fun e => eMoves e g.mask)) := by
        rw [hskip, hd, List.flatMap_cons, eMoves_eq, htl, List.flatMap_cons, List.append_assoc]
      by_cases hp : e.promotion = true
      · -- promotion entry
        have hk : g.promoIdx < 4 := by
          rcases hg with h0 | ⟨h, _⟩
          · omega
          · exact h
        have hdm : destMoves e dest = promoPieces.map (fun p => (⟨e.src, dest, some p⟩ : Move)) := by
          unfold destMoves; rw [if_pos hp]
        have hlen : (destMoves e dest).length = 4 := by rw [destMoves_length, if_pos hp]
        have hat : mvsAt g = (promoPieces.drop g.promoIdx).map (fun p => (⟨e.src, dest, some p⟩ : Move)) ++
            ((BB.toList r).flatMap (destMoves e) ++ rest.flatMap (fun e => eMoves e g.mask)) := by
          unfold mvsAt
          rw [hA, List.drop_append_of_le_length (by omega), hdm, List.map_drop]
        have hhead : (mvsAt g).head? =
            some (⟨e.src, dest, some (promoPieces.getD g.promoIdx .queen)⟩ : Move) := by
          have h1 := getD_eq_head_drop promoPieces g.promoIdx .queen (by rw [promoPieces_length]; exact hk)
          rw [hat]
          cases hdp : promoPieces.drop g.promoIdx with
          | nil => rw [hdp] at h1; cases h1
          | cons a t =>
            rw [hdp] at h1
            simp only [List.head?_cons, Option.some.injEq] at h1
            rw [h1]; rfl
        by_cases hlast : g.promoIdx + 1 ≥ promoPieces.length
        · rw [next_promo_last g e dest r hget hpop hp hlast]
          rw [promoPieces_length] at hlast
          have hk3 : g.promoIdx = 3 := by omega
          refine ⟨hhead.symm, ?_, ?_⟩
          · have htail : (mvsAt g).tail =
                (BB.toList r).flatMap (destMoves e) ++ rest.flatMap (fun e => eMoves e g.mask) := by
              unfold mvsAt
              rw [List.tail_drop, hA, hk3, List.drop_append_of_le_length (by omega),
                List.drop_of_length_le (by omega), List.nil_append]
            rw [htail, rest_and_mask e.moves g.mask r dest hpop]
            by_cases hn : BB.none r = true
            · rw [if_pos hn]
              unfold mvsAt
              simp only [List.drop_zero]
              exact mvsOf_after g.moves g.mask _ _ 0 e rest dest r hd hpop (Or.inr ⟨rfl, hn⟩)
            · rw [if_neg hn]
              unfold mvsAt
              simp only [List.drop_zero]
              exact mvsOf_after g.moves g.mask _ _ 0 e rest dest r hd hpop (Or.inl rfl)
          · split <;> exact Or.inl rfl
        · rw [next_promo_mid g e dest r hget hpop hp hlast]
          rw [promoPieces_length] at hlast
          refine ⟨hhead.symm, ?_, ?_⟩
          · unfold mvsAt
            simp only
            rw [List.tail_drop]
            congr 1
            rw [hskip]
            rfl
          · exact Or.inr ⟨by simp only; omega, e, hget, hp, hne⟩
      · -- plain entry
        have hp' : e.promotion = false := by simpa using hp
        have hk0 : g.promoIdx = 0 := by
          rcases hg with h0 | ⟨_, e', he', hpe', hne'⟩
          · exact h0
          · exfalso
            rw [skipEmpty_self g.moves g.mask g.index e' he' hne', he'] at hget
            cases hget
            exact hp hpe'
        have hdm : destMoves e dest = [⟨e.src, dest, none⟩] := by
          unfold destMoves; rw [if_neg hp]
        rw [next_plain g e dest r hget hpop hp']
        have hat : mvsAt g = ⟨e.src, dest, none⟩ ::
            ((BB.toList r).flatMap (destMoves e) ++ rest.flatMap (fun e => eMoves e g.mask)) := by
          unfold mvsAt
          rw [hk0, List.drop_zero, hA, hdm]; rfl
        refine ⟨by rw [hat]; rfl, ?_, ?_⟩
        · rw [hat, List.tail_cons]
          by_cases hn : BB.none r = true
          · rw [if_pos hn]
            unfold mvsAt
            simp only [hk0, List.drop_zero]
            exact mvsOf_after g.moves g.mask _ _ 0 e rest dest r hd hpop (Or.inr ⟨rfl, hn⟩)
          · rw [if_neg hn]
            unfold mvsAt
            simp only [hk0, List.drop_zero]
            exact mvsOf_after g.moves g.mask _ _ 0 e rest dest r hd hpop (Or.inl rfl)
        · split <;> exact Or.inl hk0

theorem good_of_zero (g : MoveGen) (h : g.promoIdx = 0) : Good g := Or.inl h

theorem mvsAt_of_zero (g : MoveGen) (h : g.promoIdx = 0) : mvsAt g = mvsOf g := by
  unfold mvsAt; rw [h]; rfl

theorem drain_eq_mvsAt (fuel : Nat) (g : MoveGen) (hg : Good g) (hf : (mvsAt g).length < fuel) :
    drain fuel g = mvsAt g := by
  induction fuel generalizing g with
  | zero => omega
  | succ fuel ih =>
    obtain ⟨h1, h2, h3⟩ := next_spec g hg
    unfold drain
    cases hm : mvsAt g with
    | nil =>
      rw [hm] at h1
      have : (next g) = (none, (next g).2) := Prod.ext h1 rfl
      rw [this]
    | cons m t =>
      rw [hm] at h1 h2 hf
      have : (next g) = (some m, (next g).2) := Prod.ext h1 rfl
      rw [this]
      simp only
      rw [ih (next g).2 h3 (by rw [h2]; simp only [List.tail_cons]; simp only [List.length_cons] at hf; omega), h2]
      rfl

end Chess.MoveGen
