/-
C10, "at every point of an iteration": the reported length equals the number of moves still to come also in the
middle of a promotion group (cursor `promoIdx ≠ 0`), for every state reached by iterating.

(Statements fixed before the proofs; helper lemmas by a sub-agent confined to this file.)
-/
import ChessVerif.Proofs.Iter

namespace Chess.MoveGen
open Chess

theorem count_pos_of_not_none (b : BB) (h : BB.none b = false) : 0 < BB.count b := by
  rw [BB.count_eq_length_toList]
  cases hl : BB.toList b with
  | nil =>
    have := (toList_eq_nil_iff b).1 hl
    rw [this] at h
    cases h
  | cons a t => simp

theorem lenStep_promo (mask : BB) (k : Nat) (e : Entry) (hp : e.promotion = true)
    (hne : BB.none (e.moves &&& mask) = false) :
    lenStep mask (0, k) e = (0 + (BB.count (e.moves &&& mask) * 4 - k), 0) := by
  have hn : numPromo = 4 := by decide
  have hc := count_pos_of_not_none _ hne
  have h0 : ¬ BB.count (e.moves &&& mask) = 0 := by omega
  unfold lenStep
  simp [h0, hp, hn]

/-- `len` (= `size_hint`) agrees with the cursor-aware denotation in every `Good` state -/
theorem len_eq_mvsAt (g : MoveGen) (hg : Good g) : g.len = (mvsAt g).length := by
  rcases hg with h0 | ⟨hk, e, he, hp, hne⟩
  · rw [mvsAt_of_zero g h0]
    exact len_eq_mvsOf g h0
  · obtain ⟨hlt, rfl⟩ := List.getElem?_eq_some_iff.1 he
    have hd : g.moves.drop g.index = g.moves[g.index] :: g.moves.drop (g.index + 1) :=
      List.drop_eq_getElem_cons hlt
    have hc := count_pos_of_not_none _ hne
    rw [len_def, hd, List.foldl_cons, lenStep_promo g.mask g.promoIdx _ hp hne, len_fold]
    unfold mvsAt mvsOf
    rw [hd, List.flatMap_cons, List.length_drop, List.length_append, eMoves_length, if_pos hp]
    simp only
    omega

/-- the state after `n` calls of `next` -/
def iterate : Nat → MoveGen → MoveGen
  | 0, g => g
  | n + 1, g => iterate n (g.next).2

/-- `Good` is preserved by `next`, hence along any run of `next` from a group boundary -/
theorem good_iterate (g : MoveGen) (hg : Good g) (n : Nat) : Good (iterate n g) := by
  induction n generalizing g with
  | zero => exact hg
  | succ n ih => exact ih _ (next_spec g hg).2.2

theorem mvsAt_iterate (g : MoveGen) (hg : Good g) (n : Nat) :
    mvsAt (iterate n g) = (mvsAt g).drop n := by
  induction n generalizing g with
  | zero => rfl
  | succ n ih =>
    obtain ⟨_, h2, h3⟩ := next_spec g hg
    show mvsAt (iterate n (g.next).2) = _
    rw [ih _ h3, h2, List.drop_tail]

/-- **at every point of an iteration** started at a group boundary (e.g. a freshly generated iterator, or one just
masked): after any number of `next` calls, `len` is the number of moves the iterator will still yield -/
theorem len_along_iteration (g : MoveGen) (h0 : g.promoIdx = 0) (n : Nat) :
    (iterate n g).len = (mvsOf g).length - n := by
  have hg := good_of_zero g h0
  rw [len_eq_mvsAt _ (good_iterate g hg n), mvsAt_iterate g hg n, mvsAt_of_zero g h0, List.length_drop]

/-- … and `next` then yields exactly the `n`-th move of the denotation -/
theorem next_along_iteration (g : MoveGen) (h0 : g.promoIdx = 0) (n : Nat) :
    ((iterate n g).next).1 = (mvsOf g)[n]? := by
  have hg := good_of_zero g h0
  rw [(next_spec _ (good_iterate g hg n)).1, mvsAt_iterate g hg n, mvsAt_of_zero g h0, List.head?_drop]

end Chess.MoveGen
