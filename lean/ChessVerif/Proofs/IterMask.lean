/-
Masked generation and successive masks (C10): statements fixed; proofs below.
-/
import ChessVerif.Props.C10.Basic
import ChessVerif.Props.C01

namespace Chess.Proofs.IterMask
open Chess Chess.Spec Chess.MoveGen
open Chess.Props.C10 (movesOf entryMoves)

/-- drain an iterator, returning what it yielded and the state it is left in -/
def drainSt : Nat → MoveGen → List Move × MoveGen
  | 0, g => ([], g)
  | fuel + 1, g =>
    match next g with
    | (none, g') => ([], g')
    | (some m, g') => let r := drainSt fuel g'; (m :: r.1, r.2)

/-- iterate to exhaustion under each mask of the list in turn (`set_mask` between the rounds);
the result is everything yielded, in order -/
def rounds (fuel : Nat) : MoveGen → List BB → List Move
  | _, [] => []
  | g, m :: ms => let r := drainSt fuel (g.setMask m); r.1 ++ rounds fuel r.2 ms

/-- every destination set an entry list can denote (all promotion choices, full mask) -/
def allMoves (g : MoveGen) : List Move := g.moves.flatMap (fun e => entryMoves e BB.full)

/-! ### generation under a mask -/

/-- what an entry list denotes under a mask -/
def den (L : List Entry) (mask : BB) : List Move := L.flatMap (fun e => eMoves e mask)

theorem den_append (L1 L2 : List Entry) (mask : BB) : den (L1 ++ L2) mask = den L1 mask ++ den L2 mask := by
  unfold den; rw [List.flatMap_append]

theorem den_nil (mask : BB) : den [] mask = [] := rfl

theorem destMoves_congr (e e' : Entry) (hs : e.src = e'.src) (hp : e.promotion = e'.promotion) :
    destMoves e = destMoves e' := by
  funext d
  unfold destMoves
  rw [hs, hp]

/-- two entries with the same source and kind whose destination sets agree inside `m` -/
theorem eMoves_restrict (e e' : Entry) (m : BB) (hs : e.src = e'.src) (hp : e.promotion = e'.promotion)
    (h : ∀ s, (BB.mem e.moves s && BB.mem m s) = (BB.mem e'.moves s && BB.mem m s)) :
    eMoves e m = (eMoves e' BB.full).filter (fun x => BB.mem m x.dest) := by
  rw [eMoves_eq, eMoves_eq, destMoves_congr e e' hs hp,
    toList_filter (e'.moves &&& BB.full) (fun d => BB.mem m d) (e.moves &&& m)]
  · apply filter_flatMap_of
    intro d x hx
    rw [(mem_destMoves hx).2]
  · intro s
    rw [BB.mem_and', BB.mem_and', BB.mem_full, Bool.and_true, h s]

theorem eMoves_mask (e : Entry) (m : BB) :
    eMoves e m = (eMoves e BB.full).filter (fun x => BB.mem m x.dest) :=
  eMoves_restrict e e m rfl rfl (fun _ => rfl)

theorem den_mask (L : List Entry) (m : BB) :
    den L m = (den L BB.full).filter (fun x => BB.mem m x.dest) := by
  unfold den
  rw [List.filter_flatMap]
  congr 1
  funext e
  exact eMoves_mask e m

theorem pushEntries_den (srcs : List Sq) (f : Sq → BB) (promo : Sq → Bool) (mask : BB) :
    den (Board.pushEntries srcs f promo) mask = srcs.flatMap (fun s => eMoves ⟨s, f s, promo s⟩ mask) := by
  unfold den Board.pushEntries
  induction srcs with
  | nil => rfl
  | cons a l ih =>
    rw [List.filterMap_cons, List.flatMap_cons]
    simp only []
    by_cases hn : BB.none (f a) = true
    · rw [if_pos hn]
      simp only []
      rw [ih]
      have : eMoves ⟨a, f a, promo a⟩ mask = [] := by
        rw [eMoves_eq_nil_iff, BB.none_iff]
        intro s
        rw [BB.mem_and', (BB.none_iff _).1 hn s, Bool.false_and]
      rw [this, List.nil_append]
    · rw [if_neg hn]
      simp only []
      rw [List.flatMap_cons, ih]

theorem pushEntries_restrict (srcs : List Sq) (f f' : Sq → BB) (promo : Sq → Bool) (m : BB)
    (h : ∀ src s, (BB.mem (f src) s && BB.mem m s) = (BB.mem (f' src) s && BB.mem m s)) :
    den (Board.pushEntries srcs f promo) m =
      (den (Board.pushEntries srcs f' promo) BB.full).filter (fun x => BB.mem m x.dest) := by
  rw [pushEntries_den, pushEntries_den, List.filter_flatMap]
  congr 1
  funext s
  exact eMoves_restrict _ _ m rfl rfl (h s)

theorem mem_pseudo_mask (p : Piece) (src : Sq) (c : Color) (all own m : BB) (s : Sq) :
    BB.mem (Board.pseudoLegals p src c all (own &&& m)) s =
      (BB.mem (Board.pseudoLegals p src c all (own &&& BB.full)) s && BB.mem m s) := by
  cases p <;> simp only [Board.pseudoLegals, BB.mem_and', BB.mem_full, Bool.and_true, Bool.and_assoc]

theorem pseudo_restrict (p : Piece) (src : Sq) (c : Color) (all own m x : BB) (s : Sq) :
    (BB.mem (Board.pseudoLegals p src c all (own &&& m) &&& x) s && BB.mem m s) =
      (BB.mem (Board.pseudoLegals p src c all (own &&& BB.full) &&& x) s && BB.mem m s) := by
  rw [BB.mem_and', BB.mem_and', mem_pseudo_mask]
  cases BB.mem (Board.pseudoLegals p src c all (own &&& BB.full)) s <;> cases BB.mem m s <;> cases BB.mem x s <;> rfl


theorem genericLegals_restrict (b : Board) (p : Piece) (ic : Bool) (own m : BB) :
    den (b.genericLegals p ic (own &&& m)) m =
      (den (b.genericLegals p ic (own &&& BB.full)) BB.full).filter (fun x => BB.mem m x.dest) := by
  unfold Board.genericLegals
  simp only []
  split
  · exact pushEntries_restrict _ _ _ _ _ (fun src s => pseudo_restrict _ _ _ _ _ _ _ _)
  · rw [den_append, den_append, List.filter_append]
    congr 1
    · exact pushEntries_restrict _ _ _ _ _ (fun src s => pseudo_restrict _ _ _ _ _ _ _ _)
    · exact pushEntries_restrict _ _ _ _ _ (fun src s => pseudo_restrict _ _ _ _ _ _ _ _)

theorem pawnOrd_restrict (b : Board) (ic : Bool) (own m : BB) :
    den (Legal.pawnOrd b ic (own &&& m)) m =
      (den (Legal.pawnOrd b ic (own &&& BB.full)) BB.full).filter (fun x => BB.mem m x.dest) := by
  unfold Legal.pawnOrd
  simp only []
  rw [den_append, den_append, List.filter_append]
  congr 1
  · exact pushEntries_restrict _ _ _ _ _ (fun src s => pseudo_restrict _ _ _ _ _ _ _ _)
  · cases ic
    · exact pushEntries_restrict _ _ _ _ _ (fun src s => pseudo_restrict _ _ _ _ _ _ _ _)
    · rfl

theorem pawnEp_restrict (b : Board) (own m : BB) :
    den (Legal.pawnEp b (own &&& m)) m =
      (den (Legal.pawnEp b (own &&& BB.full)) BB.full).filter (fun x => BB.mem m x.dest) := by
  unfold Legal.pawnEp
  split
  · rfl
  · rename_i f hf
    by_cases h1 : BB.any (BB.ofSq (Sq.mk f b.turn.epCaptureRank) &&& (own &&& m)) = true
    · have h2 : BB.any (BB.ofSq (Sq.mk f b.turn.epCaptureRank) &&& (own &&& BB.full)) = true := by
        rw [BB.any_iff] at h1 ⊢
        obtain ⟨s, hs⟩ := h1
        refine ⟨s, ?_⟩
        simp only [BB.mem_and', BB.mem_full, Bool.and_true, Bool.and_eq_true] at hs ⊢
        exact ⟨hs.1, hs.2.1⟩
      rw [if_pos h1, if_pos h2]
      exact den_mask _ m
    · rw [if_neg h1]
      by_cases h2 : BB.any (BB.ofSq (Sq.mk f b.turn.epCaptureRank) &&& (own &&& BB.full)) = true
      · rw [if_pos h2]
        symm
        rw [den_nil, List.filter_eq_nil_iff]
        intro x hx hq
        unfold den at hx
        obtain ⟨e, he, hxe⟩ := List.mem_flatMap.1 hx
        have hd := (Legal.mem_entryMoves e BB.full x hxe).2
        obtain ⟨s, _, hse⟩ := List.mem_filterMap.1 he
        have hem : e.moves = BB.ofSq (Sq.mk f b.turn.epCaptureRank) := by
          split at hse
          · cases hse; rfl
          · cases hse
        rw [hem, BB.mem_ofSq, beq_iff_eq] at hd
        apply h1
        rw [BB.any_iff] at h2 ⊢
        obtain ⟨t, ht⟩ := h2
        refine ⟨t, ?_⟩
        simp only [BB.mem_and', BB.mem_full, Bool.and_true, Bool.and_eq_true, BB.mem_ofSq, beq_iff_eq] at ht ⊢
        refine ⟨ht.1, ht.2, ?_⟩
        rw [ht.1, ← hd]
        exact hq
      · rw [if_neg h2]
        rfl

theorem pawnLegals_restrict (b : Board) (ic : Bool) (own m : BB) :
    den (b.pawnLegals ic (own &&& m)) m =
      (den (b.pawnLegals ic (own &&& BB.full)) BB.full).filter (fun x => BB.mem m x.dest) := by
  rw [Legal.pawnLegals_eq, Legal.pawnLegals_eq, den_append, den_append, List.filter_append,
    pawnOrd_restrict, pawnEp_restrict]


/-- the king steps that survive the `is_legal_king_position` filter -/
def kStep (b : Board) (turn : Color) (mask : BB) : BB :=
  (BB.toList (Board.pseudoLegals .king (b.kingSq turn) turn b.raw.all mask)).foldl
    (fun m d => if b.isLegalKingPosition d then m else BB.clear m d)
    (Board.pseudoLegals .king (b.kingSq turn) turn b.raw.all mask)

/-- one application of the `castle` closure of `king_legals` -/
def kCastle (b : Board) (turn : Color) (mask : BB) (moves : BB) (side : Side) (castleFiles safeFiles : BB) : BB :=
  if !Castle.contains b.castle side turn then moves else
    if BB.none (castleFiles &&& Lookup.backrankBB turn &&& b.raw.all) then
      if (BB.toList (safeFiles &&& Lookup.backrankBB turn)).all (fun d => b.isLegalKingPosition d) then
        moves ^^^ (castleFiles &&& Lookup.backrankBB turn &&& Gen.Consts.castleMoves &&& mask)
      else moves
    else moves

def kMoves (b : Board) (ic : Bool) (turn : Color) (mask : BB) : BB :=
  if ic then kStep b turn mask else
    kCastle b turn mask
      (kCastle b turn mask (kStep b turn mask) .king Gen.Consts.kingsideCastleFiles Gen.Consts.kingsideCastleSafeFiles)
      .queen Gen.Consts.queensideCastleFiles Gen.Consts.queensideCastleSafeFiles

theorem kingLegals_eq (b : Board) (ic : Bool) (turn : Color) (mask : BB) :
    b.kingLegals ic turn mask =
      if BB.none (kMoves b ic turn mask) then [] else [⟨b.kingSq turn, kMoves b ic turn mask, false⟩] := rfl

theorem mem_kStep (b : Board) (turn : Color) (own m : BB) (s : Sq) :
    BB.mem (kStep b turn (own &&& m)) s = (BB.mem (kStep b turn (own &&& BB.full)) s && BB.mem m s) := by
  unfold kStep
  rw [Legal.King.mem_foldl_clear, Legal.King.mem_foldl_clear, ← BB.mem_eq_contains_toList, ← BB.mem_eq_contains_toList,
    mem_pseudo_mask]
  cases BB.mem (Board.pseudoLegals .king (b.kingSq turn) turn b.raw.all (own &&& BB.full)) s <;>
    cases BB.mem m s <;> cases b.isLegalKingPosition s <;> rfl

theorem mem_kCastle (b : Board) (turn : Color) (own m : BB) (x y : BB) (side : Side) (cf sf : BB)
    (h : ∀ s, BB.mem x s = (BB.mem y s && BB.mem m s)) (s : Sq) :
    BB.mem (kCastle b turn (own &&& m) x side cf sf) s =
      (BB.mem (kCastle b turn (own &&& BB.full) y side cf sf) s && BB.mem m s) := by
  unfold kCastle
  split
  · exact h s
  · split
    · split
      · simp only [BB.mem_xor', BB.mem_and', BB.mem_full, Bool.and_true, h s]
        cases BB.mem y s <;> cases BB.mem m s <;> cases BB.mem own s <;>
          cases BB.mem cf s <;> cases BB.mem (Lookup.backrankBB turn) s <;>
          cases BB.mem Gen.Consts.castleMoves s <;> rfl
      · exact h s
    · exact h s

theorem mem_kMoves (b : Board) (ic : Bool) (turn : Color) (own m : BB) (s : Sq) :
    BB.mem (kMoves b ic turn (own &&& m)) s = (BB.mem (kMoves b ic turn (own &&& BB.full)) s && BB.mem m s) := by
  unfold kMoves
  cases ic
  · exact mem_kCastle _ _ _ _ _ _ _ _ _ (fun s => mem_kCastle _ _ _ _ _ _ _ _ _ (fun s => mem_kStep _ _ _ _ s) s) s
  · exact mem_kStep _ _ _ _ s

theorem den_ite_singleton (k : Sq) (x : BB) (mask : BB) :
    den (if BB.none x then [] else [⟨k, x, false⟩]) mask = eMoves ⟨k, x, false⟩ mask := by
  split
  · rename_i hn
    symm
    rw [den_nil, eMoves_eq_nil_iff, BB.none_iff]
    intro s
    rw [BB.mem_and', (BB.none_iff _).1 hn s, Bool.false_and]
  · unfold den
    rw [List.flatMap_cons, List.flatMap_nil, List.append_nil]

theorem kingLegals_restrict (b : Board) (ic : Bool) (turn : Color) (own m : BB) :
    den (b.kingLegals ic turn (own &&& m)) m =
      (den (b.kingLegals ic turn (own &&& BB.full)) BB.full).filter (fun x => BB.mem m x.dest) := by
  rw [kingLegals_eq, kingLegals_eq, den_ite_singleton, den_ite_singleton]
  refine eMoves_restrict ⟨b.kingSq turn, kMoves b ic turn (own &&& m), false⟩
    ⟨b.kingSq turn, kMoves b ic turn (own &&& BB.full), false⟩ m rfl rfl ?_
  intro s
  show (BB.mem (kMoves b ic turn (own &&& m)) s && BB.mem m s) = (BB.mem (kMoves b ic turn (own &&& BB.full)) s && BB.mem m s)
  rw [mem_kMoves]
  cases BB.mem (kMoves b ic turn (own &&& BB.full)) s <;> cases BB.mem m s <;> rfl

theorem collectMoves_restrict (b : Board) (m : BB) :
    den (b.collectMoves m) m = (den (b.collectMoves BB.full) BB.full).filter (fun x => BB.mem m x.dest) := by
  unfold Board.collectMoves
  simp only []
  split
  · simp only [den_append, List.filter_append]
    rw [pawnLegals_restrict b false _ m, genericLegals_restrict b .knight false _ m,
      genericLegals_restrict b .bishop false _ m, genericLegals_restrict b .rook false _ m,
      genericLegals_restrict b .queen false _ m, kingLegals_restrict b false _ _ m]
  · split
    · simp only [den_append, List.filter_append]
      rw [pawnLegals_restrict b true _ m, genericLegals_restrict b .knight true _ m,
        genericLegals_restrict b .bishop true _ m, genericLegals_restrict b .rook true _ m,
        genericLegals_restrict b .queen true _ m, kingLegals_restrict b true _ _ m]
    · simp only [den_append, List.filter_append, den_nil, List.filter_nil]
      rw [kingLegals_restrict b true _ _ m]

/-- **generation under a mask** is full generation filtered by destination, in the same order
(every board, well formed or not) -/
theorem movesOf_legalsMasked (b : Board) (m : BB) :
    movesOf (legalsMasked b m) = (movesOf (legals b)).filter (fun x => BB.mem m x.dest) := by
  exact collectMoves_restrict b m


theorem legalsList_eq (b : Board) (h : b.WF = true) : b.legalsList = movesOf (legals b) := by
  have hlen : (movesOf (legals b)).length < 5000 := by
    rw [Props.C10.movesOf_eq]
    exact Entries.mvsOf_length_lt _ (Legal.wf_entries_le b h)
  unfold Board.legalsList MoveGen.toList
  exact Props.C10.drain_eq _ rfl 5000 hlen

/-- in terms of the rules: `legals_masked(m)` yields exactly the legal moves with destination in `m` -/
theorem legalsMasked_iff (b : Board) (h : b.WF = true) (m : BB) (x : Move) :
    x ∈ movesOf (legalsMasked b m) ↔ ((abs b).legal x = true ∧ BB.mem m x.dest = true) := by
  rw [movesOf_legalsMasked, List.mem_filter, ← legalsList_eq b h, Legal.legals_iff b h]

theorem legalsMasked_nodup (b : Board) (h : b.WF = true) (m : BB) : (movesOf (legalsMasked b m)).Nodup := by
  rw [movesOf_legalsMasked, ← legalsList_eq b h]
  exact (Legal.legals_nodup b h).filter _

/-! ### `set_mask` -/

theorem allMoves_eq (g : MoveGen) : allMoves g = den g.moves BB.full := rfl

/-- `set_mask(m)` on an iterator at a group boundary denotes exactly the not-yet-yielded moves with
destination in `m` (as a multiset: the compaction may reorder entries) -/
theorem setMask_perm_filter (g : MoveGen) (m : BB) :
    (movesOf (g.setMask m)).Perm ((allMoves g).filter (fun x => BB.mem m x.dest)) := by
  rw [allMoves_eq, ← den_mask]
  exact mvsOf_setMask_perm g m

/-! ### draining, with the state that is left -/

/-- an entry without its destinations in `mask` -/
def strip (mask : BB) (e : Entry) : Entry := { e with moves := BB.diff e.moves mask }

/-- the entry list after the iterator has been drained from cursor `i` on under `mask` -/
def fin (moves : List Entry) (mask : BB) (i : Nat) : List Entry :=
  moves.take i ++ (moves.drop i).map (strip mask)

theorem strip_of_none (mask : BB) (e : Entry) (h : BB.none (e.moves &&& mask) = true) : strip mask e = e := by
  have : BB.diff e.moves mask = e.moves := by
    apply BB.ext_mem
    intro s
    have hs := (BB.none_iff _).1 h s
    rw [BB.mem_and'] at hs
    rw [BB.mem_diff]
    cases h1 : BB.mem e.moves s <;> cases h2 : BB.mem mask s <;> simp_all
  unfold strip
  rw [this]

theorem strip_clear (mask : BB) (e : Entry) (dest : Sq) (h : BB.mem mask dest = true) :
    strip mask { e with moves := BB.clear e.moves dest } = strip mask e := by
  have : BB.diff (BB.clear e.moves dest) mask = BB.diff e.moves mask := by
    apply BB.ext_mem
    intro s
    rw [BB.mem_diff, BB.mem_diff, BB.mem_clear]
    by_cases hs : s = dest
    · subst hs; rw [h]; simp
    · have : (s != dest) = true := by simpa using hs
      rw [this, Bool.and_true]
  unfold strip
  simp only [this]

theorem takeWhile_strip (mask : BB) (rest : List Entry) :
    rest.take (rest.takeWhile (fun e => BB.none (e.moves &&& mask))).length ++
      (rest.drop (rest.takeWhile (fun e => BB.none (e.moves &&& mask))).length).map (strip mask) =
    rest.map (strip mask) := by
  induction rest with
  | nil => rfl
  | cons a l ih =>
    rw [List.takeWhile_cons]
    split
    · rename_i hp
      rw [List.length_cons, List.take_succ_cons, List.drop_succ_cons, List.map_cons, List.cons_append, ih,
        strip_of_none mask a hp]
    · rfl

theorem fin_skip (moves : List Entry) (mask : BB) (i : Nat) :
    fin moves mask (skipEmpty moves mask i) = fin moves mask i := by
  unfold skipEmpty
  split
  · rfl
  · unfold fin
    rw [List.take_add, ← List.drop_drop, List.append_assoc, takeWhile_strip]

theorem fin_at (l : List Entry) (mask : BB) (j : Nat) (e : Entry) (rest : List Entry)
    (hd : l.drop j = e :: rest) :
    fin l mask j = l.take j ++ strip mask e :: rest.map (strip mask) := by
  unfold fin; rw [hd]; rfl

theorem fin_set_same (l : List Entry) (mask : BB) (j : Nat) (e e' : Entry) (rest : List Entry)
    (hd : l.drop j = e :: rest) :
    fin (l.set j e') mask j = l.take j ++ strip mask e' :: rest.map (strip mask) := by
  unfold fin
  rw [List.take_set_of_le (Nat.le_refl _), List.drop_set, if_neg (Nat.lt_irrefl _), hd, Nat.sub_self,
    List.set_cons_zero]
  rfl

theorem fin_set_succ (l : List Entry) (mask : BB) (j : Nat) (e e' : Entry) (rest : List Entry)
    (hd : l.drop j = e :: rest) :
    fin (l.set j e') mask (j + 1) = l.take j ++ e' :: rest.map (strip mask) := by
  have hrest : l.drop (j + 1) = rest := by
    rw [← List.tail_drop, hd]; rfl
  unfold fin
  rw [List.drop_set_of_lt (Nat.lt_succ_self _), hrest, List.take_add, List.take_set_of_le (Nat.le_refl _),
    List.drop_set, if_neg (Nat.lt_irrefl _), hd, Nat.sub_self, List.set_cons_zero, List.append_assoc]
  rfl

/-- what `next` does to the entry list, seen from the end of the round -/
theorem next_fin (g : MoveGen) (hg : Good g) :
    (next g).2.mask = g.mask ∧
    fin (next g).2.moves g.mask (next g).2.index = fin g.moves g.mask g.index ∧
    ((next g).1 = none → (next g).2.promoIdx = 0 ∧ (next g).2.moves = fin g.moves g.mask g.index) := by
  rw [← fin_skip g.moves g.mask g.index]
  cases hd : g.moves.drop (skipEmpty g.moves g.mask g.index) with
  | nil =>
    have hget : g.moves[skipEmpty g.moves g.mask g.index]? = none := by
      rw [List.getElem?_eq_none_iff]
      exact List.drop_eq_nil_iff.1 hd
    rw [next_nil g hget]
    refine ⟨rfl, rfl, fun _ => ⟨?_, ?_⟩⟩
    · rcases hg with h0 | ⟨_, e, he, _, hne⟩
      · exact h0
      · rw [skipEmpty_self g.moves g.mask g.index e he hne, he] at hget
        cases hget
    · show g.moves = _
      unfold fin
      rw [hd, List.take_of_length_le (List.drop_eq_nil_iff.1 hd)]
      simp
  | cons e rest =>
    have hne : BB.none (e.moves &&& g.mask) = false := by
      rw [drop_skipEmpty] at hd
      exact dropWhile_head (fun e => BB.none (e.moves &&& g.mask)) _ e rest hd
    have hget : g.moves[skipEmpty g.moves g.mask g.index]? = some e := by
      rw [← List.head?_drop, hd]; rfl
    cases hpop : BB.pop (e.moves &&& g.mask) with
    | none =>
      exfalso
      have := (BB.none_iff _).2 ((BB.pop_none_iff _).1 hpop)
      rw [this] at hne
      cases hne
    | some pr =>
      obtain ⟨dest, r⟩ := pr
      have hfg := fin_at g.moves g.mask _ e rest hd
      have hdm : BB.mem g.mask dest = true := by
        have := (BB.pop_some _ _ _ hpop).1
        rw [BB.mem_and', Bool.and_eq_true] at this
        exact this.2
      have hsc := strip_clear g.mask e dest hdm
      have hr := clear_and_eq e.moves g.mask r dest hpop
      -- the two possible successor entry lists
      have hA : fin (g.moves.set (skipEmpty g.moves g.mask g.index) { e with moves := BB.clear e.moves dest })
          g.mask (skipEmpty g.moves g.mask g.index) = fin g.moves g.mask (skipEmpty g.moves g.mask g.index) := by
        rw [fin_set_same _ _ _ e _ rest hd, hfg, hsc]
      have hB : BB.none r = true →
          fin (g.moves.set (skipEmpty g.moves g.mask g.index) { e with moves := BB.clear e.moves dest })
          g.mask (skipEmpty g.moves g.mask g.index + 1) = fin g.moves g.mask (skipEmpty g.moves g.mask g.index) := by
        intro hn
        rw [fin_set_succ _ _ _ e _ rest hd, hfg, ← hsc]
        rw [strip_of_none g.mask { e with moves := BB.clear e.moves dest } (by show BB.none (BB.clear e.moves dest &&& g.mask) = true; rw [hr]; exact hn)]
      by_cases hp : e.promotion = true
      · by_cases hlast : g.promoIdx + 1 ≥ promoPieces.length
        · rw [next_promo_last g e dest r hget hpop hp hlast, rest_and_mask e.moves g.mask r dest hpop]
          by_cases hn : BB.none r = true
          · rw [if_pos hn]
            exact ⟨rfl, hB hn, fun h => nomatch h⟩
          · rw [if_neg hn]
            exact ⟨rfl, hA, fun h => nomatch h⟩
        · rw [next_promo_mid g e dest r hget hpop hp hlast]
          exact ⟨rfl, rfl, fun h => nomatch h⟩
      · have hp' : e.promotion = false := by simpa using hp
        rw [next_plain g e dest r hget hpop hp']
        by_cases hn : BB.none r = true
        · rw [if_pos hn]
          exact ⟨rfl, hB hn, fun h => nomatch h⟩
        · rw [if_neg hn]
          exact ⟨rfl, hA, fun h => nomatch h⟩

theorem drainSt_spec (fuel : Nat) (g : MoveGen) (hg : Good g) (hf : (mvsAt g).length < fuel) :
    (drainSt fuel g).1 = mvsAt g ∧ (drainSt fuel g).2.promoIdx = 0 ∧
    (drainSt fuel g).2.mask = g.mask ∧ (drainSt fuel g).2.moves = fin g.moves g.mask g.index := by
  induction fuel generalizing g with
  | zero => omega
  | succ fuel ih =>
    obtain ⟨h1, h2, h3⟩ := next_spec g hg
    obtain ⟨f1, f2, f3⟩ := next_fin g hg
    unfold drainSt
    cases hm : mvsAt g with
    | nil =>
      rw [hm] at h1
      have hn : (next g) = (none, (next g).2) := Prod.ext h1 rfl
      rw [hn]
      exact ⟨rfl, (f3 h1).1, f1, (f3 h1).2⟩
    | cons m t =>
      rw [hm] at h1 h2 hf
      have hn : (next g) = (some m, (next g).2) := Prod.ext h1 rfl
      rw [hn]
      simp only
      obtain ⟨i1, i2, i3, i4⟩ := ih (next g).2 h3
        (by rw [h2]; simp only [List.tail_cons]; simp only [List.length_cons] at hf; omega)
      refine ⟨?_, i2, i3.trans f1, ?_⟩
      · rw [i1, h2]; rfl
      · rw [i4, f1, f2]


theorem den_map_strip (l : List Entry) (m : BB) :
    den (l.map (strip m)) BB.full = (den l BB.full).filter (fun x => !BB.mem m x.dest) := by
  unfold den
  apply map_flatMap_filter
  intro e _
  exact eMoves_diff e m BB.full

/-- one round: draining under mask `m` yields (a permutation of) the remaining moves with
destination in `m` and leaves an iterator at a group boundary that denotes the others -/
theorem drainSt_round (g : MoveGen) (hg : g.promoIdx = 0) (m : BB) (fuel : Nat)
    (hf : (allMoves g).length < fuel) :
    let r := drainSt fuel (g.setMask m)
    r.1.Perm ((allMoves g).filter (fun x => BB.mem m x.dest)) ∧
    r.2.promoIdx = 0 ∧
    (allMoves r.2).Perm ((allMoves g).filter (fun x => !BB.mem m x.dest)) := by
  have h0 : (g.setMask m).promoIdx = 0 := hg
  have hperm := setMask_perm_filter g m
  have hat : mvsAt (g.setMask m) = movesOf (g.setMask m) := mvsAt_of_zero _ h0
  have hlen : (mvsAt (g.setMask m)).length < fuel := by
    rw [hat, hperm.length_eq]
    exact Nat.lt_of_le_of_lt (List.length_filter_le _ _) hf
  obtain ⟨s1, s2, _, s4⟩ := drainSt_spec fuel (g.setMask m) (good_of_zero _ h0) hlen
  refine ⟨?_, s2, ?_⟩
  · show (drainSt fuel (g.setMask m)).1.Perm _
    rw [s1, hat]
    exact hperm
  · show (allMoves (drainSt fuel (g.setMask m)).2).Perm _
    rw [allMoves_eq, s4]
    show (den (fin (compact m g.moves) m 0) BB.full).Perm _
    unfold fin
    rw [List.take_zero, List.nil_append, List.drop_zero, den_map_strip, allMoves_eq]
    exact ((compact_perm m g.moves).flatMap_right _).filter _

theorem filter_or_perm {α} (p q : α → Bool) (l : List α) :
    (l.filter p ++ (l.filter (fun x => !p x)).filter q).Perm (l.filter (fun x => p x || q x)) := by
  have h := List.filter_append_perm p (l.filter (fun x => p x || q x))
  rw [List.filter_filter, List.filter_filter] at h
  have e1 : l.filter (fun a => p a && (p a || q a)) = l.filter p := by
    apply List.filter_congr
    intro x _
    cases p x <;> cases q x <;> rfl
  have e2 : l.filter (fun a => !p a && (p a || q a)) = (l.filter (fun x => !p x)).filter q := by
    rw [List.filter_filter]
    apply List.filter_congr
    intro x _
    cases p x <;> cases q x <;> rfl
  rw [e1, e2] at h
  exact h

theorem rounds_perm_any (ms : List BB) (fuel : Nat) (g : MoveGen) (hg : g.promoIdx = 0)
    (hf : (allMoves g).length < fuel) :
    (rounds fuel g ms).Perm ((allMoves g).filter (fun x => ms.any (fun m => BB.mem m x.dest))) := by
  induction ms generalizing g with
  | nil =>
    have : (allMoves g).filter (fun x => ([] : List BB).any (fun m => BB.mem m x.dest)) = [] := by
      rw [List.filter_eq_nil_iff]
      intro x _
      simp
    rw [this]
    exact List.Perm.refl _
  | cons m ms ih =>
    obtain ⟨r1, r2, r3⟩ := drainSt_round g hg m fuel hf
    have hlen : (allMoves (drainSt fuel (g.setMask m)).2).length < fuel := by
      rw [r3.length_eq]
      exact Nat.lt_of_le_of_lt (List.length_filter_le _ _) hf
    have hi := ih (drainSt fuel (g.setMask m)).2 r2 hlen
    show ((drainSt fuel (g.setMask m)).1 ++ rounds fuel (drainSt fuel (g.setMask m)).2 ms).Perm _
    refine (List.Perm.append r1 (hi.trans (r3.filter _))).trans ?_
    refine (filter_or_perm _ _ _).trans ?_
    apply List.Perm.of_eq
    apply List.filter_congr
    intro x _
    rw [List.any_cons]

/-- **successive masks that together cover the board** yield every remaining move exactly once:
the rounds together yield a permutation of what the iterator denoted -/
theorem rounds_cover (g : MoveGen) (hg : g.promoIdx = 0) (ms : List BB) (fuel : Nat)
    (hf : (allMoves g).length < fuel)
    (hcover : ∀ s : Sq, ∃ m ∈ ms, BB.mem m s = true) :
    (rounds fuel g ms).Perm (allMoves g) := by
  have h := rounds_perm_any ms fuel g hg hf
  have e : (allMoves g).filter (fun x => ms.any (fun m => BB.mem m x.dest)) = allMoves g := by
    rw [List.filter_eq_self]
    intro x _
    rw [List.any_eq_true]
    exact hcover x.dest
  rw [e] at h
  exact h

/-- for the legal moves of a well-formed board: any covering sequence of masks yields every legal
move exactly once -/
theorem rounds_legals (b : Board) (h : b.WF = true) (ms : List BB)
    (hcover : ∀ s : Sq, ∃ m ∈ ms, BB.mem m s = true) :
    (rounds 5000 (legals b) ms).Perm b.legalsList ∧ (rounds 5000 (legals b) ms).Nodup := by
  have hall : allMoves (legals b) = movesOf (legals b) := rfl
  have hlen : (allMoves (legals b)).length < 5000 := by
    rw [hall, Props.C10.movesOf_eq]
    exact Entries.mvsOf_length_lt _ (Legal.wf_entries_le b h)
  have hp := rounds_cover (legals b) rfl ms 5000 hlen hcover
  rw [hall, ← legalsList_eq b h] at hp
  exact ⟨hp, hp.nodup_iff.2 (Legal.legals_nodup b h)⟩

end Chess.Proofs.IterMask
