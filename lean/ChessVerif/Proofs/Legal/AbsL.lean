/-
Abstraction lemmas: what the bitboard sets of a well-formed model board say in terms of the
mailbox `abs b`, and the pseudo-legal move sets of `Model/MoveGen.lean` in terms of the
specification's attack relations.
-/
import ChessVerif.Spec.WF
import ChessVerif.Proofs.MoveAbs
import ChessVerif.Props.C08
import ChessVerif.Props.C09

namespace Chess.AbsL
open Chess Chess.Spec

/-! ### projections of `Board.WF` -/

theorem wf_all (b : Board) (h : b.WF = true) :
    b.raw.partitionOk = true ∧ b.validate = .ok () ∧ b.castle < 16 ∧ b.pinInfoOk = true ∧
      b.zobrist = b.raw.pieceHash := by
  simp only [Board.WF, Bool.and_eq_true, beq_iff_eq, decide_eq_true_eq] at h
  obtain ⟨⟨⟨⟨h1, h2⟩, h3⟩, h4⟩, h5⟩ := h
  refine ⟨h1, ?_, h3, h4, h5⟩
  cases hv : b.validate with
  | ok u => rfl
  | error e => rw [hv] at h2; cases h2

theorem wf_partition (b : Board) (h : b.WF = true) : b.raw.partitionOk = true := (wf_all b h).1
theorem wf_validate (b : Board) (h : b.WF = true) : b.validate = .ok () := (wf_all b h).2.1
theorem wf_castle (b : Board) (h : b.WF = true) : b.castle < 16 := (wf_all b h).2.2.1
theorem wf_pinInfo (b : Board) (h : b.WF = true) :
    b.pinned = b.updatePinInfo.pinned ∧ b.checkers = b.updatePinInfo.checkers := by
  have := (wf_all b h).2.2.2.1
  simpa only [Board.pinInfoOk, Bool.and_eq_true, beq_iff_eq] using this
theorem wf_hash (b : Board) (h : b.WF = true) : b.zobrist = b.raw.pieceHash := (wf_all b h).2.2.2.2

theorem validate_ok (b : Board) (hv : b.validate = .ok ()) :
    b.raw.hasKings = true ∧ (BB.count b.raw.white ≤ 16 ∧ BB.count b.raw.black ≤ 16) ∧
      BB.any (Board.attackersOf b.raw (b.kingSq b.turn.flip) b.turn b.raw.all) = false := by
  unfold Board.validate at hv
  split at hv
  · cases hv
  · rename_i h1
    split at hv
    · cases hv
    · rename_i h2
      split at hv
      · cases hv
      · split at hv
        · cases hv
        · unfold Board.validateOpponentNotInCheck at hv
          split at hv
          · cases hv
          · rename_i h3
            refine ⟨by simpa using h1, ?_, by simpa using h3⟩
            simp only [Bool.or_eq_true, decide_eq_true_eq, not_or] at h2
            omega

theorem wf_hasKings (b : Board) (h : b.WF = true) : b.raw.hasKings = true :=
  (validate_ok b (wf_validate b h)).1
theorem wf_counts (b : Board) (h : b.WF = true) : BB.count b.raw.white ≤ 16 ∧ BB.count b.raw.black ≤ 16 :=
  (validate_ok b (wf_validate b h)).2.1
theorem wf_opponent_safe (b : Board) (h : b.WF = true) :
    BB.any (Board.attackersOf b.raw (b.kingSq b.turn.flip) b.turn b.raw.all) = false :=
  (validate_ok b (wf_validate b h)).2.2

/-! ### the mailbox of a partitioned board -/

theorem at_abs (b : Board) (hp : b.raw.partitionOk = true) (s : Sq) :
    RawBoard.At b.raw s ((abs b).pieceAt s) :=
  RawBoard.at_of_sqOk _ _ ((RawBoard.partitionOk_iff_sqOk _).1 hp s)

/-- a square holds `(c, pc)` iff it is in the colour set of `c` and the piece set of `pc` -/
theorem pieceAt_iff (b : Board) (hp : b.raw.partitionOk = true) (s : Sq) (c : Color) (pc : Piece) :
    (abs b).pieceAt s = some (c, pc) ↔ (BB.mem (b.raw.color c) s = true ∧ BB.mem (b.raw.piece pc) s = true) := by
  have hs := at_abs b hp s
  rw [hs.1 c, hs.2 pc]
  cases h : (abs b).pieceAt s with
  | none => simp
  | some cp =>
    obtain ⟨c', p'⟩ := cp
    simp only [Option.some.injEq, Prod.mk.injEq, decide_eq_true_eq]
    constructor
    · rintro ⟨h1, h2⟩; exact ⟨h1.symm, h2.symm⟩
    · rintro ⟨h1, h2⟩; exact ⟨h1.symm, h2.symm⟩

theorem mem_piece_color (b : Board) (hp : b.raw.partitionOk = true) (s : Sq) (c : Color) (pc : Piece) :
    BB.mem (b.raw.piece pc &&& b.raw.color c) s = decide ((abs b).pieceAt s = some (c, pc)) := by
  rw [BB.mem_and', Bool.eq_iff_iff, Bool.and_eq_true, decide_eq_true_eq, pieceAt_iff b hp]
  exact And.comm

theorem mem_color (b : Board) (hp : b.raw.partitionOk = true) (s : Sq) (c : Color) :
    BB.mem (b.raw.color c) s = ((abs b).colorAt s == some c) := by
  have hs := at_abs b hp s
  rw [hs.1 c, Position.colorAt]
  cases h : (abs b).pieceAt s with
  | none => rfl
  | some cp =>
    obtain ⟨c', p'⟩ := cp
    cases c <;> cases c' <;> rfl

theorem mem_piece (b : Board) (hp : b.raw.partitionOk = true) (s : Sq) (pc : Piece) :
    BB.mem (b.raw.piece pc) s = (((abs b).pieceAt s).map (·.2) == some pc) := by
  have hs := at_abs b hp s
  rw [hs.2 pc]
  cases h : (abs b).pieceAt s with
  | none => rfl
  | some cp =>
    obtain ⟨c', p'⟩ := cp
    cases pc <;> cases p' <;> rfl

theorem occupied_iff (b : Board) (hp : b.raw.partitionOk = true) (s : Sq) :
    (abs b).occupied s = BB.mem b.raw.all s := by
  have hs := at_abs b hp s
  have h1 := hs.1 .white
  have h2 := hs.1 .black
  simp only [RawBoard.color] at h1 h2
  rw [RawBoard.all, BB.mem_or', h1, h2, Position.occupied]
  cases h : (abs b).pieceAt s with
  | none => rfl
  | some cp =>
    obtain ⟨c', p'⟩ := cp
    cases c' <;> rfl

/-- hence sliding on the mailbox is sliding on the occupancy word -/
theorem occupied_eq (b : Board) (hp : b.raw.partitionOk = true) :
    (abs b).occupied = Magic.occOf b.raw.all := by
  funext s
  exact occupied_iff b hp s

theorem get_eq (b : Board) (hp : b.raw.partitionOk = true) (s : Sq) : b.raw.get s = (abs b).pieceAt s := by
  have hs := at_abs b hp s
  rw [RawBoard.get, hs.colorOf]
  cases h : (abs b).pieceAt s with
  | none => rfl
  | some cp =>
    obtain ⟨c', p'⟩ := cp
    rw [h] at hs
    simp only [Option.map_some, hs.pieceOfUnchecked]

/-! ### kings -/

/-- a bitboard with exactly one member: `tz` finds it -/
theorem single_of_count_one (x : BB) (h : BB.count x = 1) :
    ∃ h64 : BB.tz x < 64, x ≠ 0#64 ∧ BB.toList x = [⟨BB.tz x, h64⟩] := by
  rw [BB.count_eq_length_toList, List.length_eq_one_iff] at h
  obtain ⟨s, hs⟩ := h
  have hmem : BB.mem x s = true := by
    rw [← BB.mem_toList, hs]; exact List.mem_singleton.2 rfl
  have hne : x ≠ 0#64 := by
    intro h0; rw [h0, BB.mem_zero] at hmem; cases hmem
  have h64 := BB.tz_lt_of_ne_zero x hne
  refine ⟨h64, hne, ?_⟩
  have : (⟨BB.tz x, h64⟩ : Sq) ∈ BB.toList x := by
    rw [BB.mem_toList, BB.mem_def]; exact BB.tz_set x h64
  rw [hs] at this ⊢
  rw [List.mem_singleton.1 this]

theorem count_kingBB (b : Board) (hk : b.raw.hasKings = true) (c : Color) : BB.count (b.kingBB c) = 1 := by
  simp only [RawBoard.hasKings, Bool.and_eq_true, beq_iff_eq] at hk
  cases c
  · show BB.count (b.raw.white &&& b.raw.king) = 1
    rw [BitVec.and_comm]; exact hk.1.2
  · show BB.count (b.raw.black &&& b.raw.king) = 1
    rw [BitVec.and_comm]; exact hk.2

theorem toList_kingBB (b : Board) (hk : b.raw.hasKings = true) (c : Color) :
    BB.toList (b.kingBB c) = [b.kingSq c] := by
  obtain ⟨h64, hne, hl⟩ := single_of_count_one _ (count_kingBB b hk c)
  rw [hl]
  simp only [Board.kingSq, Board.kingSq?, beq_iff_eq, if_neg hne, Sq.ofNat?, dif_pos h64, Option.getD_some]

theorem mem_kingBB (b : Board) (hp : b.raw.partitionOk = true) (c : Color) (s : Sq) :
    BB.mem (b.kingBB c) s = ((abs b).pieceAt s == some (c, .king)) := by
  have := mem_piece_color b hp s c .king
  rw [Board.kingBB, BitVec.and_comm]
  rw [Bool.eq_iff_iff, beq_iff_eq]
  show BB.mem (b.raw.piece .king &&& b.raw.color c) s = true ↔ _
  rw [this, decide_eq_true_eq]

theorem kings_eq (b : Board) (hp : b.raw.partitionOk = true) (hk : b.raw.hasKings = true) (c : Color) :
    (abs b).kings c = [b.kingSq c] := by
  rw [← toList_kingBB b hk c, Position.kings, BB.toList]
  apply List.filter_congr
  intro x _
  exact (mem_kingBB b hp c x).symm

/-- on a board with `has_kings`, `king_sq c` is the unique square holding the king of colour `c` -/
theorem king_at (b : Board) (hp : b.raw.partitionOk = true) (hk : b.raw.hasKings = true) (c : Color) :
    (abs b).pieceAt (b.kingSq c) = some (c, .king) := by
  have : b.kingSq c ∈ (abs b).kings c := by rw [kings_eq b hp hk c]; exact List.mem_singleton.2 rfl
  rw [Position.kings, List.mem_filter, beq_iff_eq] at this
  exact this.2

theorem king_unique (b : Board) (hp : b.raw.partitionOk = true) (hk : b.raw.hasKings = true) (c : Color) (s : Sq)
    (h : (abs b).pieceAt s = some (c, .king)) : s = b.kingSq c := by
  have : s ∈ (abs b).kings c := by
    rw [Position.kings, List.mem_filter, beq_iff_eq]
    exact ⟨List.mem_finRange s, h⟩
  rw [kings_eq b hp hk c] at this
  exact List.mem_singleton.1 this

/-! ### pseudo-legal destination sets = the specification's attack relations -/

theorem mem_pseudo_knight (s t : Sq) (c : Color) (all mask : BB) :
    BB.mem (Board.pseudoLegals .knight s c all mask) t = (knightAtt s t && BB.mem mask t) := by
  simp only [Board.pseudoLegals, BB.mem_and', Props.C09.mem_knightMoves]
theorem mem_pseudo_king (s t : Sq) (c : Color) (all mask : BB) :
    BB.mem (Board.pseudoLegals .king s c all mask) t = (kingAtt s t && BB.mem mask t) := by
  simp only [Board.pseudoLegals, BB.mem_and', Props.C09.mem_kingMoves]
theorem mem_pseudo_rook (s t : Sq) (c : Color) (all mask : BB) :
    BB.mem (Board.pseudoLegals .rook s c all mask) t = ((rookReach (Magic.occOf all) s).contains t && BB.mem mask t) := by
  simp only [Board.pseudoLegals, BB.mem_and', Props.C08.mem_rookMoves]
theorem mem_pseudo_bishop (s t : Sq) (c : Color) (all mask : BB) :
    BB.mem (Board.pseudoLegals .bishop s c all mask) t = ((bishopReach (Magic.occOf all) s).contains t && BB.mem mask t) := by
  simp only [Board.pseudoLegals, BB.mem_and', Props.C08.mem_bishopMoves]
theorem mem_pseudo_queen (s t : Sq) (c : Color) (all mask : BB) :
    BB.mem (Board.pseudoLegals .queen s c all mask) t =
      (((rookReach (Magic.occOf all) s).contains t || (bishopReach (Magic.occOf all) s).contains t) && BB.mem mask t) := by
  simp only [Board.pseudoLegals, BB.mem_and', BB.mem_or', Props.C08.mem_rookMoves, Props.C08.mem_bishopMoves]
theorem mem_pseudo_pawn (s t : Sq) (c : Color) (all mask : BB) :
    BB.mem (Board.pseudoLegals .pawn s c all mask) t =
      ((Props.C09.quietRes (Props.C09.front c s) (pawnPushTbl c s) all t || (pawnAtt c s t && BB.mem all t)) && BB.mem mask t) := by
  simp only [Board.pseudoLegals, BB.mem_and', Props.C09.mem_pawnMoves, Props.C09.mem_pawnQuiets,
    Props.C09.mem_pawnAttacks]

end Chess.AbsL
