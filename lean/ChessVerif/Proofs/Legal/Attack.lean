/-
Attacks on the mailbox, in the form the legality proofs use: a square is attacked iff some enemy
contact piece (knight, pawn, king) stands a contact-step away or some enemy slider of the right
kind is aligned with it and the segment between them is empty; and what a move of a non-king
piece, a king step, or an en-passant capture does to the attacks on the mover's king.
Pure specification-level reasoning (no bitboards).
-/
import ChessVerif.Spec.Rules
import ChessVerif.Proofs.Legal.Rays

namespace Chess.Legal
open Chess Chess.Spec Chess.Rays

/-- the open segment between two squares is empty under `occ` -/
def clear (occ : Sq → Bool) (a b : Sq) : Bool := (betweenList a b).all (fun u => !occ u)

/-- `x` holds a slider of colour `c` whose kind matches the way `x` is aligned with `t` -/
def sliderOn (at_ : Sq → Option (Color × Piece)) (c : Color) (x t : Sq) : Bool :=
  match at_ x with
  | some (c', .rook) => c' == c && rookAligned x t
  | some (c', .bishop) => c' == c && bishopAligned x t
  | some (c', .queen) => c' == c && aligned x t
  | _ => false

/-- `x` holds a knight, pawn or king of colour `c` that attacks `t` -/
def contactOn (at_ : Sq → Option (Color × Piece)) (c : Color) (x t : Sq) : Bool :=
  match at_ x with
  | some (c', .knight) => c' == c && knightAtt x t
  | some (c', .pawn) => c' == c && pawnAtt c x t
  | some (c', .king) => c' == c && kingAtt x t
  | _ => false

def occOfAt (at_ : Sq → Option (Color × Piece)) : Sq → Bool := fun s => (at_ s).isSome

/-- one square's contribution to `attacked`, split into contact and slider attackers -/
theorem attacksAt_iff (p : Position) (x t : Sq) (c : Color) :
    (match p.pieceAt x with
      | some (c', pc) => c' == c && p.attacksFrom x c pc t
      | none => false) = true ↔
    (contactOn p.pieceAt c x t = true ∨
      (sliderOn p.pieceAt c x t = true ∧ clear p.occupied x t = true)) := by
  unfold contactOn sliderOn clear
  rcases p.pieceAt x with _ | ⟨c', pc⟩
  · simp
  · cases pc <;>
      simp only [Position.attacksFrom, rookReach_iff, bishopReach_iff, aligned, Bool.and_eq_true,
        Bool.or_eq_true, Bool.false_eq_true, false_or, or_false, false_and] <;> grind

/-- **attack, unfolded**: `t` is attacked by colour `c` iff a contact piece or an unobstructed,
suitably aligned slider of colour `c` exists -/
theorem attacked_iff (p : Position) (t : Sq) (c : Color) :
    p.attacked t c = true ↔
      ∃ x : Sq, contactOn p.pieceAt c x t = true ∨ (sliderOn p.pieceAt c x t = true ∧ clear p.occupied x t = true) := by
  unfold Position.attacked
  rw [List.any_eq_true]
  constructor
  · rintro ⟨x, _, h⟩
    exact ⟨x, (attacksAt_iff p x t c).1 h⟩
  · rintro ⟨x, h⟩
    exact ⟨x, List.mem_finRange x, (attacksAt_iff p x t c).2 h⟩

/-- attacks only depend on the mailbox -/
theorem attacked_congr (p q : Position) (h : p.pieceAt = q.pieceAt) (t : Sq) (c : Color) :
    p.attacked t c = q.attacked t c := by
  have ho : p.occupied = q.occupied := by
    funext s; simp only [Position.occupied, h]
  rw [Bool.eq_iff_iff, attacked_iff, attacked_iff, h, ho]

/-- the mailbox after moving whatever stands on `s` to `d` as piece `mv` (captures what is on `d`) -/
def moveAt (at_ : Sq → Option (Color × Piece)) (s d : Sq) (mv : Option (Color × Piece)) : Sq → Option (Color × Piece) :=
  fun x => if x = d then mv else if x = s then none else at_ x

/-- … and additionally removing the piece on `v` (en passant) -/
def moveAtEp (at_ : Sq → Option (Color × Piece)) (s d v : Sq) (mv : Option (Color × Piece)) : Sq → Option (Color × Piece) :=
  fun x => if x = d then mv else if x = s then none else if x = v then none else at_ x

/-- occupancy after such a move -/
theorem occ_moveAt (at_ : Sq → Option (Color × Piece)) (s d : Sq) (c : Color) (pc : Piece) (u : Sq) :
    occOfAt (moveAt at_ s d (some (c, pc))) u = (u == d || (occOfAt at_ u && u != s)) := by
  unfold occOfAt moveAt
  by_cases hd : u = d
  · subst hd; simp
  · by_cases hs : u = s
    · subst hs; simp [hd]
    · have h1 : (u == d) = false := by simp [hd]
      have h2 : (u != s) = true := by simp [hs]
      simp [hd, hs, h1, h2]

theorem moveAt_eq_moveAtEp (at_ : Sq → Option (Color × Piece)) (s d : Sq) (mv : Option (Color × Piece)) :
    moveAt at_ s d mv = moveAtEp at_ s d s mv := by
  funext x
  unfold moveAt moveAtEp
  by_cases hd : x = d
  · subst hd; simp
  · by_cases hs : x = s
    · subst hs; simp [hd]
    · simp [hd, hs]

theorem contactOn_congr (a b : Sq → Option (Color × Piece)) (c : Color) (x t : Sq) (h : a x = b x) :
    contactOn a c x t = contactOn b c x t := by
  unfold contactOn; rw [h]

theorem sliderOn_congr (a b : Sq → Option (Color × Piece)) (c : Color) (x t : Sq) (h : a x = b x) :
    sliderOn a c x t = sliderOn b c x t := by
  unfold sliderOn; rw [h]

theorem contactOn_none (a : Sq → Option (Color × Piece)) (c : Color) (x t : Sq) (h : a x = none) :
    contactOn a c x t = false := by
  unfold contactOn; rw [h]

theorem sliderOn_none (a : Sq → Option (Color × Piece)) (c : Color) (x t : Sq) (h : a x = none) :
    sliderOn a c x t = false := by
  unfold sliderOn; rw [h]

theorem contactOn_other (a : Sq → Option (Color × Piece)) (c c' : Color) (pc : Piece) (x t : Sq)
    (h : a x = some (c', pc)) (hne : c' ≠ c) : contactOn a c x t = false := by
  unfold contactOn; rw [h]
  cases pc <;> simp [hne]

theorem sliderOn_other (a : Sq → Option (Color × Piece)) (c c' : Color) (pc : Piece) (x t : Sq)
    (h : a x = some (c', pc)) (hne : c' ≠ c) : sliderOn a c x t = false := by
  unfold sliderOn; rw [h]
  cases pc <;> simp [hne]

/-- the common core of the three "after a move" lemmas: no distinctness assumptions needed -/
theorem attacked_after_core (p q : Position) (s d v t : Sq) (c : Color) (pc : Piece)
    (hq : q.pieceAt = moveAtEp p.pieceAt s d v (some (c, pc))) :
    q.attacked t c.flip = true ↔
      ∃ x : Sq, x ≠ d ∧ x ≠ s ∧ x ≠ v ∧
        (contactOn p.pieceAt c.flip x t = true ∨
         (sliderOn p.pieceAt c.flip x t = true ∧ d ∉ betweenList x t ∧
          ∀ u ∈ betweenList x t, u ≠ s → u ≠ v → p.occupied u = false)) := by
  rw [attacked_iff]
  have hocc : ∀ u, q.occupied u =
      (if u = d then true else if u = s then false else if u = v then false else p.occupied u) := by
    intro u
    simp only [Position.occupied, hq, moveAtEp]
    split
    · rfl
    · split
      · rfl
      · split <;> rfl
  have hclear : ∀ x, clear q.occupied x t = true ↔
      (d ∉ betweenList x t ∧ ∀ u ∈ betweenList x t, u ≠ s → u ≠ v → p.occupied u = false) := by
    intro x
    unfold clear
    simp only [List.all_eq_true, Bool.not_eq_true']
    constructor
    · intro h
      refine ⟨fun hd => ?_, fun u hu hs hv => ?_⟩
      · have := h d hd
        rw [hocc, if_pos rfl] at this
        exact Bool.noConfusion this
      · have := h u hu
        rw [hocc] at this
        by_cases hud : u = d
        · rw [if_pos hud] at this; exact Bool.noConfusion this
        · rw [if_neg hud, if_neg hs, if_neg hv] at this; exact this
    · rintro ⟨h1, h2⟩ u hu
      have hud : u ≠ d := fun e => h1 (e ▸ hu)
      rw [hocc, if_neg hud]
      by_cases hs : u = s
      · rw [if_pos hs]
      · rw [if_neg hs]
        by_cases hv : u = v
        · rw [if_pos hv]
        · rw [if_neg hv]; exact h2 u hu hs hv
  apply exists_congr
  intro x
  rw [hclear x]
  by_cases hd : x = d
  · have hx : q.pieceAt x = some (c, pc) := by rw [hq]; simp [moveAtEp, hd]
    have hne : c ≠ c.flip := fun e => Color.flip_ne c e.symm
    rw [contactOn_other _ _ _ _ _ _ hx hne, sliderOn_other _ _ _ _ _ _ hx hne]
    simp [hd]
  · by_cases hs : x = s
    · have hx : q.pieceAt x = none := by rw [hq]; subst hs; simp [moveAtEp, hd]
      rw [contactOn_none _ _ _ _ hx, sliderOn_none _ _ _ _ hx]
      simp [hs]
    · by_cases hv : x = v
      · have hx : q.pieceAt x = none := by rw [hq]; subst hv; simp [moveAtEp, hd]
        rw [contactOn_none _ _ _ _ hx, sliderOn_none _ _ _ _ hx]
        simp [hv]
      · have hx : q.pieceAt x = p.pieceAt x := by rw [hq]; simp [moveAtEp, hd, hs, hv]
        rw [contactOn_congr _ _ _ _ _ hx, sliderOn_congr _ _ _ _ _ hx]
        simp [hd, hs, hv]

set_option linter.unusedVariables false in
/-- **the pin lemma**: after a piece of colour `c` (not attacking its own king, whatever it is) moved
from `s` to `d`, a square `k ∉ {s, d}` is attacked by the other colour iff some enemy piece other
than the captured one attacks it as before, where the segments are judged with `s` vacated and `d`
occupied -/
theorem attacked_after_move (p : Position) (s d k : Sq) (c : Color) (pc : Piece)
    (hks : k ≠ s) (hkd : k ≠ d) (hsd : s ≠ d) (q : Position)
    (hq : q.pieceAt = moveAt p.pieceAt s d (some (c, pc))) :
    q.attacked k c.flip = true ↔
      ∃ x : Sq, x ≠ d ∧ x ≠ s ∧
        (contactOn p.pieceAt c.flip x k = true ∨
         (sliderOn p.pieceAt c.flip x k = true ∧ d ∉ betweenList x k ∧
          ∀ u ∈ betweenList x k, u ≠ s → p.occupied u = false)) := by
  rw [moveAt_eq_moveAtEp] at hq
  rw [attacked_after_core p q s d s k c pc hq]
  apply exists_congr
  intro x
  constructor
  · rintro ⟨h1, h2, _, h4⟩
    refine ⟨h1, h2, ?_⟩
    rcases h4 with h | ⟨h, h5, h6⟩
    · exact Or.inl h
    · exact Or.inr ⟨h, h5, fun u hu hs => h6 u hu hs hs⟩
  · rintro ⟨h1, h2, h4⟩
    refine ⟨h1, h2, h2, ?_⟩
    rcases h4 with h | ⟨h, h5, h6⟩
    · exact Or.inl h
    · exact Or.inr ⟨h, h5, fun u hu hs _ => h6 u hu hs⟩

set_option linter.unusedVariables false in
/-- after the king of colour `c` stepped (or castled) from `k` to `kp`: `kp` is attacked iff some
enemy piece other than the one captured on `kp` attacks it with `k` vacated -/
theorem attacked_after_king_move (p : Position) (k kp : Sq) (c : Color) (hne : k ≠ kp) (q : Position)
    (hq : q.pieceAt = moveAt p.pieceAt k kp (some (c, .king))) :
    q.attacked kp c.flip = true ↔
      ∃ x : Sq, x ≠ kp ∧ x ≠ k ∧
        (contactOn p.pieceAt c.flip x kp = true ∨
         (sliderOn p.pieceAt c.flip x kp = true ∧ ∀ u ∈ betweenList x kp, u ≠ k → p.occupied u = false)) := by
  rw [moveAt_eq_moveAtEp] at hq
  rw [attacked_after_core p q k kp k kp c .king hq]
  apply exists_congr
  intro x
  constructor
  · rintro ⟨h1, h2, _, h4⟩
    refine ⟨h1, h2, ?_⟩
    rcases h4 with h | ⟨h, _, h6⟩
    · exact Or.inl h
    · exact Or.inr ⟨h, fun u hu hs => h6 u hu hs hs⟩
  · rintro ⟨h1, h2, h4⟩
    refine ⟨h1, h2, h2, ?_⟩
    rcases h4 with h | ⟨h, h6⟩
    · exact Or.inl h
    · exact Or.inr ⟨h, (endpoints_not_mem x kp).2, fun u hu hs _ => h6 u hu hs⟩

set_option linter.unusedVariables false in
/-- after an en-passant capture (`s → d`, victim on `v`) -/
theorem attacked_after_ep (p : Position) (s d v k : Sq) (c : Color)
    (hks : k ≠ s) (hkd : k ≠ d) (hkv : k ≠ v) (hsd : s ≠ d) (hvd : v ≠ d) (hvs : v ≠ s) (q : Position)
    (hq : q.pieceAt = moveAtEp p.pieceAt s d v (some (c, .pawn))) :
    q.attacked k c.flip = true ↔
      ∃ x : Sq, x ≠ d ∧ x ≠ s ∧ x ≠ v ∧
        (contactOn p.pieceAt c.flip x k = true ∨
         (sliderOn p.pieceAt c.flip x k = true ∧ d ∉ betweenList x k ∧
          ∀ u ∈ betweenList x k, u ≠ s → u ≠ v → p.occupied u = false)) :=
  attacked_after_core p q s d v k c .pawn hq

end Chess.Legal
