/-
The fixed-capacity move list never overflows (C07), and the bound the C01 assembly needs on the
number of moves an iterator denotes.
-/
import ChessVerif.Spec.WF
import ChessVerif.Proofs.Iter
import ChessVerif.Proofs.MoveAbs

namespace Chess.Entries
open Chess

/-! ### counting with `countP` on the 64 squares -/

theorem count_eq_countP (b : BB) : BB.count b = (List.finRange 64).countP (BB.mem b) := by
  rw [BB.count_eq_length_toList, BB.toList, List.countP_eq_length_filter]

/-- two pointwise-disjoint predicates: the counts add up to the count of the union -/
theorem countP_add_of_pointwise {α} (p q r : α → Bool) (l : List α)
    (h : ∀ x, (if p x = true then 1 else 0) + (if q x = true then 1 else 0) = (if r x = true then 1 else 0)) :
    l.countP p + l.countP q = l.countP r := by
  induction l with
  | nil => rfl
  | cons a l ih =>
    simp only [List.countP_cons]
    have := h a
    omega

/-- six pointwise-disjoint predicates -/
theorem countP_add6_of_pointwise {α} (p1 p2 p3 p4 p5 p6 r : α → Bool) (l : List α)
    (h : ∀ x, (if p1 x = true then 1 else 0) + (if p2 x = true then 1 else 0) +
      (if p3 x = true then 1 else 0) + (if p4 x = true then 1 else 0) +
      (if p5 x = true then 1 else 0) + (if p6 x = true then 1 else 0) = (if r x = true then 1 else 0)) :
    l.countP p1 + l.countP p2 + l.countP p3 + l.countP p4 + l.countP p5 + l.countP p6 = l.countP r := by
  induction l with
  | nil => rfl
  | cons a l ih =>
    simp only [List.countP_cons]
    have := h a
    omega

theorem count_zero : BB.count (0#64) = 0 := by
  rw [BB.count_eq_length_toList, (MoveGen.toList_eq_nil_iff _).2 (by rfl)]
  rfl

theorem count_of_none (b : BB) (h : BB.none b = true) : BB.count b = 0 := by
  rw [BB.count_eq_length_toList, (MoveGen.toList_eq_nil_iff _).2 h]
  rfl

/-- `pushEntries` yields at most one entry per source -/
theorem pushEntries_length_le (srcs : List Sq) (f : Sq → BB) (promo : Sq → Bool) :
    (Board.pushEntries srcs f promo).length ≤ srcs.length := by
  unfold Board.pushEntries
  exact List.length_filterMap_le _ _

/-- splitting a set by another: `count (a ∩ ¬p) + count (a ∩ p) = count a` -/
theorem count_split (a p : BB) : BB.count (a &&& ~~~p) + BB.count (a &&& p) = BB.count a := by
  rw [count_eq_countP, count_eq_countP, count_eq_countP]
  apply countP_add_of_pointwise
  intro s
  simp only [BB.mem_and', BB.mem_not']
  cases BB.mem a s <;> cases BB.mem p s <;> rfl

/-- the per-square content of the partition, as arithmetic on the eight membership bits -/
theorem sqOkBits_count : ∀ (w bl pa kn bi ro qu ki : Bool), RawBoard.sqOkBits w bl pa kn bi ro qu ki = true →
    ((if (pa && w) = true then 1 else 0) + (if (kn && w) = true then 1 else 0) +
      (if (bi && w) = true then 1 else 0) + (if (ro && w) = true then 1 else 0) +
      (if (qu && w) = true then 1 else 0) + (if (ki && w) = true then 1 else 0) = (if w = true then 1 else 0)) ∧
    ((if (pa && bl) = true then 1 else 0) + (if (kn && bl) = true then 1 else 0) +
      (if (bi && bl) = true then 1 else 0) + (if (ro && bl) = true then 1 else 0) +
      (if (qu && bl) = true then 1 else 0) + (if (ki && bl) = true then 1 else 0) = (if bl = true then 1 else 0)) := by
  decide

/-- on a partitioned board the men of one colour are the disjoint union of its six piece sets -/
theorem count_color_eq (r : RawBoard) (hp : r.partitionOk = true) (c : Color) :
    BB.count (r.pawn &&& r.color c) + BB.count (r.knight &&& r.color c) + BB.count (r.bishop &&& r.color c) +
    BB.count (r.rook &&& r.color c) + BB.count (r.queen &&& r.color c) + BB.count (r.king &&& r.color c) =
    BB.count (r.color c) := by
  rw [RawBoard.partitionOk_iff_sqOk] at hp
  simp only [count_eq_countP]
  apply countP_add6_of_pointwise
  intro s
  have h := sqOkBits_count _ _ _ _ _ _ _ _ (hp s)
  simp only [BB.mem_and']
  cases c
  · exact h.1
  · exact h.2

/-- one rank ∩ the two adjacent files has at most two squares (closed fact, 64 cases) -/
theorem ep_window_le : ∀ (rank : Rank) (f : File),
    (BB.toList (BB.ofRank rank &&& Lookup.adjacentFiles f)).length ≤ 2 := by
  decide +kernel

/-- at most two pawns can capture en passant: one rank ∩ the two adjacent files -/
theorem ep_sources_le (rank : Rank) (f : File) (pieces : BB) :
    (BB.toList (BB.ofRank rank &&& Lookup.adjacentFiles f &&& pieces)).length ≤ 2 := by
  rw [MoveGen.toList_filter (BB.ofRank rank &&& Lookup.adjacentFiles f) (BB.mem pieces) _
    (fun s => BB.mem_and' _ _ s)]
  exact Nat.le_trans (List.length_filter_le _ _) (ep_window_le rank f)

theorem genericLegals_length_le (b : Board) (p : Piece) (inCheck : Bool) (mask : BB) :
    (b.genericLegals p inCheck mask).length ≤ BB.count (b.raw.piece p &&& b.raw.color b.turn) := by
  have hs := count_split (b.raw.piece p &&& b.raw.color b.turn) b.pinned
  rw [BB.count_eq_length_toList (_ &&& ~~~b.pinned), BB.count_eq_length_toList (_ &&& b.pinned)] at hs
  unfold Board.genericLegals
  simp only []
  split
  · have := pushEntries_length_le (BB.toList (b.raw.piece p &&& b.raw.color b.turn &&& ~~~b.pinned))
      (fun src => Board.pseudoLegals p src b.turn b.raw.all mask &&& b.checkMask inCheck (b.kingSq b.turn))
      (fun _ => false)
    omega
  · rw [List.length_append]
    have := pushEntries_length_le (BB.toList (b.raw.piece p &&& b.raw.color b.turn &&& ~~~b.pinned))
      (fun src => Board.pseudoLegals p src b.turn b.raw.all mask &&& b.checkMask inCheck (b.kingSq b.turn))
      (fun _ => false)
    have := pushEntries_length_le (BB.toList (b.raw.piece p &&& b.raw.color b.turn &&& b.pinned))
      (fun src => Board.pseudoLegals p src b.turn b.raw.all mask &&& Lookup.line src (b.kingSq b.turn))
      (fun _ => false)
    omega

theorem pawnLegals_length_le (b : Board) (inCheck : Bool) (mask : BB) :
    (b.pawnLegals inCheck mask).length ≤ BB.count (b.raw.pawn &&& b.raw.color b.turn) + 2 := by
  have hs := count_split (b.raw.pawn &&& b.raw.color b.turn) b.pinned
  rw [BB.count_eq_length_toList (_ &&& ~~~b.pinned), BB.count_eq_length_toList (_ &&& b.pinned)] at hs
  unfold Board.pawnLegals
  simp only []
  rw [List.length_append, List.length_append]
  refine Nat.add_le_add (Nat.le_trans (Nat.add_le_add (pushEntries_length_le _ _ _) ?_) (Nat.le_of_eq hs)) ?_
  · split
    · exact Nat.zero_le _
    · exact pushEntries_length_le _ _ _
  · split
    · exact Nat.zero_le _
    · split
      · exact Nat.le_trans (List.length_filterMap_le _ _) (ep_sources_le _ _ _)
      · exact Nat.zero_le _

theorem ite_nil_singleton_length {α} (c : Prop) [Decidable c] (x : α) :
    (if c then [] else [x]).length ≤ 1 := by
  split
  · exact Nat.zero_le _
  · exact Nat.le_refl _

theorem kingLegals_length_le (b : Board) (inCheck : Bool) (turn : Color) (mask : BB) :
    (b.kingLegals inCheck turn mask).length ≤ 1 := by
  unfold Board.kingLegals
  exact ite_nil_singleton_length _ _

/-- **capacity**: on a board with a king and at most 16 men of the side to move whose sets form a
partition, `collect_moves` pushes at most 18 entries — `push_unchecked` on `ArrayVec<_, 18>` is safe -/
theorem collectMoves_length_le (b : Board) (hp : b.raw.partitionOk = true)
    (hk : BB.count (b.raw.king &&& b.raw.color b.turn) = 1)
    (hc : BB.count (b.raw.color b.turn) ≤ 16) (mask : BB) :
    (b.collectMoves mask).length ≤ Gen.Consts.moveListCapacity := by
  have hcap : Gen.Consts.moveListCapacity = 18 := by decide
  have hsum := count_color_eq b.raw hp b.turn
  rw [hcap]
  unfold Board.collectMoves
  simp only []
  have hP := fun ic => pawnLegals_length_le b ic (~~~b.raw.color b.turn &&& mask)
  have hN : ∀ ic, _ ≤ BB.count (b.raw.knight &&& b.raw.color b.turn) :=
    fun ic => genericLegals_length_le b .knight ic (~~~b.raw.color b.turn &&& mask)
  have hB : ∀ ic, _ ≤ BB.count (b.raw.bishop &&& b.raw.color b.turn) :=
    fun ic => genericLegals_length_le b .bishop ic (~~~b.raw.color b.turn &&& mask)
  have hR : ∀ ic, _ ≤ BB.count (b.raw.rook &&& b.raw.color b.turn) :=
    fun ic => genericLegals_length_le b .rook ic (~~~b.raw.color b.turn &&& mask)
  have hQ : ∀ ic, _ ≤ BB.count (b.raw.queen &&& b.raw.color b.turn) :=
    fun ic => genericLegals_length_le b .queen ic (~~~b.raw.color b.turn &&& mask)
  have hK := fun ic => kingLegals_length_le b ic b.turn (~~~b.raw.color b.turn &&& mask)
  split
  · simp only [List.length_append]
    have := hP false; have := hN false; have := hB false; have := hR false; have := hQ false
    have := hK false
    omega
  · rw [List.length_append]
    split
    · simp only [List.length_append]
      have := hP true; have := hN true; have := hB true; have := hR true; have := hQ true
      have := hK true
      omega
    · have := hK true
      simp only [List.length_nil]
      omega

/-- `check_mask`'s `assert_eq!(checkers.count(), IS_IN_CHECK as u8)` holds at every call site of
`collect_moves`: the in-check variants run only with exactly one checker, the others with none -/
theorem collect_checkMask_ok (b : Board) :
    (BB.none b.checkers = true → b.checkMaskOk false = true) ∧
    (BB.none b.checkers = false → BB.count b.checkers = 1 → b.checkMaskOk true = true) := by
  constructor
  · intro h
    simp [Board.checkMaskOk, count_of_none _ h]
  · intro _ h
    simp [Board.checkMaskOk, h]

theorem flatMap_length_le {α β} (f : α → List β) (k : Nat) (l : List α)
    (h : ∀ a ∈ l, (f a).length ≤ k) : (l.flatMap f).length ≤ l.length * k := by
  induction l with
  | nil => simp
  | cons a l ih =>
    rw [List.flatMap_cons, List.length_append, List.length_cons, Nat.succ_mul]
    have := h a List.mem_cons_self
    have := ih (fun a' ha' => h a' (List.mem_cons_of_mem _ ha'))
    omega

/-- an entry denotes at most 64 × 4 moves -/
theorem eMoves_length_le (e : Entry) (mask : BB) : (MoveGen.eMoves e mask).length ≤ 256 := by
  rw [MoveGen.eMoves_length, BB.count_eq_length_toList]
  have := BB.length_toList_le (e.moves &&& mask)
  split <;> omega

/-- each entry denotes at most 64 × 4 moves, so an iterator over at most 18 entries denotes < 5000 -/
theorem mvsOf_length_lt (g : MoveGen) (h : g.moves.length ≤ 18) : (MoveGen.mvsOf g).length < 5000 := by
  unfold MoveGen.mvsOf
  have h1 := flatMap_length_le (fun e => MoveGen.eMoves e g.mask) 256 (g.moves.drop g.index)
    (fun e _ => eMoves_length_le e g.mask)
  have h2 : (g.moves.drop g.index).length ≤ 18 := by
    rw [List.length_drop]; omega
  have : (g.moves.drop g.index).length * 256 ≤ 18 * 256 := Nat.mul_le_mul_right _ h2
  omega

end Chess.Entries
