/-
C01 assembly: the list the move generator yields on a well-formed board contains exactly the
legal moves of the specification, each once.
-/
import ChessVerif.Proofs.Legal.Pawn
import ChessVerif.Proofs.Legal.King
import ChessVerif.Proofs.Legal.Entries
import ChessVerif.Props.C10.Basic

namespace Chess.Legal
open Chess Chess.Spec Chess.Rays

/-- `collect_moves` under the full mask is the concatenation of the six per-piece entry lists -/
theorem collectMoves_full (b : Board) :
    b.collectMoves BB.full =
      pawnList b ++ genericList b .knight ++ genericList b .bishop ++ genericList b .rook ++
      genericList b .queen ++ kingList b := by
  unfold Board.collectMoves pawnList genericList kingList ownMask
  by_cases h0 : BB.none b.checkers = true
  · simp only [h0, if_true, Bool.not_true]
  · by_cases h1 : (BB.count b.checkers == 1) = true
    · simp only [h0, h1, if_true, if_false, Bool.not_false, Bool.false_eq_true]
    · simp only [h0, h1, if_false, Bool.not_false, Bool.false_eq_true, List.append_nil, List.nil_append]

/- `inEntries_append (xs ys : List Entry) (m : Move) :
    InEntries (xs ++ ys) m ↔ (InEntries xs m ∨ InEntries ys m)`
is proved, with exactly this statement and this name (`Chess.Legal.inEntries_append`), in
`Proofs/Legal/Generic.lean`; declaring it again here would clash. -/

/-- the number of entries stays within the capacity on a well-formed board, so the fuel of
`MoveGen.toList` suffices -/
theorem wf_entries_le (b : Board) (h : b.WF = true) : (b.collectMoves BB.full).length ≤ 18 := by
  have hp := AbsL.wf_partition b h
  have hk := AbsL.wf_hasKings b h
  have hc := AbsL.wf_counts b h
  have hcap : Gen.Consts.moveListCapacity = 18 := by decide
  rw [← hcap]
  simp only [RawBoard.hasKings, Bool.and_eq_true, beq_iff_eq] at hk
  apply Entries.collectMoves_length_le b hp
  · cases b.turn
    · exact hk.1.2
    · exact hk.2
  · cases b.turn
    · exact hc.1
    · exact hc.2

/-- the yielded list is what the entries denote -/
theorem mem_legalsList_iff (b : Board) (h : b.WF = true) (m : Move) :
    m ∈ b.legalsList ↔ InEntries (b.collectMoves BB.full) m := by
  have hlen : (Props.C10.movesOf (MoveGen.legals b)).length < 5000 := by
    rw [Props.C10.movesOf_eq]
    exact Entries.mvsOf_length_lt _ (wf_entries_le b h)
  unfold Board.legalsList MoveGen.toList
  rw [Props.C10.drain_eq _ rfl 5000 hlen]
  unfold Props.C10.movesOf Props.C10.entryMoves InEntries
  show m ∈ ((b.collectMoves BB.full).drop 0).flatMap _ ↔ _
  rw [List.drop_zero]
  simp only [List.mem_flatMap]
  have hfull : ∀ x : BB, x &&& (MoveGen.legals b).mask = x := by
    intro x
    apply BB.ext_mem
    intro s
    show BB.mem (x &&& BB.full) s = _
    rw [BB.mem_and', BB.mem_full, Bool.and_true]
  constructor
  · rintro ⟨e, he, d, hd, hm⟩
    refine ⟨e, he, ?_⟩
    rw [BB.mem_toList, hfull] at hd
    by_cases hp : e.promotion = true
    · simp only [hp, if_true, List.mem_map] at hm ⊢
      obtain ⟨p, hp', rfl⟩ := hm
      exact ⟨rfl, hd, p, hp', rfl⟩
    · simp only [hp, Bool.false_eq_true, if_false, List.mem_singleton] at hm ⊢
      subst hm
      exact ⟨rfl, hd, rfl⟩
  · rintro ⟨e, he, hs, hd, hp⟩
    refine ⟨e, he, m.dest, (BB.mem_toList _ _).mpr (by rw [hfull]; exact hd), ?_⟩
    by_cases hpr : e.promotion = true
    · simp only [hpr, if_true, List.mem_map] at hp ⊢
      obtain ⟨p, hp1, hp2⟩ := hp
      exact ⟨p, hp1, by cases m; simp_all⟩
    · simp only [hpr, Bool.false_eq_true, if_false, List.mem_singleton] at hp ⊢
      cases m; simp_all

/-- a legal move starts on a square holding a man of the side to move -/
theorem legal_source (p : Position) (m : Move) (h : p.legal m = true) :
    ∃ pc, p.pieceAt m.source = some (p.turn, pc) := by
  unfold Position.legal at h
  cases hps : p.pseudo m with
  | none => rw [hps] at h; cases h
  | some k =>
    unfold Position.pseudo at hps
    cases hsrc : p.pieceAt m.source with
    | none => rw [hsrc] at hps; cases hps
    | some cp =>
      obtain ⟨c, pc⟩ := cp
      rw [hsrc] at hps
      simp only [] at hps
      by_cases hc : c = p.turn
      · subst hc; exact ⟨pc, rfl⟩
      · have : (c != p.turn) = true := by simpa using hc
        rw [if_pos this] at hps
        cases hps

/-- **C01, set equality**: on every well-formed board the generator yields exactly the legal moves -/
theorem legals_iff (b : Board) (h : b.WF = true) (m : Move) :
    m ∈ b.legalsList ↔ (abs b).legal m = true := by
  rw [mem_legalsList_iff b h, collectMoves_full]
  simp only [inEntries_append]
  rw [pawn_iff b h, generic_iff b h .knight (Or.inl rfl), generic_iff b h .bishop (Or.inr (Or.inl rfl)),
    generic_iff b h .rook (Or.inr (Or.inr (Or.inl rfl))), generic_iff b h .queen (Or.inr (Or.inr (Or.inr rfl))),
    king_iff b h]
  constructor
  · rintro (((((h1 | h1) | h1) | h1) | h1) | h1) <;> exact h1.2
  · intro hl
    obtain ⟨pc, hpc⟩ := legal_source (abs b) m hl
    have ht : (abs b).turn = b.turn := rfl
    rw [ht] at hpc
    cases pc
    · exact Or.inl (Or.inl (Or.inl (Or.inl (Or.inl ⟨hpc, hl⟩))))
    · exact Or.inl (Or.inl (Or.inl (Or.inl (Or.inr ⟨hpc, hl⟩))))
    · exact Or.inl (Or.inl (Or.inl (Or.inr ⟨hpc, hl⟩)))
    · exact Or.inl (Or.inl (Or.inr ⟨hpc, hl⟩))
    · exact Or.inl (Or.inr ⟨hpc, hl⟩)
    · exact Or.inr ⟨hpc, hl⟩

/-! ### each move once

The yielded list is `(collectMoves full).flatMap (entryMoves · full)`.  Every entry denotes a
duplicate-free list, and two different entries denote disjoint lists because they are `Apart`:
their sources differ, or (a pawn's ordinary entry and its en-passant entry) their destination sets
are disjoint. -/

/-- two entries that denote no common move: different sources or disjoint destination sets -/
def Apart (e1 e2 : Entry) : Prop :=
  e1.src ≠ e2.src ∨ ∀ d, BB.mem e1.moves d = true → BB.mem e2.moves d = true → False

theorem mem_destMoves (e : Entry) (d : Sq) (m : Move)
    (h : m ∈ (if e.promotion then MoveGen.promoPieces.map (fun p => (⟨e.src, d, some p⟩ : Move))
      else [⟨e.src, d, none⟩])) :
    m.source = e.src ∧ m.dest = d := by
  split at h
  · obtain ⟨p, _, rfl⟩ := List.mem_map.1 h
    exact ⟨rfl, rfl⟩
  · rw [List.mem_singleton.1 h]
    exact ⟨rfl, rfl⟩

theorem mem_entryMoves (e : Entry) (mask : BB) (m : Move) (h : m ∈ Props.C10.entryMoves e mask) :
    m.source = e.src ∧ BB.mem e.moves m.dest = true := by
  unfold Props.C10.entryMoves at h
  obtain ⟨d, hd, hm⟩ := List.mem_flatMap.1 h
  obtain ⟨h1, h2⟩ := mem_destMoves e d m hm
  rw [BB.mem_toList, BB.mem_and', Bool.and_eq_true] at hd
  exact ⟨h1, by rw [h2]; exact hd.1⟩

theorem promoPieces_nodup : MoveGen.promoPieces.Pairwise (· ≠ ·) := by decide

/-- one entry denotes each of its moves once -/
theorem entryMoves_nodup (e : Entry) (mask : BB) : (Props.C10.entryMoves e mask).Nodup := by
  unfold Props.C10.entryMoves List.Nodup
  rw [List.pairwise_flatMap]
  constructor
  · intro d _
    split
    · rw [List.pairwise_map]
      exact promoPieces_nodup.imp (fun hne heq => hne (by injection heq with _ _ h3; injection h3))
    · exact List.pairwise_singleton _ _
  · refine (BB.toList_ascending _).imp ?_
    intro d1 d2 hlt x hx y hy hxy
    have h1 := (mem_destMoves e d1 x hx).2
    have h2 := (mem_destMoves e d2 y hy).2
    rw [hxy, h2] at h1
    rw [h1] at hlt
    exact Nat.lt_irrefl _ hlt

theorem entryMoves_disjoint (e1 e2 : Entry) (mask : BB) (h : Apart e1 e2) :
    ∀ x ∈ Props.C10.entryMoves e1 mask, ∀ y ∈ Props.C10.entryMoves e2 mask, x ≠ y := by
  intro x hx y hy hxy
  subst hxy
  obtain ⟨s1, d1⟩ := mem_entryMoves e1 mask x hx
  obtain ⟨s2, d2⟩ := mem_entryMoves e2 mask x hy
  rcases h with h | h
  · exact h (s1.symm.trans s2)
  · exact h _ d1 d2

/-- pairwise-apart entries denote a duplicate-free list of moves -/
theorem flatMap_entryMoves_nodup (es : List Entry) (mask : BB) (h : es.Pairwise Apart) :
    (es.flatMap (fun e => Props.C10.entryMoves e mask)).Nodup := by
  unfold List.Nodup
  rw [List.pairwise_flatMap]
  exact ⟨fun e _ => entryMoves_nodup e mask, h.imp (fun hA => entryMoves_disjoint _ _ mask hA)⟩

/-! #### sources of the entries -/

theorem toList_nodup (x : BB) : (BB.toList x).Pairwise (· ≠ ·) :=
  (BB.toList_ascending x).imp (fun hlt heq => by rw [heq] at hlt; exact Nat.lt_irrefl _ hlt)

theorem pushEntries_mem (srcs : List Sq) (f : Sq → BB) (promo : Sq → Bool) (e : Entry)
    (h : e ∈ Board.pushEntries srcs f promo) : e.src ∈ srcs ∧ e.moves = f e.src := by
  unfold Board.pushEntries at h
  obtain ⟨s, hs, he⟩ := List.mem_filterMap.1 h
  simp only [] at he
  split at he
  · cases he
  · cases he
    exact ⟨hs, rfl⟩

theorem pushEntries_distinct (srcs : List Sq) (f : Sq → BB) (promo : Sq → Bool)
    (h : srcs.Pairwise (· ≠ ·)) :
    (Board.pushEntries srcs f promo).Pairwise (fun e1 e2 => e1.src ≠ e2.src) := by
  unfold Board.pushEntries
  refine List.Pairwise.filterMap _ ?_ h
  intro a a' hne e he e' he'
  simp only [] at he he'
  split at he
  · cases he
  · split at he'
    · cases he'
    · cases he
      cases he'
      exact hne

theorem pushEntries_toList_src (x : BB) (f : Sq → BB) (promo : Sq → Bool) (e : Entry)
    (h : e ∈ Board.pushEntries (BB.toList x) f promo) : BB.mem x e.src = true :=
  (BB.mem_toList _ _).1 (pushEntries_mem _ _ _ _ h).1

/-- unpinned sources followed by pinned sources: all in `pieces`, pairwise different -/
theorem split_srcs (pieces pinned : BB) (f g : Sq → BB) (pr pr' : Sq → Bool) :
    (∀ e ∈ Board.pushEntries (BB.toList (pieces &&& ~~~pinned)) f pr ++
        Board.pushEntries (BB.toList (pieces &&& pinned)) g pr', BB.mem pieces e.src = true) ∧
    (Board.pushEntries (BB.toList (pieces &&& ~~~pinned)) f pr ++
        Board.pushEntries (BB.toList (pieces &&& pinned)) g pr').Pairwise (fun e1 e2 => e1.src ≠ e2.src) := by
  constructor
  · intro e he
    rcases List.mem_append.1 he with he | he
    · have := pushEntries_toList_src _ _ _ _ he
      rw [BB.mem_and', Bool.and_eq_true] at this
      exact this.1
    · have := pushEntries_toList_src _ _ _ _ he
      rw [BB.mem_and', Bool.and_eq_true] at this
      exact this.1
  · rw [List.pairwise_append]
    refine ⟨pushEntries_distinct _ _ _ (toList_nodup _), pushEntries_distinct _ _ _ (toList_nodup _), ?_⟩
    intro e1 h1 e2 h2 heq
    have a1 := pushEntries_toList_src _ _ _ _ h1
    have a2 := pushEntries_toList_src _ _ _ _ h2
    rw [BB.mem_and', BB.mem_not', Bool.and_eq_true] at a1
    rw [BB.mem_and', Bool.and_eq_true] at a2
    rw [heq, a2.2] at a1
    exact absurd a1.2 (by decide)

theorem genericLegals_srcs (b : Board) (p : Piece) (ic : Bool) (mask : BB) :
    (∀ e ∈ b.genericLegals p ic mask, BB.mem (b.raw.piece p &&& b.raw.color b.turn) e.src = true) ∧
    (b.genericLegals p ic mask).Pairwise (fun e1 e2 => e1.src ≠ e2.src) := by
  unfold Board.genericLegals
  simp only []
  split
  · constructor
    · intro e he
      have := pushEntries_toList_src _ _ _ _ he
      rw [BB.mem_and', Bool.and_eq_true] at this
      exact this.1
    · exact pushEntries_distinct _ _ _ (toList_nodup _)
  · exact split_srcs _ _ _ _ _ _

/-! #### pawns: ordinary entries and en-passant entries -/

/-- the entries for pushes and captures -/
def pawnOrd (b : Board) (ic : Bool) (mask : BB) : List Entry :=
  let all := b.raw.all
  let k := b.kingSq b.turn
  let pieces := b.raw.pawn &&& b.raw.color b.turn
  let cm := b.checkMask ic k
  let seventh : Rank := match b.turn with | .white => 6 | .black => 1
  let promo := fun (src : Sq) => decide (src.rank = seventh)
  Board.pushEntries (BB.toList (pieces &&& ~~~b.pinned))
    (fun src => Board.pseudoLegals .pawn src b.turn all mask &&& cm) promo ++
  (if ic then [] else
    Board.pushEntries (BB.toList (pieces &&& b.pinned))
      (fun src => Board.pseudoLegals .pawn src b.turn all mask &&& Lookup.line k src) promo)

/-- the en-passant entries -/
def pawnEp (b : Board) (mask : BB) : List Entry :=
  match b.ep with
  | none => []
  | some f =>
    if BB.any (BB.ofSq (Sq.mk f b.turn.epCaptureRank) &&& mask) then
      (BB.toList (BB.ofRank b.turn.epPawnRank &&& Lookup.adjacentFiles f &&&
        (b.raw.pawn &&& b.raw.color b.turn))).filterMap fun src =>
        if b.isSafeAfterEnpassant (b.kingSq b.turn) (BB.ofSq src) (BB.ofSq (Sq.mk f b.turn.epCaptureRank))
          (BB.ofSq (Sq.mk f b.turn.epPawnRank)) then
          some ⟨src, BB.ofSq (Sq.mk f b.turn.epCaptureRank), false⟩ else none
    else []

theorem pawnLegals_eq (b : Board) (ic : Bool) (mask : BB) :
    b.pawnLegals ic mask = pawnOrd b ic mask ++ pawnEp b mask := rfl

theorem pawnOrd_srcs (b : Board) (ic : Bool) (mask : BB) :
    (∀ e ∈ pawnOrd b ic mask, BB.mem (b.raw.pawn &&& b.raw.color b.turn) e.src = true ∧
      ∀ d, BB.mem e.moves d = true → BB.mem (Board.pseudoLegals .pawn e.src b.turn b.raw.all mask) d = true) ∧
    (pawnOrd b ic mask).Pairwise (fun e1 e2 => e1.src ≠ e2.src) := by
  unfold pawnOrd
  simp only []
  generalize (fun (src : Sq) => decide (src.rank = (match b.turn with | .white => (6 : Rank) | .black => 1))) = promo
  constructor
  · intro e he
    have hm : ∀ (x : BB) (g : Sq → BB) (pr : Sq → Bool),
        e ∈ Board.pushEntries (BB.toList ((b.raw.pawn &&& b.raw.color b.turn) &&& x))
          (fun src => Board.pseudoLegals .pawn src b.turn b.raw.all mask &&& g src) pr →
        BB.mem (b.raw.pawn &&& b.raw.color b.turn) e.src = true ∧
        ∀ d, BB.mem e.moves d = true → BB.mem (Board.pseudoLegals .pawn e.src b.turn b.raw.all mask) d = true := by
      intro x g pr hx
      obtain ⟨h1, h2⟩ := pushEntries_mem _ _ _ _ hx
      rw [BB.mem_toList, BB.mem_and', Bool.and_eq_true] at h1
      refine ⟨h1.1, ?_⟩
      intro d hd
      rw [h2, BB.mem_and', Bool.and_eq_true] at hd
      exact hd.1
    rcases List.mem_append.1 he with he | he
    · exact hm _ _ _ he
    · cases ic
      · exact hm _ _ _ he
      · cases he
  · cases ic
    · exact (split_srcs _ _ _ _ _ _).2
    · exact List.pairwise_append.2 ⟨pushEntries_distinct _ _ _ (toList_nodup _), List.Pairwise.nil,
        fun _ _ _ hx => nomatch hx⟩

theorem pawnEp_srcs (b : Board) (mask : BB) :
    (∀ e ∈ pawnEp b mask, ∃ f, b.ep = some f ∧
      BB.mem (BB.ofRank b.turn.epPawnRank &&& Lookup.adjacentFiles f &&& (b.raw.pawn &&& b.raw.color b.turn)) e.src = true ∧
      e.moves = BB.ofSq (Sq.mk f b.turn.epCaptureRank)) ∧
    (pawnEp b mask).Pairwise (fun e1 e2 => e1.src ≠ e2.src) := by
  unfold pawnEp
  split
  · exact ⟨fun _ h => (nomatch h), List.Pairwise.nil⟩
  · rename_i f hf
    split
    · constructor
      · intro e he
        obtain ⟨s, hs, he⟩ := List.mem_filterMap.1 he
        split at he
        · cases he
          exact ⟨f, hf, (BB.mem_toList _ _).1 hs, rfl⟩
        · cases he
      · refine List.Pairwise.filterMap _ ?_ (toList_nodup _)
        intro a a' hne e he e' he'
        split at he
        · split at he'
          · cases he
            cases he'
            exact hne
          · cases he'
        · cases he
    · exact ⟨fun _ h => (nomatch h), List.Pairwise.nil⟩

/-- the two files next to `f` do not contain file `f` (closed fact, 8 × 64 cases) -/
theorem adjacentFiles_ne : ∀ (f : File) (s : Sq), BB.mem (Lookup.adjacentFiles f) s = true → s.val % 8 ≠ f.val := by
  decide +kernel

/-- a pawn on a file next to `f` has no push or capture to an empty square of file `f` -/
theorem ep_not_ordinary (c : Color) (s : Sq) (f : File) (r : Rank) (all mask : BB)
    (hs : BB.mem (Lookup.adjacentFiles f) s = true) (hall : BB.mem all (Sq.mk f r) = false) :
    BB.mem (Board.pseudoLegals .pawn s c all mask) (Sq.mk f r) = false := by
  rw [AbsL.mem_pseudo_pawn, hall, Bool.and_false, Bool.or_false]
  have hne := adjacentFiles_ne f s hs
  have hp : pawnPushTbl c s (Sq.mk f r) = false := by
    have : (dF s (Sq.mk f r) == 0) = false := by
      rw [beq_eq_false_iff_ne]
      unfold dF fileI Sq.mk
      simp only []
      have := f.isLt
      omega
    unfold pawnPushTbl
    rw [this, Bool.false_and]
  have hq : Props.C09.quietRes (Props.C09.front c s) (pawnPushTbl c s) all (Sq.mk f r) = false := by
    unfold Props.C09.quietRes
    cases Props.C09.front c s with
    | none => rfl
    | some u => simp only [hp, Bool.and_false, Bool.false_and]
  rw [hq, Bool.false_and]

theorem pawnLegals_srcs (b : Board) (ic : Bool) (mask : BB) :
    ∀ e ∈ b.pawnLegals ic mask, BB.mem (b.raw.pawn &&& b.raw.color b.turn) e.src = true := by
  intro e he
  rw [pawnLegals_eq] at he
  rcases List.mem_append.1 he with he | he
  · exact ((pawnOrd_srcs b ic mask).1 e he).1
  · obtain ⟨f, _, h2, _⟩ := (pawnEp_srcs b mask).1 e he
    rw [BB.mem_and', Bool.and_eq_true] at h2
    exact h2.2

/-- the pawn entries are pairwise apart, provided the e.p. target square is empty -/
theorem pawnLegals_apart (b : Board) (ic : Bool) (mask : BB)
    (hep : ∀ f, b.ep = some f → BB.mem b.raw.all (Sq.mk f b.turn.epCaptureRank) = false) :
    (b.pawnLegals ic mask).Pairwise Apart := by
  rw [pawnLegals_eq, List.pairwise_append]
  refine ⟨(pawnOrd_srcs b ic mask).2.imp Or.inl, (pawnEp_srcs b mask).2.imp Or.inl, ?_⟩
  intro e1 h1 e2 h2
  obtain ⟨_, hmv⟩ := (pawnOrd_srcs b ic mask).1 e1 h1
  obtain ⟨f, hf, hsrc, hdest⟩ := (pawnEp_srcs b mask).1 e2 h2
  by_cases heq : e1.src = e2.src
  · right
    intro d hd1 hd2
    rw [hdest, BB.mem_ofSq, beq_iff_eq] at hd2
    subst hd2
    have := hmv _ hd1
    rw [BB.mem_and', BB.mem_and', Bool.and_eq_true, Bool.and_eq_true] at hsrc
    rw [heq, ep_not_ordinary b.turn e2.src f _ b.raw.all mask hsrc.1.2 (hep f hf)] at this
    cases this
  · exact Or.inl heq

theorem ite_nil_singleton_srcs (c : Prop) [Decidable c] (x : Entry) :
    (∀ e ∈ (if c then [] else [x]), e.src = x.src) ∧ (if c then [] else [x]).Pairwise Apart := by
  split
  · exact ⟨fun _ h => (nomatch h), List.Pairwise.nil⟩
  · exact ⟨fun e h => by rw [List.mem_singleton.1 h], List.pairwise_singleton _ _⟩

theorem kingLegals_srcs (b : Board) (ic : Bool) (turn : Color) (mask : BB) :
    (∀ e ∈ b.kingLegals ic turn mask, e.src = b.kingSq turn) ∧
    (b.kingLegals ic turn mask).Pairwise Apart := by
  unfold Board.kingLegals
  exact ite_nil_singleton_srcs _ _

/-! #### assembly -/

/-- the entry list of one piece type -/
def pieceList (b : Board) : Piece → List Entry
  | .pawn => pawnList b
  | .king => kingList b
  | pc => genericList b pc

theorem genericList_srcs (b : Board) (pc : Piece) :
    (∀ e ∈ genericList b pc, BB.mem (b.raw.piece pc &&& b.raw.color b.turn) e.src = true) ∧
    (genericList b pc).Pairwise Apart := by
  unfold genericList
  split
  · exact ⟨(genericLegals_srcs b pc _ _).1, (genericLegals_srcs b pc _ _).2.imp Or.inl⟩
  · split
    · exact ⟨(genericLegals_srcs b pc _ _).1, (genericLegals_srcs b pc _ _).2.imp Or.inl⟩
    · exact ⟨fun _ h => (nomatch h), List.Pairwise.nil⟩

/-- `validate_en_passant` succeeded -/
theorem wf_validateEp (b : Board) (h : b.WF = true) : b.validateEnPassant = .ok () := by
  have hv := AbsL.wf_validate b h
  unfold Board.validate at hv
  split at hv
  · cases hv
  · split at hv
    · cases hv
    · split at hv
      · cases hv
      · assumption

/-- the e.p. target square of a well-formed board is empty -/
theorem wf_ep_empty (b : Board) (h : b.WF = true) (f : File) (hf : b.ep = some f) :
    BB.mem b.raw.all (Sq.mk f b.turn.epCaptureRank) = false := by
  have hp := AbsL.wf_partition b h
  have hve := wf_validateEp b h
  unfold Board.validateEnPassant at hve
  rw [hf] at hve
  simp only [] at hve
  split at hve
  · cases hve
  · rename_i hn
    rw [← AbsL.occupied_iff b hp, Position.occupied, ← AbsL.get_eq b hp]
    simpa using hn

theorem pawnList_srcs (b : Board) (h : b.WF = true) :
    (∀ e ∈ pawnList b, BB.mem (b.raw.piece .pawn &&& b.raw.color b.turn) e.src = true) ∧
    (pawnList b).Pairwise Apart := by
  unfold pawnList
  split
  · exact ⟨pawnLegals_srcs b _ _, pawnLegals_apart b _ _ (wf_ep_empty b h)⟩
  · split
    · exact ⟨pawnLegals_srcs b _ _, pawnLegals_apart b _ _ (wf_ep_empty b h)⟩
    · exact ⟨fun _ h => (nomatch h), List.Pairwise.nil⟩

theorem pieceList_srcs (b : Board) (h : b.WF = true) (pc : Piece) :
    (∀ e ∈ pieceList b pc, (abs b).pieceAt e.src = some (b.turn, pc)) ∧
    (pieceList b pc).Pairwise Apart := by
  have hp := AbsL.wf_partition b h
  have key : ∀ l : List Entry,
      (∀ e ∈ l, BB.mem (b.raw.piece pc &&& b.raw.color b.turn) e.src = true) →
      ∀ e ∈ l, (abs b).pieceAt e.src = some (b.turn, pc) := by
    intro l hl e he
    have := hl e he
    rw [AbsL.mem_piece_color b hp, decide_eq_true_eq] at this
    exact this
  cases pc
  case pawn => exact ⟨key _ (pawnList_srcs b h).1, (pawnList_srcs b h).2⟩
  case king =>
    refine ⟨?_, (kingLegals_srcs b _ _ _).2⟩
    intro e he
    rw [(kingLegals_srcs b _ _ _).1 e he]
    exact AbsL.king_at b hp (AbsL.wf_hasKings b h) b.turn
  all_goals exact ⟨key _ (genericList_srcs b _).1, (genericList_srcs b _).2⟩

/-- the entries `collect_moves` pushes are pairwise apart -/
theorem collectMoves_apart (b : Board) (h : b.WF = true) : (b.collectMoves BB.full).Pairwise Apart := by
  have hl : b.collectMoves BB.full =
      [Piece.pawn, .knight, .bishop, .rook, .queen, .king].flatMap (pieceList b) := by
    rw [collectMoves_full]
    simp only [List.flatMap_cons, List.flatMap_nil, pieceList, List.append_assoc, List.append_nil]
  rw [hl, List.pairwise_flatMap]
  refine ⟨fun pc _ => (pieceList_srcs b h pc).2, ?_⟩
  have hnd : [Piece.pawn, .knight, .bishop, .rook, .queen, .king].Pairwise (· ≠ ·) := by decide
  refine hnd.imp ?_
  intro p1 p2 hne x hx y hy
  left
  intro heq
  have h1 := (pieceList_srcs b h p1).1 x hx
  have h2 := (pieceList_srcs b h p2).1 y hy
  rw [heq, h2] at h1
  injection h1 with h1
  injection h1 with _ h1
  exact hne h1.symm

/-- **C01, each exactly once** -/
theorem legals_nodup (b : Board) (h : b.WF = true) : b.legalsList.Nodup := by
  have hlen : (Props.C10.movesOf (MoveGen.legals b)).length < 5000 := by
    rw [Props.C10.movesOf_eq]
    exact Entries.mvsOf_length_lt _ (wf_entries_le b h)
  unfold Board.legalsList MoveGen.toList
  rw [Props.C10.drain_eq _ rfl 5000 hlen]
  unfold Props.C10.movesOf
  show (((b.collectMoves BB.full).drop 0).flatMap _).Nodup
  rw [List.drop_zero]
  exact flatMap_entryMoves_nodup _ _ (collectMoves_apart b h)

/-- **C01, single-move query**: `is_legal` answers the specification's question -/
theorem isLegal_iff_spec (b : Board) (h : b.WF = true) (m : Move) :
    b.isLegal m = (abs b).legal m := by
  rw [Bool.eq_iff_iff, ← legals_iff b h m]
  unfold Board.isLegal
  exact List.contains_iff_mem

end Chess.Legal
