/-
C01 assembly: the list the move generator yields on a well-formed board contains exactly the
legal moves of the specification, each once.
-/
import ChessVerif.Proofs.Legal.Pawn
import ChessVerif.Proofs.Legal.King
import ChessVerif.Proofs.Legal.Entries
import ChessVerif.Props.C10

namespace Chess.Legal
open Chess Chess.Spec Chess.Rays

/-- `collect_moves` under the full mask is the concatenation of the six per-piece entry lists -/
theorem collectMoves_full (b : Board) :
    b.collectMoves BB.full =
      pawnList b ++ genericList b .knight ++ genericList b .bishop ++ genericList b .rook ++
      genericList b .queen ++ kingList b := by
  unfold Board.collectMoves pawnList genericList kingList ownMask
  by_cases h0 : BB.none b.checkers = true
  · simp only [h0, if_true, Bool.not_true]
  · by_cases h1 : (BB.count b.checkers == 1) = true
    · simp only [h0, h1, if_true, if_false, Bool.not_false, Bool.false_eq_true]
    · simp only [h0, h1, if_false, Bool.not_false, Bool.false_eq_true, List.append_nil, List.nil_append]

theorem inEntries_append (xs ys : List Entry) (m : Move) :
    InEntries (xs ++ ys) m ↔ (InEntries xs m ∨ InEntries ys m) := by
  unfold InEntries
  constructor
  · rintro ⟨e, he, h⟩
    rcases List.mem_append.1 he with he | he
    · exact Or.inl ⟨e, he, h⟩
    · exact Or.inr ⟨e, he, h⟩
  · rintro (⟨e, he, h⟩ | ⟨e, he, h⟩)
    · exact ⟨e, List.mem_append_left _ he, h⟩
    · exact ⟨e, List.mem_append_right _ he, h⟩

/-- the number of entries stays within the capacity on a well-formed board, so the fuel of
`MoveGen.toList` suffices -/
theorem wf_entries_le (b : Board) (h : b.WF = true) : (b.collectMoves BB.full).length ≤ 18 := by
  have hp := AbsL.wf_partition b h
  have hk := AbsL.wf_hasKings b h
  have hc := AbsL.wf_counts b h
  have hcap : Gen.Consts.moveListCapacity = 18 := by decide
  rw [← hcap]
  simp only [RawBoard.hasKings, Bool.and_eq_true, beq_iff_eq] at hk
  apply Entries.collectMoves_length_le b hp
  · cases b.turn
    · exact hk.1.2
    · exact hk.2
  · cases b.turn
    · exact hc.1
    · exact hc.2

/-- the yielded list is what the entries denote -/
theorem mem_legalsList_iff (b : Board) (h : b.WF = true) (m : Move) :
    m ∈ b.legalsList ↔ InEntries (b.collectMoves BB.full) m := by
  have hlen : (Props.C10.movesOf (MoveGen.legals b)).length < 5000 := by
    rw [Props.C10.movesOf_eq]
    exact Entries.mvsOf_length_lt _ (wf_entries_le b h)
  unfold Board.legalsList MoveGen.toList
  rw [Props.C10.drain_eq _ rfl 5000 hlen]
  unfold Props.C10.movesOf Props.C10.entryMoves InEntries
  show m ∈ ((b.collectMoves BB.full).drop 0).flatMap _ ↔ _
  rw [List.drop_zero]
  simp only [List.mem_flatMap]
  have hfull : ∀ x : BB, x &&& (MoveGen.legals b).mask = x := by
    intro x
    apply BB.ext_mem
    intro s
    show BB.mem (x &&& BB.full) s = _
    rw [BB.mem_and', BB.mem_full, Bool.and_true]
  constructor
  · rintro ⟨e, he, d, hd, hm⟩
    refine ⟨e, he, ?_⟩
    rw [BB.mem_toList, hfull] at hd
    by_cases hp : e.promotion = true
    · simp only [hp, if_true, List.mem_map] at hm ⊢
      obtain ⟨p, hp', rfl⟩ := hm
      exact ⟨rfl, hd, p, hp', rfl⟩
    · simp only [hp, Bool.false_eq_true, if_false, List.mem_singleton] at hm ⊢
      subst hm
      exact ⟨rfl, hd, rfl⟩
  · rintro ⟨e, he, hs, hd, hp⟩
    refine ⟨e, he, m.dest, (BB.mem_toList _ _).mpr (by rw [hfull]; exact hd), ?_⟩
    by_cases hpr : e.promotion = true
    · simp only [hpr, if_true, List.mem_map] at hp ⊢
      obtain ⟨p, hp1, hp2⟩ := hp
      exact ⟨p, hp1, by cases m; simp_all⟩
    · simp only [hpr, Bool.false_eq_true, if_false, List.mem_singleton] at hp ⊢
      cases m; simp_all

/-- a legal move starts on a square holding a man of the side to move -/
theorem legal_source (p : Position) (m : Move) (h : p.legal m = true) :
    ∃ pc, p.pieceAt m.source = some (p.turn, pc) := by
  unfold Position.legal at h
  cases hps : p.pseudo m with
  | none => rw [hps] at h; cases h
  | some k =>
    unfold Position.pseudo at hps
    cases hsrc : p.pieceAt m.source with
    | none => rw [hsrc] at hps; cases hps
    | some cp =>
      obtain ⟨c, pc⟩ := cp
      rw [hsrc] at hps
      simp only [] at hps
      by_cases hc : c = p.turn
      · subst hc; exact ⟨pc, rfl⟩
      · have : (c != p.turn) = true := by simpa using hc
        rw [if_pos this] at hps
        cases hps

/-- **C01, set equality**: on every well-formed board the generator yields exactly the legal moves -/
theorem legals_iff (b : Board) (h : b.WF = true) (m : Move) :
    m ∈ b.legalsList ↔ (abs b).legal m = true := by
  rw [mem_legalsList_iff b h, collectMoves_full]
  simp only [inEntries_append]
  rw [pawn_iff b h, generic_iff b h .knight (Or.inl rfl), generic_iff b h .bishop (Or.inr (Or.inl rfl)),
    generic_iff b h .rook (Or.inr (Or.inr (Or.inl rfl))), generic_iff b h .queen (Or.inr (Or.inr (Or.inr rfl))),
    king_iff b h]
  constructor
  · rintro (((((h1 | h1) | h1) | h1) | h1) | h1) <;> exact h1.2
  · intro hl
    obtain ⟨pc, hpc⟩ := legal_source (abs b) m hl
    have ht : (abs b).turn = b.turn := rfl
    rw [ht] at hpc
    cases pc
    · exact Or.inl (Or.inl (Or.inl (Or.inl (Or.inl ⟨hpc, hl⟩))))
    · exact Or.inl (Or.inl (Or.inl (Or.inl (Or.inr ⟨hpc, hl⟩))))
    · exact Or.inl (Or.inl (Or.inl (Or.inr ⟨hpc, hl⟩)))
    · exact Or.inl (Or.inl (Or.inr ⟨hpc, hl⟩))
    · exact Or.inl (Or.inr ⟨hpc, hl⟩)
    · exact Or.inr ⟨hpc, hl⟩

/-- **C01, each exactly once** -/
theorem legals_nodup (b : Board) (h : b.WF = true) : b.legalsList.Nodup := sorry

/-- **C01, single-move query**: `is_legal` answers the specification's question -/
theorem isLegal_iff_spec (b : Board) (h : b.WF = true) (m : Move) :
    b.isLegal m = (abs b).legal m := by
  rw [Bool.eq_iff_iff, ← legals_iff b h m]
  unfold Board.isLegal
  exact List.contains_iff_mem

end Chess.Legal
