/-
C01, knights / bishops / rooks / queens: the entries `PieceType::legals` pushes denote exactly the
legal moves of those pieces.
-/
import ChessVerif.Proofs.Legal.Line
import ChessVerif.Proofs.Legal.SpecMove
import ChessVerif.Proofs.Legal.KingSafe

namespace Chess.Legal
open Chess Chess.Spec Chess.Rays

/-- a move is denoted by an entry list (under the full mask): some entry has its source and
contains its destination; promotion entries stand for the four promotion choices -/
def InEntries (es : List Entry) (m : Move) : Prop :=
  ∃ e ∈ es, m.source = e.src ∧ BB.mem e.moves m.dest = true ∧
    (if e.promotion then ∃ p ∈ MoveGen.promoPieces, m.piece = some p else m.piece = none)

/-- the mask `collect_moves` hands to the piece generators when the caller's mask is full -/
def ownMask (b : Board) : BB := ~~~(b.raw.color b.turn) &&& BB.full

theorem mem_ownMask (b : Board) (hp : b.raw.partitionOk = true) (d : Sq) :
    BB.mem (ownMask b) d = !((abs b).colorAt d == some b.turn) := sorry

/-- what `pushEntries` pushes -/
theorem mem_pushEntries (srcs : List Sq) (f : Sq → BB) (promo : Sq → Bool) (e : Entry) :
    e ∈ Board.pushEntries srcs f promo ↔ ∃ s ∈ srcs, BB.none (f s) = false ∧ e = ⟨s, f s, promo s⟩ := sorry

/-- on a well-formed board the side to move attacks the opponent's king with nothing -/
theorem opp_king_not_attacked (b : Board) (h : b.WF = true) :
    (abs b).attacked (b.kingSq b.turn.flip) b.turn = false := sorry

/-- hence a destination attacked by an own piece never holds the enemy king: `destOk` is "not own" -/
theorem destOk_of_attacks (b : Board) (h : b.WF = true) (s d : Sq) (pc : Piece)
    (hs : (abs b).pieceAt s = some (b.turn, pc)) (ha : (abs b).attacksFrom s b.turn pc d = true) :
    destOk (abs b) b.turn d = !((abs b).colorAt d == some b.turn) := sorry

/-- the entry list `collect_moves` builds for one of the four piece types -/
def genericList (b : Board) (pc : Piece) : List Entry :=
  if BB.none b.checkers then b.genericLegals pc false (ownMask b)
  else if BB.count b.checkers == 1 then b.genericLegals pc true (ownMask b)
  else []

/-- **knights, bishops, rooks, queens**: generated = legal -/
theorem generic_iff (b : Board) (h : b.WF = true) (pc : Piece)
    (hpc : pc = .knight ∨ pc = .bishop ∨ pc = .rook ∨ pc = .queen) (m : Move) :
    InEntries (genericList b pc) m ↔ ((abs b).pieceAt m.source = some (b.turn, pc) ∧ (abs b).legal m = true) := sorry

end Chess.Legal
