/-
C01, knights / bishops / rooks / queens: the entries `PieceType::legals` pushes denote exactly the
legal moves of those pieces.
-/
import ChessVerif.Proofs.Legal.Line
import ChessVerif.Proofs.Legal.SpecMove
import ChessVerif.Proofs.Legal.KingSafe

namespace Chess.Legal
open Chess Chess.Spec Chess.Rays

/-- a move is denoted by an entry list (under the full mask): some entry has its source and
contains its destination; promotion entries stand for the four promotion choices -/
def InEntries (es : List Entry) (m : Move) : Prop :=
  ∃ e ∈ es, m.source = e.src ∧ BB.mem e.moves m.dest = true ∧
    (if e.promotion then ∃ p ∈ MoveGen.promoPieces, m.piece = some p else m.piece = none)

/-- the mask `collect_moves` hands to the piece generators when the caller's mask is full -/
def ownMask (b : Board) : BB := ~~~(b.raw.color b.turn) &&& BB.full

theorem mem_ownMask (b : Board) (hp : b.raw.partitionOk = true) (d : Sq) :
    BB.mem (ownMask b) d = !((abs b).colorAt d == some b.turn) := by
  unfold ownMask
  rw [BB.mem_and', BB.mem_not', BB.mem_full, Bool.and_true, AbsL.mem_color b hp]

/-- what `pushEntries` pushes -/
theorem mem_pushEntries (srcs : List Sq) (f : Sq → BB) (promo : Sq → Bool) (e : Entry) :
    e ∈ Board.pushEntries srcs f promo ↔ ∃ s ∈ srcs, BB.none (f s) = false ∧ e = ⟨s, f s, promo s⟩ := by
  unfold Board.pushEntries
  rw [List.mem_filterMap]
  constructor
  · rintro ⟨s, hs, h⟩
    refine ⟨s, hs, ?_⟩
    cases hn : BB.none (f s) with
    | true => simp only [hn, if_true] at h; cases h
    | false =>
      simp only [hn, Bool.false_eq_true, if_false, Option.some.injEq] at h
      exact ⟨rfl, h.symm⟩
  · rintro ⟨s, hs, hn, rfl⟩
    refine ⟨s, hs, ?_⟩
    simp only [hn, Bool.false_eq_true, if_false]

/-- a piece of colour `c` attacking `k'` is among `attackersOf k' c` -/
theorem mem_attackersOf (b : Board) (hp : b.raw.partitionOk = true) (k' x : Sq) (c : Color) (pc : Piece)
    (hx : (abs b).pieceAt x = some (c, pc)) (ha : (abs b).attacksFrom x c pc k' = true) :
    BB.mem (Board.attackersOf b.raw k' c b.raw.all) x = true := by
  obtain ⟨h1, h2⟩ := mem_of_at b hp x c pc hx
  have hb : BB.mem b.raw.bishop x = (pc == .bishop) := h2 .bishop
  have hr : BB.mem b.raw.rook x = (pc == .rook) := h2 .rook
  have hq : BB.mem b.raw.queen x = (pc == .queen) := h2 .queen
  have hn : BB.mem b.raw.knight x = (pc == .knight) := h2 .knight
  have hk : BB.mem b.raw.king x = (pc == .king) := h2 .king
  have hpw : BB.mem b.raw.pawn x = (pc == .pawn) := h2 .pawn
  unfold Board.attackersOf
  simp only [BB.mem_and', BB.mem_or', Props.C08.mem_bishopMoves, Props.C08.mem_rookMoves,
    Props.C09.mem_knightMoves, Props.C09.mem_kingMoves, Props.C09.mem_pawnAttacksMoves,
    hb, hr, hq, hn, hk, hpw, h1 c]
  rw [← AbsL.occupied_eq b hp, rookReach_symm _ k' x, bishopReach_symm _ k' x, knightAtt_symm k' x,
    kingAtt_symm k' x, pawnAtt_symm c.flip k' x, Color.flip_flip]
  cases pc <;> simp only [Position.attacksFrom, Bool.or_eq_true] at ha <;> (try rcases ha with ha | ha) <;>
    (try simp only [List.contains_iff_mem] at ha) <;> simp [ha]

/-- on a well-formed board the side to move attacks the opponent's king with nothing -/
theorem opp_king_not_attacked (b : Board) (h : b.WF = true) :
    (abs b).attacked (b.kingSq b.turn.flip) b.turn = false := by
  have hp := AbsL.wf_partition b h
  have hs := AbsL.wf_opponent_safe b h
  rw [Bool.eq_false_iff]
  intro ha
  unfold Position.attacked at ha
  rw [List.any_eq_true] at ha
  obtain ⟨x, _, hx⟩ := ha
  rcases hP : (abs b).pieceAt x with _ | ⟨c', pc⟩
  · rw [hP] at hx; cases hx
  · rw [hP] at hx
    simp only [Bool.and_eq_true, beq_iff_eq] at hx
    obtain ⟨rfl, hx⟩ := hx
    have : BB.any (Board.attackersOf b.raw (b.kingSq b.turn.flip) b.turn b.raw.all) = true := by
      rw [BB.any_iff]
      exact ⟨x, mem_attackersOf b hp _ x _ pc hP hx⟩
    rw [hs] at this
    cases this

/-- hence a destination attacked by an own piece never holds the enemy king: `destOk` is "not own" -/
theorem destOk_of_attacks (b : Board) (h : b.WF = true) (s d : Sq) (pc : Piece)
    (hs : (abs b).pieceAt s = some (b.turn, pc)) (ha : (abs b).attacksFrom s b.turn pc d = true) :
    destOk (abs b) b.turn d = !((abs b).colorAt d == some b.turn) := by
  have hp := AbsL.wf_partition b h
  have hk := AbsL.wf_hasKings b h
  unfold destOk Position.colorAt
  rcases hP : (abs b).pieceAt d with _ | ⟨c', pc'⟩
  · rfl
  · simp only [Option.map_some]
    by_cases hc : c' = b.turn
    · subst hc; simp
    · have e1 : (c' != b.turn) = true := by simpa using hc
      have e2 : (some c' == some b.turn) = false := by simpa using hc
      rw [e1, e2, Bool.true_and, Bool.not_false]
      rw [bne_iff_ne]
      rintro rfl
      have hc' : c' = b.turn.flip := by
        revert hc; cases c' <;> cases b.turn <;> simp [Color.flip]
      subst hc'
      have hd := AbsL.king_unique b hp hk _ d hP
      have hna := opp_king_not_attacked b h
      rw [← hd] at hna
      have : (abs b).attacked d b.turn = true := by
        unfold Position.attacked
        rw [List.any_eq_true]
        refine ⟨s, List.mem_finRange s, ?_⟩
        rw [hs]
        simp only [BEq.rfl, Bool.true_and]
        exact ha
      rw [hna] at this
      cases this

/-- the entry list `collect_moves` builds for one of the four piece types -/
def genericList (b : Board) (pc : Piece) : List Entry :=
  if BB.none b.checkers then b.genericLegals pc false (ownMask b)
  else if BB.count b.checkers == 1 then b.genericLegals pc true (ownMask b)
  else []

/-! ### entry lists -/

theorem inEntries_append (l1 l2 : List Entry) (m : Move) :
    InEntries (l1 ++ l2) m ↔ (InEntries l1 m ∨ InEntries l2 m) := by
  unfold InEntries
  constructor
  · rintro ⟨e, he, h⟩
    rcases List.mem_append.1 he with he | he
    · exact Or.inl ⟨e, he, h⟩
    · exact Or.inr ⟨e, he, h⟩
  · rintro (⟨e, he, h⟩ | ⟨e, he, h⟩)
    · exact ⟨e, List.mem_append_left _ he, h⟩
    · exact ⟨e, List.mem_append_right _ he, h⟩

theorem inEntries_nil (m : Move) : ¬ InEntries [] m := by
  rintro ⟨e, he, _⟩
  cases he

/-- non-promotion entries pushed for a source list -/
theorem inEntries_push (srcs : List Sq) (f : Sq → BB) (m : Move) :
    InEntries (Board.pushEntries srcs f (fun _ => false)) m ↔
      (m.source ∈ srcs ∧ BB.mem (f m.source) m.dest = true ∧ m.piece = none) := by
  unfold InEntries
  constructor
  · rintro ⟨e, he, h1, h2, h3⟩
    rw [mem_pushEntries] at he
    obtain ⟨s, hs, _, rfl⟩ := he
    simp only at h1 h2 h3
    subst h1
    exact ⟨hs, h2, by simpa using h3⟩
  · rintro ⟨h1, h2, h3⟩
    refine ⟨⟨m.source, f m.source, false⟩, ?_, rfl, h2, by simpa using h3⟩
    rw [mem_pushEntries]
    refine ⟨m.source, h1, ?_, rfl⟩
    rw [Bool.eq_false_iff]
    intro hn
    rw [(BB.none_iff _).1 hn m.dest] at h2
    cases h2

/-- what `genericLegals` denotes -/
theorem inEntries_generic (b : Board) (hp : b.raw.partitionOk = true) (pc : Piece) (ic : Bool) (mask : BB) (m : Move) :
    InEntries (b.genericLegals pc ic mask) m ↔
      (m.piece = none ∧ (abs b).pieceAt m.source = some (b.turn, pc) ∧
        ((BB.mem b.pinned m.source = false ∧
            BB.mem (Board.pseudoLegals pc m.source b.turn b.raw.all mask &&& b.checkMask ic (b.kingSq b.turn)) m.dest = true) ∨
         ((ic || pc == .knight) = false ∧ BB.mem b.pinned m.source = true ∧
            BB.mem (Board.pseudoLegals pc m.source b.turn b.raw.all mask &&& Lookup.line m.source (b.kingSq b.turn)) m.dest = true))) := by
  have hsrc : ∀ P : BB, m.source ∈ BB.toList (b.raw.piece pc &&& b.raw.color b.turn &&& P) ↔
      ((abs b).pieceAt m.source = some (b.turn, pc) ∧ BB.mem P m.source = true) := by
    intro P
    rw [BB.mem_toList, BB.mem_and', AbsL.mem_piece_color b hp, Bool.and_eq_true, decide_eq_true_eq]
  unfold Board.genericLegals
  simp only []
  cases hic : (ic || pc == .knight)
  · simp only [Bool.false_eq_true, if_false, inEntries_append, inEntries_push, hsrc, BB.mem_not',
      Bool.not_eq_true', true_and]
    constructor
    · rintro (⟨⟨h1, h2⟩, h3, h4⟩ | ⟨⟨h1, h2⟩, h3, h4⟩)
      · exact ⟨h4, h1, Or.inl ⟨h2, h3⟩⟩
      · exact ⟨h4, h1, Or.inr ⟨h2, h3⟩⟩
    · rintro ⟨h4, h1, ⟨h2, h3⟩ | ⟨h2, h3⟩⟩
      · exact Or.inl ⟨⟨h1, h2⟩, h3, h4⟩
      · exact Or.inr ⟨⟨h1, h2⟩, h3, h4⟩
  · simp only [if_true, inEntries_push, hsrc, BB.mem_not', Bool.not_eq_true', Bool.true_eq_false,
      false_and, or_false]
    constructor
    · rintro ⟨⟨h1, h2⟩, h3, h4⟩
      exact ⟨h4, h1, h2, h3⟩
    · rintro ⟨h4, h1, h2, h3⟩
      exact ⟨⟨h1, h2⟩, h3, h4⟩


/-! ### safety in terms of the generator's masks -/

theorem forall_q_iff (mb : Sq → Option (Color × Piece)) (P : Position → Prop) (R : Prop)
    (h : ∀ q : Position, q.pieceAt = mb → (P q ↔ R)) : (∀ q : Position, q.pieceAt = mb → P q) ↔ R := by
  constructor
  · intro hq
    exact (h ⟨mb, .white, fun _ _ => false, none, 0, 0⟩ rfl).1 (hq _ rfl)
  · intro hr q hq
    exact (h q hq).2 hr

/-- `legal_piece_iff` for the mailbox of a board -/
theorem legal_piece_iff_b (b : Board) (h : b.WF = true) (m : Move) (pc : Piece)
    (hsrc : (abs b).pieceAt m.source = some (b.turn, pc)) (hpc : pc ≠ .pawn ∧ pc ≠ .king) :
    (abs b).legal m = true ↔
      (m.piece = none ∧ (abs b).attacksFrom m.source b.turn pc m.dest = true ∧
       destOk (abs b) b.turn m.dest = true ∧
       ∀ q : Position, q.pieceAt = moveAt (abs b).pieceAt m.source m.dest (some (b.turn, pc)) →
         q.attacked (b.kingSq b.turn) b.turn.flip = false) :=
  legal_piece_iff (abs b) m pc (b.kingSq b.turn) hsrc hpc
    (AbsL.kings_eq b (AbsL.wf_partition b h) (AbsL.wf_hasKings b h) b.turn)

/-- no check: safe iff unpinned, or (not a knight and) on the line through the king -/
theorem safe_iff_no_check (b : Board) (h : b.WF = true) (s d : Sq) (pc : Piece)
    (hsrc : (abs b).pieceAt s = some (b.turn, pc)) (hpc : pc ≠ .king)
    (hd : (abs b).colorAt d ≠ some b.turn) (hnc : BB.none b.checkers = true)
    (hreach : pc ≠ .knight → ((rookReach (abs b).occupied s).contains d = true ∨
      (bishopReach (abs b).occupied s).contains d = true))
    (hkn : pc = .knight → knightAtt s d = true) :
    (∀ q : Position, q.pieceAt = moveAt (abs b).pieceAt s d (some (b.turn, pc)) →
         q.attacked (b.kingSq b.turn) b.turn.flip = false) ↔
      (BB.mem b.pinned s = false ∨
        (pc ≠ .knight ∧ BB.mem b.pinned s = true ∧ BB.mem (Lookup.line s (b.kingSq b.turn)) d = true)) := by
  rw [forall_q_iff _ _ _ (fun q hq => safe_no_check b h s d pc pc hsrc hpc hd hnc q hq)]
  have hocc : (abs b).occupied s = true := occupied_of_piece ⟨pc, hsrc⟩
  have hpin := mem_pinned_iff_pins b h s hocc
  cases hpn : BB.mem b.pinned s with
  | false =>
    simp only [true_or, iff_true]
    intro X hX
    have := hpin.2 ⟨X, hX⟩
    rw [hpn] at this
    cases this
  | true =>
    obtain ⟨X, hX⟩ := hpin.1 hpn
    have hR : (∀ Y, pinsThrough (abs b) b.turn.flip (b.kingSq b.turn) Y s →
        (d = Y ∨ d ∈ betweenList (b.kingSq b.turn) Y)) ↔ (d = X ∨ d ∈ betweenList (b.kingSq b.turn) X) := by
      constructor
      · intro hall; exact hall X hX
      · intro hx Y hY
        rw [← pinner_unique _ _ _ _ _ _ hX hY]; exact hx
    rw [hR]
    simp only [Bool.true_eq_false, false_or, true_and]
    by_cases hk : pc = .knight
    · have := knight_off_segment _ _ _ _ _ d hX (hkn hk)
      constructor
      · intro hx; exact absurd hx this
      · rintro ⟨h1, _⟩; exact absurd hk h1
    · have hkp := king_piece b h
      have hdk : d ≠ b.kingSq b.turn := by
        rintro rfl
        apply hd
        simp only [Position.colorAt, hkp, Option.map_some]
      have hXocc : (abs b).occupied X = true := occupied_of_piece (sliderOn_facts _ _ _ _ hX.1).1
      have hl := line_iff_slider (abs b) b.turn.flip (b.kingSq b.turn) X s d hX
        (occupied_of_piece ⟨_, hkp⟩) hXocc (hreach hk) hdk
      rw [hl]
      constructor
      · intro hx; exact ⟨hk, hx⟩
      · rintro ⟨_, hx⟩; exact hx

/-- one checker: safe iff unpinned and inside the check mask -/
theorem safe_iff_one_check (b : Board) (h : b.WF = true) (s d C : Sq) (pc : Piece)
    (hsrc : (abs b).pieceAt s = some (b.turn, pc)) (hpc : pc ≠ .king)
    (hd : (abs b).colorAt d ≠ some b.turn) (hC : BB.toList b.checkers = [C]) :
    (∀ q : Position, q.pieceAt = moveAt (abs b).pieceAt s d (some (b.turn, pc)) →
         q.attacked (b.kingSq b.turn) b.turn.flip = false) ↔
      (BB.mem b.pinned s = false ∧ BB.mem (b.checkMask true (b.kingSq b.turn)) d = true) := by
  rw [forall_q_iff _ _ _ (fun q hq => safe_one_check b h s d C pc pc hsrc hpc hd hC q hq),
    mem_checkMask_one b C hC, Bool.or_eq_true, beq_iff_eq, List.contains_iff_mem]

/-- two or more checkers: never safe -/
theorem not_safe_two_checks (b : Board) (h : b.WF = true) (s d : Sq) (pc : Piece)
    (hsrc : (abs b).pieceAt s = some (b.turn, pc)) (hpc : pc ≠ .king)
    (hd : (abs b).colorAt d ≠ some b.turn) (h2 : 2 ≤ BB.count b.checkers) :
    ¬ (∀ q : Position, q.pieceAt = moveAt (abs b).pieceAt s d (some (b.turn, pc)) →
         q.attacked (b.kingSq b.turn) b.turn.flip = false) := by
  intro hall
  have h1 := hall ⟨moveAt (abs b).pieceAt s d (some (b.turn, pc)), .white, fun _ _ => false, none, 0, 0⟩ rfl
  rw [unsafe_two_checks b h s d pc pc hsrc hpc hd h2 _ rfl] at h1
  cases h1

/-- the three regimes by the number of checkers -/
theorem checkers_cases (x : BB) :
    BB.none x = true ∨ (BB.none x = false ∧ (BB.count x == 1) = true ∧ ∃ C, BB.toList x = [C]) ∨
      (BB.none x = false ∧ (BB.count x == 1) = false ∧ 2 ≤ BB.count x) := by
  cases hn : BB.none x with
  | true => exact Or.inl rfl
  | false =>
    right
    have hne : BB.toList x ≠ [] := by
      intro he
      have : BB.none x = true := by
        rw [BB.none_iff]
        intro s
        rw [Bool.eq_false_iff]
        intro hm
        have := (BB.mem_toList x s).2 hm
        rw [he] at this
        cases this
      rw [hn] at this
      cases this
    have hlen : BB.count x ≠ 0 := by
      rw [BB.count_eq_length_toList]
      intro h0
      exact hne (List.length_eq_zero_iff.1 h0)
    by_cases h1 : BB.count x = 1
    · left
      refine ⟨rfl, by simpa using h1, ?_⟩
      rw [BB.count_eq_length_toList, List.length_eq_one_iff] at h1
      exact h1
    · right
      refine ⟨rfl, by simpa using h1, by omega⟩


/-- **knights, bishops, rooks, queens**: generated = legal -/
theorem generic_iff (b : Board) (h : b.WF = true) (pc : Piece)
    (hpc : pc = .knight ∨ pc = .bishop ∨ pc = .rook ∨ pc = .queen) (m : Move) :
    InEntries (genericList b pc) m ↔ ((abs b).pieceAt m.source = some (b.turn, pc) ∧ (abs b).legal m = true) := by
  have hp := AbsL.wf_partition b h
  have hpcne : pc ≠ .pawn ∧ pc ≠ .king := by
    rcases hpc with rfl | rfl | rfl | rfl <;> exact ⟨fun e => (by cases e), fun e => (by cases e)⟩
  -- the piece-specific facts
  have hps : ∀ (s t : Sq) (mask : BB), BB.mem (Board.pseudoLegals pc s b.turn b.raw.all mask) t =
      ((abs b).attacksFrom s b.turn pc t && BB.mem mask t) := by
    intro s t mask
    rcases hpc with rfl | rfl | rfl | rfl
    · rw [AbsL.mem_pseudo_knight]; rfl
    · rw [AbsL.mem_pseudo_bishop, ← AbsL.occupied_eq b hp]; rfl
    · rw [AbsL.mem_pseudo_rook, ← AbsL.occupied_eq b hp]; rfl
    · rw [AbsL.mem_pseudo_queen, ← AbsL.occupied_eq b hp]; rfl
  have hreach : ∀ s t : Sq, (abs b).attacksFrom s b.turn pc t = true → pc ≠ .knight →
      ((rookReach (abs b).occupied s).contains t = true ∨ (bishopReach (abs b).occupied s).contains t = true) := by
    intro s t ha hk
    rcases hpc with rfl | rfl | rfl | rfl
    · exact absurd rfl hk
    · exact Or.inr ha
    · exact Or.inl ha
    · simpa only [Position.attacksFrom, Bool.or_eq_true] using ha
  have hkn : ∀ s t : Sq, (abs b).attacksFrom s b.turn pc t = true → pc = .knight → knightAtt s t = true := by
    intro s t ha hk
    subst hk
    exact ha
  -- the source must hold the piece
  by_cases hsrc : (abs b).pieceAt m.source = some (b.turn, pc)
  case neg =>
    constructor
    · intro hin
      exfalso
      apply hsrc
      unfold genericList at hin
      split at hin
      · exact ((inEntries_generic b hp pc _ _ m).1 hin).2.1
      · split at hin
        · exact ((inEntries_generic b hp pc _ _ m).1 hin).2.1
        · exact absurd hin (inEntries_nil m)
    · rintro ⟨h1, _⟩
      exact absurd h1 hsrc
  rw [legal_piece_iff_b b h m pc hsrc hpcne]
  have hmem : ∀ X : BB, BB.mem (Board.pseudoLegals pc m.source b.turn b.raw.all (ownMask b) &&& X) m.dest =
      ((abs b).attacksFrom m.source b.turn pc m.dest && !((abs b).colorAt m.dest == some b.turn) && BB.mem X m.dest) := by
    intro X
    rw [BB.mem_and', hps, mem_ownMask b hp]
  -- attack and destination conditions first
  cases hA : (abs b).attacksFrom m.source b.turn pc m.dest with
  | false =>
    have hno : ¬ InEntries (genericList b pc) m := by
      intro hin
      unfold genericList at hin
      split at hin
      · have := ((inEntries_generic b hp pc _ _ m).1 hin).2.2
        simp only [hmem, hA, Bool.false_and, Bool.false_eq_true, and_false, or_false] at this
      · split at hin
        · have := ((inEntries_generic b hp pc _ _ m).1 hin).2.2
          simp only [hmem, hA, Bool.false_and, Bool.false_eq_true, and_false, or_false] at this
        · exact absurd hin (inEntries_nil m)
    constructor
    · intro hin; exact absurd hin hno
    · rintro ⟨_, _, h2, _⟩; cases h2
  | true =>
  rw [destOk_of_attacks b h m.source m.dest pc hsrc hA]
  cases hN : (!((abs b).colorAt m.dest == some b.turn)) with
  | false =>
    have hno : ¬ InEntries (genericList b pc) m := by
      intro hin
      unfold genericList at hin
      split at hin
      · have := ((inEntries_generic b hp pc _ _ m).1 hin).2.2
        simp only [hmem, hN, Bool.false_and, Bool.and_false, Bool.false_eq_true, and_false, or_false] at this
      · split at hin
        · have := ((inEntries_generic b hp pc _ _ m).1 hin).2.2
          simp only [hmem, hN, Bool.false_and, Bool.and_false, Bool.false_eq_true, and_false, or_false] at this
        · exact absurd hin (inEntries_nil m)
    constructor
    · intro hin; exact absurd hin hno
    · rintro ⟨_, _, _, h2, _⟩; cases h2
  | true =>
  have hd : (abs b).colorAt m.dest ≠ some b.turn := by
    intro e
    rw [e] at hN
    simp at hN
  unfold genericList
  rcases checkers_cases b.checkers with hnc | ⟨hnc, h1, C, hC⟩ | ⟨hnc, h1, h2⟩
  · rw [if_pos hnc, inEntries_generic b hp, hmem, hmem, hA, hN, mem_checkMask_none,
      safe_iff_no_check b h m.source m.dest pc hsrc hpcne.2 hd hnc (hreach _ _ hA) (hkn _ _ hA)]
    simp only [Bool.and_self, Bool.true_and, Bool.false_or, beq_eq_false_iff_ne, ne_eq, and_true, true_and]
    constructor
    · rintro ⟨h3, _, h4⟩; exact ⟨hsrc, h3, h4⟩
    · rintro ⟨_, h3, h4⟩; exact ⟨h3, hsrc, h4⟩
  · rw [hnc, if_neg Bool.false_ne_true, if_pos h1, inEntries_generic b hp, hmem, hmem, hA, hN,
      safe_iff_one_check b h m.source m.dest C pc hsrc hpcne.2 hd hC]
    simp only [Bool.and_self, Bool.true_and, Bool.true_or, Bool.true_eq_false, false_and, or_false, true_and]
    constructor
    · rintro ⟨h3, _, h4⟩; exact ⟨hsrc, h3, h4⟩
    · rintro ⟨_, h3, h4⟩; exact ⟨h3, hsrc, h4⟩
  · rw [hnc, h1, if_neg Bool.false_ne_true, if_neg Bool.false_ne_true]
    constructor
    · intro hin; exact absurd hin (inEntries_nil m)
    · rintro ⟨_, _, _, _, h3⟩
      exact absurd h3 (not_safe_two_checks b h m.source m.dest pc hsrc hpcne.2 hd h2)

end Chess.Legal
