/-
C01, the king: the entry `King::king_legals` pushes (king steps filtered by
`is_legal_king_position`, castling) denotes exactly the legal king moves.
-/
import ChessVerif.Proofs.Legal.Generic

namespace Chess.Legal
open Chess Chess.Spec Chess.Rays

/-- the entry list `collect_moves` builds for the king -/
def kingList (b : Board) : List Entry := b.kingLegals (!BB.none b.checkers) b.turn (ownMask b)

/-- castling rights of a well-formed board: king and that rook on their home squares -/
theorem wf_rights (b : Board) (h : b.WF = true) (sd : Side) (hr : Castle.contains b.castle sd b.turn = true) :
    Position.kingHome b.turn = some (b.kingSq b.turn) ∧
    (∃ r, Position.rookHome sd b.turn = some r ∧ (abs b).pieceAt r = some (b.turn, .rook)) := sorry

/-- **king steps**: a step to `d` is generated iff it is legal -/
theorem king_step_iff (b : Board) (h : b.WF = true) (d : Sq) (hstep : kingAtt (b.kingSq b.turn) d = true) :
    (∃ e ∈ kingList b, BB.mem e.moves d = true) ↔ (abs b).legal ⟨b.kingSq b.turn, d, none⟩ = true := sorry

/-- **castling**: the castling destination of side `sd` is generated iff castling that side is legal -/
theorem castle_iff (b : Board) (h : b.WF = true) (sd : Side) (d : Sq)
    (hd : Position.sqAt (match sd with | .king => 6 | .queen => 2) (Position.homeRank b.turn) = some d)
    (hhome : Position.kingHome b.turn = some (b.kingSq b.turn)) :
    (∃ e ∈ kingList b, BB.mem e.moves d = true) ↔ (abs b).legal ⟨b.kingSq b.turn, d, none⟩ = true := sorry

/-- **the king**: generated = legal -/
theorem king_iff (b : Board) (h : b.WF = true) (m : Move) :
    InEntries (kingList b) m ↔ ((abs b).pieceAt m.source = some (b.turn, .king) ∧ (abs b).legal m = true) := sorry

end Chess.Legal
