/-
C01, the king: the entry `King::king_legals` pushes (king steps filtered by
`is_legal_king_position`, castling) denotes exactly the legal king moves.
-/
import ChessVerif.Proofs.Legal.Generic

namespace Chess.Legal
open Chess Chess.Spec Chess.Rays

/-- the entry list `collect_moves` builds for the king -/
def kingList (b : Board) : List Entry := b.kingLegals (!BB.none b.checkers) b.turn (ownMask b)

namespace King

/-! ### the home squares and the castling constants, as literal squares -/

def kHome : Color → Sq | .white => 4 | .black => 60

def rHome : Side → Color → Sq
  | .king, .white => 7 | .queen, .white => 0 | .king, .black => 63 | .queen, .black => 56

def rTo : Side → Color → Sq
  | .king, .white => 5 | .queen, .white => 3 | .king, .black => 61 | .queen, .black => 59

def cDest : Side → Color → Sq
  | .king, .white => 6 | .queen, .white => 2 | .king, .black => 62 | .queen, .black => 58

def cBetween : Side → Color → List Sq
  | .king, .white => [5, 6] | .queen, .white => [1, 2, 3] | .king, .black => [61, 62] | .queen, .black => [57, 58, 59]

def cSafe : Side → Color → List Sq
  | .king, .white => [5, 6] | .queen, .white => [2, 3] | .king, .black => [61, 62] | .queen, .black => [58, 59]

def cFiles : Side → BB | .king => Gen.Consts.kingsideCastleFiles | .queen => Gen.Consts.queensideCastleFiles

def sFiles : Side → BB | .king => Gen.Consts.kingsideCastleSafeFiles | .queen => Gen.Consts.queensideCastleSafeFiles

theorem kingHome_eq (c : Color) : Position.kingHome c = some (kHome c) := by cases c <;> decide

theorem rookHome_eq (sd : Side) (c : Color) : Position.rookHome sd c = some (rHome sd c) := by
  cases c <;> cases sd <;> decide

theorem destSq_eq (sd : Side) (c : Color) :
    Position.sqAt (match sd with | .king => 6 | .queen => 2) (Position.homeRank c) = some (cDest sd c) := by
  cases c <;> cases sd <;> decide

theorem rookTo_eq (sd : Side) (c : Color) :
    Position.sqAt (match sd with | .king => 5 | .queen => 3) (Position.homeRank c) = some (rTo sd c) := by
  cases c <;> cases sd <;> decide

theorem toList_safe : ∀ (sd : Side) (c : Color), BB.toList (sFiles sd &&& Lookup.backrankBB c) = cSafe sd c := by
  intro sd c; cases sd <;> cases c <;> decide +kernel

theorem mem_tiles : ∀ (sd : Side) (c : Color) (u : Sq),
    BB.mem (cFiles sd &&& Lookup.backrankBB c) u = (cBetween sd c).contains u := by
  intro sd c; cases sd <;> cases c <;> decide +kernel

theorem mem_tiles_dest : ∀ (sd : Side) (c : Color) (u : Sq),
    BB.mem (cFiles sd &&& Lookup.backrankBB c &&& Gen.Consts.castleMoves) u = (u == cDest sd c) := by
  intro sd c; cases sd <;> cases c <;> decide +kernel

/-- the king steps that survive the `is_legal_king_position` filter -/
def stepSet (b : Board) : BB :=
  (BB.toList (Board.pseudoLegals .king (b.kingSq b.turn) b.turn b.raw.all (ownMask b))).foldl
    (fun m d => if b.isLegalKingPosition d then m else BB.clear m d)
    (Board.pseudoLegals .king (b.kingSq b.turn) b.turn b.raw.all (ownMask b))

/-- one application of the `castle` closure of `king_legals` -/
def castleStep (b : Board) (moves : BB) (sd : Side) : BB :=
  if !Castle.contains b.castle sd b.turn then moves else
    if BB.none (cFiles sd &&& Lookup.backrankBB b.turn &&& b.raw.all) then
      if (BB.toList (sFiles sd &&& Lookup.backrankBB b.turn)).all (fun d => b.isLegalKingPosition d) then
        moves ^^^ (cFiles sd &&& Lookup.backrankBB b.turn &&& Gen.Consts.castleMoves &&& ownMask b)
      else moves
    else moves

def kingMovesBB (b : Board) : BB :=
  if (!BB.none b.checkers) then stepSet b else castleStep b (castleStep b (stepSet b) .king) .queen

theorem kingList_eq (b : Board) :
    kingList b = if BB.none (kingMovesBB b) then [] else [⟨b.kingSq b.turn, kingMovesBB b, false⟩] := rfl

theorem mem_foldl_clear (f : Sq → Bool) (l : List Sq) (acc : BB) (d : Sq) :
    BB.mem (l.foldl (fun m d => if f d then m else BB.clear m d) acc) d =
      (BB.mem acc d && (!l.contains d || f d)) := by
  induction l generalizing acc with
  | nil => simp
  | cons a l ih =>
    rw [List.foldl_cons, ih]
    by_cases had : d = a
    · subst had
      cases hf : f d <;> simp
    · have h2 : (d != a) = true := by simp [had]
      cases hf : f a <;> simp [had, h2]

theorem mem_stepSet (b : Board) (d : Sq) :
    BB.mem (stepSet b) d = (kingAtt (b.kingSq b.turn) d && BB.mem (ownMask b) d && b.isLegalKingPosition d) := by
  unfold stepSet
  rw [mem_foldl_clear, AbsL.mem_pseudo_king, ← BB.mem_eq_contains_toList, AbsL.mem_pseudo_king]
  cases kingAtt (b.kingSq b.turn) d <;> cases BB.mem (ownMask b) d <;> simp

theorem exists_entry_iff (b : Board) (d : Sq) :
    (∃ e ∈ kingList b, BB.mem e.moves d = true) ↔ BB.mem (kingMovesBB b) d = true := by
  rw [kingList_eq]
  split
  · rename_i h
    rw [BB.none_iff] at h
    simp [h d]
  · simp

theorem none_tiles (b : Board) (sd : Side) :
    BB.none (cFiles sd &&& Lookup.backrankBB b.turn &&& b.raw.all) =
      (cBetween sd b.turn).all (fun u => !BB.mem b.raw.all u) := by
  rw [Bool.eq_iff_iff, BB.none_iff, List.all_eq_true]
  have key : ∀ u, BB.mem (cFiles sd &&& Lookup.backrankBB b.turn &&& b.raw.all) u =
      ((cBetween sd b.turn).contains u && BB.mem b.raw.all u) := by
    intro u
    rw [BB.mem_and' (cFiles sd &&& Lookup.backrankBB b.turn), mem_tiles]
  constructor
  · intro h u hu
    have := h u
    rw [key, List.contains_iff_mem.2 hu] at this
    simpa using this
  · intro h u
    rw [key]
    by_cases hu : u ∈ cBetween sd b.turn
    · have := h u hu
      simp only [Bool.not_eq_true'] at this
      rw [this, Bool.and_false]
    · have : (cBetween sd b.turn).contains u = false := by
        rw [Bool.eq_false_iff]; intro hc; exact hu (List.contains_iff_mem.1 hc)
      rw [this, Bool.false_and]

def enabled (b : Board) (sd : Side) : Bool :=
  Castle.contains b.castle sd b.turn &&
  (cBetween sd b.turn).all (fun u => !BB.mem b.raw.all u) &&
  (cSafe sd b.turn).all (fun d => b.isLegalKingPosition d)

theorem mem_castleStep (b : Board) (moves : BB) (sd : Side) (d : Sq) :
    BB.mem (castleStep b moves sd) d =
      (BB.mem moves d != (enabled b sd && (d == cDest sd b.turn) && BB.mem (ownMask b) d)) := by
  unfold castleStep enabled
  rw [none_tiles, toList_safe]
  cases Castle.contains b.castle sd b.turn
  · simp
  cases (cBetween sd b.turn).all (fun u => !BB.mem b.raw.all u)
  · simp
  cases (cSafe sd b.turn).all (fun d => b.isLegalKingPosition d)
  · simp
  simp only [Bool.not_true, Bool.false_eq_true, if_false, if_true, BB.mem_xor', Bool.true_and]
  rw [BB.mem_and', mem_tiles_dest]

theorem mem_kingMovesBB (b : Board) (d : Sq) :
    BB.mem (kingMovesBB b) d =
      if (!BB.none b.checkers) then BB.mem (stepSet b) d else
        ((BB.mem (stepSet b) d != (enabled b .king && (d == cDest .king b.turn) && BB.mem (ownMask b) d)) !=
          (enabled b .queen && (d == cDest .queen b.turn) && BB.mem (ownMask b) d)) := by
  unfold kingMovesBB
  split
  · rfl
  · rw [mem_castleStep, mem_castleStep]

theorem validate_castle (b : Board) (hv : b.validate = .ok ()) : b.validateCastleRights = .ok () := by
  unfold Board.validate at hv
  split at hv
  · cases hv
  · split at hv
    · cases hv
    · split at hv
      · cases hv
      · split at hv
        · cases hv
        · assumption

theorem ite_err_ok {ε : Type} {c : Prop} [Decidable c] {e : ε} {x : Except ε Unit}
    (h : (if c then Except.error e else x) = Except.ok ()) : ¬ c ∧ x = Except.ok () := by
  by_cases hc : c
  · rw [if_pos hc] at h; cases h
  · rw [if_neg hc] at h; exact ⟨hc, h⟩

theorem castle_squares (b : Board) (hv : b.validateCastleRights = .ok ()) (sd : Side) (c : Color)
    (hr : Castle.contains b.castle sd c = true) :
    b.raw.get (kHome c) = some (c, .king) ∧ b.raw.get (rHome sd c) = some (c, .rook) := by
  unfold Board.validateCastleRights at hv
  simp only [Castle.containsColor] at hv
  obtain ⟨h1, hv⟩ := ite_err_ok hv
  obtain ⟨h2, hv⟩ := ite_err_ok hv
  obtain ⟨h3, hv⟩ := ite_err_ok hv
  obtain ⟨h4, hv⟩ := ite_err_ok hv
  obtain ⟨h5, hv⟩ := ite_err_ok hv
  obtain ⟨h6, hv⟩ := ite_err_ok hv
  cases sd <;> cases c <;> simp only [kHome, rHome] <;> simp_all

end King
open King

/-- castling rights of a well-formed board: king and that rook on their home squares -/
theorem wf_rights (b : Board) (h : b.WF = true) (sd : Side) (hr : Castle.contains b.castle sd b.turn = true) :
    Position.kingHome b.turn = some (b.kingSq b.turn) ∧
    (∃ r, Position.rookHome sd b.turn = some r ∧ (abs b).pieceAt r = some (b.turn, .rook)) := by
  have hp := AbsL.wf_partition b h
  have hk := AbsL.wf_hasKings b h
  obtain ⟨h1, h2⟩ := castle_squares b (validate_castle b (AbsL.wf_validate b h)) sd b.turn hr
  rw [AbsL.get_eq b hp] at h1 h2
  refine ⟨?_, rHome sd b.turn, rookHome_eq sd b.turn, h2⟩
  rw [kingHome_eq, AbsL.king_unique b hp hk b.turn _ h1]

namespace King

theorem enabled_home (b : Board) (h : b.WF = true) (sd : Side) (he : enabled b sd = true) :
    b.kingSq b.turn = kHome b.turn := by
  simp only [enabled, Bool.and_eq_true] at he
  have := (wf_rights b h sd he.1.1).1
  rw [kingHome_eq] at this
  exact (Option.some.inj this).symm

theorem not_step_dest (sd : Side) (c : Color) : kingAtt (kHome c) (cDest sd c) = false := by
  cases sd <;> cases c <;> decide

theorem castle_term_step (b : Board) (h : b.WF = true) (sd : Side) (d : Sq)
    (hstep : kingAtt (b.kingSq b.turn) d = true) (x : Bool) :
    (enabled b sd && (d == cDest sd b.turn) && x) = false := by
  cases he : enabled b sd
  · simp
  · by_cases hd : d = cDest sd b.turn
    · rw [enabled_home b h sd he, hd, not_step_dest] at hstep
      cases hstep
    · simp [hd]

theorem mem_kingMoves_step (b : Board) (h : b.WF = true) (d : Sq)
    (hstep : kingAtt (b.kingSq b.turn) d = true) :
    BB.mem (kingMovesBB b) d = (BB.mem (ownMask b) d && b.isLegalKingPosition d) := by
  rw [mem_kingMovesBB, castle_term_step b h _ d hstep, castle_term_step b h _ d hstep, mem_stepSet, hstep]
  simp

theorem safe_iff (b : Board) (h : b.WF = true) (d : Sq) (hne : b.kingSq b.turn ≠ d) :
    b.isLegalKingPosition d = true ↔
      ∀ q : Position, q.pieceAt = moveAt (abs b).pieceAt (b.kingSq b.turn) d (some (b.turn, .king)) →
        q.attacked d b.turn.flip = false := by
  rw [isLegalKingPosition_iff b (AbsL.wf_partition b h) (AbsL.wf_hasKings b h)]
  constructor
  · intro hn q hq
    rw [Bool.eq_false_iff]
    intro ha
    exact hn ((attacked_after_king_move (abs b) _ d b.turn hne q hq).1 ha)
  · intro hq hex
    let q : Position := { abs b with pieceAt := moveAt (abs b).pieceAt (b.kingSq b.turn) d (some (b.turn, .king)) }
    have h1 := hq q rfl
    rw [(attacked_after_king_move (abs b) _ d b.turn hne q rfl).2 hex] at h1
    cases h1

theorem color_ne_flip (c c' : Color) (h : c' ≠ c) : c' = c.flip := by
  cases c <;> cases c' <;> first | rfl | exact absurd rfl h

theorem destOk_step (b : Board) (h : b.WF = true) (d : Sq) (hstep : kingAtt (b.kingSq b.turn) d = true) :
    destOk (abs b) b.turn d = BB.mem (ownMask b) d := by
  have hp := AbsL.wf_partition b h
  have hk := AbsL.wf_hasKings b h
  rw [mem_ownMask b hp d]
  unfold destOk Position.colorAt
  rcases hpa : (abs b).pieceAt d with _ | ⟨c', pc'⟩
  · rfl
  · by_cases hc : c' = b.turn
    · subst hc; simp
    · have hpc : pc' ≠ .king := by
        rintro rfl
        rw [color_ne_flip _ _ hc] at hpa
        have := AbsL.king_unique b hp hk _ d hpa
        rw [this, kingAtt_symm, no_adjacent_kings b h] at hstep
        cases hstep
      have e1 : (c' == b.turn) = false := beq_eq_false_iff_ne.2 hc
      have e2 : (pc' == Piece.king) = false := beq_eq_false_iff_ne.2 hpc
      simp [bne, e1, e2]

end King

/-- **king steps**: a step to `d` is generated iff it is legal -/
theorem king_step_iff (b : Board) (h : b.WF = true) (d : Sq) (hstep : kingAtt (b.kingSq b.turn) d = true) :
    (∃ e ∈ kingList b, BB.mem e.moves d = true) ↔ (abs b).legal ⟨b.kingSq b.turn, d, none⟩ = true := by
  have hp := AbsL.wf_partition b h
  have hk := AbsL.wf_hasKings b h
  have hne : b.kingSq b.turn ≠ d := by
    rintro he
    rw [← he, (self_att _).2.2.2.2.1] at hstep
    cases hstep
  rw [exists_entry_iff, mem_kingMoves_step b h d hstep,
    legal_king_step_iff (abs b) ⟨b.kingSq b.turn, d, none⟩ (b.kingSq b.turn)
      (AbsL.king_at b hp hk b.turn) (AbsL.kings_eq b hp hk b.turn) hstep]
  show _ ↔ (_ ∧ destOk (abs b) b.turn d = true ∧ _)
  rw [destOk_step b h d hstep, Bool.and_eq_true, safe_iff b h d hne]
  exact ⟨fun ⟨h1, h2⟩ => ⟨rfl, h1, h2⟩, fun ⟨_, h1, h2⟩ => ⟨h1, h2⟩⟩

namespace King

theorem cDest_ne (c : Color) : cDest .king c ≠ cDest .queen c := by cases c <;> decide

theorem cDest_mem (sd : Side) (c : Color) : cDest sd c ∈ cBetween sd c := by cases sd <;> cases c <;> decide

theorem cDest_mem_safe (sd : Side) (c : Color) : cDest sd c ∈ cSafe sd c := by cases sd <;> cases c <;> decide

theorem kHome_ne_dest (sd : Side) (c : Color) : kHome c ≠ cDest sd c := by cases sd <;> cases c <;> decide

theorem enabled_mask (b : Board) (sd : Side) (he : enabled b sd = true) :
    BB.mem (ownMask b) (cDest sd b.turn) = true := by
  simp only [enabled, Bool.and_eq_true, List.all_eq_true, Bool.not_eq_true'] at he
  have h1 := he.1.2 _ (cDest_mem sd b.turn)
  rw [RawBoard.all, BB.mem_or', Bool.or_eq_false_iff] at h1
  unfold ownMask
  rw [BB.mem_and', BB.mem_not', BB.mem_full, Bool.and_true]
  clear he
  revert h1
  generalize b.turn = c
  intro h1
  cases c <;> simp only [RawBoard.color, h1.1, h1.2, Bool.not_false]

theorem mem_kingMoves_castle (b : Board) (sd : Side) (hk : b.kingSq b.turn = kHome b.turn) :
    BB.mem (kingMovesBB b) (cDest sd b.turn) = (BB.none b.checkers && enabled b sd) := by
  rw [mem_kingMovesBB, mem_stepSet, hk, not_step_dest]
  cases hn : BB.none b.checkers
  · simp
  · simp only [Bool.not_true, Bool.false_eq_true, if_false, Bool.false_and, Bool.true_and]
    cases sd
    · have : (cDest .king b.turn == cDest .queen b.turn) = false := beq_eq_false_iff_ne.2 (cDest_ne _)
      rw [this]
      cases he : enabled b .king
      · simp
      · simp [enabled_mask b .king he]
    · have : (cDest .queen b.turn == cDest .king b.turn) = false := beq_eq_false_iff_ne.2 (cDest_ne _).symm
      rw [this]
      cases he : enabled b .queen
      · simp
      · simp [enabled_mask b .queen he]

theorem castleOk_iff (p : Position) (sd : Side) :
    p.castleOk sd = (p.rights sd p.turn && (cBetween sd p.turn).all (fun s => !p.occupied s) &&
      !p.inCheck p.turn && (cSafe sd p.turn).all (fun s => !p.attacked s p.turn.flip)) := by
  obtain ⟨pa, t, r, e, hh, ff⟩ := p
  cases t <;> cases sd <;> rfl

theorem sliderOn_between (P : Sq → Option (Color × Piece)) (c : Color) (x t k : Sq)
    (hk : k ∈ betweenList x t) : sliderOn P c x k = sliderOn P c x t := by
  obtain ⟨h1, h2, _⟩ := mem_between_aligned x t k hk
  unfold sliderOn aligned
  rw [h1, h2]

/-- when the side to move is not in check, lifting its king does not change whether a square is attacked -/
theorem safe_of_not_check (b : Board) (h : b.WF = true) (hnc : (abs b).inCheck b.turn = false) (t : Sq) :
    b.isLegalKingPosition t = true ↔ (abs b).attacked t b.turn.flip = false := by
  have hp := AbsL.wf_partition b h
  have hk := AbsL.wf_hasKings b h
  have hkat := AbsL.king_at b hp hk b.turn
  have hcne : b.turn ≠ b.turn.flip := fun e => Color.flip_ne b.turn e.symm
  rw [inCheck_single _ _ _ (AbsL.kings_eq b hp hk b.turn)] at hnc
  rw [isLegalKingPosition_iff b hp hk]
  constructor
  · intro hn
    rw [Bool.eq_false_iff]
    intro ha
    obtain ⟨x, hx⟩ := (attacked_iff _ _ _).1 ha
    apply hn
    have hxt : x ≠ t := by
      rcases hx with hx | ⟨hx, _⟩
      · exact contactOn_ne _ _ _ _ hx
      · exact sliderOn_ne _ _ _ _ hx
    have hxk : x ≠ b.kingSq b.turn := by
      rintro rfl
      rcases hx with hx | ⟨hx, _⟩
      · rw [contactOn_other _ _ _ _ _ _ hkat hcne] at hx; cases hx
      · rw [sliderOn_other _ _ _ _ _ _ hkat hcne] at hx; cases hx
    refine ⟨x, hxt, hxk, ?_⟩
    rcases hx with hx | ⟨hx, hcl⟩
    · exact Or.inl hx
    · refine Or.inr ⟨hx, fun u hu _ => ?_⟩
      unfold clear at hcl
      rw [List.all_eq_true] at hcl
      simpa using hcl u hu
  · rintro hna ⟨x, hxt, hxk, hc | ⟨hs, hcl⟩⟩
    · rw [(attacked_iff _ _ _).2 ⟨x, Or.inl hc⟩] at hna; cases hna
    · by_cases hkb : b.kingSq b.turn ∈ betweenList x t
      · have hs' : sliderOn (abs b).pieceAt b.turn.flip x (b.kingSq b.turn) = true := by
          rw [sliderOn_between _ _ _ _ _ hkb]; exact hs
        have hcl' : clear (abs b).occupied x (b.kingSq b.turn) = true := by
          unfold clear
          rw [List.all_eq_true]
          intro u hu
          have hut : u ∈ betweenList x t := (between_split x t _ hkb u).2 (Or.inl hu)
          have huk : u ≠ b.kingSq b.turn := fun e => (endpoints_not_mem x (b.kingSq b.turn)).2 (e ▸ hu)
          rw [hcl u hut huk]; rfl
        rw [(attacked_iff _ _ _).2 ⟨x, Or.inr ⟨hs', hcl'⟩⟩] at hnc; cases hnc
      · have hcl' : clear (abs b).occupied x t = true := by
          unfold clear
          rw [List.all_eq_true]
          intro u hu
          have huk : u ≠ b.kingSq b.turn := fun e => hkb (e ▸ hu)
          rw [hcl u hu huk]; rfl
        rw [(attacked_iff _ _ _).2 ⟨x, Or.inr ⟨hs, hcl'⟩⟩] at hna; cases hna

theorem geo1 : ∀ (sd : Side) (c : Color) (x : Sq),
    kHome c ∈ betweenList x (cDest sd c) → rTo sd c ∈ betweenList x (cDest sd c) := by
  intro sd c; cases sd <;> cases c <;> decide +kernel

theorem geo2 : ∀ (sd : Side) (c : Color) (x : Sq), rHome sd c ∉ betweenList x (cDest sd c) := by
  intro sd c; cases sd <;> cases c <;> decide +kernel

/-- after castling, an attack on the king's arrival square was already there before -/
theorem castle_after (p q : Position) (sd : Side) (c : Color)
    (hq : ∀ x, q.pieceAt x = if x = cDest sd c then some (c, .king) else if x = kHome c then none
      else if x = rHome sd c then none else if x = rTo sd c then some (c, .rook) else p.pieceAt x)
    (ha : q.attacked (cDest sd c) c.flip = true) : p.attacked (cDest sd c) c.flip = true := by
  have hcne : c ≠ c.flip := fun e => Color.flip_ne c e.symm
  rw [attacked_iff] at ha ⊢
  obtain ⟨x, hx⟩ := ha
  have hD : q.pieceAt (cDest sd c) = some (c, .king) := by rw [hq, if_pos rfl]
  have hRT : rTo sd c ≠ cDest sd c → rTo sd c ≠ kHome c → rTo sd c ≠ rHome sd c →
      q.pieceAt (rTo sd c) = some (c, .rook) := by
    intro h1 h2 h3
    rw [hq, if_neg h1, if_neg h2, if_neg h3, if_pos rfl]
  have hne1 : rTo sd c ≠ cDest sd c := by cases sd <;> cases c <;> decide
  have hne2 : rTo sd c ≠ kHome c := by cases sd <;> cases c <;> decide
  have hne3 : rTo sd c ≠ rHome sd c := by cases sd <;> cases c <;> decide
  have hRT' := hRT hne1 hne2 hne3
  have key : ∀ y, (contactOn q.pieceAt c.flip y (cDest sd c) = true ∨ sliderOn q.pieceAt c.flip y (cDest sd c) = true) →
      y ≠ cDest sd c ∧ y ≠ kHome c ∧ y ≠ rHome sd c ∧ y ≠ rTo sd c := by
    intro y hy
    refine ⟨?_, ?_, ?_, ?_⟩
    · rintro rfl
      rw [contactOn_other _ _ _ _ _ _ hD hcne, sliderOn_other _ _ _ _ _ _ hD hcne] at hy
      simp at hy
    · rintro rfl
      have : q.pieceAt (kHome c) = none := by rw [hq, if_neg (kHome_ne_dest sd c), if_pos rfl]
      rw [contactOn_none _ _ _ _ this, sliderOn_none _ _ _ _ this] at hy
      simp at hy
    · rintro rfl
      have e1 : rHome sd c ≠ cDest sd c := by cases sd <;> cases c <;> decide
      have e2 : rHome sd c ≠ kHome c := by cases sd <;> cases c <;> decide
      have : q.pieceAt (rHome sd c) = none := by rw [hq, if_neg e1, if_neg e2, if_pos rfl]
      rw [contactOn_none _ _ _ _ this, sliderOn_none _ _ _ _ this] at hy
      simp at hy
    · rintro rfl
      rw [contactOn_other _ _ _ _ _ _ hRT' hcne, sliderOn_other _ _ _ _ _ _ hRT' hcne] at hy
      simp at hy
  have hxx : q.pieceAt x = p.pieceAt x := by
    obtain ⟨h1, h2, h3, h4⟩ := key x (by rcases hx with hx | ⟨hx, _⟩; exact Or.inl hx; exact Or.inr hx)
    rw [hq, if_neg h1, if_neg h2, if_neg h3, if_neg h4]
  refine ⟨x, ?_⟩
  rw [← contactOn_congr _ _ _ _ _ hxx, ← sliderOn_congr _ _ _ _ _ hxx]
  rcases hx with hx | ⟨hx, hcl⟩
  · exact Or.inl hx
  · refine Or.inr ⟨hx, ?_⟩
    unfold clear at hcl ⊢
    rw [List.all_eq_true] at hcl ⊢
    intro u hu
    have hqu := hcl u hu
    have hocc : q.occupied (rTo sd c) = true := by unfold Position.occupied; rw [hRT']; rfl
    have hu1 : u ≠ cDest sd c := fun e => (endpoints_not_mem x (cDest sd c)).2 (e ▸ hu)
    have hu4 : u ≠ rTo sd c := by
      rintro rfl
      rw [hocc] at hqu; cases hqu
    have hu2 : u ≠ kHome c := by
      rintro rfl
      have := hcl _ (geo1 sd c x hu)
      rw [hocc] at this; cases this
    have hu3 : u ≠ rHome sd c := by
      rintro rfl
      exact geo2 sd c x hu
    have : q.pieceAt u = p.pieceAt u := by rw [hq, if_neg hu1, if_neg hu2, if_neg hu3, if_neg hu4]
    unfold Position.occupied at hqu ⊢
    rw [← this]; exact hqu

/-- `pseudo` for a king of the side to move -/
theorem pseudo_king (p : Position) (m : Move) (hsrc : p.pieceAt m.source = some (p.turn, .king)) :
    p.pseudo m = if !destOk p p.turn m.dest then none else if m.piece.isSome then none
      else if kingAtt m.source m.dest then some .normal
      else match p.castleSide m with
        | some sd => if p.castleOk sd then some (.castle sd) else none
        | none => none := by
  unfold Position.pseudo
  rw [hsrc]
  simp only [bne_self_eq_false, Bool.false_eq_true, if_false]
  rfl

theorem castleSide_eq (p : Position) (sd : Side)
    (hk : p.pieceAt (kHome p.turn) = some (p.turn, .king)) :
    p.castleSide ⟨kHome p.turn, cDest sd p.turn, none⟩ = some sd := by
  unfold Position.castleSide
  have h6 : Position.sqAt 6 (Position.homeRank p.turn) = some (cDest .king p.turn) := destSq_eq .king p.turn
  have h2 : Position.sqAt 2 (Position.homeRank p.turn) = some (cDest .queen p.turn) := destSq_eq .queen p.turn
  simp only [hk, kingHome_eq, h6, h2, BEq.rfl, Bool.and_self, if_true]
  cases sd
  · simp
  · have : (some (cDest .queen p.turn) == some (cDest .king p.turn)) = false := by
      rw [beq_eq_false_iff_ne]; intro e; exact cDest_ne _ (Option.some.inj e).symm
    rw [this]; simp

theorem legal_castle_eq (p : Position) (sd : Side)
    (hk : p.pieceAt (kHome p.turn) = some (p.turn, .king)) :
    p.legal ⟨kHome p.turn, cDest sd p.turn, none⟩ =
      (p.castleOk sd && !(p.applyKind ⟨kHome p.turn, cDest sd p.turn, none⟩ (.castle sd)).inCheck p.turn) := by
  unfold Position.legal
  rw [pseudo_king p _ hk]
  simp only [castleSide_eq p sd hk, not_step_dest, Option.isSome_none, Bool.false_eq_true, if_false]
  cases hco : p.castleOk sd
  · simp
  · have hemp : p.pieceAt (cDest sd p.turn) = none := by
      rw [castleOk_iff] at hco
      simp only [Bool.and_eq_true, List.all_eq_true, Bool.not_eq_true'] at hco
      exact (occupied_false_iff p _).1 (hco.1.1.2 _ (cDest_mem sd p.turn))
    have : destOk p p.turn (cDest sd p.turn) = true := by unfold destOk; rw [hemp]
    simp [this]

end King

/-- **castling**: the castling destination of side `sd` is generated iff castling that side is legal -/
theorem castle_iff (b : Board) (h : b.WF = true) (sd : Side) (d : Sq)
    (hd : Position.sqAt (match sd with | .king => 6 | .queen => 2) (Position.homeRank b.turn) = some d)
    (hhome : Position.kingHome b.turn = some (b.kingSq b.turn)) :
    (∃ e ∈ kingList b, BB.mem e.moves d = true) ↔ (abs b).legal ⟨b.kingSq b.turn, d, none⟩ = true := by
  have hp := AbsL.wf_partition b h
  have hk := AbsL.wf_hasKings b h
  have hkat := AbsL.king_at b hp hk b.turn
  rw [destSq_eq] at hd
  rw [kingHome_eq] at hhome
  have hd' : d = cDest sd b.turn := (Option.some.inj hd).symm
  have hk' : b.kingSq b.turn = kHome b.turn := (Option.some.inj hhome).symm
  subst hd'
  rw [exists_entry_iff, mem_kingMoves_castle b sd hk', hk']
  rw [hk'] at hkat
  have hturn : (abs b).turn = b.turn := rfl
  have hleg := legal_castle_eq (abs b) sd hkat
  rw [hturn] at hleg
  rw [hleg]
  have hchk : BB.none b.checkers = !(abs b).inCheck b.turn := by
    rw [← inCheck_iff b h]; unfold Board.inCheck BB.any BB.none; simp [bne]
  rw [hchk, castleOk_iff]
  show _ ↔ ((Castle.contains b.castle sd b.turn && (cBetween sd b.turn).all (fun s => !(abs b).occupied s) &&
      !(abs b).inCheck b.turn && (cSafe sd b.turn).all (fun s => !(abs b).attacked s b.turn.flip)) &&
      !((abs b).applyKind ⟨kHome b.turn, cDest sd b.turn, none⟩ (.castle sd)).inCheck b.turn) = true
  unfold enabled
  cases hnc : (abs b).inCheck b.turn
  case true => simp
  cases hr : Castle.contains b.castle sd b.turn
  case false => simp
  have hbet : (cBetween sd b.turn).all (fun s => !(abs b).occupied s) =
      (cBetween sd b.turn).all (fun u => !BB.mem b.raw.all u) := by
    congr 1; funext s; rw [AbsL.occupied_iff b hp]
  have hsafe : (cSafe sd b.turn).all (fun s => !(abs b).attacked s b.turn.flip) =
      (cSafe sd b.turn).all (fun d => b.isLegalKingPosition d) := by
    congr 1; funext s
    rw [Bool.eq_iff_iff, safe_of_not_check b h hnc s, Bool.not_eq_true']
  rw [hbet, hsafe]
  cases hb : (cBetween sd b.turn).all (fun u => !BB.mem b.raw.all u)
  case false => simp
  cases hs : (cSafe sd b.turn).all (fun d => b.isLegalKingPosition d)
  case false => simp
  simp only [Bool.not_false, Bool.and_self, Bool.true_and, true_iff, Bool.not_eq_true']
  -- the king is not attacked on its arrival square after castling
  obtain ⟨_, r, hr1, hr2⟩ := wf_rights b h sd hr
  rw [← hsafe, List.all_eq_true] at hs
  have hsd := hs _ (cDest_mem_safe sd b.turn)
  simp only [Bool.not_eq_true'] at hsd
  have hq : ∀ x, ((abs b).applyKind ⟨kHome b.turn, cDest sd b.turn, none⟩ (.castle sd)).pieceAt x =
      if x = cDest sd b.turn then some (b.turn, .king) else if x = kHome b.turn then none
      else if x = rHome sd b.turn then none else if x = rTo sd b.turn then some (b.turn, .rook)
      else (abs b).pieceAt x := by
    intro x
    rw [applyKind_castle_pieceAt (abs b) ⟨kHome b.turn, cDest sd b.turn, none⟩ sd (rHome sd b.turn)
      (rTo sd b.turn) (rookHome_eq sd b.turn) (by cases sd; exact rookTo_eq .king b.turn; exact rookTo_eq .queen b.turn) x]
    have : arriving (abs b) ⟨kHome b.turn, cDest sd b.turn, none⟩ = some (b.turn, .king) := by
      unfold arriving; simp only [hkat]
    rw [this]; rfl
  have hkq : ((abs b).applyKind ⟨kHome b.turn, cDest sd b.turn, none⟩ (.castle sd)).kings b.turn = [cDest sd b.turn] := by
    apply kings_after_king (abs b) _ b.turn (kHome b.turn) (cDest sd b.turn)
      (hk' ▸ AbsL.kings_eq b hp hk b.turn) (kHome_ne_dest sd b.turn)
    · intro x
      by_cases h1 : x = cDest sd b.turn
      · exact Or.inl h1
      · by_cases h2 : x = kHome b.turn
        · exact Or.inr (Or.inl h2)
        · rw [hq x, if_neg h1, if_neg h2]
          by_cases h3 : x = rHome sd b.turn
          · rw [if_pos h3]; exact Or.inr (Or.inr (Or.inr (fun e => by cases e)))
          · rw [if_neg h3]
            by_cases h4 : x = rTo sd b.turn
            · rw [if_pos h4]; exact Or.inr (Or.inr (Or.inr (fun e => by cases e)))
            · rw [if_neg h4]; exact Or.inr (Or.inr (Or.inl rfl))
    · rw [hq, if_pos rfl]
    · rw [hq, if_neg (kHome_ne_dest sd b.turn), if_pos rfl]; exact fun e => by cases e
  rw [inCheck_single _ _ _ hkq, Bool.eq_false_iff]
  intro ha
  rw [castle_after (abs b) _ sd b.turn hq ha] at hsd
  cases hsd

namespace King

theorem castleSide_some (p : Position) (m : Move) (sd : Side) :
    p.castleSide m = some sd → (Position.kingHome p.turn = some m.source ∧
    Position.sqAt (match sd with | .king => 6 | .queen => 2) (Position.homeRank p.turn) = some m.dest) := by
  intro h
  unfold Position.castleSide at h
  split at h
  · rename_i h1
    simp only [Bool.and_eq_true, beq_iff_eq] at h1
    refine ⟨h1.2.symm, ?_⟩
    split at h
    · rename_i h2
      cases h
      exact (beq_iff_eq.1 h2).symm
    · split at h
      · rename_i h3
        cases h
        exact (beq_iff_eq.1 h3).symm
      · cases h
  · cases h

theorem inEntries_iff (b : Board) (m : Move) :
    InEntries (kingList b) m ↔
      (m.source = b.kingSq b.turn ∧ BB.mem (kingMovesBB b) m.dest = true ∧ m.piece = none) := by
  unfold InEntries
  rw [kingList_eq]
  split
  · rename_i hn
    rw [BB.none_iff] at hn
    simp [hn m.dest]
  · simp

end King

/-- **the king**: generated = legal -/
theorem king_iff (b : Board) (h : b.WF = true) (m : Move) :
    InEntries (kingList b) m ↔ ((abs b).pieceAt m.source = some (b.turn, .king) ∧ (abs b).legal m = true) := by
  have hp := AbsL.wf_partition b h
  have hk := AbsL.wf_hasKings b h
  have hkat := AbsL.king_at b hp hk b.turn
  obtain ⟨s, d, pr⟩ := m
  rw [inEntries_iff]
  show (s = b.kingSq b.turn ∧ BB.mem (kingMovesBB b) d = true ∧ pr = none) ↔
    ((abs b).pieceAt s = some (b.turn, .king) ∧ (abs b).legal ⟨s, d, pr⟩ = true)
  constructor
  · rintro ⟨rfl, hmem, rfl⟩
    refine ⟨hkat, ?_⟩
    cases hstep : kingAtt (b.kingSq b.turn) d
    · -- castling
      have hor : (enabled b .king && (d == cDest .king b.turn) && BB.mem (ownMask b) d) = true ∨
          (enabled b .queen && (d == cDest .queen b.turn) && BB.mem (ownMask b) d) = true := by
        rw [mem_kingMovesBB, mem_stepSet, hstep] at hmem
        split at hmem
        · simp at hmem
        · revert hmem
          generalize (enabled b .king && (d == cDest .king b.turn) && BB.mem (ownMask b) d) = A
          generalize (enabled b .queen && (d == cDest .queen b.turn) && BB.mem (ownMask b) d) = B
          cases A <;> cases B <;> simp
      have hex : ∃ sd, enabled b sd = true ∧ d = cDest sd b.turn := by
        rcases hor with hA | hA
        · simp only [Bool.and_eq_true, beq_iff_eq] at hA; exact ⟨.king, hA.1.1, hA.1.2⟩
        · simp only [Bool.and_eq_true, beq_iff_eq] at hA; exact ⟨.queen, hA.1.1, hA.1.2⟩
      obtain ⟨sd, he, rfl⟩ := hex
      have hhome : Position.kingHome b.turn = some (b.kingSq b.turn) := by
        rw [kingHome_eq, enabled_home b h sd he]
      exact (castle_iff b h sd _ (destSq_eq sd b.turn) hhome).1 ((exists_entry_iff b _).2 hmem)
    · exact (king_step_iff b h d hstep).1 ((exists_entry_iff b d).2 hmem)
  · rintro ⟨hsrc, hleg⟩
    have hs : s = b.kingSq b.turn := AbsL.king_unique b hp hk b.turn s hsrc
    subst hs
    have hleg0 := hleg
    unfold Position.legal at hleg
    rw [pseudo_king (abs b) _ hsrc] at hleg
    dsimp only at hleg
    cases hdo : destOk (abs b) (abs b).turn d
    · rw [hdo] at hleg; simp at hleg
    rw [hdo] at hleg
    cases pr with
    | some x => simp at hleg
    | none =>
      cases hstep : kingAtt (b.kingSq b.turn) d
      · rw [hstep] at hleg
        cases hcs : (abs b).castleSide ⟨b.kingSq b.turn, d, none⟩ with
        | none => rw [hcs] at hleg; simp at hleg
        | some sd =>
          obtain ⟨h1, h2⟩ := castleSide_some _ _ _ hcs
          exact ⟨rfl, (exists_entry_iff b d).1 ((castle_iff b h sd d h2 h1).2 hleg0), rfl⟩
      · exact ⟨rfl, (exists_entry_iff b d).1 ((king_step_iff b h d hstep).2 hleg0), rfl⟩

end Chess.Legal
