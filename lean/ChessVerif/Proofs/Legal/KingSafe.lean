/-
The two explicit safety tests of the generator on the mailbox: `is_legal_king_position`
(king steps and castling squares) and `is_safe_after_enpassant`.
-/
import ChessVerif.Proofs.Legal.PinInfo

namespace Chess.Legal
open Chess Chess.Spec Chess.Rays

theorem self_att (t : Sq) : rookAligned t t = false ∧ bishopAligned t t = false ∧ aligned t t = false ∧
    knightAtt t t = false ∧ kingAtt t t = false ∧ ∀ c, pawnAtt c t t = false := by
  refine ⟨?_, ?_, ?_, ?_, ?_, ?_⟩
  · simp [rookAligned]
  · simp [bishopAligned]
  · simp [aligned, rookAligned, bishopAligned]
  · simp [knightAtt, dF, dR, absI]
  · simp [kingAtt]
  · intro c; cases c <;> simp [pawnAtt, dF, dR, absI, fwd]

theorem contactOn_ne (P : Sq → Option (Color × Piece)) (c : Color) (x t : Sq)
    (h : contactOn P c x t = true) : x ≠ t := by
  rintro rfl
  obtain ⟨_, _, _, h1, h2, h3⟩ := self_att x
  unfold contactOn at h
  split at h <;> simp [h1, h2, h3] at h

theorem sliderOn_ne (P : Sq → Option (Color × Piece)) (c : Color) (x t : Sq)
    (h : sliderOn P c x t = true) : x ≠ t := by
  rintro rfl
  obtain ⟨h1, h2, h3, _⟩ := self_att x
  unfold sliderOn at h
  split at h <;> simp [h1, h2, h3] at h

theorem mem_of_at (b : Board) (hp : b.raw.partitionOk = true) (x : Sq) (c : Color) (pc : Piece)
    (h : (abs b).pieceAt x = some (c, pc)) :
    (∀ c', BB.mem (b.raw.color c') x = (c == c')) ∧ (∀ pc', BB.mem (b.raw.piece pc') x = (pc == pc')) := by
  constructor
  · intro c'
    rw [AbsL.mem_color b hp, Position.colorAt, h]
    cases c <;> cases c' <;> rfl
  · intro pc'
    rw [AbsL.mem_piece b hp, h]
    cases pc <;> cases pc' <;> rfl

theorem mem_of_none (b : Board) (hp : b.raw.partitionOk = true) (x : Sq)
    (h : (abs b).pieceAt x = none) :
    (∀ c', BB.mem (b.raw.color c') x = false) ∧ (∀ pc', BB.mem (b.raw.piece pc') x = false) := by
  constructor
  · intro c'
    rw [AbsL.mem_color b hp, Position.colorAt, h]; rfl
  · intro pc'
    rw [AbsL.mem_piece b hp, h]; rfl

theorem contact_none_iff (b : Board) (hp : b.raw.partitionOk = true) (kp : Sq) :
    BB.none ((Lookup.kingMoves kp &&& b.raw.king &&& b.raw.color b.turn.flip) |||
           (Lookup.knightMoves kp &&& b.raw.knight &&& b.raw.color b.turn.flip) |||
           (Lookup.pawnAttacksMoves kp b.turn &&& b.raw.pawn &&& b.raw.color b.turn.flip)) = true ↔
      ∀ x, contactOn (abs b).pieceAt b.turn.flip x kp = false := by
  rw [BB.none_iff]
  apply forall_congr'
  intro x
  simp only [BB.mem_or', BB.mem_and', Props.C09.mem_kingMoves, Props.C09.mem_knightMoves,
    Props.C09.mem_pawnAttacksMoves]
  rw [kingAtt_symm kp x, knightAtt_symm kp x, pawnAtt_symm b.turn kp x]
  unfold contactOn
  rcases hP : (abs b).pieceAt x with _ | ⟨c', pc⟩
  · obtain ⟨h1, h2⟩ := mem_of_none b hp x hP
    have hK : BB.mem b.raw.king x = false := h2 .king
    have hN : BB.mem b.raw.knight x = false := h2 .knight
    have hPw : BB.mem b.raw.pawn x = false := h2 .pawn
    simp [hK, hN, hPw]
  · obtain ⟨h1, h2⟩ := mem_of_at b hp x c' pc hP
    have hK : BB.mem b.raw.king x = (pc == .king) := h2 .king
    have hN : BB.mem b.raw.knight x = (pc == .knight) := h2 .knight
    have hPw : BB.mem b.raw.pawn x = (pc == .pawn) := h2 .pawn
    rw [hK, hN, hPw, h1]
    cases pc <;> simp [Bool.and_comm]

theorem not_none_iff (X : BB) : (!BB.none X) = true ↔ ∃ u, BB.mem X u = true := by
  rw [Bool.not_eq_true', ← Bool.not_eq_true, BB.none_iff]
  simp only [Classical.not_forall, Bool.not_eq_false]

theorem slider_all_iff (b : Board) (hp : b.raw.partitionOk = true) (hk : b.raw.hasKings = true) (kp : Sq) :
    (BB.toList (pinnersBB b b.turn.flip kp)).all (fun pos =>
        !BB.none ((b.raw.all ^^^ (BB.ofSq (b.kingSq b.turn) ^^^ BB.ofSq kp)) &&& Lookup.between kp pos)) = true ↔
      ∀ x, sliderOn (abs b).pieceAt b.turn.flip x kp = true →
        ∃ u ∈ betweenList x kp, u ≠ b.kingSq b.turn ∧ (abs b).occupied u = true := by
  simp only [List.all_eq_true, BB.mem_toList, mem_pinnersBB b hp, not_none_iff]
  apply forall_congr'
  intro x
  apply imp_congr_right
  intro _
  apply exists_congr
  intro u
  have hkocc : BB.mem b.raw.all (b.kingSq b.turn) = true := by
    rw [← AbsL.occupied_iff b hp, Position.occupied, AbsL.king_at b hp hk]; rfl
  rw [BB.mem_and', BB.mem_xor', BB.mem_xor', BB.mem_ofSq, BB.mem_ofSq, mem_between_tbl,
    AbsL.occupied_iff b hp, Bool.and_eq_true, List.contains_iff_mem, mem_between_comm kp x u]
  constructor
  · rintro ⟨h1, h2⟩
    have hne : u ≠ kp := fun e => (endpoints_not_mem x kp).2 (e ▸ h2)
    have hne' : (u == kp) = false := by simpa using hne
    rw [hne'] at h1
    refine ⟨h2, ?_, ?_⟩
    · rintro rfl
      rw [hkocc] at h1; simp at h1
    · by_cases huk : u = b.kingSq b.turn
      · rw [huk]; exact hkocc
      · have : (u == b.kingSq b.turn) = false := by simpa using huk
        rw [this] at h1; simpa using h1
  · rintro ⟨h2, h3, h4⟩
    have hne : u ≠ kp := fun e => (endpoints_not_mem x kp).2 (e ▸ h2)
    have hne' : (u == kp) = false := by simpa using hne
    have : (u == b.kingSq b.turn) = false := by simpa using h3
    refine ⟨?_, h2⟩
    rw [hne', this, h4]; rfl

/-- `is_legal_king_position(kp)`: no enemy piece other than the one standing on `kp` attacks `kp`
once the king has left its square -/
theorem isLegalKingPosition_iff (b : Board) (hp : b.raw.partitionOk = true) (hk : b.raw.hasKings = true) (kp : Sq) :
    b.isLegalKingPosition kp = true ↔
      ¬ ∃ x : Sq, x ≠ kp ∧ x ≠ b.kingSq b.turn ∧
        (contactOn (abs b).pieceAt b.turn.flip x kp = true ∨
         (sliderOn (abs b).pieceAt b.turn.flip x kp = true ∧
          ∀ u ∈ betweenList x kp, u ≠ b.kingSq b.turn → (abs b).occupied u = false)) := by
  have hunf : b.isLegalKingPosition kp =
      ((BB.toList (pinnersBB b b.turn.flip kp)).all (fun pos =>
        !BB.none ((b.raw.all ^^^ (BB.ofSq (b.kingSq b.turn) ^^^ BB.ofSq kp)) &&& Lookup.between kp pos)) &&
       BB.none ((Lookup.kingMoves kp &&& b.raw.king &&& b.raw.color b.turn.flip) |||
           (Lookup.knightMoves kp &&& b.raw.knight &&& b.raw.color b.turn.flip) |||
           (Lookup.pawnAttacksMoves kp b.turn &&& b.raw.pawn &&& b.raw.color b.turn.flip))) := rfl
  rw [hunf, Bool.and_eq_true, slider_all_iff b hp hk, contact_none_iff b hp]
  have hkat := AbsL.king_at b hp hk b.turn
  have hcne : b.turn ≠ b.turn.flip := fun e => Color.flip_ne b.turn e.symm
  constructor
  · rintro ⟨hS, hC⟩ ⟨x, _, _, h | ⟨h1, h2⟩⟩
    · rw [hC x] at h; cases h
    · obtain ⟨u, hu, huk, hocc⟩ := hS x h1
      rw [h2 u hu huk] at hocc; cases hocc
  · intro h
    constructor
    · intro x hx
      apply Classical.byContradiction
      intro hne
      apply h
      refine ⟨x, sliderOn_ne _ _ _ _ hx, ?_, Or.inr ⟨hx, fun u hu huk => ?_⟩⟩
      · rintro rfl
        rw [sliderOn_other _ _ _ _ _ _ hkat hcne] at hx; cases hx
      · cases ho : (abs b).occupied u with
        | false => rfl
        | true => exact absurd ⟨u, hu, huk, ho⟩ hne
    · intro x
      cases hc : contactOn (abs b).pieceAt b.turn.flip x kp with
      | false => rfl
      | true =>
        exfalso
        apply h
        refine ⟨x, contactOn_ne _ _ _ _ hc, ?_, Or.inl hc⟩
        rintro rfl
        rw [contactOn_other _ _ _ _ _ _ hkat hcne] at hc; cases hc

/-- the segment test of the e.p. safety check -/
def epClear (b : Board) (k s d v x : Sq) : Prop :=
  d ∉ betweenList x k ∧ ∀ u ∈ betweenList x k, u ≠ s → u ≠ v → (abs b).occupied u = false

theorem ep_all_clear (b : Board) (hp : b.raw.partitionOk = true) (k s d v x : Sq) :
    (betweenList k x).all (fun u => !Magic.occOf
      (BB.diff (BB.diff b.raw.all (BB.ofSq s)) (BB.ofSq v) ||| BB.ofSq d) u) = true ↔ epClear b k s d v x := by
  unfold epClear Magic.occOf
  simp only [List.all_eq_true, BB.mem_or', BB.mem_diff, BB.mem_ofSq, ← AbsL.occupied_iff b hp,
    mem_between_comm x k]
  constructor
  · intro h
    refine ⟨fun hd => ?_, fun u hu hs hv => ?_⟩
    · have := h d hd
      simp at this
    · have := h u hu
      have e1 : (u == s) = false := by simpa using hs
      have e2 : (u == v) = false := by simpa using hv
      rw [e1, e2] at this
      cases ho : (abs b).occupied u with
      | false => rfl
      | true => rw [ho] at this; simp at this
  · rintro ⟨h1, h2⟩ u hu
    have hud : u ≠ d := fun e => h1 (e ▸ hu)
    have e3 : (u == d) = false := by simpa using hud
    rw [e3]
    by_cases hs : u = s
    · have e1 : (u == s) = true := by simpa using hs
      rw [e1]; simp
    · by_cases hv : u = v
      · have e2 : (u == v) = true := by simpa using hv
        rw [e2]; simp
      · rw [h2 u hu hs hv]; simp

theorem ep_bishop (b : Board) (hp : b.raw.partitionOk = true) (k s d v x : Sq) :
    (bishopReach (Magic.occOf (BB.diff (BB.diff b.raw.all (BB.ofSq s)) (BB.ofSq v) ||| BB.ofSq d)) k).contains x = true ↔
      (bishopAligned x k = true ∧ epClear b k s d v x) := by
  rw [bishopReach_iff, Bool.and_eq_true, ep_all_clear b hp, (aligned_comm k x).2.1]

theorem ep_rook (b : Board) (hp : b.raw.partitionOk = true) (k s d v x : Sq) :
    (rookReach (Magic.occOf (BB.diff (BB.diff b.raw.all (BB.ofSq s)) (BB.ofSq v) ||| BB.ofSq d)) k).contains x = true ↔
      (rookAligned x k = true ∧ epClear b k s d v x) := by
  rw [rookReach_iff, Bool.and_eq_true, ep_all_clear b hp, (aligned_comm k x).1]

theorem ep_pointwise (b : Board) (hp : b.raw.partitionOk = true) (k s d v : Sq)
    (hs : (abs b).colorAt s = some b.turn) (hd : (abs b).occupied d = false) (x : Sq) :
    (((bishopReach (Magic.occOf ((b.raw.all.diff (BB.ofSq s)).diff (BB.ofSq v) ||| BB.ofSq d)) k).contains x &&
        ((b.raw.bishop.mem x || b.raw.queen.mem x) && ((b.raw.color b.turn.flip).mem x && !x == v))) = false ∧
     ((rookReach (Magic.occOf ((b.raw.all.diff (BB.ofSq s)).diff (BB.ofSq v) ||| BB.ofSq d)) k).contains x &&
        ((b.raw.rook.mem x || b.raw.queen.mem x) && ((b.raw.color b.turn.flip).mem x && !x == v))) = false ∧
     (knightAtt k x && (b.raw.knight.mem x && ((b.raw.color b.turn.flip).mem x && !x == v))) = false ∧
     (pawnAtt b.turn k x && (b.raw.pawn.mem x && ((b.raw.color b.turn.flip).mem x && !x == v))) = false) ↔
    ¬ (x ≠ d ∧ x ≠ s ∧ x ≠ v ∧
        ((match (abs b).pieceAt x with
          | some (c', .knight) => c' == b.turn.flip && knightAtt x k
          | some (c', .pawn) => c' == b.turn.flip && pawnAtt b.turn.flip x k
          | _ => false) = true ∨
         (sliderOn (abs b).pieceAt b.turn.flip x k = true ∧ epClear b k s d v x))) := by
  rw [knightAtt_symm k x, pawnAtt_symm b.turn k x]
  have hB := ep_bishop b hp k s d v x
  have hR := ep_rook b hp k s d v x
  generalize (bishopReach (Magic.occOf ((b.raw.all.diff (BB.ofSq s)).diff (BB.ofSq v) ||| BB.ofSq d)) k).contains x = rb at hB ⊢
  generalize (rookReach (Magic.occOf ((b.raw.all.diff (BB.ofSq s)).diff (BB.ofSq v) ||| BB.ofSq d)) k).contains x = rr at hR ⊢
  generalize epClear b k s d v x = C at hB hR ⊢
  unfold sliderOn
  rcases hP : (abs b).pieceAt x with _ | ⟨c', pc⟩
  · obtain ⟨h1, h2⟩ := mem_of_none b hp x hP
    have hb : BB.mem b.raw.bishop x = false := h2 .bishop
    have hr : BB.mem b.raw.rook x = false := h2 .rook
    have hq : BB.mem b.raw.queen x = false := h2 .queen
    have hn : BB.mem b.raw.knight x = false := h2 .knight
    have hpw : BB.mem b.raw.pawn x = false := h2 .pawn
    simp [hb, hr, hq, hn, hpw]
  · obtain ⟨h1, h2⟩ := mem_of_at b hp x c' pc hP
    have hb : BB.mem b.raw.bishop x = (pc == .bishop) := h2 .bishop
    have hr : BB.mem b.raw.rook x = (pc == .rook) := h2 .rook
    have hq : BB.mem b.raw.queen x = (pc == .queen) := h2 .queen
    have hn : BB.mem b.raw.knight x = (pc == .knight) := h2 .knight
    have hpw : BB.mem b.raw.pawn x = (pc == .pawn) := h2 .pawn
    rw [hb, hr, hq, hn, hpw, h1]
    by_cases hc : c' = b.turn.flip
    · subst hc
      have hxs : x ≠ s := by
        rintro rfl
        rw [Position.colorAt, hP] at hs
        simp only [Option.map_some, Option.some.injEq] at hs
        exact Color.flip_ne _ hs
      have hxd : x ≠ d := by
        rintro rfl
        rw [Position.occupied, hP] at hd; cases hd
      by_cases hxv : x = v
      · simp [hxv]
      · have e : (x == v) = false := by simpa using hxv
        rw [e]
        cases pc <;> simp [hxs, hxd, hxv, aligned, ← hB, ← hR]
        cases rb <;> cases rr <;> simp at hB hR ⊢ <;> grind
    · have e : (c' == b.turn.flip) = false := by simpa using hc
      rw [e]
      cases pc <;> simp [hc]

set_option linter.unusedVariables false in
/-- `is_safe_after_enpassant`: after the capture `s → d` removing the pawn on `v`, no enemy knight,
pawn or unobstructed slider other than the captured pawn attacks `k` -/
theorem isSafeAfterEnpassant_iff (b : Board) (hp : b.raw.partitionOk = true) (k s d v : Sq)
    (hks : k ≠ s) (hkd : k ≠ d) (hkv : k ≠ v) (hsd : s ≠ d) (hvd : v ≠ d) (hvs : v ≠ s)
    (hs : (abs b).colorAt s = some b.turn) (hd : (abs b).occupied d = false)
    (hv : (abs b).pieceAt v = some (b.turn.flip, .pawn)) :
    b.isSafeAfterEnpassant k (BB.ofSq s) (BB.ofSq d) (BB.ofSq v) = true ↔
      ¬ ∃ x : Sq, x ≠ d ∧ x ≠ s ∧ x ≠ v ∧
        ((match (abs b).pieceAt x with
          | some (c', .knight) => c' == b.turn.flip && knightAtt x k
          | some (c', .pawn) => c' == b.turn.flip && pawnAtt b.turn.flip x k
          | _ => false) = true ∨
         (sliderOn (abs b).pieceAt b.turn.flip x k = true ∧ d ∉ betweenList x k ∧
          ∀ u ∈ betweenList x k, u ≠ s → u ≠ v → (abs b).occupied u = false)) := by
  have hunf : b.isSafeAfterEnpassant k (BB.ofSq s) (BB.ofSq d) (BB.ofSq v) =
    (BB.none (Lookup.bishopMoves k (BB.diff (BB.diff b.raw.all (BB.ofSq s)) (BB.ofSq v) ||| BB.ofSq d) &&&
        ((b.raw.bishop ||| b.raw.queen) &&& BB.diff (b.raw.color b.turn.flip) (BB.ofSq v))) &&
     BB.none (Lookup.rookMoves k (BB.diff (BB.diff b.raw.all (BB.ofSq s)) (BB.ofSq v) ||| BB.ofSq d) &&&
        ((b.raw.rook ||| b.raw.queen) &&& BB.diff (b.raw.color b.turn.flip) (BB.ofSq v))) &&
     BB.none (Lookup.knightMoves k &&& (b.raw.knight &&& BB.diff (b.raw.color b.turn.flip) (BB.ofSq v))) &&
     BB.none (Lookup.pawnAttacksMoves k b.turn &&& (b.raw.pawn &&& BB.diff (b.raw.color b.turn.flip) (BB.ofSq v)))) := rfl
  rw [hunf]
  simp only [Bool.and_eq_true, BB.none_iff, BB.mem_and', BB.mem_or', BB.mem_diff, BB.mem_ofSq,
    Props.C08.mem_bishopMoves, Props.C08.mem_rookMoves, Props.C09.mem_knightMoves,
    Props.C09.mem_pawnAttacksMoves]
  rw [not_exists]
  constructor
  · rintro ⟨⟨⟨h1, h2⟩, h3⟩, h4⟩ x
    exact (ep_pointwise b hp k s d v hs hd x).1 ⟨h1 x, h2 x, h3 x, h4 x⟩
  · intro h
    have h' := fun x => (ep_pointwise b hp k s d v hs hd x).2 (h x)
    exact ⟨⟨⟨fun x => (h' x).1, fun x => (h' x).2.1⟩, fun x => (h' x).2.2.1⟩, fun x => (h' x).2.2.2⟩

end Chess.Legal
