/-
The `line` test the generator applies to pinned pieces: for a pseudo-legal destination of a piece
pinned by `X`, lying on the line through piece and king is the same as lying on the segment from
the king up to and including `X`.
-/
import ChessVerif.Proofs.Legal.Safe

namespace Chess.Legal
open Chess Chess.Spec Chess.Rays Chess.RaysAux

/-! ### helpers: geometry of a pin -/

theorem mem_line_iff (a b t : Sq) : BB.mem (Lookup.line a b) t = true ↔ t ∈ lineList a b := by
  rw [Chess.Props.C09.mem_line, List.contains_iff_mem]

theorem negDir_negDir (d : Int × Int) : negDir (negDir d) = d := by
  obtain ⟨a, b⟩ := d
  simp only [negDir, Int.neg_neg]

/-- a square strictly between `k` and `X` is aligned with both; `X` lies in the direction opposite to `k` -/
theorem pin_geom {k X s : Sq} (h : s ∈ betweenList k X) :
    aligned k X = true ∧ aligned k s = true ∧ aligned s k = true ∧ aligned s X = true ∧
    dir k s = dir k X ∧ dir s X = negDir (dir s k) := by
  obtain ⟨d, i, m, h1, h2, hlt⟩ := seg_of_mem_between h
  have h3 := h1.sub h2 hlt
  obtain ⟨_, _, _, _, e1, e2⟩ := mem_between_aligned k X s h
  refine ⟨h2.props.1, h1.props.1, ?_, h3.props.1, e1, ?_⟩
  · rw [aligned_symm]; exact h1.props.1
  · rw [(aligned_comm k s).2.2, negDir_negDir, e2, e1]

/-- the closed segment `(k, X]` split at the pinned square `s`, seen from `s` -/
theorem segment_cases {k X s d : Sq} (h : s ∈ betweenList k X) (hd : d = X ∨ d ∈ betweenList k X) :
    d = s ∨ (aligned s d = true ∧ dir s d = dir s k) ∨ (aligned s d = true ∧ dir s d = dir s X) := by
  obtain ⟨_, _, _, hsX, _, _⟩ := pin_geom h
  rcases hd with rfl | hd
  · exact Or.inr (Or.inr ⟨hsX, rfl⟩)
  · rcases (between_split k X s h d).1 hd with h' | h' | h'
    · exact Or.inr (Or.inl (dir_of_mem_segment s k d (Or.inl ((mem_between_comm k s d).1 h'))))
    · exact Or.inl h'
    · exact Or.inr (Or.inr (dir_of_mem_segment s X d (Or.inl h')))

/-! ### the `line` test for pinned pieces -/

/-- a slider move of a piece pinned by `X`: on the line through piece and king iff on the segment `(k, X]` -/
theorem line_iff_slider (p : Position) (opp : Color) (k X s d : Sq) (hpin : pinsThrough p opp k X s)
    (hkocc : p.occupied k = true) (hXocc : p.occupied X = true)
    (hreach : (rookReach p.occupied s).contains d = true ∨ (bishopReach p.occupied s).contains d = true)
    (hdk : d ≠ k) :
    BB.mem (Lookup.line s k) d = true ↔ (d = X ∨ d ∈ betweenList k X) := by
  obtain ⟨_, hsX, _⟩ := hpin
  obtain ⟨_, _, hsk, hsXal, _, hdirX⟩ := pin_geom hsX
  have hds : aligned s d = true ∧ ∀ u ∈ betweenList s d, p.occupied u = false := by
    rcases hreach with h | h
    · rw [rookReach_iff] at h
      simp only [Bool.and_eq_true, List.all_eq_true, Bool.not_eq_true'] at h
      exact ⟨(aligned_iff _ _).2 (Or.inl h.1), h.2⟩
    · rw [bishopReach_iff] at h
      simp only [Bool.and_eq_true, List.all_eq_true, Bool.not_eq_true'] at h
      exact ⟨(aligned_iff _ _).2 (Or.inr h.1), h.2⟩
  obtain ⟨hal, hempty⟩ := hds
  have hne : d ≠ s := by
    rintro rfl
    rw [not_aligned_self] at hal
    cases hal
  rw [mem_line_iff, mem_lineList_iff]
  constructor
  · rintro ⟨_, h | ⟨_, hd | hd⟩⟩
    · exact absurd h hne
    · rcases same_dir_cases s d k hal hsk hd with h | h | h
      · exact absurd h hdk
      · exact Or.inr ((between_split k X s hsX d).2 (Or.inl ((mem_between_comm s k d).1 h)))
      · have := hempty k h
        rw [hkocc] at this; cases this
    · rcases same_dir_cases s d X hal hsXal (hd.trans hdirX.symm) with h | h | h
      · exact Or.inl h
      · exact Or.inr ((between_split k X s hsX d).2 (Or.inr (Or.inr h)))
      · have := hempty X h
        rw [hXocc] at this; cases this
  · intro h
    refine ⟨hsk, Or.inr ?_⟩
    rcases segment_cases hsX h with h' | ⟨h1, h2⟩ | ⟨h1, h2⟩
    · exact absurd h' hne
    · exact ⟨h1, Or.inl h2⟩
    · exact ⟨h1, Or.inr (h2.trans hdirX)⟩

/-- the three kinds of pawn move from `s` to `d`, in coordinates (`f` = forward direction; for the
double push the square in between is neither `k` nor `X`) -/
def PawnStep (k X s d : Sq) : Prop :=
  ∃ f : Int, (f = 1 ∨ f = -1) ∧
    ((fileI d = fileI s ∧ rankI d = rankI s + f) ∨
     (fileI d = fileI s ∧ rankI d = rankI s + 2 * f ∧
        ∃ o : Sq, fileI o = fileI s ∧ rankI o = rankI s + f ∧ o ≠ k ∧ o ≠ X) ∨
     (rankI d = rankI s + f ∧ (fileI d = fileI s + 1 ∨ fileI d = fileI s - 1)))

theorem pawnStep_of_move (p : Position) (c : Color) (k X s d : Sq)
    (hkocc : p.occupied k = true) (hXocc : p.occupied X = true)
    (hmove : (some d = step s 0 (fwd c) ∧ p.occupied d = false) ∨
             (some d = step s 0 (2 * fwd c) ∧ p.occupied d = false ∧
               (match step s 0 (fwd c) with | some o => p.occupied o = false | none => False)) ∨
             (pawnAtt c s d = true ∧ p.occupied d = true)) : PawnStep k X s d := by
  refine ⟨fwd c, by cases c <;> simp [fwd], ?_⟩
  rcases hmove with ⟨h, _⟩ | ⟨h, _, ho⟩ | ⟨h, _⟩
  · have := (step_eq_some s d 0 (fwd c)).1 h.symm
    exact Or.inl ⟨by omega, this.2⟩
  · have hd := (step_eq_some s d 0 (2 * fwd c)).1 h.symm
    refine Or.inr (Or.inl ⟨by omega, hd.2, ?_⟩)
    cases hst : step s 0 (fwd c) with
    | none => rw [hst] at ho; exact ho.elim
    | some o =>
      rw [hst] at ho
      simp only at ho
      have hc := (step_eq_some s o 0 (fwd c)).1 hst
      refine ⟨o, by omega, hc.2, ?_, ?_⟩
      · rintro rfl; rw [hkocc] at ho; cases ho
      · rintro rfl; rw [hXocc] at ho; cases ho
  · simp only [pawnAtt, absI, dF, dR, Bool.and_eq_true, beq_iff_eq] at h
    refine Or.inr (Or.inr ⟨by omega, ?_⟩)
    have := h.2
    split at this <;> omega

/-- a pawn destination on the king's side of the line beyond the king: impossible -/
theorem pawn_other_side {k X s d : Sq} {dd : Int × Int} {i j : Int}
    (h1 : Seg k s dd i) (h3 : Seg k d (negDir dd) j) (hp : PawnStep k X s d) : False := by
  obtain ⟨hd, hi, hf1, hr1⟩ := h1
  obtain ⟨_, hj, hf3, hr3⟩ := h3
  obtain ⟨f, hf, hp⟩ := hp
  obtain ⟨d1, d2⟩ := dd
  rw [mem_dirs8] at hd
  simp only [Prod.mk.injEq] at hd
  simp only [negDir] at hf1 hr1 hf3 hr3
  rcases hd with ⟨rfl, rfl⟩ | ⟨rfl, rfl⟩ | ⟨rfl, rfl⟩ | ⟨rfl, rfl⟩ | ⟨rfl, rfl⟩ | ⟨rfl, rfl⟩ |
    ⟨rfl, rfl⟩ | ⟨rfl, rfl⟩ <;>
  rcases hp with hp | ⟨a, b, o, ho1, ho2, ho3, ho4⟩ | hp <;>
  (try rw [ne_eq, sq_eq_iff] at ho3 ho4) <;> omega

/-- a pawn destination in the direction of the pinned pawn is at most as far as the pinner -/
theorem pawn_same_side {k X s d : Sq} {dd : Int × Int} {i m j : Int}
    (h1 : Seg k s dd i) (h2 : Seg k X dd m) (hlt : i < m) (h3 : Seg k d dd j)
    (hp : PawnStep k X s d) : j ≤ m := by
  obtain ⟨hd, hi, hf1, hr1⟩ := h1
  obtain ⟨_, hm, hf2, hr2⟩ := h2
  obtain ⟨_, hj, hf3, hr3⟩ := h3
  obtain ⟨f, hf, hp⟩ := hp
  obtain ⟨d1, d2⟩ := dd
  rw [mem_dirs8] at hd
  simp only [Prod.mk.injEq] at hd
  simp only at hf1 hr1 hf2 hr2 hf3 hr3
  rcases hd with ⟨rfl, rfl⟩ | ⟨rfl, rfl⟩ | ⟨rfl, rfl⟩ | ⟨rfl, rfl⟩ | ⟨rfl, rfl⟩ | ⟨rfl, rfl⟩ |
    ⟨rfl, rfl⟩ | ⟨rfl, rfl⟩ <;>
  rcases hp with hp | ⟨a, b, o, ho1, ho2, ho3, ho4⟩ | hp <;>
  (try rw [ne_eq, sq_eq_iff] at ho3 ho4) <;> omega

/-- a pawn move (push to an empty square, double push over an empty square, capture of an occupied square) -/
theorem line_iff_pawn (p : Position) (c : Color) (k X s d : Sq) (hpin : pinsThrough p c.flip k X s)
    (hkocc : p.occupied k = true) (hXocc : p.occupied X = true) (hdk : d ≠ k)
    (hmove : (some d = step s 0 (fwd c) ∧ p.occupied d = false) ∨
             (some d = step s 0 (2 * fwd c) ∧ p.occupied d = false ∧
               (match step s 0 (fwd c) with | some o => p.occupied o = false | none => False)) ∨
             (pawnAtt c s d = true ∧ p.occupied d = true)) :
    BB.mem (Lookup.line k s) d = true ↔ (d = X ∨ d ∈ betweenList k X) := by
  obtain ⟨_, hsX, _⟩ := hpin
  obtain ⟨hkX, hks, _, _, hdir, _⟩ := pin_geom hsX
  have hstep := pawnStep_of_move p c k X s d hkocc hXocc hmove
  rw [mem_line_iff, mem_lineList_iff]
  constructor
  · rintro ⟨_, h | ⟨hal, hd⟩⟩
    · exact absurd h hdk
    · obtain ⟨dd, i, m, h1, h2, hlt⟩ := seg_of_mem_between hsX
      have h3 := seg_of_aligned' k d hal
      have e : dir k s = dd := h1.dir_eq
      rw [e] at hd
      rcases hd with hd | hd
      · rw [hd] at h3
        have hle := pawn_same_side h1 h2 hlt h3 hstep
        by_cases hjm : distanceSpec k d < m
        · exact Or.inr (mem_between_of_seg h3 h2 hjm)
        · have : distanceSpec k d = m := by omega
          rw [this] at h3
          exact Or.inl (h3.eq_of h2)
      · rw [hd] at h3
        exact (pawn_other_side h1 h3 hstep).elim
  · intro h
    refine ⟨hks, Or.inr ?_⟩
    have := dir_of_mem_segment k X d (h.symm.imp id (fun e => ⟨e, hkX⟩))
    exact ⟨this.1, Or.inl (this.2.trans hdir.symm)⟩

/-- a pinned knight has no safe move -/
theorem knight_off_segment (p : Position) (opp : Color) (k X s d : Sq) (hpin : pinsThrough p opp k X s)
    (hn : knightAtt s d = true) : ¬ (d = X ∨ d ∈ betweenList k X) := by
  intro h
  have hna := knight_not_aligned s d hn
  rcases segment_cases hpin.2.1 h with rfl | ⟨h1, _⟩ | ⟨h1, _⟩
  · simp [knightAtt, absI, dF, dR] at hn
  · rw [hna] at h1; cases h1
  · rw [hna] at h1; cases h1

end Chess.Legal
