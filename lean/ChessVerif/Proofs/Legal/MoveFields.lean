/-
C02, the non-placement fields of the successor in the specification's terms: castling rights,
en-passant marker, clocks, side to move — for every pseudo-legal move on a well-formed board.
Together with `move_placement` this is `abs (move_unchecked b m) = apply (abs b) m`.
-/
import ChessVerif.Proofs.Legal.MovePlace
import ChessVerif.Props.C02.Basic
import ChessVerif.Props.C09

namespace Chess.Legal
open Chess Chess.Spec Chess.Rays

/-! ### what pseudo-legality says about the source and destination squares -/

/-- a pseudo-legal move starts on a piece of the side to move, ends on an acceptable destination;
only pawns make double steps and en-passant captures -/
theorem pseudo_info (p : Position) (m : Move) (κ : Position.Kind) (h : p.pseudo m = some κ) :
    ∃ pc, p.pieceAt m.source = some (p.turn, pc) ∧ destOk p p.turn m.dest = true ∧
      (pc ≠ .pawn → κ ≠ .enPassant ∧ κ ≠ .double) := by
  unfold Position.pseudo at h
  split at h
  · cases h
  · rename_i c pc hsrc
    by_cases hc : c = p.turn
    · subst hc
      simp only [bne_self_eq_false, Bool.false_eq_true, if_false] at h
      change (if (!destOk p p.turn m.dest) = true then none else _) = some κ at h
      cases hd : destOk p p.turn m.dest
      · rw [hd] at h; cases h
      · rw [hd] at h
        simp only [Bool.not_true, Bool.false_eq_true, if_false] at h
        refine ⟨pc, hsrc, rfl, ?_⟩
        intro hpc
        cases pc
        · exact absurd rfl hpc
        all_goals simp only at h
        all_goals (repeat' split at h) <;> cases h <;> simp
    · have : (c != p.turn) = true := by simpa using hc
      rw [this] at h
      simp at h
/-! ### clocks -/

set_option linter.unusedVariables false in
/-- full-move number (below the 16-bit limit): +1 after Black moves -/
theorem move_full_spec (b : Board) (h : b.WF = true) (m : Move) (κ : Position.Kind)
    (hps : (abs b).pseudo m = some κ) (hlt : b.full < 65535) :
    (b.moveUnchecked m).full = ((abs b).applyKind m κ).full := by
  rw [Props.C02.move_full]
  show _ = b.full + (match b.turn with | .white => 0 | .black => 1)
  unfold satAdd16
  cases b.turn <;> simp only <;> split <;> omega

/-- half-move clock (below the 16-bit limit): reset by pawn moves and captures, otherwise +1 -/
theorem move_half_spec (b : Board) (h : b.WF = true) (m : Move) (κ : Position.Kind)
    (hps : (abs b).pseudo m = some κ) (hlt : b.half < 65535) :
    (b.moveUnchecked m).half = ((abs b).applyKind m κ).half := by
  have hp := AbsL.wf_partition b h
  obtain ⟨pc, hsrc, hd, hk⟩ := pseudo_info _ m κ hps
  have hs := AbsL.at_abs b hp m.source
  have hdst := AbsL.at_abs b hp m.dest
  rw [hsrc] at hs
  rw [Props.C02.move_half, hs.pieceOfUnchecked, hdst.pieceOf]
  show _ = if (match (abs b).pieceAt m.source with | some (_, .pawn) => true | _ => false) ||
      ((abs b).occupied m.dest || κ == .enPassant) then 0 else b.half + 1
  rw [hsrc]
  have hsat : satAdd16 b.half 1 = b.half + 1 := by unfold satAdd16; split <;> omega
  rw [hsat, Position.occupied]
  by_cases hpc : pc = .pawn
  · subst hpc; simp
  · have := (hk hpc).1
    have h1 : (κ == Position.Kind.enPassant) = false := by simpa using this
    rw [h1]
    cases (abs b).pieceAt m.dest <;> cases pc <;> simp at hpc ⊢
/-! ### castling rights -/

/-- the per-square right masks of `castle_grid` -/
def gridMask (c : Color) (s : Sq) : Nat :=
  match c, s.val with
  | .white, 0 => 13 | .white, 7 => 14 | .white, 4 => 12
  | .black, 56 => 7 | .black, 63 => 11 | .black, 60 => 3
  | _, _ => 15

theorem removeForSq_eq (cr : Nat) (hcr : cr < 16) (c : Color) (s : Sq) :
    Castle.removeForSq cr c s = cr &&& gridMask c s :=
  Props.C02.castle_grid c s ⟨cr, hcr⟩

/-- the mask of colour `c` at `s` clears the right `(sd, c)` iff `s` is the king's or that rook's home -/
theorem gridMask_own : ∀ (c : Color) (sd : Side) (s : Sq),
    (gridMask c s).testBit (Castle.offset sd c) = (s != King.kHome c && s != King.rHome sd c) := by
  intro c sd; cases c <;> cases sd <;> decide

/-- … and never clears a right of the other colour -/
theorem gridMask_other : ∀ (c : Color) (sd : Side) (s : Sq),
    (gridMask c s).testBit (Castle.offset sd c.flip) = true := by
  intro c sd; cases c <;> cases sd <;> decide

theorem contains_removeForSq (cr : Nat) (hcr : cr < 16) (c : Color) (s : Sq) (sd : Side) (col : Color) :
    Castle.contains (Castle.removeForSq cr c s) sd col =
      (Castle.contains cr sd col && (gridMask c s).testBit (Castle.offset sd col)) := by
  rw [removeForSq_eq cr hcr, Castle.contains, Nat.testBit_and]
  rfl

theorem removeForSq_lt (cr : Nat) (hcr : cr < 16) (c : Color) (s : Sq) : Castle.removeForSq cr c s < 16 := by
  rw [removeForSq_eq cr hcr]
  exact Nat.lt_of_le_of_lt Nat.and_le_left hcr

/-- castling rights: lost exactly when the king or that rook leaves its home square or that home rook is captured -/
theorem move_rights (b : Board) (h : b.WF = true) (m : Move) (κ : Position.Kind)
    (hps : (abs b).pseudo m = some κ) (sd : Side) (c : Color) :
    Castle.contains (b.moveUnchecked m).castle sd c = ((abs b).applyKind m κ).rights sd c := by
  have hp := AbsL.wf_partition b h
  have hcr := AbsL.wf_castle b h
  obtain ⟨pc, hsrc, hd, -⟩ := pseudo_info _ m κ hps
  rw [Props.C02.move_castle, contains_removeForSq _ (removeForSq_lt _ hcr _ _), contains_removeForSq _ hcr]
  show _ = (Castle.contains b.castle sd c &&
      (if c == b.turn then
        !(some m.source == Position.kingHome b.turn) && !(some m.source == Position.rookHome sd b.turn)
       else !(some m.dest == Position.rookHome sd c)))
  rw [King.kingHome_eq, King.rookHome_eq, King.rookHome_eq]
  by_cases hc : c = b.turn
  · subst hc
    have h1 := gridMask_other b.turn.flip sd m.dest
    rw [Color.flip_flip] at h1
    rw [h1, gridMask_own]
    simp [bne]
  · have hc' : c = b.turn.flip := by
      revert hc; cases c <;> cases b.turn <;> simp [Color.flip]
    have hcb : (c == b.turn) = false := by simpa using hc
    rw [hcb]
    subst hc'
    have h1 := gridMask_other b.turn sd m.source
    rw [h1, gridMask_own]
    cases hcon : Castle.contains b.castle sd b.turn.flip
    · simp
    · have hsq := (King.castle_squares b (King.validate_castle b (AbsL.wf_validate b h)) sd _ hcon).1
      rw [AbsL.get_eq b hp] at hsq
      have hne : m.dest ≠ King.kHome b.turn.flip := by
        intro he
        unfold destOk at hd
        rw [he, hsq] at hd
        simp at hd
      simp [bne, hne]
/-! ### en-passant marker -/

/-- membership in the double-step rank set of colour `c` -/
theorem mem_pawnDoubleMove (c : Color) (t : Sq) :
    BB.mem (Lookup.pawnDoubleMove c) t =
      (match c with
       | .white => rankI t == 1 || rankI t == 3
       | .black => rankI t == 6 || rankI t == 4) := by
  obtain ⟨-, -, -, hw, hb, -⟩ := Props.C09.consts_spec
  cases c
  · rw [hw, Props.C09.mem_bbOfPred]
  · rw [hb, Props.C09.mem_bbOfPred]

/-- a two-square set lies inside `X` iff both squares do -/
theorem pair_subset_iff (s d : Sq) (hne : s ≠ d) (X : BB) :
    ((BB.ofSq s ^^^ BB.ofSq d) &&& X) = (BB.ofSq s ^^^ BB.ofSq d) ↔ (BB.mem X s = true ∧ BB.mem X d = true) := by
  constructor
  · intro h
    have h1 := congrArg (fun x => BB.mem x s) h
    have h2 := congrArg (fun x => BB.mem x d) h
    simp only [BB.mem_and', BB.mem_xor', BB.mem_ofSq] at h1 h2
    have e1 : (s == d) = false := by simpa using hne
    have e2 : (d == s) = false := by simpa using (Ne.symm hne)
    simp [e1, e2] at h1 h2
    exact ⟨h1, h2⟩
  · rintro ⟨h1, h2⟩
    apply BB.ext_mem
    intro t
    simp only [BB.mem_and', BB.mem_xor', BB.mem_ofSq]
    by_cases hts : t = s
    · subst hts; simp [h1]
    · by_cases htd : t = d
      · subst htd; simp [h2]
      · have e1 : (t == s) = false := by simpa using hts
        have e2 : (t == d) = false := by simpa using htd
        simp [e1, e2]

theorem ite_cases {α : Type} {c : Prop} [Decidable c] {a b x : α} (h : (if c then a else b) = x) :
    (c ∧ a = x) ∨ (¬ c ∧ b = x) := by
  by_cases hc : c
  · rw [if_pos hc] at h; exact Or.inl ⟨hc, h⟩
  · rw [if_neg hc] at h; exact Or.inr ⟨hc, h⟩

/-- for a pseudo-legal pawn move: the kind is `double` iff there is no promotion piece and both
squares lie on the mover's double-step ranks -/
theorem pawn_double_iff (p : Position) (m : Move) (κ : Position.Kind)
    (hsrc : p.pieceAt m.source = some (p.turn, .pawn)) (hps : p.pseudo m = some κ) :
    κ = .double ↔ (m.piece = none ∧ BB.mem (Lookup.pawnDoubleMove p.turn) m.source = true ∧
      BB.mem (Lookup.pawnDoubleMove p.turn) m.dest = true) := by
  rw [pseudo_pawn p m hsrc] at hps
  rw [mem_pawnDoubleMove, mem_pawnDoubleMove]
  have hbs := RaysAux.rankI_bounds m.source
  have hbd := RaysAux.rankI_bounds m.dest
  rcases ite_cases hps with ⟨-, hps⟩ | ⟨-, hps⟩
  · cases hps
  rcases ite_cases hps with ⟨-, hps⟩ | ⟨hpr, hps⟩
  · cases hps
  simp only [Bool.not_eq_true, Bool.not_eq_false', beq_iff_eq] at hpr
  rcases ite_cases hps with ⟨h1, hps⟩ | ⟨-, hps⟩
  · -- single push
    cases hps
    simp only [Bool.and_eq_true, beq_iff_eq] at h1
    have := (RaysAux.step_eq_some _ _ _ _).1 h1.1.symm
    revert this
    cases p.turn <;> simp [fwd] <;> omega
  rcases ite_cases hps with ⟨h2, hps⟩ | ⟨-, hps⟩
  · -- double push
    cases hps
    simp only [Bool.and_eq_true, beq_iff_eq] at h2
    obtain ⟨⟨⟨hr, hst⟩, -⟩, -⟩ := h2
    have := (RaysAux.step_eq_some _ _ _ _).1 hst.symm
    have hnone : m.piece = none := by
      revert hpr hr
      cases p.turn <;> cases m.piece <;> simp [Position.secondRank, Position.seventhRank] <;> omega
    revert this hr
    cases p.turn <;> simp [fwd, Position.secondRank, hnone] <;> omega
  rcases ite_cases hps with ⟨hatt, hps⟩ | ⟨-, hps⟩
  · have hdr : rankI m.dest = rankI m.source + fwd p.turn := by
      unfold pawnAtt dR at hatt
      simp only [Bool.and_eq_true, beq_iff_eq] at hatt
      omega
    have hκ : κ ≠ .double := by
      rcases ite_cases hps with ⟨-, hps⟩ | ⟨-, hps⟩
      · cases hps; simp
      rcases ite_cases hps with ⟨-, hps⟩ | ⟨-, hps⟩
      · cases hps; simp
      · cases hps
    revert hdr
    cases p.turn <;> simp [fwd, hκ] <;> omega
  · cases hps
/-- en-passant marker: set on, and only on, a double pawn step -/
theorem move_ep_spec (b : Board) (h : b.WF = true) (m : Move) (κ : Position.Kind)
    (hps : (abs b).pseudo m = some κ) :
    (b.moveUnchecked m).ep = ((abs b).applyKind m κ).ep := by
  have hp := AbsL.wf_partition b h
  obtain ⟨pc, hsrc, hd, hk⟩ := pseudo_info _ m κ hps
  have hs := AbsL.at_abs b hp m.source
  rw [hsrc] at hs
  have hne : m.source ≠ m.dest := by
    intro he
    unfold destOk at hd
    rw [← he, hsrc] at hd
    simp at hd
  rw [Props.C02.move_ep, hs.pieceOfUnchecked]
  have hsub := pair_subset_iff m.source m.dest hne (Lookup.pawnDoubleMove b.turn)
  show _ = if κ == .double then some m.dest.file else none
  by_cases hpc : pc = .pawn
  · subst hpc
    have hiff := pawn_double_iff (abs b) m κ hsrc hps
    by_cases hκ : κ = .double
    · rw [if_pos ⟨rfl, (hiff.1 hκ).1, hsub.2 (hiff.1 hκ).2⟩, hκ]; rfl
    · have h1 : (κ == Position.Kind.double) = false := by simpa using hκ
      rw [if_neg (fun hh => hκ (hiff.2 ⟨hh.2.1, hsub.1 hh.2.2⟩)), h1]; rfl
  · have h1 : (κ == Position.Kind.double) = false := by simpa using (hk hpc).2
    rw [if_neg (fun hh => hpc hh.1), h1]; rfl

/-- **C02**: the abstraction commutes with making a move -/
theorem move_abs (b : Board) (h : b.WF = true) (m : Move) (κ : Position.Kind)
    (hps : (abs b).pseudo m = some κ) (hh : b.half < 65535) (hf : b.full < 65535) :
    let q := (abs b).applyKind m κ
    let a := abs (b.moveUnchecked m)
    a.pieceAt = q.pieceAt ∧ a.turn = q.turn ∧ (∀ sd c, a.rights sd c = q.rights sd c) ∧
    a.ep = q.ep ∧ a.half = q.half ∧ a.full = q.full := by
  refine ⟨?_, ?_, ?_, ?_, ?_, ?_⟩
  · funext s
    exact move_placement b h m κ hps s
  · show (b.moveUnchecked m).turn = _
    rw [Props.C02.move_turn, applyKind_turn]; rfl
  · intro sd c
    exact move_rights b h m κ hps sd c
  · exact move_ep_spec b h m κ hps
  · exact move_half_spec b h m κ hps hh
  · exact move_full_spec b h m κ hps hf

end Chess.Legal
