/-
C04, incremental maintenance: the piece hash kept by `move_unchecked_into` (every xor of a piece
set folds the keys of the toggled squares into the hash, through transiently inconsistent
intermediate boards) equals the from-scratch hash of the successor's placement.
-/
import ChessVerif.Proofs.Legal.King
import ChessVerif.Proofs.Legal.Pawn

namespace Chess.Legal
open Chess Chess.Spec

/-- the from-scratch hash as a function of the mailbox only -/
def hashOfAt (at_ : Sq → Option (Color × Piece)) : BB :=
  (List.finRange 64).foldl (fun z s => match at_ s with
    | some (c, p) => z ^^^ Lookup.zobristPiece s p c
    | none => z) 0#64

theorem pieceHash_eq_hashOfAt (r : RawBoard) : r.pieceHash = hashOfAt (pieceOn r) := rfl

/-! ### xor-folds of keys -/

/-- the key a square's content contributes to the hash -/
def keyAt (o : Option (Color × Piece)) (s : Sq) : BB :=
  match o with
  | some (c, p) => Lookup.zobristPiece s p c
  | none => 0#64

/-- folding the keys `k s` of the squares of a list into `z` -/
def xorFold (k : Sq → BB) (z : BB) (l : List Sq) : BB := l.foldl (fun z s => z ^^^ k s) z

theorem xorFold_nil (k : Sq → BB) (z : BB) : xorFold k z [] = z := rfl
theorem xorFold_cons (k : Sq → BB) (z : BB) (a : Sq) (l : List Sq) :
    xorFold k z (a :: l) = xorFold k (z ^^^ k a) l := rfl

theorem hashOfAt_eq (f : Sq → Option (Color × Piece)) :
    hashOfAt f = xorFold (fun s => keyAt (f s) s) 0#64 (List.finRange 64) := by
  unfold hashOfAt xorFold
  congr 1
  funext z s
  show _ = z ^^^ keyAt (f s) s
  rcases hf : f s with _ | ⟨c, p⟩
  · simp [keyAt]
  · rfl

theorem xorFold_init (k : Sq → BB) (z : BB) (l : List Sq) : xorFold k z l = z ^^^ xorFold k 0#64 l := by
  induction l generalizing z with
  | nil => simp [xorFold_nil]
  | cons a l ih =>
    rw [xorFold_cons, xorFold_cons, ih (z ^^^ k a), ih (0#64 ^^^ k a), BitVec.zero_xor, BitVec.xor_assoc]

theorem xorFold_xor (k1 k2 : Sq → BB) (a b : BB) (l : List Sq) :
    xorFold k1 a l ^^^ xorFold k2 b l = xorFold (fun s => k1 s ^^^ k2 s) (a ^^^ b) l := by
  induction l generalizing a b with
  | nil => rfl
  | cons x l ih =>
    rw [xorFold_cons, xorFold_cons, xorFold_cons, ih]
    congr 1
    ac_rfl

theorem xorFold_filter (P : Sq → Bool) (k : Sq → BB) (z : BB) (l : List Sq) :
    xorFold (fun s => if P s then k s else 0#64) z l = xorFold k z (l.filter P) := by
  induction l generalizing z with
  | nil => rfl
  | cons x l ih =>
    rw [xorFold_cons, ih]
    cases h : P x
    · rw [List.filter_cons_of_neg (by simp [h])]; simp
    · rw [List.filter_cons_of_pos h, xorFold_cons]; simp

/-- two mailboxes whose keys differ exactly on the squares of `d`, there by `k` -/
theorem hashOfAt_diff (f g : Sq → Option (Color × Piece)) (d : BB) (k : Sq → BB)
    (h : ∀ s, keyAt (f s) s ^^^ keyAt (g s) s = if BB.mem d s then k s else 0#64) :
    hashOfAt g = xorFold k (hashOfAt f) (BB.toList d) := by
  have e := xorFold_xor (fun s => keyAt (f s) s) (fun s => keyAt (g s) s) 0#64 0#64 (List.finRange 64)
  rw [← hashOfAt_eq, ← hashOfAt_eq, BitVec.xor_zero] at e
  rw [xorFold_init, BB.toList, ← xorFold_filter, ← funext h, ← e,
    ← BitVec.xor_assoc, BitVec.xor_self, BitVec.zero_xor]

/-! ### one `xor` of a piece set on a consistent board -/

/-- the mailbox after toggling `(c, p)` on the squares of `d` (each empty or holding `(c, p)`) -/
def toggle (f : Sq → Option (Color × Piece)) (c : Color) (p : Piece) (d : BB) : Sq → Option (Color × Piece) :=
  fun s => if BB.mem d s then (match f s with | none => some (c, p) | some _ => none) else f s

theorem at_xor (r : RawBoard) (c : Color) (p : Piece) (d : BB) (hp : r.partitionOk = true)
    (hd : ∀ s, BB.mem d s = true → pieceOn r s = none ∨ pieceOn r s = some (c, p)) (s : Sq) :
    RawBoard.At (r.xor c p d) s (toggle (pieceOn r) c p d s) := by
  have hs := RawBoard.at_of_sqOk r s ((RawBoard.partitionOk_iff_sqOk r).1 hp s)
  unfold toggle
  cases hm : BB.mem d s
  · constructor
    · intro c'; rw [RawBoard.mem_color_xor, hm, hs.1 c']; simp
    · intro p'; rw [RawBoard.mem_piece_xor, hm, hs.2 p']; simp
  · rcases hd s hm with h | h
    · rw [h] at hs ⊢
      constructor
      · intro c'; rw [RawBoard.mem_color_xor, hm, hs.1 c']; simp
      · intro p'; rw [RawBoard.mem_piece_xor, hm, hs.2 p']; simp
    · rw [h] at hs ⊢
      constructor
      · intro c'; rw [RawBoard.mem_color_xor, hm, hs.1 c']; simp
      · intro p'; rw [RawBoard.mem_piece_xor, hm, hs.2 p']; simp

/-- one `xor_pieces` on a (placement, hash) pair -/
def stp (rz : RawBoard × BB) (c : Color) (p : Piece) (d : BB) : RawBoard × BB :=
  (rz.1.xor c p d, xorFold (fun s => Lookup.zobristPiece s p c) rz.2 (BB.toList d))

/-- the pair is a consistent placement with mailbox `f`, together with its from-scratch hash -/
def Tr (rz : RawBoard × BB) (f : Sq → Option (Color × Piece)) : Prop :=
  rz.1.partitionOk = true ∧ pieceOn rz.1 = f ∧ rz.2 = rz.1.pieceHash

/-- toggling `(c, p)` on squares that are empty or hold `(c, p)` keeps placement and hash in step -/
theorem tr_stp (rz : RawBoard × BB) (f : Sq → Option (Color × Piece)) (c : Color) (p : Piece) (d : BB)
    (ht : Tr rz f) (hd : ∀ s, BB.mem d s = true → f s = none ∨ f s = some (c, p)) :
    Tr (stp rz c p d) (toggle f c p d) := by
  obtain ⟨hp, hf, hz⟩ := ht
  subst hf
  have hat := at_xor rz.1 c p d hp hd
  have hpo : pieceOn (rz.1.xor c p d) = toggle (pieceOn rz.1) c p d := funext fun s => (hat s).pieceOn
  refine ⟨(RawBoard.partitionOk_iff_sqOk _).2 (fun s => (hat s).sqOk), hpo, ?_⟩
  show xorFold _ rz.2 _ = (rz.1.xor c p d).pieceHash
  rw [pieceHash_eq_hashOfAt, hpo, hz, pieceHash_eq_hashOfAt]
  symm
  apply hashOfAt_diff
  intro s
  unfold toggle
  cases hm : BB.mem d s
  · simp
  · rcases hd s hm with h | h <;> simp [h, keyAt]

theorem rawBoard_ext (r1 r2 : RawBoard) (hc : ∀ c, r1.color c = r2.color c)
    (hp : ∀ p, r1.piece p = r2.piece p) : r1 = r2 := by
  have h1 := hc .white; have h2 := hc .black
  have h3 := hp .pawn; have h4 := hp .knight; have h5 := hp .bishop; have h6 := hp .rook
  have h7 := hp .queen; have h8 := hp .king
  obtain ⟨w, bl, pa, kn, bi, ro, qu, ki⟩ := r1
  obtain ⟨w', bl', pa', kn', bi', ro', qu', ki'⟩ := r2
  simp only [RawBoard.color, RawBoard.piece] at h1 h2 h3 h4 h5 h6 h7 h8
  subst h1 h2 h3 h4 h5 h6 h7 h8
  rfl

theorem xor_comm_raw (r : RawBoard) (c c' : Color) (p p' : Piece) (d d' : BB) :
    (r.xor c p d).xor c' p' d' = (r.xor c' p' d').xor c p d := by
  apply rawBoard_ext
  · intro x
    simp only [RawBoard.color_xor]
    repeat' split
    all_goals first | rfl | ac_rfl
  · intro x
    simp only [RawBoard.piece_xor]
    repeat' split
    all_goals first | rfl | ac_rfl

theorem xorFold_comm (k k' : Sq → BB) (z : BB) (l l' : List Sq) :
    xorFold k' (xorFold k z l) l' = xorFold k (xorFold k' z l') l := by
  rw [xorFold_init k' (xorFold k z l), xorFold_init k z, xorFold_init k (xorFold k' z l'), xorFold_init k' z]
  ac_rfl

theorem stp_comm (rz : RawBoard × BB) (c c' : Color) (p p' : Piece) (d d' : BB) :
    stp (stp rz c p d) c' p' d' = stp (stp rz c' p' d') c p d := by
  unfold stp
  simp only []
  rw [xor_comm_raw, xorFold_comm]

/-! ### the (placement, hash) pair through the phases of `moveUnchecked` -/

/-- the pair of a board -/
def hz (b : Board) : RawBoard × BB := (b.raw, b.zobrist)

theorem hz_xorPieces (b : Board) (c : Color) (p : Piece) (d : BB) : hz (b.xorPieces c p d) = stp (hz b) c p d := rfl

theorem hz_mvScan (t : Color) (k : Sq) (o : Board) : hz (Board.mvScan t k o) = hz o := rfl

theorem hz_mvBase (b : Board) (mv : Move) : hz (Board.mvBase b mv) =
    match b.raw.pieceOf mv.dest with
    | some cap => stp (stp (hz b) b.turn (b.raw.pieceOfUnchecked mv.source) (BB.ofSq mv.source ^^^ BB.ofSq mv.dest))
        b.turn.flip cap (BB.ofSq mv.dest)
    | none => stp (hz b) b.turn (b.raw.pieceOfUnchecked mv.source) (BB.ofSq mv.source ^^^ BB.ofSq mv.dest) := by
  unfold Board.mvBase; simp only []; cases b.raw.pieceOf mv.dest <;> rfl

theorem hz_mvSpecial (b : Board) (mv : Move) (o : Board) : hz (Board.mvSpecial b mv o) =
    if b.raw.pieceOfUnchecked mv.source == .knight then hz o
    else if b.raw.pieceOfUnchecked mv.source == .pawn then
      match mv.piece with
      | some promo => stp (stp (hz o) b.turn .pawn (BB.ofSq mv.dest)) b.turn promo.toPiece (BB.ofSq mv.dest)
      | none =>
        if ((BB.ofSq mv.source ^^^ BB.ofSq mv.dest) &&& Lookup.pawnDoubleMove b.turn) == (BB.ofSq mv.source ^^^ BB.ofSq mv.dest)
        then hz o
        else if some mv.dest == b.epPos then
          stp (hz o) b.turn.flip .pawn (BB.ofSq (Sq.mk mv.dest.file b.turn.epPawnRank))
        else hz o
    else if (b.raw.pieceOfUnchecked mv.source == .king &&
        ((BB.ofSq mv.source ^^^ BB.ofSq mv.dest) &&& Gen.Consts.castleMoves) == (BB.ofSq mv.source ^^^ BB.ofSq mv.dest)) then
      stp (hz o) b.turn .rook (Lookup.backrankBB b.turn &&&
        (match Sq.fileSide mv.dest.file with
         | .king => Gen.Consts.rookCastleKingside
         | .queen => Gen.Consts.rookCastleQueenside))
    else hz o := by
  unfold Board.mvSpecial
  simp only []
  repeat' split
  all_goals first | rfl | (simp_all <;> rfl)

/-! ### what pseudo-legality says about the squares involved -/

theorem pseudo_src_dst (p : Position) (m : Move) (κ : Position.Kind) (h : p.pseudo m = some κ) :
    ∃ pc, p.pieceAt m.source = some (p.turn, pc) ∧ destOk p p.turn m.dest = true := by
  unfold Position.pseudo at h
  rcases hs : p.pieceAt m.source with _ | ⟨c, pc⟩
  · rw [hs] at h; cases h
  · rw [hs] at h
    simp only at h
    by_cases hc : c = p.turn
    · subst hc
      refine ⟨pc, rfl, ?_⟩
      unfold destOk
      rcases hd0 : p.pieceAt m.dest with _ | ⟨c', pc'⟩
      · rfl
      · rw [hd0] at h
        simp only [bne_self_eq_false, Bool.false_eq_true, if_false] at h
        show (c' != p.turn && pc' != .king) = true
        cases hv : (c' != p.turn && pc' != .king)
        · rw [if_pos (by rw [hv]; rfl)] at h; cases h
        · rfl
    · have : (c != p.turn) = true := by simpa using hc
      rw [this] at h
      simp at h

theorem ite_none_some {α : Type} {c : Prop} [Decidable c] {x : Option α} {k : α}
    (h : (if c then none else x) = some k) : x = some k := by
  split at h
  · cases h
  · exact h

theorem pseudo_king_cases (p : Position) (m : Move) (κ : Position.Kind)
    (hsrc : p.pieceAt m.source = some (p.turn, .king)) (h : p.pseudo m = some κ) :
    kingAtt m.source m.dest = true ∨ ∃ sd, p.castleSide m = some sd ∧ p.castleOk sd = true := by
  cases hk : kingAtt m.source m.dest
  · right
    unfold Position.pseudo at h
    rw [hsrc] at h
    simp only at h
    have h := ite_none_some (ite_none_some (ite_none_some h))
    rw [hk] at h
    simp only [Bool.false_eq_true, if_false] at h
    split at h
    · rename_i sd hcs
      refine ⟨sd, hcs, ?_⟩
      split at h
      · assumption
      · cases h
    · cases h
  · left; rfl

theorem mem_pair (s d x : Sq) (h : BB.mem (BB.ofSq s ^^^ BB.ofSq d) x = true) : x = s ∨ x = d := by
  rw [BB.mem_xor', BB.mem_ofSq, BB.mem_ofSq] at h
  by_cases h1 : x = s
  · exact Or.inl h1
  · by_cases h2 : x = d
    · exact Or.inr h2
    · rw [beq_false_of_ne h1, beq_false_of_ne h2] at h
      exact absurd h (by decide)

theorem toggle_move (f : Sq → Option (Color × Piece)) (c : Color) (p : Piece) (s d : Sq)
    (hs : f s = some (c, p)) (hd : f d = none) (hne : s ≠ d) :
    toggle f c p (BB.ofSq s ^^^ BB.ofSq d) = moveAt f s d (some (c, p)) := by
  funext x
  unfold toggle moveAt
  rw [BB.mem_xor', BB.mem_ofSq, BB.mem_ofSq]
  by_cases h1 : x = d
  · subst h1
    rw [beq_false_of_ne (Ne.symm hne), beq_self_eq_true, if_pos rfl]
    simp [hd]
  · by_cases h2 : x = s
    · subst h2
      rw [beq_self_eq_true, beq_false_of_ne h1, if_neg h1, if_pos rfl]
      simp [hs]
    · rw [beq_false_of_ne h1, beq_false_of_ne h2, if_neg h1, if_neg h2]
      simp

theorem toggle_capture (f : Sq → Option (Color × Piece)) (c c' : Color) (p p' : Piece) (s d : Sq)
    (hs : f s = some (c, p)) (hd : f d = some (c', p')) (hne : s ≠ d) :
    toggle (toggle f c' p' (BB.ofSq d)) c p (BB.ofSq s ^^^ BB.ofSq d) = moveAt f s d (some (c, p)) := by
  rw [toggle_move _ c p s d _ _ hne]
  · funext x
    simp only [toggle, moveAt, BB.mem_ofSq]
    by_cases h1 : x = d
    · rw [if_pos h1, if_pos h1]
    · rw [if_neg h1, if_neg h1, beq_false_of_ne h1]
      simp
  · simp only [toggle, BB.mem_ofSq]
    rw [beq_false_of_ne hne]
    simp [hs]
  · simp only [toggle, BB.mem_ofSq]
    simp [hd]

theorem file_mk' : ∀ (f : File) (r : Rank), (Sq.mk f r).file = f := by decide

theorem not_step_castleMoves : ∀ a b : Sq, BB.mem Gen.Consts.castleMoves a = true →
    BB.mem Gen.Consts.castleMoves b = true → kingAtt a b = false := by decide +kernel

theorem mem_rookMv : ∀ (sd : Side) (c : Color) (u : Sq),
    BB.mem (Lookup.backrankBB c &&&
      (match Sq.fileSide (King.cDest sd c).file with
       | .king => Gen.Consts.rookCastleKingside
       | .queen => Gen.Consts.rookCastleQueenside)) u = (u == King.rHome sd c || u == King.rTo sd c) := by
  intro sd c; cases sd <;> cases c <;> decide +kernel

theorem castle_sq_facts (sd : Side) (c : Color) :
    King.rHome sd c ≠ King.cDest sd c ∧ King.rTo sd c ≠ King.cDest sd c ∧
    King.rTo sd c ∈ King.cBetween sd c ∧ King.cDest sd c ∈ King.cBetween sd c := by
  cases sd <;> cases c <;> decide

/-- **the successor's placement is consistent and its stored hash is the from-scratch hash** -/
theorem move_tr (b : Board) (h : b.WF = true) (m : Move) (κ : Position.Kind)
    (hps : (abs b).pseudo m = some κ) :
    ∃ f, Tr (hz (b.moveUnchecked m)) f := by
  have hp := AbsL.wf_partition b h
  have hT0 : Tr (hz b) (pieceOn b.raw) := ⟨hp, rfl, AbsL.wf_hash b h⟩
  obtain ⟨pc, hsrc, hdo⟩ := pseudo_src_dst _ _ _ hps
  change pieceOn b.raw m.source = some (b.turn, pc) at hsrc
  change destOk (abs b) b.turn m.dest = true at hdo
  have hS : RawBoard.At b.raw m.source (some (b.turn, pc)) := hsrc ▸ AbsL.at_abs b hp m.source
  have hD : RawBoard.At b.raw m.dest (pieceOn b.raw m.dest) := AbsL.at_abs b hp m.dest
  have hpu := hS.pieceOfUnchecked
  have hpo := hD.pieceOf
  have hdst : pieceOn b.raw m.dest = none ∨ ∃ cap, pieceOn b.raw m.dest = some (b.turn.flip, cap) := by
    rcases hd0 : pieceOn b.raw m.dest with _ | ⟨c', cap⟩
    · exact Or.inl rfl
    · right
      unfold destOk at hdo
      change (match pieceOn b.raw m.dest with | some (c', pc') => c' != b.turn && pc' != .king | none => true) = true at hdo
      rw [hd0] at hdo
      simp only [Bool.and_eq_true, bne_iff_ne] at hdo
      exact ⟨cap, by rw [King.color_ne_flip _ _ hdo.1]⟩
  have hne : m.source ≠ m.dest := by
    intro e
    rw [← e, hsrc] at hdst
    rcases hdst with h1 | ⟨cap, h1⟩
    · cases h1
    · injection h1 with h1; injection h1 with h1 _
      exact Color.flip_ne _ h1.symm
  -- first phase
  have hT1 : Tr (hz (Board.mvBase b m)) (moveAt (pieceOn b.raw) m.source m.dest (some (b.turn, pc))) := by
    rw [hz_mvBase, hpo, hpu]
    rcases hdst with hd | ⟨cap, hd⟩
    · rw [hd]
      simp only [Option.map_none]
      rw [← toggle_move _ _ _ _ _ hsrc hd hne]
      apply tr_stp _ _ _ _ _ hT0
      intro x hx
      rcases mem_pair _ _ _ hx with e | e
      · right; rw [e, hsrc]
      · left; rw [e, hd]
    · rw [hd]
      simp only [Option.map_some]
      rw [stp_comm, ← toggle_capture _ _ _ _ _ _ _ hsrc hd hne]
      apply tr_stp
      · apply tr_stp _ _ _ _ _ hT0
        intro x hx
        rw [BB.mem_ofSq, beq_iff_eq] at hx
        right; rw [hx, hd]
      · intro x hx
        unfold toggle
        rw [BB.mem_ofSq]
        rcases mem_pair _ _ _ hx with e | e
        · right; rw [e, hsrc]; simp [hne]
        · left; rw [e, hd]; simp
  -- the piece-specific phase
  rw [Board.moveUnchecked_eq, hz_mvScan, hz_mvSpecial, hpu]
  split
  · exact ⟨_, hT1⟩
  split
  · rename_i hpawn
    have hpawn : pc = .pawn := by simpa using hpawn
    subst hpawn
    split
    · -- promotion
      refine ⟨_, tr_stp _ _ _ _ _ (tr_stp _ _ _ _ _ hT1 ?_) ?_⟩
      · intro x hx
        rw [BB.mem_ofSq, beq_iff_eq] at hx
        right; rw [hx]; simp [moveAt]
      · intro x hx
        rw [BB.mem_ofSq, beq_iff_eq] at hx
        left; rw [hx]; simp [toggle, moveAt]
    · split
      · exact ⟨_, hT1⟩
      split
      · -- en passant
        rename_i hep
        rcases hf : b.ep with _ | f
        · simp [Board.epPos, hf] at hep
        · have hde : m.dest = Sq.mk f b.turn.epCaptureRank := by simpa [Board.epPos, hf] using hep
          obtain ⟨h1, h2, _⟩ := wf_ep b h f hf
          rw [← hde, occupied_false_iff] at h1
          change pieceOn b.raw m.dest = none at h1
          change pieceOn b.raw (Sq.mk f b.turn.epPawnRank) = some (b.turn.flip, .pawn) at h2
          have hfile : m.dest.file = f := by rw [hde, file_mk']
          rw [hfile]
          refine ⟨_, tr_stp _ _ _ _ _ hT1 ?_⟩
          intro x hx
          rw [BB.mem_ofSq, beq_iff_eq] at hx
          right
          have e1 : x ≠ m.dest := by
            intro e; rw [hx] at e; rw [e, h1] at h2; cases h2
          have e2 : x ≠ m.source := by
            intro e; rw [hx] at e; rw [e, hsrc] at h2
            injection h2 with h2; injection h2 with h2 _
            exact Color.flip_ne _ h2.symm
          rw [moveAt, if_neg e1, if_neg e2, hx, h2]
      · exact ⟨_, hT1⟩
  split
  · -- castling
    rename_i hc
    simp only [Bool.and_eq_true, beq_iff_eq] at hc
    obtain ⟨hking, hcm⟩ := hc
    subst hking
    have hms : BB.mem Gen.Consts.castleMoves m.source = true := by
      have : BB.mem ((BB.ofSq m.source ^^^ BB.ofSq m.dest) &&& Gen.Consts.castleMoves) m.source = true := by
        rw [hcm, BB.mem_xor', BB.mem_ofSq, BB.mem_ofSq]; simp [hne]
      rw [BB.mem_and', Bool.and_eq_true] at this
      exact this.2
    have hmd : BB.mem Gen.Consts.castleMoves m.dest = true := by
      have : BB.mem ((BB.ofSq m.source ^^^ BB.ofSq m.dest) &&& Gen.Consts.castleMoves) m.dest = true := by
        rw [hcm, BB.mem_xor', BB.mem_ofSq, BB.mem_ofSq]; simp [Ne.symm hne]
      rw [BB.mem_and', Bool.and_eq_true] at this
      exact this.2
    rcases pseudo_king_cases _ _ _ hsrc hps with hk | ⟨sd, hcs, hco⟩
    · rw [not_step_castleMoves _ _ hms hmd] at hk; cases hk
    · obtain ⟨e1, e2⟩ := King.castleSide_some _ _ _ hcs
      change Position.kingHome b.turn = _ at e1
      change Position.sqAt _ (Position.homeRank b.turn) = _ at e2
      rw [King.kingHome_eq] at e1
      rw [King.destSq_eq] at e2
      have e1 : m.source = King.kHome b.turn := (Option.some.inj e1).symm
      have e2 : m.dest = King.cDest sd b.turn := (Option.some.inj e2).symm
      rw [King.castleOk_iff] at hco
      simp only [Bool.and_eq_true, List.all_eq_true] at hco
      obtain ⟨⟨⟨hr, hbt⟩, _⟩, _⟩ := hco
      change Castle.contains b.castle sd b.turn = true at hr
      change ∀ x ∈ King.cBetween sd b.turn, (!(abs b).occupied x) = true at hbt
      obtain ⟨_, r, hr1, hr2⟩ := wf_rights b h sd hr
      rw [King.rookHome_eq] at hr1
      have hr1 : r = King.rHome sd b.turn := (Option.some.inj hr1).symm
      subst hr1
      change pieceOn b.raw (King.rHome sd b.turn) = some (b.turn, .rook) at hr2
      obtain ⟨f1, f2, f3, f4⟩ := castle_sq_facts sd b.turn
      have hto : pieceOn b.raw (King.rTo sd b.turn) = none := by
        have := hbt _ f3
        rw [Bool.not_eq_true', occupied_false_iff] at this
        exact this
      refine ⟨_, tr_stp _ _ _ _ _ hT1 ?_⟩
      intro x hx
      rw [e2, mem_rookMv, Bool.or_eq_true, beq_iff_eq, beq_iff_eq] at hx
      rw [moveAt, e2]
      rcases hx with hx | hx
      · rw [hx, if_neg f1]
        by_cases e : King.rHome sd b.turn = m.source
        · left; rw [if_pos e]
        · right; rw [if_neg e, hr2]
      · rw [hx, if_neg f2]
        left
        by_cases e : King.rTo sd b.turn = m.source
        · rw [if_pos e]
        · rw [if_neg e, hto]
  · exact ⟨_, hT1⟩

/-- the partition is preserved by every pseudo-legal move (a by-product of `move_tr`) -/
theorem move_partition' (b : Board) (h : b.WF = true) (m : Move) (κ : Position.Kind)
    (hps : (abs b).pseudo m = some κ) :
    (b.moveUnchecked m).raw.partitionOk = true := by
  obtain ⟨f, hf, _, _⟩ := move_tr b h m κ hps
  exact hf

/-- **C04 (b)**: after any pseudo-legal move on a well-formed board the stored piece hash is the
from-scratch hash of the new placement -/
theorem move_hash (b : Board) (h : b.WF = true) (m : Move) (κ : Position.Kind)
    (hps : (abs b).pseudo m = some κ) :
    (b.moveUnchecked m).zobrist = (b.moveUnchecked m).raw.pieceHash := by
  obtain ⟨f, _, _, hf⟩ := move_tr b h m κ hps
  exact hf

end Chess.Legal
