/-
C03, incremental pin/check state: after a legal move on a well-formed board, the `pinned` and
`checkers` sets computed incrementally by `move_unchecked_into` (direct check only from the moved
knight / pawn / promoted knight, every slider of the mover rescanned, `^=` accumulation) equal the
from-scratch values `update_pin_info` computes for the successor.
-/
import ChessVerif.Proofs.Legal.MovePlace
import ChessVerif.Proofs.Legal.Safe

namespace Chess.Legal
open Chess Chess.Spec Chess.Rays

/- helper lemmas live in `Chess.Legal.Incr`; the two stated theorems in `Chess.Legal` -/
namespace Incr

/-! ### the `^=` scan -/

theorem scanSliders_cons_xor (occ : BB) (k c : Sq) (cs : List Sq) (P C : BB) :
    Board.scanSliders occ k (c :: cs) P C true =
      if BB.none (occ &&& Lookup.between k c) = true then Board.scanSliders occ k cs P (BB.set C c) true
      else if BB.count (occ &&& Lookup.between k c) = 1 then
        Board.scanSliders occ k cs (P ^^^ (occ &&& Lookup.between k c)) C true
      else Board.scanSliders occ k cs P C true := by
  unfold Board.scanSliders
  simp only [List.foldl_cons]
  by_cases h1 : BB.none (occ &&& Lookup.between k c) = true
  · simp only [h1, if_true]
  · by_cases h2 : BB.count (occ &&& Lookup.between k c) = 1
    · simp [h1, h2]
    · simp [h1, h2]

/-- two different occupied squares aligned with `k` never have the same single blocker -/
theorem single_blockers_disjoint (occ : BB) (k x y : Sq) (hxy : x ≠ y)
    (hax : aligned k x = true) (hay : aligned k y = true)
    (hox : BB.mem occ x = true) (hoy : BB.mem occ y = true)
    (hcx : BB.count (occ &&& Lookup.between k x) = 1) (hcy : BB.count (occ &&& Lookup.between k y) = 1)
    (u : Sq) (hux : BB.mem (occ &&& Lookup.between k x) u = true)
    (huy : BB.mem (occ &&& Lookup.between k y) u = true) : False := by
  have ux := ((count_one_mem_iff _ u).1 ⟨hcx, hux⟩).2
  have uy := ((count_one_mem_iff _ u).1 ⟨hcy, huy⟩).2
  have hbx : u ∈ betweenList k x := by
    rw [BB.mem_and', mem_between_tbl, Bool.and_eq_true, List.contains_iff_mem] at hux
    exact hux.2
  have hby : u ∈ betweenList k y := by
    rw [BB.mem_and', mem_between_tbl, Bool.and_eq_true, List.contains_iff_mem] at huy
    exact huy.2
  have d1 := dir_of_mem_segment k x u (Or.inl hbx)
  have d2 := dir_of_mem_segment k y u (Or.inl hby)
  rcases same_dir_cases k x y hax hay (d1.2.symm.trans d2.2) with e | e | e
  · exact hxy e
  · have hxu : x = u := uy x (by
      rw [BB.mem_and', mem_between_tbl, hox, Bool.true_and, List.contains_iff_mem]; exact e)
    exact (endpoints_not_mem k x).2 (hxu ▸ hbx)
  · have hyu : y = u := ux y (by
      rw [BB.mem_and', mem_between_tbl, hoy, Bool.true_and, List.contains_iff_mem]; exact e)
    exact (endpoints_not_mem k y).2 (hyu ▸ hby)

theorem scanSliders_xor_aux (occ : BB) (k : Sq) (cands : List Sq) (hnd : cands.Nodup)
    (hal : ∀ x ∈ cands, aligned k x = true) (hocc : ∀ x ∈ cands, BB.mem occ x = true) (P C : BB)
    (hdis : ∀ x ∈ cands, BB.count (occ &&& Lookup.between k x) = 1 →
      ∀ u, BB.mem (occ &&& Lookup.between k x) u = true → BB.mem P u = false) :
    Board.scanSliders occ k cands P C true = Board.scanSliders occ k cands P C false := by
  induction cands generalizing P C with
  | nil => rfl
  | cons c cs ih =>
    rw [List.nodup_cons] at hnd
    have hal' : ∀ x ∈ cs, aligned k x = true := fun x hx => hal x (List.mem_cons_of_mem _ hx)
    have hocc' : ∀ x ∈ cs, BB.mem occ x = true := fun x hx => hocc x (List.mem_cons_of_mem _ hx)
    have hdis' : ∀ x ∈ cs, BB.count (occ &&& Lookup.between k x) = 1 →
        ∀ u, BB.mem (occ &&& Lookup.between k x) u = true → BB.mem P u = false :=
      fun x hx => hdis x (List.mem_cons_of_mem _ hx)
    rw [scanSliders_cons_xor, scanSliders_cons]
    by_cases h1 : BB.none (occ &&& Lookup.between k c) = true
    · rw [if_pos h1, if_pos h1]
      exact ih hnd.2 hal' hocc' P _ hdis'
    · rw [if_neg h1, if_neg h1]
      by_cases h2 : BB.count (occ &&& Lookup.between k c) = 1
      · rw [if_pos h2, if_pos h2]
        have hd := hdis c List.mem_cons_self h2
        have hx : P ^^^ (occ &&& Lookup.between k c) = P ||| (occ &&& Lookup.between k c) := by
          apply BB.ext_mem
          intro u
          rw [BB.mem_xor', BB.mem_or']
          cases hu : BB.mem (occ &&& Lookup.between k c) u
          · cases BB.mem P u <;> rfl
          · rw [hd u hu]; rfl
        rw [hx]
        apply ih hnd.2 hal' hocc'
        intro x hx hcx u hu
        rw [BB.mem_or', hdis' x hx hcx u hu, Bool.false_or, Bool.eq_false_iff]
        intro hu'
        have hne : x ≠ c := fun e => hnd.1 (e ▸ hx)
        exact single_blockers_disjoint occ k x c hne (hal' x hx) (hal c List.mem_cons_self)
          (hocc' x hx) (hocc c List.mem_cons_self) hcx h2 u hu hu'
      · rw [if_neg h2, if_neg h2]
        exact ih hnd.2 hal' hocc' P C hdis'

end Incr

/-- the `^=` scan equals the `|=` scan when the candidates' single-blocker segments never coincide —
which is the case for sliders aligned with one king square -/
theorem scanSliders_xor_eq_or (occ : BB) (k : Sq) (cands : List Sq) (hnd : cands.Nodup)
    (hal : ∀ x ∈ cands, aligned k x = true) (hocc : ∀ x ∈ cands, BB.mem occ x = true) (C0 : BB) :
    Board.scanSliders occ k cands 0#64 C0 true = Board.scanSliders occ k cands 0#64 C0 false :=
  Incr.scanSliders_xor_aux occ k cands hnd hal hocc 0#64 C0 (fun _ _ _ u _ => BB.mem_zero u)

namespace Incr

/-! ### the fields of the three phases -/

/-- the direct-check term of `move_unchecked_into` -/
def directTerm (b : Board) (m : Move) : BB :=
  let K := b.kingSq b.turn.flip
  match b.raw.pieceOfUnchecked m.source, m.piece with
  | .knight, _ => Lookup.knightMoves K &&& BB.ofSq m.dest
  | .pawn, some .knight => Lookup.knightMoves K &&& BB.ofSq m.dest
  | .pawn, none => Lookup.pawnAttacksMoves K b.turn.flip &&& BB.ofSq m.dest
  | _, _ => 0#64

theorem mvBase_pinned (b : Board) (mv : Move) : (Board.mvBase b mv).pinned = 0#64 := by
  unfold Board.mvBase; simp only []; split <;> rfl
theorem mvBase_checkers (b : Board) (mv : Move) : (Board.mvBase b mv).checkers = 0#64 := by
  unfold Board.mvBase; simp only []; split <;> rfl

theorem mvSpecial_pinned (b : Board) (mv : Move) (o : Board) : (Board.mvSpecial b mv o).pinned = o.pinned := by
  unfold Board.mvSpecial
  simp only []
  repeat' split
  all_goals rfl

theorem mvSpecial_checkers (b : Board) (mv : Move) (o : Board) :
    (Board.mvSpecial b mv o).checkers = o.checkers ^^^ directTerm b mv := by
  unfold Board.mvSpecial directTerm
  simp only []
  cases hp : b.raw.pieceOfUnchecked mv.source <;> rcases hm : mv.piece with _ | pr
  all_goals try cases pr
  all_goals simp [BitVec.xor_zero]
  all_goals repeat' split
  all_goals first | rfl | simp_all

/-! ### what pseudo-legality gives -/

theorem pseudo_king (p : Position) (m : Move)
    (hsrc : p.pieceAt m.source = some (p.turn, .king)) :
    p.pseudo m = if !destOk p p.turn m.dest then none else if m.piece.isSome then none
      else if kingAtt m.source m.dest then some .normal
      else match p.castleSide m with
        | some sd => if p.castleOk sd then some (.castle sd) else none
        | none => none := by
  unfold Position.pseudo
  rw [hsrc]
  simp only [bne_self_eq_false, Bool.false_eq_true, if_false]
  rfl

theorem pseudo_facts (p : Position) (m : Move) (κ : Position.Kind) (hps : p.pseudo m = some κ) :
    ∃ pc, p.pieceAt m.source = some (p.turn, pc) ∧ destOk p p.turn m.dest = true ∧
      (pc ≠ .pawn → m.piece = none) ∧
      (κ = .enPassant → ∃ v, Position.sqAt (fileI m.dest) (rankI m.source) = some v ∧
        p.pieceAt v = some (p.turn.flip, .pawn)) ∧
      (∀ sd, κ = .castle sd → p.castleOk sd = true) := by
  rcases hsrc : p.pieceAt m.source with _ | ⟨c, pc⟩
  · unfold Position.pseudo at hps
    rw [hsrc] at hps; cases hps
  · by_cases hc : c = p.turn
    case neg =>
      unfold Position.pseudo at hps
      rw [hsrc] at hps
      have : (c != p.turn) = true := by simpa using hc
      simp only [this, if_true] at hps
      cases hps
    subst hc
    refine ⟨pc, rfl, ?_⟩
    cases hd : destOk p p.turn m.dest
    · exfalso
      cases pc
      case pawn => rw [pseudo_pawn p m hsrc, hd] at hps; simp at hps
      case king => rw [pseudo_king p m hsrc, hd] at hps; simp at hps
      all_goals
        rw [pseudo_piece p m _ hsrc (by decide), hd] at hps; simp at hps
    · refine ⟨rfl, ?_⟩
      cases pc
      case pawn =>
        refine ⟨fun h => absurd rfl h, ?_, ?_⟩
        · rintro rfl
          rw [pseudo_pawn p m hsrc] at hps
          rcases hv : Position.sqAt (fileI m.dest) (rankI m.source) with _ | v
          · rw [hv] at hps
            simp only [Bool.and_false] at hps
            repeat' split at hps
            all_goals first | contradiction | cases hps
          · rw [hv] at hps
            refine ⟨v, rfl, ?_⟩
            by_cases hE : p.pieceAt v = some (p.turn.flip, .pawn)
            · exact hE
            · have : (p.pieceAt v == some (p.turn.flip, .pawn)) = false := by simpa using hE
              simp only [this, Bool.and_false] at hps
              repeat' split at hps
              all_goals first | contradiction | cases hps
        · rintro sd rfl
          rw [pseudo_pawn p m hsrc] at hps
          repeat' split at hps
          all_goals cases hps
      case king =>
        refine ⟨fun _ => ?_, ?_, ?_⟩
        · rw [pseudo_king p m hsrc, hd] at hps
          rcases hm : m.piece with _ | pr
          · rfl
          · rw [hm] at hps; simp at hps
        · rintro rfl
          rw [pseudo_king p m hsrc] at hps
          repeat' split at hps
          all_goals cases hps
        · rintro sd rfl
          rw [pseudo_king p m hsrc] at hps
          rcases hcs : p.castleSide m with _ | sd'
          · rw [hcs] at hps
            simp only [] at hps
            repeat' split at hps
            all_goals cases hps
          · rw [hcs] at hps
            simp only [] at hps
            by_cases hok : p.castleOk sd' = true
            · rw [if_pos hok] at hps
              repeat' split at hps
              all_goals first | cases hps | skip
              exact hok
            · rw [if_neg hok] at hps
              repeat' split at hps
              all_goals cases hps
      all_goals
        rw [pseudo_piece p m _ hsrc (by decide), hd] at hps
        refine ⟨fun _ => ?_, ?_, ?_⟩
        · rcases hm : m.piece with _ | pr
          · rfl
          · rw [hm] at hps; simp at hps
        · rintro rfl
          repeat' split at hps
          all_goals cases hps
        · rintro sd rfl
          repeat' split at hps
          all_goals cases hps

theorem validate_castle (b : Board) (hv : b.validate = .ok ()) : b.validateCastleRights = .ok () := by
  unfold Board.validate at hv
  split at hv
  · cases hv
  · split at hv
    · cases hv
    · split at hv
      · cases hv
      · split at hv
        · cases hv
        · rename_i h
          exact h

/-- a castling right of a well-formed board: that rook stands on its home square -/
theorem wf_rook_home (b : Board) (h : b.WF = true) (sd : Side) (c : Color)
    (hr : Castle.contains b.castle sd c = true) :
    ∃ r, Position.rookHome sd c = some r ∧ (abs b).pieceAt r = some (c, .rook) := by
  have hp := AbsL.wf_partition b h
  have hv := validate_castle b (AbsL.wf_validate b h)
  unfold Board.validateCastleRights at hv
  simp only [AbsL.get_eq b hp] at hv
  cases sd <;> cases c
  · refine ⟨7, by decide, ?_⟩
    rw [hr] at hv
    simp only [Bool.true_and] at hv
    repeat' split at hv
    all_goals first | (cases hv; done) | simp_all
  · refine ⟨63, by decide, ?_⟩
    rw [hr] at hv
    simp only [Bool.true_and] at hv
    repeat' split at hv
    all_goals first | (cases hv; done) | simp_all
  · refine ⟨0, by decide, ?_⟩
    rw [hr] at hv
    simp only [Bool.true_and] at hv
    repeat' split at hv
    all_goals first | (cases hv; done) | simp_all
  · refine ⟨56, by decide, ?_⟩
    rw [hr] at hv
    simp only [Bool.true_and] at hv
    repeat' split at hv
    all_goals first | (cases hv; done) | simp_all

theorem castleOk_facts (p : Position) (sd : Side) (h : p.castleOk sd = true) :
    p.rights sd p.turn = true ∧
    ∀ s, (match sd with
        | .king => Position.sqAt 5 (Position.homeRank p.turn)
        | .queen => Position.sqAt 3 (Position.homeRank p.turn)) = some s → p.pieceAt s = none := by
  unfold Position.castleOk at h
  simp only [Bool.and_eq_true] at h
  obtain ⟨⟨⟨h1, h2⟩, _⟩, _⟩ := h
  refine ⟨h1, fun s hs => ?_⟩
  rw [← occupied_false_iff]
  cases sd
  · simp only [List.all_cons, List.all_nil, Bool.and_true, Bool.and_eq_true] at h2
    simp only [] at hs
    have := h2.1
    rw [hs] at this
    simpa using this
  · simp only [List.all_cons, List.all_nil, Bool.and_true, Bool.and_eq_true] at h2
    simp only [] at hs
    have := h2.2.2
    rw [hs] at this
    simpa using this

theorem ne_flip_king {c : Color} {pc : Piece} : (some (c, pc) : Option (Color × Piece)) ≠ some (c.flip, .king) := by
  intro e; injection e with e; injection e with e1 _; exact Color.flip_ne _ e1.symm

/-- the king of the side that did not move stays where it is -/
theorem king_stays (b : Board) (h : b.WF = true) (m : Move) (κ : Position.Kind)
    (hps : (abs b).pseudo m = some κ) (s : Sq) :
    ((abs b).applyKind m κ).pieceAt s = some (b.turn.flip, .king) ↔
      (abs b).pieceAt s = some (b.turn.flip, .king) := by
  obtain ⟨pc, hsrc, hd, _, hep, hca⟩ := pseudo_facts _ m κ hps
  have hturn : (abs b).turn = b.turn := rfl
  rw [hturn] at hsrc hd hep
  rw [applyKind_pieceAt, hturn]
  by_cases h1 : s = m.dest
  · subst h1
    simp only [beq_self_eq_true, if_true]
    have harr : ∃ pc', arriving (abs b) m = some (b.turn, pc') := by
      unfold arriving; rw [hsrc]; cases m.piece <;> exact ⟨_, rfl⟩
    obtain ⟨pc', harr⟩ := harr
    rw [harr]
    constructor
    · intro e; exact absurd e ne_flip_king
    · intro e; unfold destOk at hd; rw [e] at hd; simp at hd
  · rw [if_neg (by simpa using h1)]
    by_cases h2 : s = m.source
    · subst h2
      simp only [beq_self_eq_true, if_true]
      rw [hsrc]
      constructor
      · intro e; cases e
      · intro e; exact absurd e ne_flip_king
    · rw [if_neg (by simpa using h2)]
      cases κ with
      | normal => simp
      | double => simp
      | enPassant =>
        obtain ⟨v, hv1, hv2⟩ := hep rfl
        simp only [beq_self_eq_true, if_true, hv1]
        by_cases h3 : s = v
        · subst h3
          simp only [beq_self_eq_true, if_true, hv2]
          constructor
          · intro e; cases e
          · intro e; cases e
        · have : (some s == some v) = false := by simpa using h3
          simp [this]
      | castle sd =>
        have hok := hca sd rfl
        obtain ⟨hr, hn⟩ := castleOk_facts _ sd hok
        obtain ⟨r, hr1, hr2⟩ := wf_rook_home b h sd b.turn hr
        simp only [reduceCtorEq, beq_iff_eq, if_false, hr1]
        rw [hturn] at hn
        by_cases h4 : s = r
        · subst h4
          simp only [if_true, hr2]
          constructor
          · intro e; cases e
          · intro e; exact absurd e ne_flip_king
        · rw [if_neg (by simpa using h4)]
          have key : ∀ t : Option Sq, (∀ s', t = some s' → (abs b).pieceAt s' = none) →
              ((if some s = t then some (b.turn, Piece.rook) else (abs b).pieceAt s) =
                some (b.turn.flip, Piece.king) ↔ (abs b).pieceAt s = some (b.turn.flip, Piece.king)) := by
            intro t ht
            by_cases h5 : some s = t
            · rw [if_pos h5, ht s h5.symm]
              constructor
              · intro e; exact absurd e ne_flip_king
              · intro e; cases e
            · rw [if_neg h5]
          cases sd
          · exact key _ hn
          · exact key _ hn

/-! ### contact checks -/

theorem ite_chain {α : Type} (P : α → Prop) (c1 c2 c3 c4 : Bool) (a b c d e : α)
    (ha : P a) (hb : P b) (hc : P c) (hd : P d) (he : P e) :
    P (if c1 = true then a else if c2 = true then b else if c3 = true then c else if c4 = true then d else e) := by
  cases c1 <;> cases c2 <;> cases c3 <;> cases c4 <;> simp [*]

/-- away from the destination the new mailbox holds nothing, the castled rook, or what it held -/
theorem applyKind_other (p : Position) (m : Move) (κ : Position.Kind) (s : Sq) (hs : s ≠ m.dest) :
    (p.applyKind m κ).pieceAt s = none ∨ (p.applyKind m κ).pieceAt s = some (p.turn, .rook) ∨
      (p.applyKind m κ).pieceAt s = p.pieceAt s := by
  rw [applyKind_pieceAt, if_neg (by simpa using hs)]
  exact ite_chain (fun x => x = none ∨ x = some (p.turn, .rook) ∨ x = p.pieceAt s) _ _ _ _ _ _ _ _ _
    (Or.inl rfl) (Or.inl rfl) (Or.inl rfl) (Or.inr (Or.inl rfl)) (Or.inr (Or.inr rfl))

theorem directTerm_mem_ne (b : Board) (m : Move) (u : Sq) (hu : u ≠ m.dest) :
    BB.mem (directTerm b m) u = false := by
  have : (u == m.dest) = false := by simpa using hu
  unfold directTerm
  simp only []
  split <;> simp only [BB.mem_and', BB.mem_ofSq, BB.mem_zero, this, Bool.and_false]

theorem no_contact (b : Board) (h : b.WF = true) (x : Sq) :
    contactOn (abs b).pieceAt b.turn x (b.kingSq b.turn.flip) = false := by
  have := opp_king_not_attacked b h
  rw [Bool.eq_false_iff] at this ⊢
  intro hc
  exact this ((attacked_iff _ _ _).2 ⟨x, Or.inl hc⟩)

theorem direct_iff (b : Board) (h : b.WF = true) (m : Move) (κ : Position.Kind)
    (hps : (abs b).pseudo m = some κ) (u : Sq) :
    BB.mem (directTerm b m) u = true ↔
      (BB.mem (Lookup.knightMoves (b.kingSq b.turn.flip) &&& (b.moveUnchecked m).raw.knight &&&
          (b.moveUnchecked m).raw.color b.turn) u = true ∨
       BB.mem (Lookup.pawnAttacksMoves (b.kingSq b.turn.flip) b.turn.flip &&& (b.moveUnchecked m).raw.pawn &&&
          (b.moveUnchecked m).raw.color b.turn) u = true) := by
  have hp := AbsL.wf_partition b h
  have hp' := move_partition b h m κ hps
  obtain ⟨pc, hsrc, hd, hnp, _, _⟩ := pseudo_facts _ m κ hps
  have hturn : (abs b).turn = b.turn := rfl
  rw [hturn] at hsrc
  have hpu : b.raw.pieceOfUnchecked m.source = pc := (hsrc ▸ AbsL.at_abs b hp m.source).pieceOfUnchecked
  have hq : (abs (b.moveUnchecked m)).pieceAt u = ((abs b).applyKind m κ).pieceAt u :=
    move_placement b h m κ hps u
  have hc := AbsL.mem_color _ hp' u b.turn
  have hn : BB.mem (b.moveUnchecked m).raw.knight u = _ := AbsL.mem_piece _ hp' u .knight
  have hw : BB.mem (b.moveUnchecked m).raw.pawn u = _ := AbsL.mem_piece _ hp' u .pawn
  simp only [BB.mem_and', Props.C09.mem_knightMoves, Props.C09.mem_pawnAttacksMoves, hc, hn, hw,
    Position.colorAt, hq]
  by_cases hu : u = m.dest
  · subst hu
    rw [applyKind_pieceAt, if_pos (by simp)]
    unfold directTerm arriving
    rw [hpu, hsrc]
    cases pc
    case pawn =>
      rcases m.piece with _ | pr
      · simp [Props.C09.mem_pawnAttacksMoves]
      · cases pr <;> simp [Promo.toPiece, Props.C09.mem_knightMoves]
    all_goals
      rw [hnp (by decide)]
      simp [Props.C09.mem_knightMoves]
  · rw [directTerm_mem_ne b m u hu]
    have hnc := no_contact b h u
    simp only [Bool.false_eq_true, false_iff, not_or]
    rcases applyKind_other (abs b) m κ u hu with e | e | e
    · rw [e]; simp
    · rw [e]; simp
    · rw [e]
      unfold contactOn at hnc
      rcases hP : (abs b).pieceAt u with _ | ⟨c', pc'⟩
      · simp
      · rw [hP] at hnc
        cases pc'
        case knight =>
          rw [knightAtt_symm]
          simp at hnc ⊢
          intro h1 h2; rw [hnc h2] at h1; cases h1
        case pawn =>
          rw [← Color.flip_flip b.turn, ← pawnAtt_symm, Color.flip_flip]
          simp at hnc ⊢
          intro h1 h2; rw [hnc h2] at h1; cases h1
        all_goals simp

/-! ### assembling -/

/-- the candidate set the tail of `move_unchecked_into` scans -/
def attackersBB (r : RawBoard) (c : Color) (K : Sq) : BB :=
  ((r.bishop ||| r.queen) &&& r.color c &&& Lookup.bishopRays K) |||
    ((r.rook ||| r.queen) &&& r.color c &&& Lookup.rookRays K)

theorem attackersBB_eq (b : Board) (c : Color) (K : Sq) : attackersBB b.raw c K = pinnersBB b c K := by
  apply BB.ext_mem
  intro s
  unfold attackersBB pinnersBB
  simp only [BB.mem_and', BB.mem_or']
  generalize BB.mem b.raw.bishop s = x1
  generalize BB.mem b.raw.queen s = x2
  generalize BB.mem b.raw.rook s = x3
  generalize BB.mem (b.raw.color c) s = x4
  generalize BB.mem (Lookup.bishopRays K) s = x5
  generalize BB.mem (Lookup.rookRays K) s = x6
  cases x1 <;> cases x2 <;> cases x3 <;> cases x4 <;> cases x5 <;> cases x6 <;> rfl

/-- the incremental computation, as one `^=` scan from the direct-check term -/
theorem moveUnchecked_pin (b : Board) (m : Move) :
    ((b.moveUnchecked m).pinned, (b.moveUnchecked m).checkers) =
      Board.scanSliders (b.moveUnchecked m).raw.all (b.kingSq b.turn.flip)
        (BB.toList (attackersBB (b.moveUnchecked m).raw b.turn (b.kingSq b.turn.flip)))
        0#64 (directTerm b m) true := by
  have e1 : (Board.mvSpecial b m (Board.mvBase b m)).pinned = 0#64 := by
    rw [mvSpecial_pinned, mvBase_pinned]
  have e2 : (Board.mvSpecial b m (Board.mvBase b m)).checkers = directTerm b m := by
    rw [mvSpecial_checkers, mvBase_checkers, BitVec.zero_xor]
  have e0 : ((b.moveUnchecked m).pinned, (b.moveUnchecked m).checkers) =
      Board.scanSliders (b.moveUnchecked m).raw.all (b.kingSq b.turn.flip)
        (BB.toList (attackersBB (b.moveUnchecked m).raw b.turn (b.kingSq b.turn.flip)))
        (Board.mvSpecial b m (Board.mvBase b m)).pinned (Board.mvSpecial b m (Board.mvBase b m)).checkers true := rfl
  rw [e1, e2] at e0
  exact e0

/-- the king of the side now to move did not move -/
theorem move_kingSq (b : Board) (h : b.WF = true) (m : Move) (κ : Position.Kind)
    (hps : (abs b).pseudo m = some κ) :
    (b.moveUnchecked m).kingSq b.turn.flip = b.kingSq b.turn.flip := by
  have hp := AbsL.wf_partition b h
  have hp' := move_partition b h m κ hps
  have hbb : (b.moveUnchecked m).kingBB b.turn.flip = b.kingBB b.turn.flip := by
    apply BB.ext_mem
    intro s
    rw [AbsL.mem_kingBB _ hp', AbsL.mem_kingBB _ hp, Bool.eq_iff_iff, beq_iff_eq, beq_iff_eq]
    have hq : (abs (b.moveUnchecked m)).pieceAt s = ((abs b).applyKind m κ).pieceAt s :=
      move_placement b h m κ hps s
    rw [hq]
    exact king_stays b h m κ hps s
  unfold Board.kingSq Board.kingSq?
  rw [hbb]

theorem toList_nodup (x : BB) : (BB.toList x).Nodup :=
  (BB.toList_ascending x).imp (fun {a c} hlt e => by subst e; exact Nat.lt_irrefl _ hlt)

theorem pinners_aligned (b : Board) (c : Color) (K x : Sq) (hx : BB.mem (pinnersBB b c K) x = true) :
    aligned K x = true ∧ BB.mem b.raw.all x = true := by
  unfold pinnersBB at hx
  simp only [BB.mem_and', BB.mem_or', Props.C09.mem_rookRays, Props.C09.mem_bishopRays,
    Bool.and_eq_true, Bool.or_eq_true] at hx
  obtain ⟨hc, hr⟩ := hx
  constructor
  · unfold aligned
    rcases hr with ⟨_, hr⟩ | ⟨_, hr⟩
    · rw [hr, Bool.or_true]
    · rw [hr, Bool.true_or]
  · unfold RawBoard.all
    rw [BB.mem_or']
    cases c
    · have : BB.mem b.raw.white x = true := hc
      rw [this, Bool.true_or]
    · have : BB.mem b.raw.black x = true := hc
      rw [this, Bool.or_true]

end Incr

/-- **C03 `incr_eq`**: the incrementally updated pin/check state is the from-scratch state -/
theorem move_pinInfo (b : Board) (h : b.WF = true) (m : Move) (hl : (abs b).legal m = true) :
    (b.moveUnchecked m).pinInfoOk = true := by
  obtain ⟨κ, hps⟩ : ∃ κ, (abs b).pseudo m = some κ := by
    unfold Position.legal at hl
    rcases hps : (abs b).pseudo m with _ | κ
    · rw [hps] at hl; cases hl
    · exact ⟨κ, rfl⟩
  have hK := Incr.move_kingSq b h m κ hps
  have hturn' : (b.moveUnchecked m).turn = b.turn.flip := by
    rw [Board.moveUnchecked_eq, Board.mvScan_turn, Board.mvSpecial_turn, Board.mvBase_turn]
  have hscan := Incr.moveUnchecked_pin b m
  rw [Incr.attackersBB_eq] at hscan
  have hcand : ∀ x ∈ BB.toList (pinnersBB (b.moveUnchecked m) b.turn (b.kingSq b.turn.flip)),
      aligned (b.kingSq b.turn.flip) x = true ∧ BB.mem (b.moveUnchecked m).raw.all x = true :=
    fun x hx => Incr.pinners_aligned _ _ _ x ((BB.mem_toList _ x).1 hx)
  rw [scanSliders_xor_eq_or _ _ _ (Incr.toList_nodup _) (fun x hx => (hcand x hx).1)
    (fun x hx => (hcand x hx).2)] at hscan
  have hpin := congrArg Prod.fst hscan
  have hchk := congrArg Prod.snd hscan
  simp only [] at hpin hchk
  unfold Board.pinInfoOk
  rw [updatePinInfo_pinned, updatePinInfo_checkers, hturn', Color.flip_flip, hK, hpin, hchk,
    Bool.and_eq_true, beq_iff_eq, beq_iff_eq]
  constructor
  · apply BB.ext_mem
    intro u
    rw [Bool.eq_iff_iff, (scanSliders_or_aux _ _ _ _ _ u).2, (scanSliders_or_aux _ _ _ _ _ u).2]
  · apply BB.ext_mem
    intro u
    rw [Bool.eq_iff_iff, BB.mem_or', BB.mem_or', Bool.or_eq_true, Bool.or_eq_true,
      (scanSliders_or_aux _ _ _ _ _ u).1, (scanSliders_or_aux _ _ _ _ _ u).1,
      Incr.direct_iff b h m κ hps u, BB.mem_zero]
    simp only [Bool.false_eq_true, false_or]
    constructor
    · rintro ((h1 | h1) | h1)
      · exact Or.inl (Or.inr h1)
      · exact Or.inr h1
      · exact Or.inl (Or.inl h1)
    · rintro ((h1 | h1) | h1)
      · exact Or.inr h1
      · exact Or.inl (Or.inl h1)
      · exact Or.inl (Or.inr h1)

end Chess.Legal
