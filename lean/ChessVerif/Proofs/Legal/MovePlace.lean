/-
C02, piece placement for every kind of move: on a well-formed board, for every move the
specification calls pseudo-legal, the mailbox of `move_unchecked_into`'s result is the mailbox
the rules prescribe (rook hop of castling, removal of the pawn captured en passant, the promoted
piece), and the eight sets still form a partition.

Route: `mvBase_at` gives the per-square content (`RawBoard.At`) after the first phase of
`moveUnchecked` (mover and victim xors); every xor of the piece-specific second phase acts on a
consistent board and is one of `at_xor_off` / `at_xor_put` / `at_xor_take` per square.  `move_at`
is the uniform `At` statement; both theorems are corollaries.  Auxiliary lemmas live in
`Chess.Legal.MovePlaceAux` so that they cannot clash with the helper lemmas of sibling files.
-/
import ChessVerif.Proofs.Legal.SpecMove
import ChessVerif.Proofs.Legal.AbsL
import ChessVerif.Proofs.Legal.King

namespace Chess.Legal.MovePlaceAux
open Chess Chess.Spec Chess.Rays Chess.RawBoard Chess.Board

theorem at_xor_off {r : RawBoard} {s : Sq} {o} (c : Color) (p : Piece) (d : BB)
    (hd : BB.mem d s = false) (h : At r s o) : At (r.xor c p d) s o := by
  constructor
  · intro c'; rw [mem_color_xor, hd, h.1 c']; simp
  · intro p'; rw [mem_piece_xor, hd, h.2 p']; simp

theorem at_xor_put {r : RawBoard} {s : Sq} (c : Color) (p : Piece) (d : BB)
    (hd : BB.mem d s = true) (h : At r s none) : At (r.xor c p d) s (some (c, p)) := by
  constructor
  · intro c'; rw [mem_color_xor, hd, h.1 c']; simp
  · intro p'; rw [mem_piece_xor, hd, h.2 p']; simp

theorem at_xor_take {r : RawBoard} {s : Sq} (c : Color) (p : Piece) (d : BB)
    (hd : BB.mem d s = true) (h : At r s (some (c, p))) : At (r.xor c p d) s none := by
  constructor
  · intro c'; rw [mem_color_xor, hd, h.1 c']; simp
  · intro p'; rw [mem_piece_xor, hd, h.2 p']; simp

set_option maxRecDepth 100000 in
theorem king_step_not_castle : ∀ s d : Sq, kingAtt s d = true →
    ((BB.ofSq s ^^^ BB.ofSq d) &&& Gen.Consts.castleMoves == (BB.ofSq s ^^^ BB.ofSq d)) = false := by
  decide +kernel


/-- first phase, per square: the mover stands on the destination, the source is empty -/
theorem mvBase_at (b : Board) (m : Move) (c : Color) (p : Piece)
    (hpart : b.raw.partitionOk = true)
    (hsrc : pieceOn b.raw m.source = some (c, p)) (hturn : b.turn = c)
    (hdst : ∀ q, pieceOn b.raw m.dest ≠ some (c, q))
    (hne : m.source ≠ m.dest) :
    ∀ s : Sq, At (mvBase b m).raw s
      (if s = m.dest then some (c, p) else if s = m.source then none else pieceOn b.raw s) := by
  rw [partitionOk_iff_sqOk] at hpart
  have hS : At b.raw m.source (some (c, p)) := hsrc ▸ at_of_sqOk _ _ (hpart _)
  have hD : At b.raw m.dest (pieceOn b.raw m.dest) := at_of_sqOk _ _ (hpart _)
  have hpu : b.raw.pieceOfUnchecked m.source = p := hS.pieceOfUnchecked
  rw [mvBase_raw, hD.pieceOf, hpu, hturn]
  intro s
  have hs := at_of_sqOk b.raw s (hpart s)
  have hne' : m.dest ≠ m.source := fun h => hne h.symm
  have eds : (m.dest == m.source) = false := beq_false_of_ne hne'
  have esd : (m.source == m.dest) = false := beq_false_of_ne hne
  cases hd : pieceOn b.raw m.dest with
  | none =>
    rw [hd] at hD
    simp only [Option.map_none]
    constructor
    · intro c''
      rw [mem_color_xor, BB.mem_xor', BB.mem_ofSq, BB.mem_ofSq]
      by_cases h1 : s = m.dest
      · subst h1
        rw [hD.1 c'']; simp [eds]
      · by_cases h2 : s = m.source
        · subst h2
          rw [hS.1 c'']; simp [esd, hne]
        · rw [hs.1 c'']; simp [h1, h2, beq_false_of_ne h1, beq_false_of_ne h2]
    · intro p''
      rw [mem_piece_xor, BB.mem_xor', BB.mem_ofSq, BB.mem_ofSq]
      by_cases h1 : s = m.dest
      · subst h1
        rw [hD.2 p'']; simp [eds]
      · by_cases h2 : s = m.source
        · subst h2
          rw [hS.2 p'']; simp [esd, hne]
        · rw [hs.2 p'']; simp [h1, h2, beq_false_of_ne h1, beq_false_of_ne h2]
  | some cq =>
    obtain ⟨c', cap⟩ := cq
    rw [hd] at hD
    have hc' : c' = c.flip := by
      have : c' ≠ c := fun h => hdst cap (h ▸ hd)
      revert this; cases c <;> cases c' <;> simp [Color.flip]
    subst hc'
    simp only [Option.map_some]
    constructor
    · intro c''
      rw [mem_color_xor, mem_color_xor, BB.mem_xor', BB.mem_ofSq, BB.mem_ofSq]
      by_cases h1 : s = m.dest
      · subst h1
        rw [hD.1 c'']; cases c <;> cases c'' <;> simp [eds, Color.flip]
      · by_cases h2 : s = m.source
        · subst h2
          rw [hS.1 c'']; simp [esd, hne]
        · rw [hs.1 c'']; simp [h1, h2, beq_false_of_ne h1, beq_false_of_ne h2]
    · intro p''
      rw [mem_piece_xor, mem_piece_xor, BB.mem_xor', BB.mem_ofSq, BB.mem_ofSq]
      by_cases h1 : s = m.dest
      · subst h1
        rw [hD.2 p'']
        by_cases e1 : p'' = p <;> by_cases e2 : p'' = cap <;> simp [eds, e1, e2]
      · by_cases h2 : s = m.source
        · subst h2
          rw [hS.2 p'']; simp [esd, hne]
        · rw [hs.2 p'']; simp [h1, h2, beq_false_of_ne h1, beq_false_of_ne h2]

/-- the raw board after the pawn branch of the second phase -/
theorem mvSpecial_raw_pawn (b : Board) (mv : Move) (o : Board)
    (hp : b.raw.pieceOfUnchecked mv.source = .pawn) :
    (mvSpecial b mv o).raw =
      match mv.piece with
      | some promo => (o.raw.xor b.turn .pawn (BB.ofSq mv.dest)).xor b.turn promo.toPiece (BB.ofSq mv.dest)
      | none =>
        if ((BB.ofSq mv.source ^^^ BB.ofSq mv.dest) &&& Lookup.pawnDoubleMove b.turn) == (BB.ofSq mv.source ^^^ BB.ofSq mv.dest) then o.raw
        else if some mv.dest == b.epPos then
          o.raw.xor b.turn.flip .pawn (BB.ofSq (Sq.mk mv.dest.file b.turn.epPawnRank))
        else o.raw := by
  unfold mvSpecial
  simp only [hp, (by decide : (Piece.pawn == Piece.knight) = false), Bool.false_eq_true, if_false,
    beq_self_eq_true, if_true]
  cases mv.piece with
  | none =>
    simp only [Option.isNone_none, if_true]
    repeat' split
    all_goals rfl
  | some promo =>
    simp only [Option.isNone_some, Bool.false_eq_true, if_false]
    split <;> rfl

/-- the raw board after the castling branch of the second phase -/
theorem mvSpecial_raw_castle (b : Board) (mv : Move) (o : Board)
    (hp : b.raw.pieceOfUnchecked mv.source = .king)
    (hc : ((BB.ofSq mv.source ^^^ BB.ofSq mv.dest) &&& Gen.Consts.castleMoves) = (BB.ofSq mv.source ^^^ BB.ofSq mv.dest)) :
    (mvSpecial b mv o).raw = o.raw.xor b.turn .rook (Lookup.backrankBB b.turn &&&
        (match Sq.fileSide mv.dest.file with
         | .king => Gen.Consts.rookCastleKingside
         | .queen => Gen.Consts.rookCastleQueenside)) := by
  unfold mvSpecial
  simp only [hp, (by decide : (Piece.king == Piece.knight) = false), (by decide : (Piece.king == Piece.pawn) = false),
    Bool.false_eq_true, if_false, beq_self_eq_true, Bool.true_and, hc, if_true]
  rfl


theorem pseudo_src (p : Position) (m : Move) (κ : Position.Kind) (h : p.pseudo m = some κ) :
    ∃ pc, p.pieceAt m.source = some (p.turn, pc) ∧ destOk p p.turn m.dest = true := by
  unfold Position.pseudo at h
  cases hsrc : p.pieceAt m.source with
  | none => rw [hsrc] at h; cases h
  | some cp =>
    obtain ⟨c, pc⟩ := cp
    rw [hsrc] at h
    simp only [] at h
    by_cases hc : c = p.turn
    · subst hc
      refine ⟨pc, rfl, ?_⟩
      unfold destOk
      cases hd' : p.pieceAt m.dest with
      | none => rfl
      | some cq =>
        obtain ⟨c', pc'⟩ := cq
        rw [hd'] at h
        simp only [] at h
        cases hv : (c' != p.turn && pc' != .king)
        · simp [hv] at h
        · exact hv
    · have : (c != p.turn) = true := by simpa using hc
      rw [this] at h
      simp at h

theorem arriving_none (p : Position) (m : Move) (h : m.piece = none) : arriving p m = p.pieceAt m.source := by
  unfold arriving
  rw [h]
  split
  · rename_i h'; cases h'
  · rfl

theorem pseudo_king_nostep (p : Position) (m : Move)
    (hsrc : p.pieceAt m.source = some (p.turn, .king)) (hstep : kingAtt m.source m.dest = false) :
    p.pseudo m = if !destOk p p.turn m.dest then none else if m.piece.isSome then none
      else match p.castleSide m with
        | some sd => if p.castleOk sd then some (.castle sd) else none
        | none => none := by
  unfold Position.pseudo
  rw [hsrc]
  simp only [bne_self_eq_false, Bool.false_eq_true, if_false, hstep]
  rfl

theorem castleSide_facts (p : Position) (m : Move) (sd : Side) (h : p.castleSide m = some sd) :
    some m.source = Position.kingHome p.turn ∧
    some m.dest = Position.sqAt (match (generalizing := false) sd with | .king => 6 | .queen => 2) (Position.homeRank p.turn) := by
  unfold Position.castleSide at h
  split at h
  · rename_i hc
    simp only [Bool.and_eq_true, beq_iff_eq] at hc
    refine ⟨hc.2, ?_⟩
    split at h
    · rename_i hd; cases h; simpa using hd
    · split at h
      · rename_i hd; cases h; simpa using hd
      · cases h
  · cases h

theorem castleOk_facts (p : Position) (sd : Side) (h : p.castleOk sd = true) :
    p.rights sd p.turn = true ∧
    ∀ rt, Position.sqAt (match (generalizing := false) sd with | .king => 5 | .queen => 3) (Position.homeRank p.turn) = some rt →
      p.occupied rt = false := by
  unfold Position.castleOk at h
  simp only [Bool.and_eq_true] at h
  obtain ⟨⟨⟨h1, h2⟩, _⟩, _⟩ := h
  refine ⟨h1, ?_⟩
  intro rt hrt
  cases sd
  · simp only [List.all_cons, Bool.and_eq_true] at h2
    have := h2.1
    simp only [] at hrt
    rw [hrt] at this
    simpa using this
  · simp only [List.all_cons, Bool.and_eq_true] at h2
    have := h2.2.2.1
    simp only [] at hrt
    rw [hrt] at this
    simpa using this

set_option maxRecDepth 100000 in
/-- the four castling geometries -/
theorem castle_geom (c : Color) (sd : Side) : ∃ ks kd rf rt : Sq,
    Position.kingHome c = some ks ∧
    Position.sqAt (match sd with | .king => 6 | .queen => 2) (Position.homeRank c) = some kd ∧
    Position.rookHome sd c = some rf ∧
    Position.sqAt (match sd with | .king => 5 | .queen => 3) (Position.homeRank c) = some rt ∧
    ((BB.ofSq ks ^^^ BB.ofSq kd) &&& Gen.Consts.castleMoves) = (BB.ofSq ks ^^^ BB.ofSq kd) ∧
    (∀ s : Sq, BB.mem (Lookup.backrankBB c &&&
        (match Sq.fileSide kd.file with
         | .king => Gen.Consts.rookCastleKingside
         | .queen => Gen.Consts.rookCastleQueenside)) s = (s == rf || s == rt)) ∧
    ks ≠ kd ∧ rf ≠ ks ∧ rf ≠ kd ∧ rt ≠ ks ∧ rt ≠ kd ∧ rf ≠ rt := by
  cases c <;> cases sd
  · exact ⟨4, 6, 7, 5, by decide +kernel⟩
  · exact ⟨4, 2, 0, 3, by decide +kernel⟩
  · exact ⟨60, 62, 63, 61, by decide +kernel⟩
  · exact ⟨60, 58, 56, 59, by decide +kernel⟩


/-- what the hypotheses of the placement theorems give, in the model's terms -/
theorem setup (b : Board) (h : b.WF = true) (m : Move) (κ : Position.Kind)
    (hps : (abs b).pseudo m = some κ) :
    ∃ pc, (abs b).pieceAt m.source = some (b.turn, pc) ∧ destOk (abs b) b.turn m.dest = true ∧
      b.raw.pieceOfUnchecked m.source = pc ∧ m.source ≠ m.dest ∧
      (∀ s : Sq, At (mvBase b m).raw s
        (if s = m.dest then some (b.turn, pc) else if s = m.source then none else (abs b).pieceAt s)) := by
  obtain ⟨pc, hsrc, hdo⟩ := pseudo_src _ _ _ hps
  have hpart := AbsL.wf_partition b h
  have hpu : b.raw.pieceOfUnchecked m.source = pc := by
    have := AbsL.at_abs b hpart m.source
    rw [hsrc] at this
    exact this.pieceOfUnchecked
  have hdst : ∀ q, pieceOn b.raw m.dest ≠ some (b.turn, q) := by
    intro q hq
    have : (abs b).pieceAt m.dest = some (b.turn, q) := hq
    unfold destOk at hdo
    rw [this] at hdo
    simp at hdo
    exact hdo.1 rfl
  have hne : m.source ≠ m.dest := by
    intro he
    apply hdst pc
    rw [← he]; exact hsrc
  exact ⟨pc, hsrc, hdo, hpu, hne, mvBase_at b m b.turn pc hpart hsrc rfl hdst hne⟩

theorem normal_at_of (b : Board) (m : Move) (r : RawBoard) (pc : Piece)
    (hsrc : (abs b).pieceAt m.source = some (b.turn, pc)) (hp : m.piece = none)
    (hb : ∀ s : Sq, At r s
        (if s = m.dest then some (b.turn, pc) else if s = m.source then none else (abs b).pieceAt s))
    (s : Sq) : At r s (((abs b).applyKind m .normal).pieceAt s) := by
  rw [applyKind_normal_pieceAt, arriving_none _ _ hp, hsrc]
  exact hb s

theorem castle_at_core (b : Board) (m : Move) (ks kd rf rt : Sq)
    (hS : m.source = ks) (hD : m.dest = kd)
    (hpu : b.raw.pieceOfUnchecked m.source = .king)
    (hcm : ((BB.ofSq ks ^^^ BB.ofSq kd) &&& Gen.Consts.castleMoves) = (BB.ofSq ks ^^^ BB.ofSq kd))
    (hrm : ∀ s : Sq, BB.mem (Lookup.backrankBB b.turn &&&
        (match Sq.fileSide kd.file with
         | .king => Gen.Consts.rookCastleKingside
         | .queen => Gen.Consts.rookCastleQueenside)) s = (s == rf || s == rt))
    (n2 : rf ≠ ks) (n3 : rf ≠ kd) (n4 : rt ≠ ks) (n5 : rt ≠ kd)
    (hr2 : (abs b).pieceAt rf = some (b.turn, .rook)) (hrte : (abs b).pieceAt rt = none)
    (hb : ∀ s : Sq, At (mvBase b m).raw s
        (if s = m.dest then some (b.turn, .king) else if s = m.source then none else (abs b).pieceAt s))
    (s : Sq) : At (mvSpecial b m (mvBase b m)).raw s
      (if s = kd then some (b.turn, .king) else if s = ks then none
        else if s = rf then none else if s = rt then some (b.turn, .rook) else (abs b).pieceAt s) := by
  rw [mvSpecial_raw_castle b m _ hpu (by rw [hS, hD]; exact hcm), hD]
  have hbs := hb s
  rw [hS, hD] at hbs
  by_cases e1 : s = kd
  · subst e1
    rw [if_pos rfl] at hbs ⊢
    exact at_xor_off _ _ _ (by rw [hrm]; simp [Ne.symm n3, Ne.symm n5]) hbs
  · by_cases e2 : s = ks
    · subst e2
      rw [if_neg e1, if_pos rfl] at hbs ⊢
      exact at_xor_off _ _ _ (by rw [hrm]; simp [Ne.symm n2, Ne.symm n4]) hbs
    · rw [if_neg e1, if_neg e2] at hbs ⊢
      by_cases e3 : s = rf
      · subst e3
        rw [if_pos rfl]
        rw [hr2] at hbs
        exact at_xor_take _ _ _ (by rw [hrm]; simp) hbs
      · rw [if_neg e3]
        by_cases e4 : s = rt
        · subst e4
          rw [if_pos rfl]
          rw [hrte] at hbs
          exact at_xor_put _ _ _ (by rw [hrm]; simp) hbs
        · rw [if_neg e4]
          exact at_xor_off _ _ _ (by rw [hrm]; simp [e3, e4]) hbs

theorem castle_at (b : Board) (h : b.WF = true) (m : Move) (sd : Side)
    (hsrc : (abs b).pieceAt m.source = some (b.turn, .king))
    (hpu : b.raw.pieceOfUnchecked m.source = .king)
    (hp : m.piece = none)
    (hcs : (abs b).castleSide m = some sd) (hok : (abs b).castleOk sd = true)
    (hb : ∀ s : Sq, At (mvBase b m).raw s
        (if s = m.dest then some (b.turn, .king) else if s = m.source then none else (abs b).pieceAt s))
    (s : Sq) : At (mvSpecial b m (mvBase b m)).raw s (((abs b).applyKind m (.castle sd)).pieceAt s) := by
  have hsf := castleSide_facts (abs b) m sd hcs
  have hcf := castleOk_facts (abs b) sd hok
  obtain ⟨ks, kd, rf, rt, hks, hkd, hrf, hrt, hcm, hrm, n1, n2, n3, n4, n5, n6⟩ := castle_geom b.turn sd
  obtain ⟨_, r, hr1, hr2⟩ := wf_rights b h sd hcf.1
  have hrr : r = rf := Option.some.inj (hr1.symm.trans hrf)
  subst hrr
  cases sd
  · have hS : m.source = ks := Option.some.inj (hsf.1.trans hks)
    have hD : m.dest = kd := Option.some.inj (hsf.2.trans hkd)
    have hrte : (abs b).pieceAt rt = none := (occupied_false_iff _ _).1 (hcf.2 rt hrt)
    rw [applyKind_castle_pieceAt (abs b) m .king r rt hrf hrt, arriving_none _ _ hp, hsrc, hS, hD]
    exact castle_at_core b m ks kd r rt hS hD hpu hcm hrm n2 n3 n4 n5 hr2 hrte hb s
  · have hS : m.source = ks := Option.some.inj (hsf.1.trans hks)
    have hD : m.dest = kd := Option.some.inj (hsf.2.trans hkd)
    have hrte : (abs b).pieceAt rt = none := (occupied_false_iff _ _).1 (hcf.2 rt hrt)
    rw [applyKind_castle_pieceAt (abs b) m .queen r rt hrf hrt, arriving_none _ _ hp, hsrc, hS, hD]
    exact castle_at_core b m ks kd r rt hS hD hpu hcm hrm n2 n3 n4 n5 hr2 hrte hb s


/-! ### pawns -/

theorem sqAt_exists (a c : Sq) : ∃ v, Position.sqAt (fileI a) (rankI c) = some v := by
  have := RaysAux.fileI_bounds a; have := RaysAux.rankI_bounds c
  unfold Position.sqAt
  rw [if_pos (by omega)]
  have hlt : (rankI c).toNat * 8 + (fileI a).toNat < 64 := by omega
  exact ⟨⟨_, hlt⟩, by simp [Sq.ofNat?, hlt]⟩

theorem pawn_cases (p : Position) (m : Move) (κ : Position.Kind)
    (hsrc : p.pieceAt m.source = some (p.turn, .pawn)) (hps : p.pseudo m = some κ) :
    (m.piece.isSome = (rankI m.source == Position.seventhRank p.turn)) ∧
    ((κ = .normal ∧ some m.dest = step m.source 0 (fwd p.turn) ∧ p.occupied m.dest = false) ∨
     (κ = .double ∧ rankI m.source = Position.secondRank p.turn ∧ some m.dest = step m.source 0 (2 * fwd p.turn)) ∨
     (κ = .normal ∧ pawnAtt p.turn m.source m.dest = true ∧ p.occupied m.dest = true) ∨
     (κ = .enPassant ∧ pawnAtt p.turn m.source m.dest = true ∧ p.occupied m.dest = false ∧
        some m.dest = p.epSquare ∧
        ∃ v, Position.sqAt (fileI m.dest) (rankI m.source) = some v ∧ p.pieceAt v = some (p.turn.flip, .pawn))) := by
  rw [pseudo_pawn p m hsrc] at hps
  obtain ⟨v, hv⟩ := sqAt_exists m.dest m.source
  simp only [hv] at hps
  by_cases h1 : (!destOk p p.turn m.dest) = true
  · rw [if_pos h1] at hps; cases hps
  rw [if_neg h1] at hps
  by_cases hpr : (!(m.piece.isSome == (rankI m.source == Position.seventhRank p.turn))) = true
  · rw [if_pos hpr] at hps; cases hps
  rw [if_neg hpr] at hps
  refine ⟨by simpa using hpr, ?_⟩
  by_cases hA : (some m.dest == step m.source 0 (fwd p.turn) && !p.occupied m.dest) = true
  · rw [if_pos hA] at hps
    cases hps
    simp only [Bool.and_eq_true, beq_iff_eq, Bool.not_eq_true'] at hA
    exact Or.inl ⟨rfl, hA.1, hA.2⟩
  rw [if_neg hA] at hps
  generalize hst : step m.source 0 (fwd p.turn) = st at hps
  have hB' : ∀ (B : Bool) (x y : Option Position.Kind), (if B = true then x else y) = some κ →
      (B = true ∧ x = some κ) ∨ (B = false ∧ y = some κ) := by
    intro B x y h; cases B
    · exact Or.inr ⟨rfl, h⟩
    · exact Or.inl ⟨rfl, h⟩
  rcases hB' _ _ _ hps with ⟨hB, hk⟩ | ⟨_, hps⟩
  · cases hk
    simp only [Bool.and_eq_true, beq_iff_eq, Bool.not_eq_true'] at hB
    exact Or.inr (Or.inl ⟨rfl, hB.1.1.1, hB.1.1.2⟩)
  by_cases hatt : pawnAtt p.turn m.source m.dest = true
  · rw [if_pos hatt] at hps
    by_cases hocc : p.occupied m.dest = true
    · rw [if_pos hocc] at hps
      cases hps
      exact Or.inr (Or.inr (Or.inl ⟨rfl, hatt, hocc⟩))
    · rw [if_neg hocc] at hps
      by_cases hE : (some m.dest == p.epSquare && p.pieceAt v == some (p.turn.flip, .pawn)) = true
      · rw [if_pos hE] at hps
        cases hps
        simp only [Bool.and_eq_true, beq_iff_eq] at hE
        exact Or.inr (Or.inr (Or.inr ⟨rfl, hatt, by simpa using hocc, hE.1, v, hv, hE.2⟩))
      · rw [if_neg hE] at hps; cases hps
  · rw [if_neg hatt] at hps; cases hps

set_option maxRecDepth 100000 in
theorem double_test_aux : ∀ (s d : Sq),
    (dR s d = 1 → (((BB.ofSq s ^^^ BB.ofSq d) &&& Lookup.pawnDoubleMove .white) == (BB.ofSq s ^^^ BB.ofSq d)) = false) ∧
    (dR s d = -1 → (((BB.ofSq s ^^^ BB.ofSq d) &&& Lookup.pawnDoubleMove .black) == (BB.ofSq s ^^^ BB.ofSq d)) = false) ∧
    (rankI s = 1 → dR s d = 2 →
      (((BB.ofSq s ^^^ BB.ofSq d) &&& Lookup.pawnDoubleMove .white) == (BB.ofSq s ^^^ BB.ofSq d)) = true) ∧
    (rankI s = 6 → dR s d = -2 →
      (((BB.ofSq s ^^^ BB.ofSq d) &&& Lookup.pawnDoubleMove .black) == (BB.ofSq s ^^^ BB.ofSq d)) = true) := by
  decide +kernel

/-- a one-rank pawn move is not inside the double-step mask -/
theorem double_test_false (c : Color) (s d : Sq) (h : dR s d = fwd c) :
    (((BB.ofSq s ^^^ BB.ofSq d) &&& Lookup.pawnDoubleMove c) == (BB.ofSq s ^^^ BB.ofSq d)) = false := by
  cases c
  · exact (double_test_aux s d).1 h
  · exact (double_test_aux s d).2.1 h

/-- a double step is inside the double-step mask -/
theorem double_test_true (c : Color) (s d : Sq) (h1 : rankI s = Position.secondRank c) (h2 : dR s d = 2 * fwd c) :
    (((BB.ofSq s ^^^ BB.ofSq d) &&& Lookup.pawnDoubleMove c) == (BB.ofSq s ^^^ BB.ofSq d)) = true := by
  cases c
  · exact (double_test_aux s d).2.2.1 h1 h2
  · exact (double_test_aux s d).2.2.2 h1 h2

theorem epSquare_eq_epPos (b : Board) : (abs b).epSquare = b.epPos := by
  unfold Position.epSquare Board.epPos
  show (match b.ep with | some f => Position.sqAt f.val (Position.epTargetRank b.turn) | none => none) = _
  cases b.ep with
  | none => rfl
  | some f =>
    simp only [Option.map_some]
    cases b.turn <;> revert f <;> decide

theorem validateEnPassant_ok (b : Board) (h : b.WF = true) : b.validateEnPassant = .ok () := by
  have hv := AbsL.wf_validate b h
  unfold Board.validate at hv
  split at hv
  · cases hv
  · split at hv
    · cases hv
    · split at hv
      · cases hv
      · assumption

/-- the e.p. marker of a well-formed board: target square empty, enemy pawn in front of it -/
theorem ep_facts (b : Board) (h : b.WF = true) (f : File) (hf : b.ep = some f) :
    (abs b).pieceAt (Sq.mk f b.turn.epCaptureRank) = none ∧
    (abs b).pieceAt (Sq.mk f b.turn.epPawnRank) = some (b.turn.flip, .pawn) := by
  have hp := AbsL.wf_partition b h
  have hv := validateEnPassant_ok b h
  unfold Board.validateEnPassant at hv
  simp only [hf] at hv
  rw [AbsL.get_eq b hp, AbsL.get_eq b hp] at hv
  refine ⟨?_, ?_⟩
  · split at hv
    · cases hv
    · rename_i h1
      simpa using h1
  · split at hv
    · cases hv
    · split at hv
      · rename_i c' pc hg
        split at hv
        · cases hv
        · split at hv
          · cases hv
          · rename_i h2 h3
            rw [hg]
            have : pc = .pawn := Classical.not_not.1 h3
            subst this
            have : c' = b.turn.flip := by
              revert h2; cases c' <;> cases b.turn <;> simp [Color.flip]
            rw [this]
      · cases hv

theorem fileI_mk (f : File) (r : Rank) : fileI (Sq.mk f r) = (f.val : Int) := by
  have := f.isLt; have := r.isLt
  simp only [fileI, Sq.mk]; omega

theorem rankI_mk (f : File) (r : Rank) : rankI (Sq.mk f r) = (r.val : Int) := by
  have := f.isLt; have := r.isLt
  simp only [rankI, Sq.mk]; omega

theorem file_val (s : Sq) : ((s.file).val : Int) = fileI s := rfl


theorem epPos_cases (b : Board) (d : Sq) (he : some d = b.epPos) :
    ∃ f, b.ep = some f ∧ d = Sq.mk f b.turn.epCaptureRank := by
  unfold Board.epPos at he
  cases hf : b.ep with
  | none => rw [hf] at he; cases he
  | some f => rw [hf] at he; exact ⟨f, rfl, Option.some.inj he⟩

theorem epRanks (c : Color) : ((c.epPawnRank).val : Int) = ((c.epCaptureRank).val : Int) - fwd c := by
  cases c <;> rfl

/-- a single push never lands on the e.p. square -/
theorem ep_test_push (b : Board) (h : b.WF = true) (m : Move)
    (hsrc : (abs b).pieceAt m.source = some (b.turn, .pawn))
    (hf : fileI m.dest = fileI m.source) (hr : rankI m.dest = rankI m.source + fwd b.turn) :
    (some m.dest == b.epPos) = false := by
  rw [beq_eq_false_iff_ne]
  intro he
  obtain ⟨f, hef, hd⟩ := epPos_cases b _ he
  have hv := (ep_facts b h f hef).2
  have : m.source = Sq.mk f b.turn.epPawnRank := by
    rw [RaysAux.sq_eq_iff, fileI_mk, rankI_mk, epRanks]
    rw [hd, fileI_mk] at hf
    rw [hd, rankI_mk] at hr
    omega
  rw [← this, hsrc] at hv
  injection hv with hv
  injection hv with hv
  exact Color.flip_ne _ hv.symm

/-- a capture of a piece never lands on the e.p. square -/
theorem ep_test_capture (b : Board) (h : b.WF = true) (m : Move)
    (hocc : (abs b).occupied m.dest = true) : (some m.dest == b.epPos) = false := by
  rw [beq_eq_false_iff_ne]
  intro he
  obtain ⟨f, hef, hd⟩ := epPos_cases b _ he
  have hv := (ep_facts b h f hef).1
  rw [← hd] at hv
  rw [Position.occupied, hv] at hocc
  cases hocc

theorem pawnAtt_dR (c : Color) (s d : Sq) (h : pawnAtt c s d = true) : dR s d = fwd c ∧ fileI d ≠ fileI s := by
  unfold pawnAtt at h
  simp only [Bool.and_eq_true, beq_iff_eq] at h
  refine ⟨h.1, ?_⟩
  intro he
  have h2 := h.2
  unfold dF absI at h2
  rw [he] at h2
  simp at h2

theorem pawn_at (b : Board) (h : b.WF = true) (m : Move) (κ : Position.Kind)
    (hps : (abs b).pseudo m = some κ)
    (hsrc : (abs b).pieceAt m.source = some (b.turn, .pawn))
    (hpu : b.raw.pieceOfUnchecked m.source = .pawn)
    (hb : ∀ s : Sq, At (mvBase b m).raw s
        (if s = m.dest then some (b.turn, .pawn) else if s = m.source then none else (abs b).pieceAt s))
    (s : Sq) : At (mvSpecial b m (mvBase b m)).raw s (((abs b).applyKind m κ).pieceAt s) := by
  obtain ⟨hpr, hshape⟩ := pawn_cases (abs b) m κ hsrc hps
  simp only [show (abs b).turn = b.turn from rfl] at hpr hshape
  have hbs := hb s
  rw [mvSpecial_raw_pawn b m _ hpu]
  cases hp : m.piece with
  | some pr =>
    simp only []
    have h7 : (rankI m.source == Position.seventhRank b.turn) = true := by
      rw [hp] at hpr; exact hpr.symm
    have hκ : κ = .normal := by
      rcases hshape with ⟨hk, _⟩ | ⟨_, h2, _⟩ | ⟨hk, _⟩ | ⟨_, hatt, _, hep, _⟩
      · exact hk
      · exfalso
        rw [beq_iff_eq] at h7
        have h2' : rankI m.source = Position.secondRank b.turn := h2
        rw [h7] at h2'
        revert h2'
        cases b.turn <;> decide
      · exact hk
      · have : (rankI m.source == Position.seventhRank b.turn) = false := ep_source_rank (abs b) m hatt hep
        rw [h7] at this
        cases this
    subst hκ
    have harr : arriving (abs b) m = some (b.turn, pr.toPiece) := by
      unfold arriving; rw [hsrc, hp]
    rw [applyKind_normal_pieceAt, harr]
    unfold moveAt
    by_cases e1 : s = m.dest
    · subst e1
      rw [if_pos rfl] at hbs ⊢
      exact at_xor_put _ _ _ (by simp) (at_xor_take _ _ _ (by simp) hbs)
    · rw [if_neg e1] at hbs ⊢
      exact at_xor_off _ _ _ (by simp [e1]) (at_xor_off _ _ _ (by simp [e1]) hbs)
  | none =>
    simp only []
    rcases hshape with ⟨rfl, hst, hocc⟩ | ⟨rfl, h2, hst⟩ | ⟨rfl, hatt, hocc⟩ | ⟨rfl, hatt, hocc, hep, v, hv, hvic⟩
    · -- push
      have hg := (RaysAux.step_eq_some _ _ _ _).1 hst.symm
      have hdr : dR m.source m.dest = fwd b.turn := by
        unfold dR; have := hg.2; omega
      rw [double_test_false _ _ _ hdr, ep_test_push b h m hsrc (by have := hg.1; omega) hg.2]
      simp only [Bool.false_eq_true, if_false]
      exact normal_at_of b m _ .pawn hsrc hp (fun s => hb s) s
    · -- double step
      have hg := (RaysAux.step_eq_some _ _ _ _).1 hst.symm
      have hdr : dR m.source m.dest = 2 * fwd b.turn := by
        unfold dR; have := hg.2; omega
      rw [double_test_true _ _ _ h2 hdr]
      simp only [if_true]
      rw [applyKind_double_pieceAt, arriving_none _ _ hp, hsrc]
      exact hbs
    · -- capture
      rw [double_test_false _ _ _ (pawnAtt_dR _ _ _ hatt).1, ep_test_capture b h m hocc]
      simp only [Bool.false_eq_true, if_false]
      exact normal_at_of b m _ .pawn hsrc hp (fun s => hb s) s
    · -- en passant
      rw [epSquare_eq_epPos] at hep
      obtain ⟨f, hef, hd⟩ := epPos_cases b _ hep
      have hdr := (pawnAtt_dR _ _ _ hatt).1
      have hdn : (abs b).pieceAt m.dest = none := (occupied_false_iff _ _).1 hocc
      have hvd : v ≠ m.dest := by
        intro e; rw [e, hdn] at hvic; cases hvic
      have hvs : v ≠ m.source := by
        intro e; rw [e, hsrc] at hvic
        injection hvic with h'
        injection h' with h''
        exact Color.flip_ne _ h''.symm
      have hvq : Sq.mk m.dest.file b.turn.epPawnRank = v := by
        obtain ⟨hvf, hvr⟩ := sqAt_eq_some _ _ _ hv
        rw [RaysAux.sq_eq_iff, fileI_mk, rankI_mk, epRanks, file_val, hvf, hvr]
        have hrd : rankI m.dest = ((b.turn.epCaptureRank).val : Int) := by rw [hd, rankI_mk]
        have hdr' : rankI m.dest - rankI m.source = fwd b.turn := hdr
        omega
      rw [double_test_false _ _ _ hdr, (beq_iff_eq.2 hep : (some m.dest == b.epPos) = true)]
      simp only [Bool.false_eq_true, if_false, if_true]
      rw [applyKind_ep_pieceAt _ m v hv hvd hvs, arriving_none _ _ hp, hsrc, hvq]
      unfold moveAtEp
      by_cases e1 : s = m.dest
      · subst e1
        rw [if_pos rfl] at hbs ⊢
        exact at_xor_off _ _ _ (by simp [Ne.symm hvd]) hbs
      · by_cases e2 : s = m.source
        · subst e2
          rw [if_neg e1, if_pos rfl] at hbs ⊢
          exact at_xor_off _ _ _ (by simp [Ne.symm hvs]) hbs
        · rw [if_neg e1, if_neg e2] at hbs ⊢
          by_cases e3 : s = v
          · subst e3
            rw [if_pos rfl]
            rw [hvic] at hbs
            exact at_xor_take _ _ _ (by simp) hbs
          · rw [if_neg e3]
            exact at_xor_off _ _ _ (by simp [e3]) hbs


/-- **the `At` form**, uniform over the kinds of move: every square of the successor holds exactly
what the rules prescribe -/
theorem move_at (b : Board) (h : b.WF = true) (m : Move) (κ : Position.Kind)
    (hps : (abs b).pseudo m = some κ) (s : Sq) :
    At (b.moveUnchecked m).raw s (((abs b).applyKind m κ).pieceAt s) := by
  obtain ⟨pc, hsrc, hdo, hpu, hne, hb⟩ := setup b h m κ hps
  rw [moveUnchecked_eq, mvScan_raw]
  by_cases hpawn : pc = .pawn
  · subst hpawn
    exact pawn_at b h m κ hps hsrc hpu hb s
  by_cases hking : pc = .king
  · subst hking
    cases hstep : kingAtt m.source m.dest
    · -- castling
      have hps' := hps
      rw [pseudo_king_nostep (abs b) m hsrc hstep, show destOk (abs b) (abs b).turn m.dest = true from hdo] at hps'
      simp only [Bool.not_true, Bool.false_eq_true, if_false] at hps'
      cases hp : m.piece with
      | some pr => rw [hp] at hps'; simp at hps'
      | none =>
        rw [hp] at hps'
        simp only [Option.isSome_none, Bool.false_eq_true, if_false] at hps'
        cases hcs : (abs b).castleSide m with
        | none => rw [hcs] at hps'; cases hps'
        | some sd =>
          rw [hcs] at hps'
          simp only [] at hps'
          cases hok : (abs b).castleOk sd
          · rw [hok] at hps'; simp at hps'
          · rw [hok] at hps'
            simp only [if_true, Option.some.injEq] at hps'
            subst hps'
            exact castle_at b h m sd hsrc hpu hp hcs hok hb s
    · -- king step
      have hps' := hps
      rw [pseudo_king_step (abs b) m hsrc hstep, show destOk (abs b) (abs b).turn m.dest = true from hdo] at hps'
      simp only [Bool.not_true, Bool.false_eq_true, if_false] at hps'
      cases hp : m.piece with
      | some pr => rw [hp] at hps'; simp at hps'
      | none =>
        rw [hp] at hps'
        simp only [Option.isSome_none, Bool.false_eq_true, if_false, Option.some.injEq] at hps'
        subst hps'
        rw [mvSpecial_raw_simple b m _ (by rw [hpu]; decide)
          (by
            rw [hpu]
            intro hc
            have := king_step_not_castle _ _ hstep
            rw [beq_eq_false_iff_ne] at this
            exact this hc.2)]
        exact normal_at_of b m _ .king hsrc hp hb s
  · -- knight, bishop, rook, queen
    have hps' := hps
    rw [pseudo_piece (abs b) m pc hsrc ⟨hpawn, hking⟩, show destOk (abs b) (abs b).turn m.dest = true from hdo] at hps'
    simp only [Bool.not_true, Bool.false_eq_true, if_false] at hps'
    cases hp : m.piece with
    | some pr => rw [hp] at hps'; simp at hps'
    | none =>
      rw [hp] at hps'
      simp only [Option.isSome_none, Bool.false_eq_true, if_false] at hps'
      split at hps'
      · cases hps'
        rw [mvSpecial_raw_simple b m _ (by rw [hpu]; exact hpawn) (by rw [hpu]; exact fun hc => hking hc.1)]
        exact normal_at_of b m _ pc hsrc hp hb s
      · cases hps'

end Chess.Legal.MovePlaceAux

namespace Chess.Legal
open Chess Chess.Spec Chess.Rays

/-- **placement**: the successor's mailbox is the one the rules prescribe, for every pseudo-legal
move of every kind -/
theorem move_placement (b : Board) (h : b.WF = true) (m : Move) (κ : Position.Kind)
    (hps : (abs b).pseudo m = some κ) (s : Sq) :
    pieceOn (b.moveUnchecked m).raw s = ((abs b).applyKind m κ).pieceAt s :=
  (MovePlaceAux.move_at b h m κ hps s).pieceOn

/-- … and the partition is preserved -/
theorem move_partition (b : Board) (h : b.WF = true) (m : Move) (κ : Position.Kind)
    (hps : (abs b).pseudo m = some κ) :
    (b.moveUnchecked m).raw.partitionOk = true :=
  (RawBoard.partitionOk_iff_sqOk _).2 (fun s => (MovePlaceAux.move_at b h m κ hps s).sqOk)

end Chess.Legal
